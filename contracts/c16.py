"""C16 - Result objects report what the sampler produced, and survive saving.

Spec vocabulary (independent of the code):
  PN(j)         parameter_names[j]                 (a sequence of d pairwise distinct names)
  OUT(key, i)   outputs[key][i]                    (the caller's dict of 1-D columns of length n, domain DOM)
  W(i)          weights[i]
  CH(c, t, j)   the caller's BOLFI chains array    (C chains x N states x d parameters), warm-up w
  X(c, t)       the chains given to the diagnostics (C x N)
samples_ok(od) - the representation invariant of `self.samples` that Sample.__init__ establishes and every
reporting property assumes: an ordered dict with exactly d entries, entry j has key PN(j) and holds the
column OUT(PN(j), .).  The property clauses are stated over PN / OUT / W / CH / X only.
"""
MANIFEST = {
    'category': 'proof',
    'text': 'Sample.__init__ (loop invariant over parameter_names), samples_array / dim / n_samples / discrepancies, sample_means, '
            'sample_means_and_95CIs, sample_quantiles, BolfiSample.__init__ (slice / reshape / transpose index arithmetic), '
            'gelman_rubin_statistic (= the textbook split R-hat built from definitional finite sums over the input, odd lengths included), '
            'eff_sample_size for a single chain (= the formula its docstring names, between-chain variance 0; loop invariant over the lags; FFT through one assumed contract) '
            'and for 2 and 3 chains of symbolic length and values (= the multi-chain formula: B = n var(chain means), W = mean chain variance, var+ = ((n-1) W + B)/n, '
            'rho_t from the mean over the chains of the lag-t autocovariances; same loop invariant, same single assumed FFT contract applied per row; 4 chains in the thorough tier), '
            'sample_object_to_dict and numpy_to_python_type (which keys are copied / converted, one nesting level) are verified on the real source '
            'for all numbers of parameters, samples, chains and warm-up lengths; the affine / chain-order invariance of R-hat is proved from the '
            'moment lemmas (ghost lemma functions) and, on the real body, by computer algebra at small concrete shapes; the affine / chain-order invariance of ESS is proved '
            'at the level of the specification for every number of chains and every length (ghost lemmas over the definitional sums: every rho_t, the exit lag and ESS are unchanged).',
    'note': 'Trusted: pyvc engine and numpy spec table (sum = finite sum, var = mean squared deviation / (n - ddof), reshape row-major), '
            'weighted_sample_quantile through its C13 contract. Not decided: ESS = textbook formula for five or more chains (2-4 chains also bounded against an independent O(n^2) reference), ESS invariance on the real '
            'body directly (bounded natively; proved over the definitional sums), byte fidelity of pickle / JSON / CSV (bounded only: round trips of result objects with distinguishable entries). '
            'Univariate parameter columns (1-D outputs); floats are reals.',
    'technique': 'deductive: loop-invariant VCs from the real AST (pyvc), ghost lemma functions, z3/cvc5; CAS (sympy) on the real body at concrete shapes; '
                 'bounded: save/load round trips in a temp dir, diagnostics vs independently written formulas',
}

import z3

from pyvc.core import cur, forall_range, exists_range, forall2_range, OutOfSubset, program_exception
from pyvc.engine import Contract, Loop, NS, make_object, inline, SeqIter, SetIter
from pyvc.values import SInt, SReal, SBool, SKey, SNum, Sym, lift, term as T
from pyvc.sarray import SArr, Cell, zi, conc
from pyvc.sdict import SDictArr, Key
from pyvc import npspec, pyspec

from contracts.c13 import stmt_sum_ext, stmt_monotone_cum, use, prefix_def, prefix_inst, LemmaSumExt, LemmaMonotoneCum, _LoopLemma, L2a_perm_sum

R, I, B = z3.RealSort(), z3.IntSort(), z3.BoolSort()
PN = z3.Function('pname', I, Key)
OUT = z3.Function('out', Key, I, R)
DOM = z3.Function('out_dom', Key, B)
W = z3.Function('w', I, R)
DKEY = z3.Const('key_discrepancy', Key)


def ns(**kw):
    """NS whose first positional parameter is called `d`: set fields by attribute"""
    s = NS()
    s.__dict__.update(kw)
    return s


def names_distinct(d, pn=PN):
    return forall2_range(0, d, lambda a, b: z3.Implies(a != b, pn(a) != pn(b)))


def names_in_outputs(d, dom, pn=PN):
    return forall_range(0, d, lambda j: dom(pn(j)), 'j')


# ================================================================ proxies of python / library objects
class KeySeq(Sym):
    """a python list of names of symbolic length: parameter_names"""

    def __init__(self, n, elt):
        self.n, self.elt = n, elt
        self.t = None

    def _vc_len(self):
        return SInt(self.n)

    def _vc_iter(self):
        return SeqIter(self.n, lambda i: SKey(self.elt(i)))

    def __getitem__(self, i):
        if isinstance(i, slice):
            raise OutOfSubset('slice of a symbolic name list')
        i = zi(i)
        c = conc(i)
        r = (i if c >= 0 else self.n + i) if c is not None else z3.If(i >= 0, i, self.n + i)
        cur().oblige('call-pre[list index in range]', z3.And(r >= 0, r < self.n))
        return SKey(self.elt(r))

    def __reversed__(self):
        n, e = self.n, self.elt
        return KeySeq(n, lambda j: e(n - 1 - j))

    def __iter__(self):
        raise OutOfSubset('python iteration over a symbolic name list (needs a loop contract)')


class ArrDict(SDictArr):
    """dict name -> 1-D array (all of one length); copy() is python's shallow dict.copy(): a new dict holding the SAME arrays"""
    copied_from = None

    def copy(self):
        c = ArrDict.__new__(ArrDict)
        c.name, c.length, c.kind, c.names, c.dom = self.name + '.copy', self.length, self.kind, self.names, self.dom
        c.cell = self.cell              # the values are the same array objects
        c.t = None
        c.copied_from = self
        return c


def out_dict():
    return ArrDict('outputs', z3.Int('n'), dom=lambda k: DOM(k), elt=lambda k, i: OUT(k, i))


class OrdDict(Sym):
    """collections.OrderedDict name -> 1-D array: L entries, entry j has key keyat(j); values stored per key
    (ln(key) = length, elt(key, i) = element).  Assignment to a present key keeps its position, a new key is appended."""

    def __init__(self, L=None, keyat=None, elt=None, ln=None):
        self.L = L if L is not None else z3.IntVal(0)
        self.keyat = keyat or (lambda j: z3.Const('key_none', Key))
        self.elt = elt or (lambda k, i: z3.RealVal(0))
        self.ln = ln or (lambda k: z3.IntVal(0))
        self.t = None

    @staticmethod
    def fresh(name):
        vc = cur()
        ka, el, ln = vc.fresh_fn(name + '_keyat', I, Key), vc.fresh_fn(name + '_elt', Key, I, R), vc.fresh_fn(name + '_len', Key, I)
        return OrdDict(vc.fresh_int(name + '_L', size=True), lambda j: ka(j), lambda k, i: el(k, i), lambda k: ln(k))

    def _vc_havoc(self, name='hv'):
        f = OrdDict.fresh(name)
        self.L, self.keyat, self.elt, self.ln = f.L, f.keyat, f.elt, f.ln

    def _vc_len(self):
        return SInt(self.L)

    def has(self, k):
        return exists_range(0, self.L, lambda j: self.keyat(j) == k, 'j')

    def __setitem__(self, key, value):
        if not isinstance(key, SKey) or not isinstance(value, SArr) or value.ndim != 1:
            raise OutOfSubset('OrderedDict item %s -> %s' % (type(key).__name__, type(value).__name__))
        k, v = key.t, value.snapshot()
        L, keyat, elt, ln = self.L, self.keyat, self.elt, self.ln
        if not cur().branch(self.has(k)):
            self.keyat = lambda j: z3.If(j == L, k, keyat(j))
            self.L = L + 1
        self.elt = lambda q, i: z3.If(q == k, v.at(i), elt(q, i))
        self.ln = lambda q: z3.If(q == k, v.shape[0], ln(q))

    def value(self, k):
        elt = self.elt
        return SArr(Cell(lambda i: elt(k, i), (self.ln(k),), 'real'))

    def __getitem__(self, key):
        cur().oblige('call-pre[key in OrderedDict]', self.has(key.t))
        return self.value(key.t)

    def values(self):
        return OrdView(self, lambda j: self.value(self.keyat(j)))

    def items(self):
        return OrdView(self, lambda j: (SKey(self.keyat(j)), self.value(self.keyat(j))))

    def keys(self):
        return OrdView(self, lambda j: SKey(self.keyat(j)))

    def __iter__(self):
        raise OutOfSubset('python iteration over a symbolic OrderedDict')


class OrdView:
    """values() / items() / keys() of an OrdDict, in insertion order"""

    def __init__(self, od, make):
        self.od, self.make = od, make

    def _vc_iter(self):
        return SeqIter(self.od.L, self.make)

    def _vc_tuple(self):
        return SymTuple(self.od.L, self.make)

    _vc_list = _vc_tuple

    def _vc_listcomp(self, elt_fn, cond_fn):
        """[elt(x) for x in view]: the element expression is evaluated ONCE, at a generic position j0 (a fresh constant with
        0 <= j0 < L).  What is proved about that element holds for every position (universal generalisation); obligations
        raised while evaluating it are obligations for every position."""
        if cond_fn is not None:
            raise OutOfSubset('filtered comprehension over an OrderedDict view')
        vc = cur()
        L = self.od.L
        if not vc.branch(L >= 1):
            return GenList(L, None, None)
        j0 = vc.fresh_int('gen_j', size=True)
        vc.assume(0 <= j0, j0 < L)
        vc.ghost['gen_j'] = j0
        return GenList(L, j0, elt_fn(self.make(j0)))

    def __iter__(self):
        raise OutOfSubset('python iteration over a symbolic OrderedDict view')


class SymTuple:
    """tuple / list of symbolic length; element j = make(j)"""

    def __init__(self, n, make):
        self.n, self.make = n, make

    def _vc_len(self):
        return SInt(self.n)

    def __iter__(self):
        raise OutOfSubset('python iteration over a symbolic tuple')


class GenList:
    """list of symbolic length L given by its element at the generic position j0 (see OrdView._vc_listcomp)"""

    def __init__(self, L, j0, elt):
        self.L, self.j0, self.elt = L, j0, elt

    def _vc_len(self):
        return SInt(self.L)

    def __iter__(self):
        raise OutOfSubset('python iteration over a symbolic list')


class GenOrdDict:
    """OrderedDict(list of (key, value)) for a GenList whose keys are the keys of the source dict (hence distinct):
    L entries, entry j0 = (key, val)"""

    def __init__(self, L, j0, key, val):
        self.L, self.j0, self.key, self.val = L, j0, key, val


def ordered_dict_factory(src_of=None):
    def OrderedDict(arg=None):
        if arg is None:
            return OrdDict()
        if isinstance(arg, GenList):
            if arg.j0 is None:
                return GenOrdDict(arg.L, None, None, None)
            e = arg.elt
            if not (isinstance(e, tuple) and len(e) == 2 and isinstance(e[0], SKey)):
                raise OutOfSubset('OrderedDict from a list whose elements are not (key, value) pairs')
            return GenOrdDict(arg.L, arg.j0, e[0], e[1])
        raise OutOfSubset('OrderedDict(%s)' % type(arg).__name__)
    return OrderedDict


def column_stack(tup):
    """numpy.column_stack of L >= 1 one-dimensional arrays of equal length n: an (n, L) array with out[i, j] = tup[j][i]"""
    if not isinstance(tup, SymTuple):
        return npspec.column_stack(tup)
    vc = cur()
    vc.oblige('call-pre[column_stack: at least one array]', tup.n >= 1)
    first = tup.make(z3.IntVal(0))
    if not isinstance(first, SArr) or first.ndim != 1:
        raise OutOfSubset('column_stack of non 1-d columns')
    n = first.shape[0]
    vc.oblige('call-pre[column_stack: equal first dimension]', forall_range(0, tup.n, lambda j: tup.make(j).shape[0] == n, 'j'))
    make = tup.make
    out = SArr(Cell(lambda i, j: make(j).at(i), (n, tup.n), 'real'))
    vc.libcall('np.column_stack', dict(res=out))
    return out


def zip_dict(x=None, **kw):
    """dict(zip(names, rows)): names a KeySeq, rows a 2-D array iterated along its first axis.  Entry for a name = the row at
    its LAST occurrence (python dict construction); domain = the names zipped."""
    if x is None or isinstance(x, dict) or not isinstance(x, pyspec.ZipSeq):
        if isinstance(x, Sym):
            raise OutOfSubset('dict(%s)' % type(x).__name__)
        return dict(x, **kw) if x is not None else dict(**kw)
    names, rows = x.seqs if len(x.seqs) == 2 else (None, None)
    if not isinstance(names, KeySeq) or not isinstance(rows, SArr) or rows.ndim != 2:
        raise OutOfSubset('dict(zip(...)) over other than (names, 2-d array)')
    vc = cur()
    rs = rows.snapshot()
    Lz = z3.If(names.n < rs.shape[0], names.n, rs.shape[0])
    pn = names.elt
    E = vc.fresh_fn('zipdict', Key, I, R)
    vc.assume(forall_range(0, Lz, lambda j: z3.Implies(forall_range(j + 1, Lz, lambda j2: pn(j2) != pn(j), 'jj'),
                                                       forall_range(0, rs.shape[1], lambda i: E(pn(j), i) == rs.at(j, i), 'i')), 'j'))
    d = ArrDict('zipdict', rs.shape[1], dom=lambda k: exists_range(0, Lz, lambda j: pn(j) == k, 'j'), elt=lambda k, i: E(k, i))
    vc.libcall('dict(zip)', dict(res=d, n=Lz, E=E))
    return d


zip_dict._vc_models = dict


def vc_reversed(x):
    f = getattr(x, '__reversed__', None)
    if f is not None:
        return f()
    return reversed(x)


def samples_ok(od, d, n, out=OUT, pn=PN, upto=None):
    """representation invariant of Sample.samples (entries [0, upto) when given, else all d)"""
    m = d if upto is None else upto
    return [('samples has one entry per parameter name', od.L == m),
            ('entry j is keyed by parameter_names[j]', forall_range(0, m, lambda j: od.keyat(j) == pn(j), 'j')),
            ('entry j holds the column outputs[parameter_names[j]]',
             forall_range(0, m, lambda j: z3.And(od.ln(pn(j)) == n, forall_range(0, n, lambda i: od.elt(pn(j), i) == out(pn(j), i), 'i')), 'j'))]


class _Super:
    """what super(Cls, self) returns: the base-class __init__ (inlined real code or the stub of its contract), bound to self"""

    def __init__(self, init):
        self.__init__ = init


def np_module(**extra):
    e = dict(column_stack=column_stack, __name__='numpy')
    e.update(extra)
    return npspec.module(extra=e)


# ================================================================ 1. Sample.__init__ and the plain accessors
class SampleInit(Contract):
    target = 'elfi/methods/results.py::Sample.__init__'
    prop = 'C16'
    fin = 4

    def __init__(self, opt):
        self.opt = opt                  # 'plain' | 'weighted' (discrepancy name and weights given)
        self.label = opt

    def setup(self, vc):
        d, n = z3.Ints('d n')
        vc.fin_bounds.extend([d, n])
        outputs = out_dict()
        names = KeySeq(d, PN)
        s = ns(d=d, n=n, outputs=outputs, names=names, kw=dict(n_sim=SInt(z3.Int('n_sim')), threshold=SReal(z3.Real('threshold'))))
        pir_init = inline(vc, 'elfi/methods/results.py::ParameterInferenceResult.__init__')
        s.self = make_object('SampleStub', methods=dict(_vc_super_of=lambda self_, cls: _Super(lambda **kw: pir_init(self_, **kw))))
        s.weights = SArr(Cell(lambda i: W(i), (n,), 'real')) if self.opt == 'weighted' else None
        s.dname = SKey(DKEY) if self.opt == 'weighted' else None
        kw = dict(s.kw)
        if self.opt == 'weighted':
            kw.update(discrepancy_name=s.dname, weights=s.weights)
        return s, (s.self, 'method', outputs, names), kw

    def env(self, vc):
        return dict(super=lambda cls, obj: obj._vc_super_of(cls), Sample='Sample', OrderedDict=ordered_dict_factory())

    def requires(self, s):
        return [s.d >= 0, s.n >= 0, ('parameter names are pairwise distinct', names_distinct(s.d)),
                ('every parameter name is a key of outputs', names_in_outputs(s.d, DOM))]

    loops = {0: Loop(inv=lambda s, l: samples_ok(l.self.samples, s.d, s.n, upto=l.it.index) +
                     [('outputs / parameter_names attributes are the ones set before the loop',
                       z3.BoolVal(l.self.outputs is l.entry.outputs and l.self.parameter_names is l.entry.names))],
                     modifies=lambda s, l: [l.self.samples],
                     snapshot=lambda s, l: dict(outputs=l.self.outputs, names=l.self.parameter_names))}

    def ensures(self, s, result):
        o = s.self
        if not isinstance(getattr(o, 'samples', None), OrdDict):
            return [('self.samples is an ordered dict', z3.BoolVal(False))]
        out = [('samples: ' + nm, f) for nm, f in samples_ok(o.samples, s.d, s.n)]
        out += [('outputs is a shallow copy of the given dict (a new dict holding the same arrays)',
                 z3.BoolVal(isinstance(o.outputs, ArrDict) and o.outputs is not s.outputs and o.outputs.copied_from is s.outputs)),
                ('parameter_names, method_name, discrepancy_name and weights are stored as given',
                 z3.BoolVal(o.parameter_names is s.names and o.method_name == 'method' and o.discrepancy_name is s.dname and o.weights is s.weights)),
                ('the remaining keyword arguments become meta', z3.BoolVal(isinstance(o.meta, dict) and set(o.meta) == set(s.kw) and all(o.meta[k] is s.kw[k] for k in s.kw)))]
        return out


def sample_self(s, weights=None, dname=None, fresh_samples=True):
    """a Sample object in the state Sample.__init__ leaves it in (samples_ok is added to `requires` by the contracts)"""
    s.outputs = out_dict()
    s.names = KeySeq(s.d, PN)
    s.samples = OrdDict.fresh('samples')
    return make_object('SampleStub', attrs=dict(outputs=s.outputs, parameter_names=s.names, samples=s.samples, weights=weights,
                                                 discrepancy_name=dname, method_name='method', meta={}))


class _Accessor(Contract):
    prop = 'C16'
    fin = 4

    def setup(self, vc):
        d, n = z3.Ints('d n')
        vc.fin_bounds.extend([d, n])
        s = ns(d=d, n=n)
        s.self = sample_self(s, dname=self._dname())
        return s, (s.self,), {}

    def _dname(self):
        return None

    def env(self, vc):
        return dict(np=np_module())

    def requires(self, s):
        return [s.d >= 1, s.n >= 0, names_distinct(s.d), names_in_outputs(s.d, DOM)] + samples_ok(s.samples, s.d, s.n)


class SamplesArray(_Accessor):
    target = 'elfi/methods/results.py::Sample.samples_array'

    def ensures(self, s, result):
        if not (isinstance(result, SArr) and result.ndim == 2):
            return [('a 2-d array', z3.BoolVal(False))]
        return [('one row per sample, one column per parameter', z3.And(result.shape[0] == s.n, result.shape[1] == s.d)),
                ('column j is the output of parameter_names[j]',
                 forall_range(0, s.d, lambda j: forall_range(0, s.n, lambda i: result.at(i, j) == OUT(PN(j), i), 'i'), 'j'))]


class NSamples(_Accessor):
    target = 'elfi/methods/results.py::Sample.n_samples'

    def ensures(self, s, result):
        return [('n_samples = length of the parameter columns', T(result) == s.n)]


class Dim(_Accessor):
    target = 'elfi/methods/results.py::Sample.dim'

    def ensures(self, s, result):
        return [('dim = number of parameter names', T(result) == s.d)]


class Discrepancies(_Accessor):
    target = 'elfi/methods/results.py::Sample.discrepancies'

    def __init__(self, given):
        self.given = given
        self.label = 'given' if given else 'none'

    def _dname(self):
        return SKey(DKEY) if self.given else None

    def requires(self, s):
        return _Accessor.requires(self, s) + [DOM(DKEY)]

    def ensures(self, s, result):
        if not self.given:
            return [('no discrepancy name: None', z3.BoolVal(result is None))]
        if not (isinstance(result, SArr) and result.ndim == 1):
            return [('a 1-d array', z3.BoolVal(False))]
        return [('the discrepancy column of outputs', z3.And(result.shape[0] == s.n, forall_range(0, s.n, lambda i: result.at(i) == OUT(DKEY, i), 'i')))]


# ================================================================ 2. means and intervals
SWf = z3.Function('SW', I, R)                 # SW(k)       = sum_{i<k} w[i]
SXW = z3.Function('SXW', Key, I, R)           # SXW(key, k) = sum_{i<k} outputs[key][i] * w[i]
SX = z3.Function('SX', Key, I, R)             # SX(key, k)  = sum_{i<k} outputs[key][i]


def sum_is(vc, rec, n, summand, P, name):
    """code-level np.sum (rec) = definitional prefix sum P of `summand` over [0, n): pointwise equal summands (obligation),
    then the extensionality lemma instance (LemmaSumExt, proved as a ghost lemma function) and the cut res == P(n)"""
    a = rec['arr']
    vc.cut('%s: summand of the code = summand of the definition' % name,
           z3.And(a.shape[0] == n, forall_range(0, n, lambda i: a.at(i) == summand(i), 'i')))
    vc.assume(use(stmt_sum_ext(n, lambda i: a.at(i), summand, rec['ps'], P)))
    vc.cut('%s: code sum = definitional sum' % name, T(rec['res']) == P(n))


class _Stats(_Accessor):
    comprehensions = 'tuple'
    weighted = False

    def __init__(self, weighted):
        self.weighted = weighted
        self.label = 'weights-given' if weighted else 'weights-none'

    def setup(self, vc):
        d, n = z3.Ints('d n')
        vc.fin_bounds.extend([d, n])
        s = ns(d=d, n=n, alpha=z3.Real('alpha'))
        s.weights = SArr(Cell(lambda i: W(i), (n,), 'real')) if self.weighted else None
        s.self = sample_self(s, weights=s.weights)
        s.wf = (lambda i: W(i)) if self.weighted else (lambda i: z3.RealVal(1))
        vc._s = s
        return s, (s.self,) + self._args(s), {}

    def _args(self, s):
        return ()

    def env(self, vc):
        return dict(np=np_module(), OrderedDict=ordered_dict_factory(), weighted_sample_quantile=quantile_stub(vc._s))

    def requires(self, s):
        r = _Accessor.requires(self, s) + [s.n >= 1]
        if self.weighted:
            r += [prefix_def(SWf, s.n, lambda i: W(i)), SWf(s.n) != 0,
                  forall_range(0, s.d, lambda j: prefix_def(lambda k: SXW(PN(j), k), s.n, lambda i: OUT(PN(j), i) * W(i)), 'j')]
        else:
            r += [forall_range(0, s.d, lambda j: prefix_def(lambda k: SX(PN(j), k), s.n, lambda i: OUT(PN(j), i)), 'j')]
        return r

    def hooks(self, s):
        col = lambda vc: (lambda i: OUT(PN(vc.ghost['gen_j']), i))
        if self.weighted:
            return {('np.sum', 0): lambda vc, rec: sum_is(vc, rec, s.n, lambda i: col(vc)(i) * W(i), lambda k: SXW(PN(vc.ghost['gen_j']), k), 'weighted sum of the column'),
                    ('np.sum', 1): lambda vc, rec: sum_is(vc, rec, s.n, lambda i: W(i), SWf, 'sum of the weights')}
        return {('np.sum', 0): lambda vc, rec: sum_is(vc, rec, s.n, col(vc), lambda k: SX(PN(vc.ghost['gen_j']), k), 'sum of the column')}

    def _mean(self, s, j0):
        return SXW(PN(j0), s.n) / SWf(s.n) if self.weighted else SX(PN(j0), s.n) / z3.ToReal(s.n)

    def _frame(self, s, result):
        if not isinstance(result, GenOrdDict) or result.j0 is None:
            return None, [('an ordered dict built from the entries of self.samples', z3.BoolVal(False))]
        return result.j0, [('one entry per parameter', result.L == s.d),
                           ('entry j is keyed by parameter_names[j] (same order as samples)', result.key.t == PN(result.j0))]


def quantile_stub(s):
    """weighted_sample_quantile at a call site, through its C13 contract (contracts/c13.py::Quantile): call-pre = that contract's
    requires, assumed post = its ensures, both instantiated on the spec column OUT(PN(j0), .) and the spec weights once the
    arguments are shown to BE that column and those weights"""
    def stub(x, alpha=None, weights=None):
        vc = cur()
        j0 = vc.ghost.get('gen_j')
        if j0 is None or not isinstance(x, SArr) or x.ndim != 1:
            raise OutOfSubset('weighted_sample_quantile outside the per-parameter comprehension')
        n = s.n
        col = lambda i: OUT(PN(j0), i)
        xs = x.snapshot()
        vc.oblige('call-pre[quantile of exactly the stored column of this parameter]', z3.And(xs.shape[0] == n, forall_range(0, n, lambda i: xs.at(i) == col(i), 'i')))
        if (weights is None) != (s.weights is None):
            vc.oblige('call-pre[quantile under exactly the stored weights]', z3.BoolVal(False))
        if weights is not None:
            ws = weights.snapshot()
            vc.oblige('call-pre[quantile under exactly the stored weights]', z3.And(ws.shape[0] == n, forall_range(0, n, lambda i: ws.at(i) == W(i), 'i')))
        a = T(alpha)
        if a.sort() == I:
            a = z3.ToReal(a)
        Sn = SWf(n) if s.weights is not None else z3.ToReal(n)    # total weight (sum of n unit weights = n)
        vc.oblige('call-pre[C13 Quantile.requires: n >= 1, 0 <= alpha <= 1, weights >= 0 with positive sum]',
                  z3.And(n >= 1, a >= 0, a <= 1, forall_range(0, n, lambda i: s.wf(i) >= 0, 'i'), Sn > 0))
        q = vc.fresh('q', R)
        WLE, WLT = vc.fresh_fn('WLE', I, R), vc.fresh_fn('WLT', I, R)
        vc.assume(prefix_def(WLE, n, lambda i: z3.If(col(i) <= q, s.wf(i) / Sn, 0)),
                  prefix_def(WLT, n, lambda i: z3.If(col(i) < q, s.wf(i) / Sn, 0)))
        clauses = z3.And(exists_range(0, n, lambda i: q == col(i), 'i'),
                         z3.Implies(a != 0, z3.And(WLE(n) >= a, WLT(n) <= a)),
                         z3.Implies(a == 0, forall_range(0, n, lambda i: q <= col(i), 'i')))
        vc.assume(clauses)
        vc.libcall('wsq', dict(q=q, alpha=a, clauses=clauses, j0=j0))
        return SReal(q)
    return stub


def quantile_clause(vc, val, alpha, what, label=None):
    """`val` is the value returned by a weighted_sample_quantile call made with this alpha on the stored column / weights"""
    recs = [r for r in vc.libcalls.get('wsq', []) if isinstance(val, SReal) and z3.eq(val.t, r['q'])]
    if not recs:
        return (what + ': a result of weighted_sample_quantile on the stored column and weights', z3.BoolVal(False))
    r = recs[0]
    return (what + ': the weighted %s-quantile of the stored column under the stored weights (C13 clauses)' % (label or 'alpha'),
            z3.And(r['alpha'] == alpha, r['clauses']))


class SampleMeans(_Stats):
    target = 'elfi/methods/results.py::Sample.sample_means'

    def ensures(self, s, result):
        j0, out = self._frame(s, result)
        if j0 is None:
            return out
        return out + [('value = weighted average of exactly the stored column under the stored weights', T(result.val) == self._mean(s, j0))]


class SampleCIs(_Stats):
    target = 'elfi/methods/results.py::Sample.sample_means_and_95CIs'

    def requires(self, s):
        return _Stats.requires(self, s) + ([forall_range(0, s.n, lambda i: W(i) >= 0, 'i'), SWf(s.n) > 0] if self.weighted else [])

    def ensures(self, s, result):
        vc = cur()
        j0, out = self._frame(s, result)
        if j0 is None:
            return out
        v = result.val
        if not (isinstance(v, tuple) and len(v) == 3):
            return out + [('value is a (mean, lower, upper) triple', z3.BoolVal(False))]
        return out + [('mean = weighted average of exactly the stored column under the stored weights', T(v[0]) == self._mean(s, j0)),
                      quantile_clause(vc, v[1], z3.RealVal('0.025'), 'lower bound', '0.025'),
                      quantile_clause(vc, v[2], z3.RealVal('0.975'), 'upper bound', '0.975')]


class SampleQuantiles(_Stats):
    target = 'elfi/methods/results.py::Sample.sample_quantiles'

    def _args(self, s):
        return (SReal(s.alpha),)

    def requires(self, s):
        return SampleCIs.requires(self, s) + [s.alpha >= 0, s.alpha <= 1]

    def ensures(self, s, result):
        j0, out = self._frame(s, result)
        if j0 is None:
            return out
        return out + [quantile_clause(cur(), result.val, s.alpha, 'value')]


class SumExt(LemmaSumExt):
    """extensionality: pointwise equal summands give equal sums"""
    prop = 'C16'


# ================================================================ 3. BolfiSample.__init__
CH = z3.Function('chains', I, I, I, R)


def sample_init_stub(self_, method_name=None, outputs=None, parameter_names=None, discrepancy_name=None, weights=None, **kwargs):
    """Sample.__init__ seen from a subclass constructor: its contract SampleInit (call-pre = requires, effect = ensures)"""
    vc = cur()
    if not isinstance(outputs, ArrDict) or not isinstance(parameter_names, KeySeq):
        raise OutOfSubset('Sample.__init__ stub: outputs / parameter_names of an unmodelled type')
    d, pn = parameter_names.n, parameter_names.elt
    vc.oblige('call-pre[Sample.__init__: parameter names are pairwise distinct]', names_distinct(d, pn))
    vc.oblige('call-pre[Sample.__init__: every parameter name is a key of outputs]', names_in_outputs(d, outputs.dom, pn))
    self_.method_name, self_.parameter_names, self_.meta = method_name, parameter_names, kwargs
    self_.outputs = outputs.copy()
    self_.discrepancy_name, self_.weights = discrepancy_name, weights
    od = OrdDict.fresh('samples')
    for nm, f in samples_ok(od, d, outputs.length, out=lambda k, i: outputs.at(k, i), pn=pn):
        vc.assume(f)
    self_.samples = od
    vc.libcall('stub:Sample.__init__', dict(outputs=outputs, names=parameter_names))


class BolfiInit(Contract):
    target = 'elfi/methods/results.py::BolfiSample.__init__'
    prop = 'C16'
    fin = 3
    fin_range = 7

    def setup(self, vc):
        C, M, d, w = z3.Ints('C M d w')          # N = w + M states per chain, M = N - w of them kept
        vc.fin_bounds.extend([C, M, d, w])
        N = w + M
        chains = SArr(Cell(lambda c, t, j: CH(c, t, j), (C, N, d), 'real'))
        s = ns(C=C, M=M, d=d, w=w, N=N, chains=chains, cell_elt=chains.cell.elt, names=KeySeq(d, PN), warmup=SInt(w), acc=SReal(z3.Real('acc_rate')))
        s.self = make_object('BolfiStub', methods=dict(_vc_super_of=lambda self_, cls: _Super(lambda **kw: sample_init_stub(self_, **kw))))
        return s, (s.self, 'BOLFI', chains, s.names, s.warmup), dict(acc_rate=s.acc)

    def env(self, vc):
        return dict(super=lambda cls, obj: obj._vc_super_of(cls), BolfiSample='BolfiSample', dict=zip_dict, reversed=vc_reversed)

    def requires(self, s):
        return [s.C >= 1, s.M >= 0, s.d >= 1, s.w >= 0, ('parameter names are pairwise distinct', names_distinct(s.d))]

    def ensures(self, s, result):
        o = s.self
        od = getattr(o, 'samples', None)
        if not isinstance(od, OrdDict) or not isinstance(getattr(o, 'outputs', None), ArrDict):
            return [('Sample.__init__ was run on a dict of columns', z3.BoolVal(False))]
        C, M, d, w = s.C, s.M, s.d, s.w
        ch = o.meta.get('chains')
        out = [('samples has one entry per parameter, entry j keyed by parameter_names[j], of length n_chains * (N - warmup)',
                z3.And(od.L == d, forall_range(0, d, lambda j: z3.And(od.keyat(j) == PN(j), od.ln(PN(j)) == C * M), 'j'))),
               ('samples[p_j][c*(N-w) + t] = chains[c, w+t, j]: each chain minus exactly the warm-up prefix, chain by chain',
                forall_range(0, d, lambda j: forall_range(0, C, lambda c: forall_range(0, M, lambda t: od.elt(PN(j), c * M + t) == CH(c, w + t, j), 't'), 'c'), 'j')),
               ('outputs[p_j][c*(N-w) + t] = chains[c, w+t, j]',
                forall_range(0, d, lambda j: z3.And(o.outputs.dom(PN(j)), o.outputs.length == C * M, forall_range(0, C, lambda c: forall_range(0, M, lambda t: o.outputs.at(PN(j), c * M + t) == CH(c, w + t, j), 't'), 'c')), 'j')),
               ('meta: n_chains, warmup and the extra keyword arguments',
                z3.And(T(o.meta.get('n_chains')) == C, z3.BoolVal(o.meta.get('warmup') is s.warmup and o.meta.get('acc_rate') is s.acc and o.method_name == 'BOLFI' and o.parameter_names is s.names))),
               ('meta: chains is a copy of the caller\'s array (equal content, different storage)',
                z3.And(z3.BoolVal(isinstance(ch, SArr) and ch.ndim == 3 and ch.cell is not s.chains.cell), _eq3(ch, C, s.N, d))),
               ('the caller\'s chains array is not modified', z3.And(z3.BoolVal(s.chains.cell.elt is s.cell_elt), _eq3(s.chains, C, s.N, d)))]
        return out


class BolfireInit(BolfiInit):
    """BOLFIRESample.__init__ builds its samples with the same slice / reshape / transpose (it keeps the caller's chains array
    itself in meta and stores the warmed-up ARRAY under meta['warmup']; only the index map and the frame are claimed here)"""
    target = 'elfi/methods/results.py::BOLFIRESample.__init__'

    def env(self, vc):
        e = BolfiInit.env(self, vc)
        e['BOLFIRESample'] = 'BOLFIRESample'
        return e

    def ensures(self, s, result):
        out = BolfiInit.ensures(self, s, result)
        return [c for c in out if not c[0].startswith('meta:')] + \
            [('meta: n_chains', T(s.self.meta.get('n_chains')) == s.C)]


def _eq3(a, C, N, d):
    if not (isinstance(a, SArr) and a.ndim == 3):
        return z3.BoolVal(False)
    return z3.And(a.shape[0] == C, a.shape[1] == N, a.shape[2] == d,
                  forall_range(0, C, lambda c: forall_range(0, N, lambda t: forall_range(0, d, lambda j: a.at(c, t, j) == CH(c, t, j), 'j'), 't'), 'c'))


# ================================================================ 4. gelman_rubin_statistic = the textbook split R-hat
class ZInt(z3.ArithRef):
    """an ndarray.shape entry as the analysed code sees it: an integer term with python-int behaviour (`//`, mixed arithmetic
    with floats and proxies); with python ints and z3 terms it stays a z3 integer term, so the array model can use it as a size"""

    def __init__(self, t):
        z3.ArithRef.__init__(self, t.as_ast(), t.ctx)

    @staticmethod
    def _w(t):
        return ZInt(t) if isinstance(t, z3.ArithRef) and t.sort() == I else t

    def _plain(self):
        return z3.ArithRef(self.as_ast(), self.ctx)

    def _op(self, o, name, zop):
        if isinstance(o, (Sym, float)):
            return getattr(SInt(self._plain()), name)(o)
        return ZInt._w(zop(o))

    def __add__(self, o): return self._op(o, '__add__', lambda x: z3.ArithRef.__add__(self, x))
    def __radd__(self, o): return self._op(o, '__radd__', lambda x: z3.ArithRef.__radd__(self, x))
    def __sub__(self, o): return self._op(o, '__sub__', lambda x: z3.ArithRef.__sub__(self, x))
    def __rsub__(self, o): return self._op(o, '__rsub__', lambda x: z3.ArithRef.__rsub__(self, x))
    def __mul__(self, o): return self._op(o, '__mul__', lambda x: z3.ArithRef.__mul__(self, x))
    def __rmul__(self, o): return self._op(o, '__rmul__', lambda x: z3.ArithRef.__rmul__(self, x))

    def __truediv__(self, o):
        if isinstance(o, (Sym, float, int)):
            return SInt(self._plain()).__truediv__(o)          # python true division
        return z3.ArithRef.__truediv__(self, o)                # z3-level (integer) division, engine internal

    def __rtruediv__(self, o):
        if isinstance(o, (Sym, float, int)):
            return SInt(self._plain()).__rtruediv__(o)
        return z3.ArithRef.__rtruediv__(self, o)

    def __floordiv__(self, o):
        return ZInt((SInt(self._plain()) // o).t)

    def __eq__(self, o):
        r = z3.ArithRef.__eq__(self, o)
        return ZBool(r) if isinstance(o, int) and not isinstance(o, bool) else r

    def __ne__(self, o):
        r = z3.ArithRef.__ne__(self, o)
        return ZBool(r) if isinstance(o, int) and not isinstance(o, bool) else r

    __hash__ = z3.ArithRef.__hash__


class ZBool(z3.BoolRef):
    """`shape entry == python int` as the analysed code sees it: a z3 formula whose truth value, when python asks for it
    (`if n_chains == 1`), is decided by the path condition / forks the path (z3's own __bool__ compares the two sides structurally)"""

    def __init__(self, t):
        z3.BoolRef.__init__(self, t.as_ast(), t.ctx)

    def __bool__(self):
        return cur().branch(z3.BoolRef(self.as_ast(), self.ctx))


def tolerant(h):
    """a proof-script hook must never turn a run into an engine error: when the code no longer has the shape the script was
    written for, the ghost help is dropped (later obligations may stay open = undecided) and the path condition is restored"""
    def g(vc, rec):
        mark, full = len(vc.pc), vc.pc
        try:
            h(vc, rec)
        except (OutOfSubset, KeyError, IndexError, AttributeError, TypeError):
            vc.pc = full
            del vc.pc[mark:]
    return g


def fcut(vc, name, goal, hyps):
    """focused ghost assertion: `goal` is proved from the NAMED hypotheses only (each must be, syntactically, a fact on the
    path condition - otherwise the proof script is wrong and the run is undecided), then used.  Fewer hypotheses = a stronger
    statement, so this is sound; it keeps every solver query of a long proof script small."""
    for h in hyps:
        if not any(z3.eq(h, p) for p in vc.pc):
            raise OutOfSubset('proof script: a hypothesis of step %r is not on the path condition' % name)
    full = vc.pc
    vc.pc = list(hyps)
    try:
        vc.oblige('lemma-step[%s]' % name, goal)
    finally:
        vc.pc = full
    vc.assume(goal)
    return goal


class Univ:
    """a universal fact  forall v in [lo, hi). body(v)  together with its body, so that proof scripts can eliminate the
    quantifier WITHOUT the solver: inst(i) checks that the fact is (syntactically) on the path condition and adds its instance"""

    def __init__(self, lo, hi, body, var='i'):
        self.lo, self.hi, self.body, self.var = lo, hi, body, var
        self.q = forall_range(lo, hi, body, var)

    def inst(self, vc, i):
        if not any(z3.eq(self.q, p) for p in vc.pc):
            raise OutOfSubset('proof script: instantiated universal fact is not on the path condition')
        lo = z3.IntVal(self.lo) if isinstance(self.lo, int) else self.lo
        f = z3.Implies(z3.And(lo <= i, i < self.hi), self.body(i))
        vc.assume(f)
        return f


def forall_intro(vc, name, lo, hi, body, steps, var='i'):
    """universal generalisation: steps(r0, rng) must establish body(r0) for a FRESH r0 about which only rng = [lo <= r0, r0 < hi]
    is assumed (ghost steps: fcut / instances); then forall r in [lo, hi). body(r) is used; returned as a Univ.  Everything
    assumed or derived about r0 is dropped again."""
    r0 = vc.fresh_int('gen_' + var)
    mark = len(vc.pc)
    rng = [lo <= r0, r0 < hi]
    vc.assume(*rng)
    steps(r0, rng)
    fcut(vc, '%s (at a generic index)' % name, body(r0), [p for p in vc.pc[mark:]])
    del vc.pc[mark:]
    u = Univ(lo, hi, body, var)
    vc.assume(u.q)
    return u


def row_sums_hook(H, G0, n, m, base_fn, base_step, k, name, P, D_P, summand, k_base, mean_of=None):
    """proof-script hook for the k-th np.sum of the run, a ROW sum over an (m, n) array: code row sums = definitional sums P(r, n)
    for every row (generic row r0, generic column t0; base_step proves base[r0, t0] = base_fn(r0, t0) for the array `base` given to
    mean / var; LemmaSumExt does the sum).  The established universal fact is stored in H[k]."""
    def h(vc, rec):
        a, ps = rec['arr'], rec['ps']
        if a.ndim != 2 or rec.get('axis') != 1 or not rec.get('axioms'):
            raise OutOfSubset('expected a row sum')
        rows, cols = a.shape
        A_k = Univ(0, rows, lambda i: z3.And(ps(i, 0) == 0, forall_range(0, cols, lambda j: ps(i, j + 1) == ps(i, j) + a.at(i, j), 'j')), 'i')
        if not z3.eq(A_k.q, rec['axioms'][0]):
            raise OutOfSubset('proof script: np.sum axiom has an unexpected form')
        base = vc.libcalls['np.sum'][k_base]['arr']
        shp = fcut(vc, '%s: one row per sequence, n columns' % name,
                   z3.And(rows == m, cols == n, base.shape[0] == m, base.shape[1] == n), G0)

        def steps(r0, rng_r):
            def t_split(t0, rng_t):
                base_step(vc, base, r0, t0, G0 + rng_r + rng_t)
            F_row = forall_intro(vc, 'row r of the array given to mean / var is the r-th sequence', 0, n, lambda t: base.at(r0, t) == base_fn(r0, t), t_split)
            if mean_of is None:
                F_sum = F_row                   # the array summed IS the base array and the summand IS the half chain
                if not z3.eq(F_sum.q, forall_range(0, n, lambda t: a.at(r0, t) == summand(r0, t), 'i')):
                    raise OutOfSubset('proof script: the array summed is not the base array')
            else:
                i1 = H[mean_of].inst(vc, r0)

                def t_sum(t0, rng_t):
                    i2 = F_row.inst(vc, t0)
                    fcut(vc, '%s: summand at a generic index' % name, a.at(r0, t0) == summand(r0, t0), G0 + rng_r + rng_t + [i1, i2, shp])
                F_sum = forall_intro(vc, '%s: summand of the code = summand of the definition' % name, 0, n, lambda t: a.at(r0, t) == summand(r0, t), t_sum)
            d1 = fcut(vc, '%s: defining recursion of the definitional sum at this row' % name,
                      prefix_def(lambda k_: P(r0, k_), n, lambda t: summand(r0, t)), [D_P.inst(vc, r0)] + rng_r)
            ir = A_k.inst(vc, r0)
            z0 = fcut(vc, '%s: code sum starts at 0' % name, ps(r0, 0) == 0, [ir, shp] + rng_r)
            inner = Univ(0, cols, lambda j: ps(r0, j + 1) == ps(r0, j) + a.at(r0, j), 'j')
            iq = fcut(vc, '%s: recursion of the code sum at this row (columns)' % name, inner.q, [ir, shp] + rng_r)

            def t_rec(t0, rng_t):
                fcut(vc, '%s: recursion of the code sum at a generic column' % name, ps(r0, t0 + 1) == ps(r0, t0) + a.at(r0, t0), [inner.inst(vc, t0), shp] + rng_t)
            F_rec = forall_intro(vc, '%s: recursion of the code sum over [0, n)' % name, 0, n, lambda t: ps(r0, t + 1) == ps(r0, t) + a.at(r0, t), t_rec)
            d2 = fcut(vc, '%s: recursion of the code sum at this row' % name, prefix_def(lambda k_: ps(r0, k_), n, lambda t: a.at(r0, t)), [z0, F_rec.q])
            L = use(stmt_sum_ext(n, lambda t: a.at(r0, t), lambda t: summand(r0, t), lambda k_: ps(r0, k_), lambda k_: P(r0, k_)))
            vc.assume(L)            # LemmaSumExt
            fcut(vc, '%s: code row sum = definitional sum' % name, ps(r0, n) == P(r0, n), [L, d1, d2, F_sum.q] + G0)
        H[k] = forall_intro(vc, '%s: code row sums = definitional sums, every row' % name, 0, m, lambda r: ps(r, n) == P(r, n), steps, var='r')
    return h



class _NaN:
    """numpy.nan as a RETURN VALUE of the analysed code: not a real number; no arithmetic is modelled on it"""

    def __repr__(self):
        return 'nan'


NAN = _NaN()


def np_var(a, axis=None, ddof=0):
    """numpy.var (assumed contract, sanity-tested): mean of the squared deviations from the mean along the axis with divisor
    n - ddof; built from the same finite sums as np.sum so that hooks can tie them to definitional sums"""
    a = npspec.asarray(a)
    if not (isinstance(ddof, int) and ddof in (0, 1)):
        raise OutOfSubset('np.var ddof %r' % (ddof,))
    if a.ndim == 1 and axis in (None, 0, -1):
        n = SInt(a.shape[0])
        m = npspec.sum(a) / n
        dev = a - m
        out = npspec.sum(dev * dev) / (n - ddof)
    elif a.ndim == 2 and axis in (1, -1):
        n = SInt(a.shape[1])
        ms = (npspec.sum(a, axis=1) / n).snapshot()
        sn = a.snapshot()
        dev2 = SArr(Cell(lambda i, j: (sn.at(i, j) - ms.at(i)) * (sn.at(i, j) - ms.at(i)), sn.shape, 'real'))
        out = npspec.sum(dev2, axis=1) / (n - ddof)
    else:
        raise OutOfSubset('np.var rank %d axis %r' % (a.ndim, axis))
    cur().libcall('np.var', dict(arr=a, res=out, ddof=ddof, axis=axis))
    return out


X = z3.Function('x', I, I, R)                 # the chains: X(c, t), C x N
SM = z3.Function('SM', I, I, R)               # SM(r, k) = sum_{t<k} split(r, t)
SV = z3.Function('SV', I, I, R)               # SV(r, k) = sum_{t<k} (split(r, t) - mean_r)^2
SG = z3.Function('SG', I, R)                  # SG(k)    = sum_{r<k} mean_r
SB = z3.Function('SB', I, R)                  # SB(k)    = sum_{r<k} (mean_r - grand mean)^2
SS = z3.Function('SS', I, R)                  # SS(k)    = sum_{r<k} s2_r


class RhatSpec:
    """the textbook split R-hat (BDA3 11.4, Stan): every chain is cut into its first and second n = N div 2 draws (the last draw
    of an odd-length chain is dropped), giving m = 2C sequences; W = mean of their unbiased variances, B = n/(m-1) * sum of squared
    deviations of their means from the grand mean, R-hat = sqrt(((n-1)/n W + B/n) / W)"""

    def __init__(self, C, N):
        self.C, self.N = C, N
        self.n, self.m = N / 2, 2 * C
        self.nr, self.mr = z3.ToReal(self.n), z3.ToReal(self.m)

    def split(self, r, t):
        return X(r / 2, z3.If(r % 2 == 0, t, self.n + t))

    def mu(self, r):
        return SM(r, self.n) / self.nr

    def s2(self, r):
        return SV(r, self.n) / (self.nr - 1)

    @property
    def G(self):
        return SG(self.m) / self.mr

    @property
    def Wv(self):
        return SS(self.m) / self.mr

    @property
    def Bv(self):
        return self.nr * SB(self.m) / (self.mr - 1)

    def defs(self):
        n, m = self.n, self.m
        dev2 = lambda r, t: (self.split(r, t) - self.mu(r)) * (self.split(r, t) - self.mu(r))
        return dict(D_SM=Univ(0, m, lambda r: prefix_def(lambda k: SM(r, k), n, lambda t: self.split(r, t)), 'r'),
                    D_SV=Univ(0, m, lambda r: prefix_def(lambda k: SV(r, k), n, lambda t: dev2(r, t)), 'r'),
                    D_SG=prefix_def(SG, m, self.mu), D_SB=prefix_def(SB, m, lambda r: (self.mu(r) - self.G) * (self.mu(r) - self.G)),
                    D_SS=prefix_def(SS, m, self.s2))

    def rhat2(self):
        return ((self.nr - 1) / self.nr * self.Wv + self.Bv / self.nr) / self.Wv


class GelmanRubin(Contract):
    target = 'elfi/methods/mcmc.py::gelman_rubin_statistic'
    prop = 'C16'
    fin = 6
    fin_range = 8

    def __init__(self, fin_scale='1', label=None):
        """the proof-mode obligations do not depend on fin_scale; it only selects the concrete input of the finitised run
        (vacuity probe, counter-models): a second instance on a SMALL scale makes scale-dependent early exits reachable there"""
        self.fin_scale, self.label = fin_scale, label

    def setup(self, vc):
        C, N = z3.Ints('C N')
        vc.fin_bounds.extend([C, N])
        chains = SArr(Cell(lambda c, t: X(c, t), (ZInt(C), ZInt(N)), 'real'))
        s = ns(C=C, N=N, chains=chains, spec=RhatSpec(C, N), cell_elt=chains.cell.elt)
        s.R = dict(C=C >= 1, N=N >= 4, W=s.spec.Wv > 0)
        s.R.update(s.spec.defs())
        return s, (chains,), {}

    def env(self, vc):
        return dict(np=np_module(var=np_var, nan=NAN))

    @staticmethod
    def fin_x(c, t):
        """the concrete chains used in finitised mode, times the instance's scale (counter-model search and vacuity probe at a
        fixed, distinguishable input: nonlinear real arithmetic over uninterpreted sums is out of the solver's reach otherwise);
        native replays use the same chains and scale"""
        return (c + 1) * ((t * t) % 7) + c

    def requires(self, s):
        vc = cur()
        if vc.fin is not None:
            a = z3.RealVal(self.fin_scale)     # the fixed chains times this instance's scale (unit scale / small scale 1e-5)
            vc.assume(s.C == 2, s.N == 5, *[X(c, t) == a * self.fin_x(c, t) for c in range(2) for t in range(5)])
        return [s.R['C'], ('at least two draws per half chain (sample variance defined)', s.R['N']), s.R['D_SM'].q, s.R['D_SV'].q, s.R['D_SG'], s.R['D_SB'], s.R['D_SS'],
                ('within-sequence variance is positive (chains not all constant)', s.R['W'])]

    def hooks(self, s):
        """The proof script.  Every step is a focused cut (fcut) over named hypotheses:
        row sums (#0 mean, #1 mean inside var, #2 squared deviations) are tied to SM / SV row by row at a generic row r0,
        the three sums over the 2C sequences (#3, #4, #5) to SG / SB / SS; LemmaSumExt / LemmaMonotoneCum instances do the sums."""
        if cur().fin is not None:
            return {}                   # finitised mode searches counter-models: the ghost proof steps are not needed there
        sp = s.spec
        n, m = sp.n, sp.m
        R_ = s.R
        G0 = [R_['C'], R_['N']]
        sq = lambda v: v * v
        H = s.H = {}

        def split_step(vc, base, r0, t0, hyps):
            f1 = fcut(vc, 'split index arithmetic: (r n + t) div 2n = r div 2, (r n + t) mod 2n = (r mod 2) n + t',
                      z3.And((r0 * n + t0) / (2 * n) == r0 / 2, (r0 * n + t0) % (2 * n) == z3.If(r0 % 2 == 0, t0, n + t0)), hyps)
            fcut(vc, 'element (r, t) of the reshaped array is x[r div 2, (r mod 2) n + t]', base.at(r0, t0) == sp.split(r0, t0), hyps + [f1])

        def row_sums(k, name, P, D_P, summand, k_base, mean_of=None):
            return row_sums_hook(H, G0, n, m, sp.split, split_step, k, name, P, D_P, summand, k_base, mean_of)

        def vec_sum(k, name, P, D_P, summand, insts, after=None):
            def h(vc, rec):
                a, ps = rec['arr'], rec['ps']
                if a.ndim != 1 or not rec.get('axioms'):
                    raise OutOfSubset('expected a 1-d sum')
                ax = list(rec['axioms'])
                shp = fcut(vc, '%s: one entry per half chain' % name, a.shape[0] == m, G0)

                def steps(r0, rng_r):
                    fcut(vc, '%s: summand at a generic index' % name, a.at(r0) == summand(r0), G0 + rng_r + insts(vc, r0) + [shp])
                F_sum = forall_intro(vc, '%s: summand of the code = summand of the definition' % name, 0, m, lambda r: a.at(r) == summand(r), steps)
                inner = Univ(0, a.shape[0], lambda i: ps(i + 1) == ps(i) + a.at(i), 'i')
                if not z3.eq(inner.q, ax[1]):
                    raise OutOfSubset('proof script: np.sum axiom has an unexpected form')

                def t_rec(t0, rng_t):
                    fcut(vc, '%s: recursion of the code sum at a generic index' % name, ps(t0 + 1) == ps(t0) + a.at(t0), [inner.inst(vc, t0), shp] + rng_t)
                F_rec = forall_intro(vc, '%s: recursion of the code sum over [0, m)' % name, 0, m, lambda t: ps(t + 1) == ps(t) + a.at(t), t_rec)
                d2 = fcut(vc, '%s: recursion of the code sum' % name, prefix_def(ps, m, lambda i: a.at(i)), [ax[0], F_rec.q])
                L = use(stmt_sum_ext(m, lambda i: a.at(i), summand, ps, P))
                vc.assume(L)                # LemmaSumExt
                H[k] = fcut(vc, '%s: code sum = definitional sum' % name, T(rec['res']) == P(m), [L, D_P, d2, F_sum.q, shp] + G0)
                if after:
                    after(vc)
            return h
        psn = lambda vc, k: vc.libcalls['np.sum'][k]['ps']

        def nonneg(vc):
            v = lambda r: sq(sp.mu(r) - sp.G)
            F_nn = forall_intro(vc, 'a square is non-negative', 0, m, lambda r: v(r) >= 0, lambda r0, rng: None)
            L = use(stmt_monotone_cum(m, z3.IntVal(0), m, v, SB))
            vc.assume(L)                    # LemmaMonotoneCum
            H['SB>=0'] = fcut(vc, 'a sum of squares is non-negative', SB(m) >= 0, [L, F_nn.q, R_['D_SB']] + G0)
        mean_inst = lambda vc, r0: [H[0].inst(vc, r0)]
        return {k_: tolerant(h_) for k_, h_ in self._script(row_sums, vec_sum, mean_inst, nonneg, sp, sq, R_, H).items()}

    @staticmethod
    def _script(row_sums, vec_sum, mean_inst, nonneg, sp, sq, R_, H):
        return {('np.sum', 0): row_sums(0, 'sequence means', SM, R_['D_SM'], sp.split, 0),
                ('np.sum', 1): row_sums(1, 'sequence means inside var', SM, R_['D_SM'], sp.split, 1),
                ('np.sum', 2): row_sums(2, 'squared deviations', SV, R_['D_SV'], lambda r, t: sq(sp.split(r, t) - sp.mu(r)), 1, mean_of=1),
                ('np.sum', 3): vec_sum(3, 'grand mean', SG, R_['D_SG'], sp.mu, mean_inst),
                ('np.sum', 4): vec_sum(4, 'between-sequence sum of squares', SB, R_['D_SB'], lambda r: sq(sp.mu(r) - sp.G),
                                       lambda vc, r0: mean_inst(vc, r0) + [H[3]], after=nonneg),
                ('np.sum', 5): vec_sum(5, 'within-sequence variance', SS, R_['D_SS'], sp.s2, lambda vc, r0: [H[2].inst(vc, r0)])}

    def witness(self, vc, model, ob):
        return dict(fn='diag', gen='formula', C=2, N=5, scale=float(z3.RealVal(self.fin_scale).as_fraction()))

    def ensures(self, s, result):
        sp = s.spec
        if not isinstance(result, (SNum, int, float)):
            return [('R-hat is the textbook value - a number, never nan - whenever the within-sequence variance is positive (got %r)' % (result,), z3.BoolVal(False))]
        r = T(result)
        return [('R-hat = sqrt(((n-1)/n W + B/n) / W) on the split chains (the non-negative root)', z3.And(r >= 0, r * r == sp.rhat2())),
                ('the chains are not modified', z3.BoolVal(s.chains.cell.elt is s.cell_elt))]


# ---------------------------------------------------------------- eff_sample_size for a SINGLE chain
LS = z3.Function('LS', I, I, R)               # LS(t, k) = sum_{i<k} (x_i - mean)(x_{i+t} - mean): lag-t products of the chain's deviations
RS = z3.Function('RS', I, R)                  # RS(k)    = sum_{1<=t<k} rho_t
NN = z3.Function('all_rho_nonneg', I, B)      # NN(k)    = rho_t >= 0 for every 1 <= t < k


class _Log2:
    """np.log2(n), 1 + it, np.ceil of that, 2 ** that: only the composite 2 ** ceil(1 + log2 n) is given a value - an integer
    even P with 2n <= P < 4n (assumed arithmetic fact, sanity-tested)"""

    def __init__(self, n, plus=0, ceil=False):
        self.n, self.plus, self.ceil = n, plus, ceil

    def __radd__(self, o):
        if o != 1 or self.plus or self.ceil:
            raise OutOfSubset('arithmetic on log2')
        return _Log2(self.n, 1, False)

    __add__ = __radd__

    def __rpow__(self, base):
        if base != 2 or not self.ceil or self.plus != 1:
            raise OutOfSubset('power of a logarithm other than 2 ** ceil(1 + log2 n)')
        vc = cur()
        P = vc.fresh_int('n_padded')
        vc.assume(P >= 2 * self.n, P < 4 * self.n, P % 2 == 0)
        return SInt(P)


class _Spectrum:
    """np.fft.rfft(d, P) of a real (C, n) array and what the code does to it before irfft (abs, ** 2): opaque"""

    def __init__(self, src, P, absd=False, power=False):
        self.src, self.P, self.absd, self.power = src, P, absd, power

    def __pow__(self, p):
        if p != 2 or not self.absd or self.power:
            raise OutOfSubset('spectrum ** %r' % (p,))
        return _Spectrum(self.src, self.P, True, True)


class _FFT:
    """numpy.fft, only the autocovariance idiom irfft(|rfft(d, P)|^2) (assumed contract = Wiener-Khinchin with zero padding,
    sanity-tested): for even P >= 2n - 1 entry [c, t], t < n, is sum_{i < n-t} d[c, i] d[c, i+t]"""

    @staticmethod
    def rfft(a, n=None, axis=-1):
        a = npspec.asarray(a)
        if a.ndim != 2 or a.kind != 'real' or n is None or axis != -1:
            raise OutOfSubset('rfft other than of a real 2-d array with a padded length')
        return _Spectrum(a.snapshot(), T(n))

    @staticmethod
    def irfft(sp, n=None, axis=-1):
        if not isinstance(sp, _Spectrum) or not sp.power or n is not None:
            raise OutOfSubset('irfft of something else than |rfft(d, P)| ** 2')
        vc = cur()
        src, P = sp.src, sp.P
        rows, n_ = src.shape
        C = conc(rows)
        if C is None or C > 4:
            raise OutOfSubset('FFT autocovariance model needs a small concrete number of chains')
        vc.oblige('call-pre[autocovariance by FFT: padded length even (irfft returns that length) and >= 2n - 1 (no wrap-around)]', z3.And(P >= 2 * n_ - 1, P % 2 == 0))
        AC, LK = vc.fresh_fn('autocov', I, I, R), vc.fresh_fn('lagsum', I, I, I, R)
        U = []
        for c in range(C):
            u = Univ(0, n_, lambda t, c=c: z3.And(AC(c, t) == LK(c, t, n_ - t),
                                                  prefix_def(lambda k: LK(c, t, k), n_ - t, lambda k: src.at(c, k) * src.at(c, k + t))), 't')
            vc.assume(u.q)
            U.append(u)
        out = SArr(Cell(lambda c, t: AC(c, t), (rows, P), 'real'))
        vc.libcall('np.fft.autocov', dict(src=src, res=out, AC=AC, LK=LK, U=U, n=n_))
        return out


def _np_abs(x):
    if isinstance(x, _Spectrum):
        if x.absd:
            raise OutOfSubset('abs of abs of a spectrum')
        return _Spectrum(x.src, x.P, True, False)
    return npspec.abs_(x)


def _np_ceil(x):
    if isinstance(x, _Log2):
        return _Log2(x.n, x.plus, True)
    raise OutOfSubset('np.ceil(%s)' % type(x).__name__)


def _np_arange(start, stop=None, step=None):
    if not (isinstance(stop, int) and stop == 0 and isinstance(step, int) and step == -1):
        raise OutOfSubset('np.arange other than arange(n, 0, -1)')
    n = zi(start)
    return SArr(Cell(lambda i: n - i, (n,), 'int'))


class _ColArr(SArr):
    """a 1-d array that also answers a[:, None] (a column view; only read here)"""

    def __getitem__(self, idx):
        if isinstance(idx, tuple) and len(idx) == 2 and idx[0] == slice(None) and idx[1] is None:
            return npspec.expand_dims(self, 1)
        return SArr.__getitem__(self, idx)


def _np_mean(a, axis=None):
    """np.mean; the mean of a ONE-element 1-d array is that element (recorded as libcall 'mean1')"""
    a_ = npspec.asarray(a)
    if a_.ndim == 1 and axis is None and conc(a_.shape[0]) == 1 and a_.kind == 'real':
        sn = a_.snapshot()
        r = SReal(sn.at(0))
        cur().libcall('mean1', dict(arr=sn, res=r))
        return r
    r = npspec.mean(a, axis=axis)
    if isinstance(r, SArr) and r.ndim == 1 and type(r) is SArr:
        r = _ColArr(r.cell, r.view, r.shape, r.perm)
    return r


def _atleast_2d(x):
    r = npspec.atleast_2d(x)
    if all(isinstance(z_, ZInt) for z_ in r.shape):
        return r
    sn = r.snapshot()
    return SArr(Cell(lambda *i: sn.at(*i), tuple(ZInt(z_) for z_ in sn.shape), sn.kind))


class EssOneChain(Contract):
    """eff_sample_size for ONE chain (what BslSample.compute_ess and BOLFI with n_chains = 1 pass), given as a 1-d array or as
    shape (1, N): the formula the docstring names with between-chain variance 0 -
        W = unbiased variance of the chain, var+ = (n-1)/n W,  rho_t = 1 - (W - acov_t) / var+,
        acov_t = sum_{i<n-t} (x_i - mean)(x_{i+t} - mean) / (n - t),  ESS = n / (1 + 2 sum_{t=1}^{T-1} rho_t),
        T = the first lag with rho_T < 0 (or n).
    Every sum is a definitional finite sum over the input; the FFT enters through ONE assumed library contract (_FFT)."""
    target = 'elfi/methods/mcmc.py::eff_sample_size'
    prop = 'C16'
    fin = 6
    fin_range = 8

    def __init__(self, shape):
        self.shape = shape              # '1d' | '2d'
        self.label = '1-chain-' + shape

    def setup(self, vc):
        N = z3.Int('N')
        vc.fin_bounds.append(N)
        if self.shape == '1d':
            chains = SArr(Cell(lambda t: X(0, t), (ZInt(N),), 'real'))
        else:
            chains = SArr(Cell(lambda c, t: X(c, t), (ZInt(z3.IntVal(1)), ZInt(N)), 'real'))
        n, nr = N, z3.ToReal(N)
        sq = lambda v: v * v
        mu = lambda r: SM(r, n) / nr
        Wv = SV(0, n) / (nr - 1)
        vp = ((nr - 1) * Wv + 0) / nr
        dev = lambda i: X(0, i) - mu(0)
        rho = lambda t: 1 - (Wv - LS(t, n - t) / z3.ToReal(n - t)) / vp
        s = ns(N=N, n=n, nr=nr, chains=chains, cell_elt=chains.cell.elt, mu=mu, Wv=Wv, vp=vp, dev=dev, rho=rho, sq=sq)
        one = z3.IntVal(1)
        s.R = dict(N=N >= 2, W=Wv > 0, RS1=RS(1) == 0, NN1=NN(1),
                   D_SM=Univ(0, one, lambda r: prefix_def(lambda k: SM(r, k), n, lambda t: X(r, t)), 'r'),
                   D_SV=Univ(0, one, lambda r: prefix_def(lambda k: SV(r, k), n, lambda t: sq(X(r, t) - mu(r))), 'r'),
                   D_LS=Univ(1, n, lambda t: prefix_def(lambda k: LS(t, k), n - t, lambda k: dev(k) * dev(k + t)), 't'),
                   D_RS=Univ(1, n, lambda t: RS(t + 1) == RS(t) + rho(t), 't'),
                   D_NN=Univ(1, n, lambda t: NN(t + 1) == z3.And(NN(t), rho(t) >= 0), 't'))
        return s, (chains,), {}

    def env(self, vc):
        fft = type('fft', (), {'rfft': _FFT.rfft, 'irfft': _FFT.irfft})
        return dict(np=np_module(var=np_var, nan=NAN, mean=_np_mean, atleast_2d=_atleast_2d, abs=_np_abs, ceil=_np_ceil, arange=_np_arange,
                                 log2=lambda x: _Log2(zi(x)), fft=fft))

    def requires(self, s):
        vc = cur()
        if vc.fin is not None:
            vc.assume(s.N == 5, *[X(0, t) == GelmanRubin.fin_x(0, t) for t in range(5)])
        R_ = s.R
        return [('at least two draws', R_['N']), R_['D_SM'].q, R_['D_SV'].q, R_['D_LS'].q, R_['RS1'], R_['D_RS'].q, R_['NN1'], R_['D_NN'].q,
                ('the chain is not constant', R_['W'])]

    # loop 0: `while lag < n_samples`
    def _inv(self, s, l):
        lag, es = T(l.lag), T(l.estimator_sum)
        return [('1 <= lag <= n', z3.And(1 <= lag, lag <= s.n)), ('estimator_sum = sum of rho_t over 1 <= t < lag', es == RS(lag)),
                ('every rho_t summed so far is non-negative', z3.And(NN(lag), RS(lag) >= 0))]

    @property
    def loops(self):
        def lemmas(s, l0, l1):
            t = T(l0.lag)          # instances at the lag of this iteration of the two defining recursions (requires)
            return [z3.Implies(z3.And(1 <= t, t < s.n), z3.And(RS(t + 1) == RS(t) + s.rho(t), NN(t + 1) == z3.And(NN(t), s.rho(t) >= 0)))]
        return {0: Loop(inv=self._inv, lemmas=lemmas)}

    def hooks(self, s):
        if cur().fin is not None:
            return {}
        n, R_ = s.n, s.R
        one = z3.IntVal(1)
        G0 = [R_['N']]
        H = s.H = {}

        def base_step(vc, base, r0, t0, hyps):
            fcut(vc, 'element (r, t) of the array given to mean / var is x[r, t]', base.at(r0, t0) == X(r0, t0), hyps)
        rs = lambda *a, **k: row_sums_hook(H, G0, n, one, lambda r, t: X(r, t), base_step, *a, **k)

        def after_var(vc, rec):
            rs(2, 'squared deviations', SV, R_['D_SV'], lambda r, t: s.sq(X(r, t) - s.mu(r)), 1, mean_of=1)(vc, rec)
            for k in (0, 1, 2):
                H[k].inst(vc, z3.IntVal(0))            # the three row facts at the single row, as ground facts

        def autocov(vc, rec):
            src = rec['src']
            i0 = H[0].inst(vc, z3.IntVal(0))
            shp = fcut(vc, 'the array transformed is 1 x n', z3.And(src.shape[0] == 1, src.shape[1] == n), G0)

            def steps(i, rng):
                fcut(vc, 'deviation at a generic index', src.at(0, i) == s.dev(i), G0 + rng + [i0, shp])
            s.F_src = forall_intro(vc, 'the FFT is applied to the deviations of the chain from its mean', 0, n, lambda i: src.at(0, i) == s.dev(i), steps)

        def lag_read(vc, rec):
            """the bridge at the lag of this iteration: autocov[0, lag] = LS(lag, n - lag)"""
            ac = vc.libcalls['np.fft.autocov'][0]
            src, AC, LK, U = ac['src'], ac['AC'], ac['LK'], ac['U'][0]
            lag = T(s.rt.loopstate[0]['head'].lag)
            rng = z3.And(1 <= lag, lag < n)
            vc.cut('the lag read is in [1, n)', rng)
            iu = U.inst(vc, lag)
            d2a = fcut(vc, 'FFT autocovariance at this lag = its lag sum (library contract, instance)', AC(0, lag) == LK(0, lag, n - lag), [iu, rng])
            a_ = lambda k: src.at(0, k) * src.at(0, k + lag)
            b_ = lambda k: s.dev(k) * s.dev(k + lag)
            d2b = fcut(vc, 'recursion of the lag sum (library contract, instance)', prefix_def(lambda k: LK(0, lag, k), n - lag, a_), [iu, rng])
            d1 = fcut(vc, 'defining recursion of the definitional lag sum at this lag', prefix_def(lambda k: LS(lag, k), n - lag, b_), [R_['D_LS'].inst(vc, lag), rng])

            def steps(k, rng_k):
                ia, ib = s.F_src.inst(vc, k), s.F_src.inst(vc, k + lag)
                fcut(vc, 'product of deviations at a generic index', a_(k) == b_(k), rng_k + [ia, ib, rng])
            F_pt = forall_intro(vc, 'summand of the lag sum = summand of the definition', 0, n - lag, lambda k: a_(k) == b_(k), steps)
            L = use(stmt_sum_ext(n - lag, a_, b_, lambda k: LK(0, lag, k), lambda k: LS(lag, k)))
            vc.assume(L)            # LemmaSumExt
            e1 = fcut(vc, 'lag sum of the code = definitional lag sum', LK(0, lag, n - lag) == LS(lag, n - lag), [L, d1, d2b, F_pt.q, rng])
            fcut(vc, 'autocov[0, lag] = sum of lagged products of the deviations', AC(0, lag) == LS(lag, n - lag), [e1, d2a])
        return {k_: tolerant(h_) for k_, h_ in {
            ('np.sum', 0): rs(0, 'chain mean', SM, R_['D_SM'], lambda r, t: X(r, t), 0),
            ('np.sum', 1): rs(1, 'chain mean inside var', SM, R_['D_SM'], lambda r, t: X(r, t), 1),
            ('np.sum', 2): after_var, ('np.fft.autocov', 0): autocov, ('mean1', 1): lag_read}.items()}

    def witness(self, vc, model, ob):
        return dict(fn='ess', values=[[float(GelmanRubin.fin_x(0, t)) for t in range(5)]], one_d=self.shape == '1d')

    def ensures(self, s, result):
        if not isinstance(result, SNum) or 0 not in s.rt.loopstate or 'head' not in s.rt.loopstate[0]:
            return [('ESS is a number computed by the lag loop (got %r)' % (result,), z3.BoolVal(False))]
        Tl = T(s.rt.loopstate[0]['head'].lag)
        return [('ESS = n / (1 + 2 sum_{t=1}^{T-1} rho_t), rho_t = 1 - (W - acov_t)/var+, var+ = (n-1)/n W: between-chain variance 0 for a single chain',
                 T(result) == s.nr / (1 + 2 * RS(Tl))),
                ('T is the first lag whose rho_T is negative, or n', z3.And(1 <= Tl, Tl <= s.n, NN(Tl), z3.Or(Tl == s.n, s.rho(Tl) < 0))),
                ('the chains are not modified', z3.BoolVal(s.chains.cell.elt is s.cell_elt))]


# ---------------------------------------------------------------- eff_sample_size for M >= 2 chains (concrete M, symbolic length and values)
LSC = z3.Function('LSc', I, I, I, R)          # LSc(c, t, k) = sum_{i<k} (x_{c,i} - mean_c)(x_{c,i+t} - mean_c): lag-t products of chain c's deviations


class EssMultiChain(EssOneChain):
    """eff_sample_size for M >= 2 chains of symbolic length n and symbolic values (M concrete: one contract instance per M):
    the multi-chain formula of BDA3 11.5 / the Stan manual, written from the property over definitional finite sums -
        mean_c, s2_c = mean and unbiased variance of chain c,  B = n * (unbiased variance of the M chain means),  W = mean_c s2_c,
        var+ = ((n-1) W + B) / n,   acov_c(t) = sum_{i<n-t} (x_{c,i} - mean_c)(x_{c,i+t} - mean_c) / (n - t),
        rho_t = 1 - (W - mean_c acov_c(t)) / var+,   ESS = M n / (1 + 2 sum_{t=1}^{T-1} rho_t),  T = the first lag with rho_T < 0 (or n).
    Same loop invariant as the single-chain contract and the SAME single assumed library contract (_FFT, applied per row)."""

    def __init__(self, M):
        assert isinstance(M, int) and 2 <= M <= 4
        self.M = M
        self.shape = '2d'
        self.label = '%d-chains' % M
        if M >= 4:
            self.tiers = ('thorough',)          # the quick tier runs M = 2 and M = 3

    def setup(self, vc):
        M = self.M
        N = z3.Int('N')
        vc.fin_bounds.append(N)
        chains = SArr(Cell(lambda c, t: X(c, t), (ZInt(z3.IntVal(M)), ZInt(N)), 'real'))
        n, nr, Mr = N, z3.ToReal(N), z3.RealVal(M)
        sq = lambda v: v * v
        tot = lambda f: z3.Sum([f(z3.IntVal(c)) for c in range(M)])          # an explicit finite sum over the M chains
        mu = lambda c: SM(c, n) / nr
        s2 = lambda c: SV(c, n) / (nr - 1)
        G = tot(mu) / Mr
        Bv = nr * (tot(lambda c: sq(mu(c) - G)) / (Mr - 1))
        Wv = tot(s2) / Mr
        vp = ((nr - 1) * Wv + Bv) / nr
        dev = lambda c, i: X(c, i) - mu(c)
        acov = lambda c, t: LSC(c, t, n - t) / z3.ToReal(n - t)
        macov = lambda t: tot(lambda c: acov(c, t)) / Mr
        rho = lambda t: 1 - (Wv - macov(t)) / vp
        s = ns(N=N, n=n, nr=nr, Mr=Mr, M=M, chains=chains, cell_elt=chains.cell.elt, mu=mu, s2=s2, G=G, Bv=Bv, Wv=Wv, vp=vp, dev=dev, acov=acov,
               macov=macov, rho=rho, sq=sq, tot=tot)
        m = z3.IntVal(M)
        s.R = dict(N=N >= 2, VP=vp > 0, RS1=RS(1) == 0, NN1=NN(1),
                   D_SM=Univ(0, m, lambda r: prefix_def(lambda k: SM(r, k), n, lambda t: X(r, t)), 'r'),
                   D_SV=Univ(0, m, lambda r: prefix_def(lambda k: SV(r, k), n, lambda t: sq(X(r, t) - mu(r))), 'r'),
                   D_LS=[Univ(1, n, lambda t, c=c: prefix_def(lambda k: LSC(c, t, k), n - t, lambda k: dev(c, k) * dev(c, k + t)), 't') for c in range(M)],
                   D_RS=Univ(1, n, lambda t: RS(t + 1) == RS(t) + rho(t), 't'),
                   D_NN=Univ(1, n, lambda t: NN(t + 1) == z3.And(NN(t), rho(t) >= 0), 't'))
        return s, (chains,), {}

    def requires(self, s):
        vc = cur()
        if vc.fin is not None:
            vc.assume(s.N == 5, *[X(c, t) == GelmanRubin.fin_x(c, t) for c in range(self.M) for t in range(5)])
        R_ = s.R
        return [('at least two draws', R_['N']), R_['D_SM'].q, R_['D_SV'].q] + [u.q for u in R_['D_LS']] + [R_['RS1'], R_['D_RS'].q, R_['NN1'], R_['D_NN'].q,
                ('the pooled variance is positive (the draws are not all one value)', R_['VP'])]

    def hooks(self, s):
        if cur().fin is not None:
            return {}
        n, R_, M = s.n, s.R, self.M
        m = z3.IntVal(M)
        G0 = [R_['N']]
        H = s.H = {}
        rows = [z3.IntVal(c) for c in range(M)]

        def base_step(vc, base, r0, t0, hyps):
            fcut(vc, 'element (r, t) of the array given to mean / var is x[r, t]', base.at(r0, t0) == X(r0, t0), hyps)
        rs = lambda *a, **k: row_sums_hook(H, G0, n, m, lambda r, t: X(r, t), base_step, *a, **k)

        def after_var(vc, rec):
            rs(2, 'squared deviations', SV, R_['D_SV'], lambda r, t: s.sq(X(r, t) - s.mu(r)), 1, mean_of=1)(vc, rec)
            s.G_ = {k: [H[k].inst(vc, c) for c in rows] for k in (0, 1, 2)}      # the three row facts at each of the M rows, as ground facts

        def chain_sum(k, name, summand, insts):
            """the k-th np.sum of the run, a sum over the M chains (concrete length): the code's sum = the explicit finite sum of the
            definition's summands (unrolled recursion of the code's prefix sum; summands equal entry by entry)"""
            def h(vc, rec):
                a, ps, ax = rec['arr'], rec['ps'], rec.get('axioms')
                if a.ndim != 1 or not ax:
                    raise OutOfSubset('expected a 1-d sum')
                inner = Univ(0, a.shape[0], lambda i: ps(i + 1) == ps(i) + a.at(i), 'i')
                if not z3.eq(inner.q, ax[1]):
                    raise OutOfSubset('proof script: np.sum axiom has an unexpected form')
                shp = fcut(vc, '%s: one entry per chain' % name, a.shape[0] == m, G0)
                steps = [inner.inst(vc, c) for c in rows]
                eqs = [fcut(vc, '%s: summand of chain %d of the code = summand of the definition' % (name, c), a.at(rows[c]) == summand(rows[c]), G0 + insts(vc))
                       for c in range(M)]
                H[k] = fcut(vc, '%s: code sum = the finite sum of the definition' % name, T(rec['res']) == s.tot(summand), [ax[0], shp] + steps + eqs)
            return h
        row_facts = lambda k: (lambda vc: list(s.G_[k]))

        def autocov(vc, rec):
            src = rec['src']
            shp = fcut(vc, 'the array transformed is M x n', z3.And(src.shape[0] == m, src.shape[1] == n), G0)
            s.F_src = []
            for c in range(M):
                def steps(i, rng, c=c):
                    fcut(vc, 'deviation at a generic index (chain %d)' % c, src.at(c, i) == s.dev(rows[c], i), G0 + rng + [s.G_[0][c], shp])
                s.F_src.append(forall_intro(vc, 'the FFT is applied to the deviations of chain %d from its mean' % c, 0, n,
                                            lambda i, c=c: src.at(c, i) == s.dev(rows[c], i), steps))

        def lag_read(vc, rec):
            """the bridge at the lag of this iteration: autocov[c, lag] = LSc(c, lag, n - lag) for every chain c, then the mean over the chains"""
            ac = vc.libcalls['np.fft.autocov'][0]
            src, AC, LK = ac['src'], ac['AC'], ac['LK']
            lag = T(s.rt.loopstate[0]['head'].lag)
            rng = z3.And(1 <= lag, lag < n)
            vc.cut('the lag read is in [1, n)', rng)
            bridge = []
            for c in range(M):
                U, cz = ac['U'][c], rows[c]
                iu = U.inst(vc, lag)
                d2a = fcut(vc, 'FFT autocovariance of chain %d at this lag = its lag sum (library contract, instance)' % c, AC(c, lag) == LK(c, lag, n - lag), [iu, rng])
                a_ = lambda k, c=c: src.at(c, k) * src.at(c, k + lag)
                b_ = lambda k, cz=cz: s.dev(cz, k) * s.dev(cz, k + lag)
                d2b = fcut(vc, 'recursion of the lag sum of chain %d (library contract, instance)' % c, prefix_def(lambda k: LK(c, lag, k), n - lag, a_), [iu, rng])
                d1 = fcut(vc, 'defining recursion of the definitional lag sum of chain %d at this lag' % c,
                          prefix_def(lambda k: LSC(cz, lag, k), n - lag, b_), [R_['D_LS'][c].inst(vc, lag), rng])

                def steps(k, rng_k, c=c, a_=a_, b_=b_):
                    ia, ib = s.F_src[c].inst(vc, k), s.F_src[c].inst(vc, k + lag)
                    fcut(vc, 'product of deviations at a generic index (chain %d)' % c, a_(k) == b_(k), rng_k + [ia, ib, rng])
                F_pt = forall_intro(vc, 'summand of the lag sum = summand of the definition (chain %d)' % c, 0, n - lag, lambda k: a_(k) == b_(k), steps)
                L = use(stmt_sum_ext(n - lag, a_, b_, lambda k: LK(c, lag, k), lambda k: LSC(cz, lag, k)))
                vc.assume(L)            # LemmaSumExt
                e1 = fcut(vc, 'lag sum of the code = definitional lag sum (chain %d)' % c, LK(c, lag, n - lag) == LSC(cz, lag, n - lag), [L, d1, d2b, F_pt.q, rng])
                bridge.append(fcut(vc, 'autocov[%d, lag] = sum of lagged products of the deviations of chain %d' % (c, c), AC(c, lag) == LSC(cz, lag, n - lag), [e1, d2a]))
            chain_sum('acov', 'mean autocovariance over the chains', lambda c: s.acov(c, lag), lambda vc_: bridge + [rng])(vc, rec)
        return {k_: tolerant(h_) for k_, h_ in {
            ('np.sum', 0): rs(0, 'chain means', SM, R_['D_SM'], lambda r, t: X(r, t), 0),
            ('np.sum', 1): rs(1, 'chain means inside var', SM, R_['D_SM'], lambda r, t: X(r, t), 1),
            ('np.sum', 2): after_var,
            ('np.sum', 3): chain_sum(3, 'mean of the chain means', s.mu, row_facts(0)),
            ('np.sum', 4): chain_sum(4, 'between-chain sum of squares', lambda c: s.sq(s.mu(c) - s.G), lambda vc: list(s.G_[0]) + [H[3]]),
            ('np.sum', 5): chain_sum(5, 'within-chain variance', s.s2, row_facts(2)),
            ('np.fft.autocov', 0): autocov, ('np.sum', 6): lag_read}.items()}

    def witness(self, vc, model, ob):
        return dict(fn='ess', values=[[float(GelmanRubin.fin_x(c, t)) for t in range(5)] for c in range(self.M)], one_d=False)

    def ensures(self, s, result):
        if not isinstance(result, SNum) or 0 not in s.rt.loopstate or 'head' not in s.rt.loopstate[0]:
            return [('ESS is a number computed by the lag loop (got %r)' % (result,), z3.BoolVal(False))]
        Tl = T(s.rt.loopstate[0]['head'].lag)
        return [('ESS = M n / (1 + 2 sum_{t=1}^{T-1} rho_t), rho_t = 1 - (W - mean_c acov_c(t))/var+, var+ = ((n-1) W + B)/n, B = n var(chain means), W = mean chain variance',
                 T(result) == s.Mr * s.nr / (1 + 2 * RS(Tl))),
                ('T is the first lag whose rho_T is negative, or n', z3.And(1 <= Tl, Tl <= s.n, NN(Tl), z3.Or(Tl == s.n, s.rho(Tl) < 0))),
                ('the chains are not modified', z3.BoolVal(s.chains.cell.elt is s.cell_elt))]


class MonotoneCum(LemmaMonotoneCum):
    """prefix sums of non-negative terms are monotone"""
    prop = 'C16'


# ---------------------------------------------------------------- invariance of the split R-hat (lemmas over the contract above)
def stmt_affine_sum(n, x, a, b, S, S2):
    """mean(a x + b) = a mean(x) + b, as sums"""
    hyp = z3.And(n >= 0, prefix_def(S, n, x), prefix_def(S2, n, lambda i: a * x(i) + b))
    return hyp, S2(n) == a * S(n) + b * z3.ToReal(n)


def stmt_affine_ss(n, x, a, b, mu, Q, Q2):
    """var(a x + b) = a^2 var(x), as sums of squared deviations (the mean of a x + b being a mu + b)"""
    dev = lambda i: (x(i) - mu) * (x(i) - mu)
    dev2 = lambda i: (a * x(i) + b - (a * mu + b)) * (a * x(i) + b - (a * mu + b))
    hyp = z3.And(n >= 0, prefix_def(Q, n, dev), prefix_def(Q2, n, dev2))
    return hyp, Q2(n) == a * a * Q(n)


class LemmaAffineSum(_LoopLemma):
    """mean(a x + b) = a mean(x) + b: the sum of a x(i) + b over [0, n) is a * (sum of x) + b n"""
    target = '@verif/lemmas/c16_lemmas.py::lemma_affine_sum'
    prop = 'C16'

    def _mk(self, vc):
        n = z3.Int('n')
        a, b = z3.Reals('a b')
        x, S, S2 = [z3.Function(nm, I, R) for nm in ('x', 'S', 'S2')]
        hyp, goal = stmt_affine_sum(n, x, a, b, S, S2)
        vc.fin_bounds.append(n)
        s = ns(n=n, a=a, b=b, x=x, S=S, S2=S2, hyp=hyp, goal=goal, args=(SInt(n),))
        vc._lemma_s = s
        return s

    def _instances(self, s, j):
        return [z3.Implies(z3.And(0 <= j, j < s.n), z3.And(prefix_inst(s.S, s.x, j), prefix_inst(s.S2, lambda i: s.a * s.x(i) + s.b, j)))]

    loops = {0: Loop(inv=lambda s, l: [z3.And(0 <= T(l.j), T(l.j) <= s.n), s.S2(T(l.j)) == s.a * s.S(T(l.j)) + s.b * z3.ToReal(T(l.j))])}


class LemmaAffineSS(_LoopLemma):
    """var(a x + b) = a^2 var(x): the sum of squared deviations of a x + b from a mu + b is a^2 * (that of x from mu)"""
    target = '@verif/lemmas/c16_lemmas.py::lemma_affine_ss'
    prop = 'C16'

    def _mk(self, vc):
        n = z3.Int('n')
        a, b, mu = z3.Reals('a b mu')
        x, Q, Q2 = [z3.Function(nm, I, R) for nm in ('x', 'Q', 'Q2')]
        hyp, goal = stmt_affine_ss(n, x, a, b, mu, Q, Q2)
        vc.fin_bounds.append(n)
        s = ns(n=n, a=a, b=b, mu=mu, x=x, Q=Q, Q2=Q2, hyp=hyp, goal=goal, args=(SInt(n),))
        vc._lemma_s = s
        return s

    def _instances(self, s, j):
        dev = lambda i: (s.x(i) - s.mu) * (s.x(i) - s.mu)
        dev2 = lambda i: (s.a * s.x(i) + s.b - (s.a * s.mu + s.b)) * (s.a * s.x(i) + s.b - (s.a * s.mu + s.b))
        return [z3.Implies(z3.And(0 <= j, j < s.n), z3.And(prefix_inst(s.Q, dev, j), prefix_inst(s.Q2, dev2, j)))]

    loops = {0: Loop(inv=lambda s, l: [z3.And(0 <= T(l.j), T(l.j) <= s.n), s.Q2(T(l.j)) == s.a * s.a * s.Q(T(l.j))])}


def rhat2_of(n, m, SSm, SBm):
    nr, mr = z3.ToReal(n), z3.ToReal(m)
    Wv, Bv = SSm / mr, nr * SBm / (mr - 1)
    return ((nr - 1) / nr * Wv + Bv / nr) / Wv


class _RhatLemma(Contract):
    prop = 'C16'
    fin = 4

    def _fns(self):
        return [z3.Function(nm, I, R) for nm in ('MU', 'S2', 'SG', 'SG2', 'SB', 'SB2', 'SS', 'SS2')]


class LemmaRhatAffine(_RhatLemma):
    """split R-hat of a x + b (a != 0) = split R-hat of x, from the two moment lemmas"""
    target = '@verif/lemmas/c16_lemmas.py::lemma_rhat_affine'

    def setup(self, vc):
        n, m = z3.Ints('n m')
        a, b = z3.Reals('a b')
        vc.fin_bounds.extend([n, m])
        MU, S2, SG, SG2, SB, SB2, SS, SS2 = self._fns()
        G = SG(m) / z3.ToReal(m)
        s = ns(n=n, m=m, a=a, b=b, MU=MU, S2=S2, SG=SG, SG2=SG2, SB=SB, SB2=SB2, SS=SS, SS2=SS2, G=G)
        # half chain r of a x + b has mean a MU(r) + b and variance a^2 S2(r)  (LemmaAffineSum / LemmaAffineSS per half chain)
        s.L1 = stmt_affine_sum(m, MU, a, b, SG, SG2)
        s.L2 = stmt_affine_ss(m, MU, a, b, G, SB, SB2)
        s.L3 = stmt_affine_sum(m, S2, a * a, z3.RealVal(0), SS, SS2)
        vc._s = s
        return s, (), {}

    def env(self, vc):
        s = vc._s
        return dict(use_affine_grand_mean=lambda: vc.assume(use(s.L1)), use_affine_between=lambda: vc.assume(use(s.L2)),
                    use_affine_within=lambda: vc.assume(use(s.L3)))

    def requires(self, s):
        return [s.n >= 2, s.m >= 2, s.a != 0, s.L1[0], s.L2[0], s.L3[0], ('within-sequence variance is positive', s.SS(s.m) > 0)]

    def ensures(self, s, result):
        m = s.m
        return [('grand mean of the transformed chains = a G + b (so SB2 is their between-sequence sum of squares)', s.SG2(m) / z3.ToReal(m) == s.a * s.G + s.b),
                ('B and W scale by a^2', z3.And(s.SB2(m) == s.a * s.a * s.SB(m), s.SS2(m) == s.a * s.a * s.SS(m))),
                ('R-hat(a x + b) = R-hat(x)', rhat2_of(s.n, m, s.SS2(m), s.SB2(m)) == rhat2_of(s.n, m, s.SS(m), s.SB(m)))]


class LemmaRhatPermutation(_RhatLemma):
    """split R-hat of the reordered chains = split R-hat of the chains (permutation invariance of finite sums, L2a)"""
    target = '@verif/lemmas/c16_lemmas.py::lemma_rhat_permutation'

    def setup(self, vc):
        n, C = z3.Ints('n C')
        vc.fin_bounds.extend([n, C])
        m = 2 * C
        MU, S2, SG, SG2, SB, SB2, SS, SS2 = self._fns()
        pi, pinv = z3.Function('chain_perm', I, I), z3.Function('chain_perm_inv', I, I)
        sg = lambda r: 2 * pi(r / 2) + r % 2               # half chain r of the reordered chains is half chain sg(r) of the original ones
        sginv = lambda r: 2 * pinv(r / 2) + r % 2
        G = SG(m) / z3.ToReal(m)
        dev = lambda r: (MU(r) - G) * (MU(r) - G)
        s = ns(n=n, C=C, m=m, pi=pi, pinv=pinv, SG=SG, SG2=SG2, SB=SB, SB2=SB2, SS=SS, SS2=SS2, G=G)
        s.defs = [prefix_def(SG, m, MU), prefix_def(SG2, m, lambda j: MU(sg(j))), prefix_def(SB, m, dev), prefix_def(SB2, m, lambda j: dev(sg(j))),
                  prefix_def(SS, m, S2), prefix_def(SS2, m, lambda j: S2(sg(j)))]
        s.sigma_body = lambda i: z3.And(0 <= sg(i), sg(i) < m, sginv(sg(i)) == i, 0 <= sginv(i), sginv(i) < m, sg(sginv(i)) == i)
        s.sigma = forall_range(0, m, s.sigma_body, 'i')
        s.PI = Univ(0, C, lambda c: z3.And(0 <= pi(c), pi(c) < C, pinv(pi(c)) == c, 0 <= pinv(c), pinv(c) < C, pi(pinv(c)) == c), 'c')
        s.L = [L2a_perm_sum(m, sg, sginv, MU, SG, SG2), L2a_perm_sum(m, sg, sginv, dev, SB, SB2), L2a_perm_sum(m, sg, sginv, S2, SS, SS2)]
        vc._s = s
        return s, (), {}

    def env(self, vc):
        s = vc._s

        def first():
            def steps(i0, rng):
                s.PI.inst(vc, i0 / 2)           # pi / pinv at the chain of half chain i0
            u = forall_intro(vc, 'the induced map on half chains r -> 2 pi(r div 2) + r mod 2 is a permutation of [0, 2C)', 0, s.m, s.sigma_body, steps)
            if not z3.eq(u.q, s.sigma):
                raise OutOfSubset('proof script: sigma fact has an unexpected form')
            vc.assume(s.L[0])
        return dict(use_perm_grand_mean=first, use_perm_between=lambda: vc.assume(s.L[1]), use_perm_within=lambda: vc.assume(s.L[2]))

    def requires(self, s):
        C, pi, pinv = s.C, s.pi, s.pinv
        return [s.n >= 2, C >= 1, ('pi is a permutation of the chains', s.PI.q)] + \
            s.defs + [('within-sequence variance is positive', s.SS(s.m) > 0)]

    def ensures(self, s, result):
        m = s.m
        return [('grand mean unchanged (so SB2 is the between-sequence sum of squares of the reordered chains)', s.SG2(m) / z3.ToReal(m) == s.G),
                ('B and W unchanged', z3.And(s.SB2(m) == s.SB(m), s.SS2(m) == s.SS(m))),
                ('R-hat(reordered chains) = R-hat(chains)', rhat2_of(s.n, m, s.SS2(m), s.SB2(m)) == rhat2_of(s.n, m, s.SS(m), s.SB(m)))]


# ---------------------------------------------------------------- invariance of ESS (lemmas over the definitional sums of EssOneChain / EssMultiChain)
def stmt_affine_lag(n, t, x, a, b, mu, Q, Q2):
    """acov_t(a x + b) = a^2 acov_t(x), as sums of lagged products of deviations (the mean of a x + b being a mu + b)"""
    d = lambda i: x(i) - mu
    d2 = lambda i: a * x(i) + b - (a * mu + b)
    hyp = z3.And(0 <= t, t <= n, prefix_def(Q, n - t, lambda i: d(i) * d(i + t)), prefix_def(Q2, n - t, lambda i: d2(i) * d2(i + t)))
    return hyp, Q2(n - t) == a * a * Q(n - t)


class LemmaAffineLag(_LoopLemma):
    """acov_t(a x + b) = a^2 acov_t(x): the sum of lag-t products of the deviations of a x + b from a mu + b is a^2 * (that of x from mu)"""
    target = '@verif/lemmas/c16_lemmas.py::lemma_affine_lag'
    prop = 'C16'

    def _mk(self, vc):
        n, t = z3.Ints('n t')
        a, b, mu = z3.Reals('a b mu')
        x, Q, Q2 = [z3.Function(nm, I, R) for nm in ('x', 'Q', 'Q2')]
        hyp, goal = stmt_affine_lag(n, t, x, a, b, mu, Q, Q2)
        vc.fin_bounds.extend([n, t])
        s = ns(n=n, t=t, a=a, b=b, mu=mu, x=x, Q=Q, Q2=Q2, hyp=hyp, goal=goal, args=(SInt(n), SInt(t)))
        vc._lemma_s = s
        return s

    def _instances(self, s, j):
        d = lambda i: s.x(i) - s.mu
        d2 = lambda i: s.a * s.x(i) + s.b - (s.a * s.mu + s.b)
        return [z3.Implies(z3.And(0 <= j, j < s.n - s.t), z3.And(prefix_inst(s.Q, lambda i: d(i) * d(i + s.t), j), prefix_inst(s.Q2, lambda i: d2(i) * d2(i + s.t), j)))]

    loops = {0: Loop(inv=lambda s, l: [z3.And(0 <= T(l.j), T(l.j) <= s.n - s.t), s.Q2(T(l.j)) == s.a * s.a * s.Q(T(l.j))])}


def ess_rho_of(n, m, SSm, SBm, SAm):
    """rho_t of the ESS definition from the three sums over the m chains: SSm = sum_c s2_c, SBm = sum_c (mu_c - G)^2, SAm = sum_c acov_c(t);
    between-chain variance 0 for a single chain.  Returns (rho_t, var+)"""
    p = ess_parts(n, m, SSm, SBm, SAm)
    return p['rho'], p['vp']


def ess_parts(n, m, SSm, SBm, SAm):
    nr, mr = z3.ToReal(n), z3.ToReal(m)
    Wv, Bv = SSm / mr, z3.If(m == 1, z3.RealVal(0), nr * (SBm / (mr - 1)))
    vp = ((nr - 1) * Wv + Bv) / nr
    MA = SAm / mr
    return dict(W=Wv, B=Bv, vp=vp, MA=MA, rho=1 - (Wv - MA) / vp)


class _EssLemma(Contract):
    prop = 'C16'
    fin = 4

    def _fns(self):
        return [z3.Function(nm, I, R) for nm in ('MU', 'S2', 'ACt', 'SG', 'SG2', 'SB', 'SB2', 'SS', 'SS2', 'SA', 'SA2')]


class LemmaEssAffine(_EssLemma):
    """rho_t of a x + b (a != 0) = rho_t of x at every lag t (m >= 1 chains of length n), from the three moment lemmas"""
    target = '@verif/lemmas/c16_lemmas.py::lemma_ess_affine'

    def setup(self, vc):
        n, m = z3.Ints('n m')
        a, b = z3.Reals('a b')
        vc.fin_bounds.extend([n, m])
        MU, S2, ACt, SG, SG2, SB, SB2, SS, SS2, SA, SA2 = self._fns()
        G = SG(m) / z3.ToReal(m)
        s = ns(n=n, m=m, a=a, b=b, MU=MU, S2=S2, ACt=ACt, SG=SG, SG2=SG2, SB=SB, SB2=SB2, SS=SS, SS2=SS2, SA=SA, SA2=SA2, G=G)
        # chain c of a x + b has mean a MU(c) + b, variance a^2 S2(c) and lag-t autocovariance a^2 ACt(c), t the generic lag of this
        # lemma  (LemmaAffineSum / LemmaAffineSS / LemmaAffineLag per chain; the divisors n, n - 1, n - t are those of x)
        s.L1 = stmt_affine_sum(m, MU, a, b, SG, SG2)
        s.L2 = stmt_affine_ss(m, MU, a, b, G, SB, SB2)
        s.L3 = stmt_affine_sum(m, S2, a * a, z3.RealVal(0), SS, SS2)
        s.L4 = stmt_affine_sum(m, ACt, a * a, z3.RealVal(0), SA, SA2)
        s.P, s.P2 = ess_parts(n, m, SS(m), SB(m), SA(m)), ess_parts(n, m, SS2(m), SB2(m), SA2(m))
        s.rho, s.vp, s.rho2, s.vp2 = s.P['rho'], s.P['vp'], s.P2['rho'], s.P2['vp']
        s.Rq = dict(n=n >= 2, m=m >= 1, a=a != 0, vp=s.vp > 0)
        vc._s = s
        return s, (), {}

    def env(self, vc):
        s = vc._s

        def last():
            """the arithmetic after the four sums: small focused steps (ground nonlinear real arithmetic over few terms each)"""
            U4 = use(s.L4)
            vc.assume(U4)
            m, a2, P, P2, Rq = s.m, s.a * s.a, s.P, s.P2, s.Rq
            E = fcut(vc, 'the three sums over the chains scale by a^2', z3.And(s.SB2(m) == a2 * s.SB(m), s.SS2(m) == a2 * s.SS(m), s.SA2(m) == a2 * s.SA(m)),
                     [s.U[2], s.U[3], U4, s.L2[0], s.L3[0], s.L4[0]])
            pW = fcut(vc, 'W scales by a^2', P2['W'] == a2 * P['W'], [E, Rq['m']])
            pB = fcut(vc, 'B scales by a^2', P2['B'] == a2 * P['B'], [E, Rq['m'], Rq['n']])
            pA = fcut(vc, 'the mean lag-t autocovariance scales by a^2', P2['MA'] == a2 * P['MA'], [E, Rq['m']])
            pV = fcut(vc, 'var+ scales by a^2', P2['vp'] == a2 * P['vp'], [pW, pB, Rq['n']])
            fcut(vc, 'var+ of the transformed chains is positive', P2['vp'] > 0, [pV, Rq['a'], Rq['vp']])
            fcut(vc, 'rho_t is unchanged', P2['rho'] == P['rho'], [pW, pA, pV, Rq['a'], Rq['vp']])
        s.U = {}

        def step(k, L):
            def g():
                s.U[k] = use(L)
                vc.assume(s.U[k])
                if k == 1:
                    fcut(vc, 'grand mean of the transformed chains', s.SG2(s.m) / z3.ToReal(s.m) == s.a * s.G + s.b, [s.U[1], s.L1[0], s.Rq['m']])
            return g
        return dict(use_affine_grand_mean=step(1, s.L1), use_affine_between=step(2, s.L2), use_affine_within=step(3, s.L3), use_affine_autocov=last)

    def requires(self, s):
        return [s.Rq['n'], s.Rq['m'], s.Rq['a'], s.L1[0], s.L2[0], s.L3[0], s.L4[0], ('the pooled variance is positive', s.Rq['vp'])]

    def ensures(self, s, result):
        m, a2 = s.m, s.a * s.a
        return [('grand mean of the transformed chains = a G + b (so SB2 is their between-chain sum of squares)', s.SG2(m) / z3.ToReal(m) == s.a * s.G + s.b),
                ('B, W and the mean lag-t autocovariance scale by a^2', z3.And(s.SB2(m) == a2 * s.SB(m), s.SS2(m) == a2 * s.SS(m), s.SA2(m) == a2 * s.SA(m))),
                ('var+ scales by a^2 (and stays positive)', z3.And(s.vp2 == a2 * s.vp, s.vp2 > 0)),
                ('rho_t(a x + b) = rho_t(x)', s.rho2 == s.rho)]


class LemmaEssPermutation(_EssLemma):
    """rho_t of the reordered chains = rho_t of the chains at every lag t (permutation invariance of finite sums, L2a)"""
    target = '@verif/lemmas/c16_lemmas.py::lemma_ess_permutation'

    def setup(self, vc):
        n, m = z3.Ints('n m')
        vc.fin_bounds.extend([n, m])
        MU, S2, ACt, SG, SG2, SB, SB2, SS, SS2, SA, SA2 = self._fns()
        pi, pinv = z3.Function('chain_perm', I, I), z3.Function('chain_perm_inv', I, I)
        G = SG(m) / z3.ToReal(m)
        dev = lambda c: (MU(c) - G) * (MU(c) - G)
        s = ns(n=n, m=m, pi=pi, pinv=pinv, SG=SG, SG2=SG2, SB=SB, SB2=SB2, SS=SS, SS2=SS2, SA=SA, SA2=SA2, G=G)
        # chain c of the reordered chains is chain pi(c) of the original ones: its moments are MU(pi(c)), S2(pi(c)), ACt(pi(c))
        s.defs = [prefix_def(SG, m, MU), prefix_def(SG2, m, lambda j: MU(pi(j))), prefix_def(SB, m, dev), prefix_def(SB2, m, lambda j: dev(pi(j))),
                  prefix_def(SS, m, S2), prefix_def(SS2, m, lambda j: S2(pi(j))), prefix_def(SA, m, ACt), prefix_def(SA2, m, lambda j: ACt(pi(j)))]
        s.PI = forall_range(0, m, lambda i: z3.And(0 <= pi(i), pi(i) < m, pinv(pi(i)) == i, 0 <= pinv(i), pinv(i) < m, pi(pinv(i)) == i), 'i')
        s.L = [L2a_perm_sum(m, pi, pinv, MU, SG, SG2), L2a_perm_sum(m, pi, pinv, dev, SB, SB2), L2a_perm_sum(m, pi, pinv, S2, SS, SS2),
               L2a_perm_sum(m, pi, pinv, ACt, SA, SA2)]
        s.rho, s.vp = ess_rho_of(n, m, SS(m), SB(m), SA(m))
        s.rho2, s.vp2 = ess_rho_of(n, m, SS2(m), SB2(m), SA2(m))
        vc._s = s
        return s, (), {}

    def env(self, vc):
        s = vc._s
        def last():
            vc.assume(s.L[3])
            m = s.m
            vc.cut('the three sums over the chains are unchanged', z3.And(s.SB2(m) == s.SB(m), s.SS2(m) == s.SS(m), s.SA2(m) == s.SA(m)))
            fcut(vc, 'rho_t is a function of the three sums', z3.And(s.rho2 == s.rho, s.vp2 == s.vp), [vc.pc[-1]])
        return dict(use_perm_grand_mean=lambda: vc.assume(s.L[0]), use_perm_between=lambda: vc.assume(s.L[1]),
                    use_perm_within=lambda: vc.assume(s.L[2]), use_perm_autocov=last)

    def requires(self, s):
        return [s.n >= 2, s.m >= 1, ('pi is a permutation of the chains', s.PI)] + s.defs

    def ensures(self, s, result):
        m = s.m
        return [('grand mean unchanged (so SB2 is the between-chain sum of squares of the reordered chains)', s.SG2(m) / z3.ToReal(m) == s.G),
                ('B, W and the mean lag-t autocovariance unchanged', z3.And(s.SB2(m) == s.SB(m), s.SS2(m) == s.SS(m), s.SA2(m) == s.SA(m))),
                ('rho_t(reordered chains) = rho_t(chains)', z3.And(s.rho2 == s.rho, s.vp2 == s.vp))]


def ess_exit(n, T_, NNf, rho):
    """T is 'the first lag whose rho is negative, or n' (the exit clause of EssOneChain / EssMultiChain)"""
    return z3.And(1 <= T_, T_ <= n, NNf(T_), z3.Or(T_ == n, rho(T_) < 0))


class LemmaEssSameRho(_LoopLemma):
    """equal rho_t at every lag give the same exit lag and the same ESS"""
    target = '@verif/lemmas/c16_lemmas.py::lemma_ess_same_rho'
    prop = 'C16'

    def _mk(self, vc):
        n, T_, m = z3.Ints('n T m')
        rho, rho2, RSf, RS2f = [z3.Function(nm, I, R) for nm in ('rho', 'rho2', 'RS', 'RS2')]
        NNf, NN2f = z3.Function('NN', I, B), z3.Function('NN2', I, B)
        vc.fin_bounds.extend([n, T_])
        hyp = z3.And(1 <= T_, T_ <= n, m >= 1, forall_range(1, n, lambda t: rho2(t) == rho(t), 't'),
                     RSf(1) == 0, RS2f(1) == 0, NNf(1), NN2f(1),
                     forall_range(1, n, lambda t: z3.And(RSf(t + 1) == RSf(t) + rho(t), RS2f(t + 1) == RS2f(t) + rho2(t)), 't'),
                     forall_range(1, n, lambda t: z3.And(NNf(t + 1) == z3.And(NNf(t), rho(t) >= 0), NN2f(t + 1) == z3.And(NN2f(t), rho2(t) >= 0)), 't'))
        s = ns(n=n, T=T_, m=m, rho=rho, rho2=rho2, RS=RSf, RS2=RS2f, NN=NNf, NN2=NN2f, hyp=hyp, goal=None, args=(SInt(T_),))
        vc._lemma_s = s
        return s

    def _instances(self, s, j):
        return [z3.Implies(z3.And(1 <= j, j < s.n), z3.And(s.rho2(j) == s.rho(j), s.RS(j + 1) == s.RS(j) + s.rho(j), s.RS2(j + 1) == s.RS2(j) + s.rho2(j),
                                                           s.NN(j + 1) == z3.And(s.NN(j), s.rho(j) >= 0), s.NN2(j + 1) == z3.And(s.NN2(j), s.rho2(j) >= 0)))]

    loops = {0: Loop(inv=lambda s, l: [z3.And(1 <= T(l.j), T(l.j) <= s.T), s.RS2(T(l.j)) == s.RS(T(l.j)), s.NN2(T(l.j)) == s.NN(T(l.j))])}

    def ensures(self, s, result):
        Tn, mn = s.T, z3.ToReal(s.m) * z3.ToReal(s.n)
        return [('the running sums and the non-negativity flags agree at T', z3.And(s.RS2(Tn) == s.RS(Tn), s.NN2(Tn) == s.NN(Tn))),
                ('T is the exit lag of the transformed chains iff it is the exit lag of the chains', ess_exit(s.n, Tn, s.NN2, s.rho2) == ess_exit(s.n, Tn, s.NN, s.rho)),
                ('ESS(transformed chains) = ESS(chains):  m n / (1 + 2 RS\'(T)) = m n / (1 + 2 RS(T))', mn / (1 + 2 * s.RS2(Tn)) == mn / (1 + 2 * s.RS(Tn)))]


class LemmaEssExitUnique(_LoopLemma):
    """the exit lag is unique (so ESS is a function of the chains): no two lags T1 < T2 are both 'the first lag with rho < 0, or n'"""
    target = '@verif/lemmas/c16_lemmas.py::lemma_ess_exit_unique'
    prop = 'C16'

    def _mk(self, vc):
        n, T1, T2 = z3.Ints('n T1 T2')
        rho = z3.Function('rho', I, R)
        NNf = z3.Function('NN', I, B)
        vc.fin_bounds.extend([n, T1, T2])
        hyp = z3.And(1 <= T1, T1 < T2, T2 <= n, NNf(1), forall_range(1, n, lambda t: NNf(t + 1) == z3.And(NNf(t), rho(t) >= 0), 't'),
                     ess_exit(n, T1, NNf, rho))
        s = ns(n=n, T1=T1, T2=T2, rho=rho, NN=NNf, hyp=hyp, goal=z3.Not(ess_exit(n, T2, NNf, rho)), args=(SInt(T1), SInt(T2)))
        vc._lemma_s = s
        return s

    def _instances(self, s, j):
        return [z3.Implies(z3.And(1 <= j, j < s.n), s.NN(j + 1) == z3.And(s.NN(j), s.rho(j) >= 0))]

    loops = {0: Loop(inv=lambda s, l: [z3.And(s.T1 + 1 <= T(l.j), T(l.j) <= s.T2), z3.Implies(s.NN(T(l.j)), s.rho(s.T1) >= 0)])}


# ================================================================ 5. sample_object_to_dict / numpy_to_python_type
Obj = z3.DeclareSort('Obj')
KIND = z3.Function('kind', Obj, I)            # 0 python non-dict, 1 python dict, 2 numpy array, 3 numpy integer scalar, 4 numpy floating scalar, 5 other numpy type
TOLIST, TOINT, TOFLOAT = (z3.Function(nm, Obj, Obj) for nm in ('tolist', 'py_int', 'py_float'))
K_OUTPUTS, K_META = z3.Const('key_outputs', Key), z3.Const('key_meta', Key)
KEY_NAMES = {'outputs': K_OUTPUTS, 'meta': K_META}


def fa_key(body):
    q = z3.Const('q@k', Key)
    return z3.ForAll([q], body(q))


def fa_obj_key(body):
    o, r = z3.Const('o@k', Obj), z3.Const('r@k', Key)
    return z3.ForAll([o, r], body(o, r))


def convertible(o):
    return z3.And(KIND(o) >= 2, KIND(o) <= 4)


def py_value(o):
    """numpy arrays -> .tolist(), numpy integers -> int(), numpy floats -> float(); every other value is kept"""
    return z3.If(KIND(o) == 2, TOLIST(o), z3.If(KIND(o) == 3, TOINT(o), z3.If(KIND(o) == 4, TOFLOAT(o), o)))


def conv_axioms():
    o = z3.Const('o@c', Obj)
    return [z3.ForAll([o], z3.And(KIND(TOLIST(o)) == 0, KIND(TOINT(o)) == 0, KIND(TOFLOAT(o)) == 0), patterns=[z3.MultiPattern(TOLIST(o), TOINT(o), TOFLOAT(o))])]


class NameKey(SKey):
    """a dict key (attribute name); comparison with a string literal goes through the table of declared names"""
    __slots__ = ()

    def __eq__(self, o):
        if isinstance(o, str):
            if o == '':
                return False                     # '' is never an attribute name / key
            if o not in KEY_NAMES:
                raise OutOfSubset('string key %r is not declared' % o)
            return SBool(self.t == KEY_NAMES[o])
        return SKey.__eq__(self, o)

    def __ne__(self, o):
        r = self.__eq__(o)
        return (not r) if isinstance(r, bool) else ~r

    __hash__ = SKey.__hash__


class Heap:
    """contents of the python dicts that are VALUES (kind 1 objects): ndom(o, r) - key r present in dict o, nval(o, r) - its value"""

    def __init__(self, ndom, nval):
        self.ndom, self.nval = ndom, nval

    def snapshot(self):
        return Heap(self.ndom, self.nval)

    def _vc_havoc(self, name='hv'):
        vc = cur()
        d, v = vc.fresh_fn(name + '_ndom', Obj, Key, B), vc.fresh_fn(name + '_nval', Obj, Key, Obj)
        self.ndom, self.nval = (lambda o, r: d(o, r)), (lambda o, r: v(o, r))


class ObjVal(Sym):
    """a python object of the uninterpreted sort Obj (a dict value)"""

    def __init__(self, t, hp):
        self.t, self.hp = t, hp

    def _vc_isinstance(self, cls):
        classes = cls if isinstance(cls, tuple) else (cls,)
        if classes != (dict,):
            raise OutOfSubset('isinstance(value, %r)' % (cls,))
        return cur().branch(KIND(self.t) == 1)

    def _need_dict(self, what):
        cur().oblige('call-pre[%s: the object is a dict]' % what, KIND(self.t) == 1)

    def items(self):
        self._need_dict('.items()')
        o, hp = self.t, self.hp
        ndom = hp.ndom
        return _Iterable(lambda: SetIter(Key, lambda r: ndom(o, r), lambda r: (NameKey(r), ObjVal(hp.nval(o, r), hp))))

    def __getitem__(self, key):
        self._need_dict('d[key]')
        cur().oblige('call-pre[key in nested dict]', self.hp.ndom(self.t, key.t))
        return ObjVal(self.hp.nval(self.t, key.t), self.hp)

    def __setitem__(self, key, value):
        if not isinstance(value, ObjVal) or not isinstance(key, SKey):
            raise OutOfSubset('nested dict item of an unmodelled type')
        self._need_dict('d[key] = value')
        o, k, v, hp = self.t, key.t, value.t, self.hp
        ndom, nval = hp.ndom, hp.nval
        hp.ndom = lambda o2, r: z3.Or(ndom(o2, r), z3.And(o2 == o, r == k))
        hp.nval = lambda o2, r: z3.If(z3.And(o2 == o, r == k), v, nval(o2, r))

    def tolist(self):
        cur().oblige('call-pre[.tolist(): a numpy object]', KIND(self.t) >= 2)
        return ObjVal(TOLIST(self.t), self.hp)


class _Iterable:
    def __init__(self, mk):
        self._vc_iter = mk

    def __iter__(self):
        raise OutOfSubset('python iteration over a symbolic dict (needs a loop contract)')


class PyDict(Sym):
    """a python dict with symbolic key set: dom(key), val(key) (an Obj)"""

    def __init__(self, dom, val, hp):
        self.dom, self.val, self.hp = dom, val, hp
        self.t = None

    def snapshot(self):
        return PyDict(self.dom, self.val, self.hp)

    def _vc_havoc(self, name='hv'):
        vc = cur()
        d, v = vc.fresh_fn(name + '_dom', Key, B), vc.fresh_fn(name + '_val', Key, Obj)
        self.dom, self.val = (lambda q: d(q)), (lambda q: v(q))

    def items(self):
        dom = self.dom
        return _Iterable(lambda: SetIter(Key, dom, lambda q: (NameKey(q), ObjVal(self.val(q), self.hp))))

    def __getitem__(self, key):
        cur().oblige('call-pre[key in dict]', self.dom(key.t))
        return ObjVal(self.val(key.t), self.hp)

    def __setitem__(self, key, value):
        if not isinstance(value, ObjVal) or not isinstance(key, SKey):
            raise OutOfSubset('dict item of an unmodelled type')
        k, v = key.t, value.t
        dom, val = self.dom, self.val
        self.dom = lambda q: z3.Or(dom(q), q == k)
        self.val = lambda q: z3.If(q == k, v, val(q))


class _TypeOf:
    """type(value): module and name answer through the kind of the value (assumed, sanity-tested: for numpy types the class name
    contains 'array' exactly for arrays, else 'int' exactly for integer scalars, else 'float' exactly for floating scalars)"""

    def __init__(self, o):
        self.o = o

    @property
    def __module__(self):
        return _ModName(self.o)


class _ModName:
    def __init__(self, o):
        self.o = o

    def __eq__(self, other):
        if other != 'numpy':
            raise OutOfSubset('module name compared with %r' % (other,))
        return cur().branch(KIND(self.o) >= 2)

    __hash__ = object.__hash__


class _TypeStr:
    def __init__(self, o):
        self.o = o

    def __contains__(self, sub):
        k = {'array': 2, 'int': 3, 'float': 4}.get(sub)
        if k is None:
            raise OutOfSubset('substring test %r on a type name' % (sub,))
        return cur().branch(KIND(self.o) == k)


def vc_type(x, *a):
    if isinstance(x, ObjVal) and not a:
        return _TypeOf(x.t)
    if isinstance(x, Sym):
        raise OutOfSubset('type(%s)' % type(x).__name__)
    return type(x, *a)


def vc_str(x=''):
    if isinstance(x, _TypeOf):
        return _TypeStr(x.o)
    if isinstance(x, Sym):
        raise OutOfSubset('str(%s)' % type(x).__name__)
    return str(x)


def vc_int_obj(x=0, *a):
    if isinstance(x, ObjVal):
        cur().oblige('call-pre[int(): a numpy scalar]', z3.Or(KIND(x.t) == 3, KIND(x.t) == 4))
        return ObjVal(TOINT(x.t), x.hp)
    return pyspec.vc_int(x, *a)


def vc_float_obj(x=0.0):
    if isinstance(x, ObjVal):
        cur().oblige('call-pre[float(): a numpy scalar]', z3.Or(KIND(x.t) == 3, KIND(x.t) == 4))
        return ObjVal(TOFLOAT(x.t), x.hp)
    return pyspec.vc_float(x)


DOM0, VAL0 = z3.Function('dom0', Key, B), z3.Function('val0', Key, Obj)
NDOM0, NVAL0 = z3.Function('ndom0', Obj, Key, B), z3.Function('nval0', Obj, Key, Obj)
OWN = z3.Function('owner', Obj, Key)


class NumpyToPython(Contract):
    target = 'elfi/methods/utils.py::numpy_to_python_type'
    prop = 'C16'
    fin = 3

    def setup(self, vc):
        vc.axioms = conv_axioms()
        hp = Heap(lambda o, r: NDOM0(o, r), lambda o, r: NVAL0(o, r))
        data = PyDict(lambda q: DOM0(q), lambda q: VAL0(q), hp)
        return ns(data=data, hp=hp), (data,), {}

    def env(self, vc):
        return {'np': np_module(), 'type': vc_type, 'str': vc_str, 'int': vc_int_obj, 'float': vc_float_obj}

    def requires(self, s):
        return [('distinct keys hold distinct dict objects (no aliasing of nested dicts)',
                 fa_key(lambda q: z3.Implies(z3.And(DOM0(q), KIND(VAL0(q)) == 1), OWN(VAL0(q)) == q)))]

    @staticmethod
    def _touched(V, o):
        return z3.And(KIND(o) == 1, DOM0(OWN(o)), VAL0(OWN(o)) == o, V(OWN(o)))

    def _inv0(self, s, l):
        V = l.it.visited
        d, hp = s.data, s.hp
        return [('the key set does not change', fa_key(lambda q: d.dom(q) == DOM0(q))),
                ('visited values are converted, the others untouched', fa_key(lambda q: z3.Implies(DOM0(q), d.val(q) == z3.If(V(q), py_value(VAL0(q)), VAL0(q))))),
                ('key sets of nested dicts do not change', fa_obj_key(lambda o, r: hp.ndom(o, r) == NDOM0(o, r))),
                ('entries of visited nested dicts are converted, every other nested entry untouched',
                 fa_obj_key(lambda o, r: z3.Implies(NDOM0(o, r), hp.nval(o, r) == z3.If(self._touched(V, o), py_value(NVAL0(o, r)), NVAL0(o, r)))))]

    def _inv1(self, s, l):
        V2 = l.it.visited
        d, hp, e = s.data, s.hp, l.entry
        o = l.val.t
        return [('the top-level dict is not touched by the inner loop', fa_key(lambda q: z3.And(d.dom(q) == e.data.dom(q), d.val(q) == e.data.val(q)))),
                ('key sets of nested dicts do not change', fa_obj_key(lambda o2, r: hp.ndom(o2, r) == e.hp.ndom(o2, r))),
                ('visited entries of THIS nested dict are converted, everything else untouched',
                 fa_obj_key(lambda o2, r: z3.Implies(e.hp.ndom(o2, r), hp.nval(o2, r) == z3.If(z3.And(o2 == o, V2(r)), py_value(e.hp.nval(o2, r)), e.hp.nval(o2, r)))))]

    @property
    def loops(self):
        return {0: Loop(inv=self._inv0, modifies=lambda s, l: [s.data, s.hp]),
                1: Loop(inv=self._inv1, modifies=lambda s, l: [s.data, s.hp], snapshot=lambda s, l: dict(data=s.data.snapshot(), hp=s.hp.snapshot()))}

    def ensures(self, s, result):
        d, hp = s.data, s.hp
        isdictval = lambda o: z3.And(KIND(o) == 1, DOM0(OWN(o)), VAL0(OWN(o)) == o)
        return [('no key is added or removed (top level and nested dicts)', z3.And(fa_key(lambda q: d.dom(q) == DOM0(q)), fa_obj_key(lambda o, r: hp.ndom(o, r) == NDOM0(o, r)))),
                ('every top-level value: numpy array -> list, numpy integer -> int, numpy float -> float, anything else kept',
                 fa_key(lambda q: z3.Implies(DOM0(q), d.val(q) == py_value(VAL0(q))))),
                ('every entry of a dict that is a top-level value: converted the same way (one nesting level)',
                 fa_obj_key(lambda o, r: z3.Implies(z3.And(isdictval(o), NDOM0(o, r)), hp.nval(o, r) == py_value(NVAL0(o, r))))),
                ('entries of any other dict (deeper levels, unrelated dicts) are not touched',
                 fa_obj_key(lambda o, r: z3.Implies(z3.And(z3.Not(isdictval(o)), NDOM0(o, r)), hp.nval(o, r) == NVAL0(o, r)))),
                ('afterwards no top-level value and no entry of a top-level dict value is a numpy array / integer / float',
                 z3.And(fa_key(lambda q: z3.Implies(DOM0(q), z3.Not(convertible(d.val(q))))),
                        fa_obj_key(lambda o, r: z3.Implies(z3.And(isdictval(o), NDOM0(o, r)), z3.Not(convertible(hp.nval(o, r)))))))]


ATTR_DOM, ATTR_VAL = z3.Function('attr_dom', Key, B), z3.Function('attr_val', Key, Obj)
SKIP = z3.Const('key_skip', Key)


class _ElemStub:
    """an object whose __dict__ is the symbolic attribute dict"""
    __slots__ = ('_d',)

    def __init__(self, d):
        object.__setattr__(self, '_d', d)

    @property
    def __dict__(self):
        return self._d


class SampleObjectToDict(Contract):
    target = 'elfi/methods/utils.py::sample_object_to_dict'
    prop = 'C16'
    fin = 3

    def __init__(self, skip):
        self.skip = skip                # 'given' (any key) | 'default' ('')
        self.label = 'skip-' + skip

    def setup(self, vc):
        hp = Heap(lambda o, r: NDOM0(o, r), lambda o, r: NVAL0(o, r))
        data = PyDict(lambda q: DOM0(q), lambda q: VAL0(q), hp)
        attrs = PyDict(lambda q: ATTR_DOM(q), lambda q: ATTR_VAL(q), hp)
        s = ns(data=data, hp=hp, attrs=attrs, hp_fns=(hp.ndom, hp.nval), attr_fns=(attrs.dom, attrs.val))
        kw = dict(skip=NameKey(SKIP)) if self.skip == 'given' else {}
        return s, (data, _ElemStub(attrs)), kw

    def _skipped(self, q):
        return z3.Or(q == K_OUTPUTS, q == SKIP) if self.skip == 'given' else (q == K_OUTPUTS)

    def _copied(self, q):
        return z3.And(ATTR_DOM(q), z3.Not(self._skipped(q)), q != K_META)

    def _meta_on(self):
        return z3.And(ATTR_DOM(K_META), z3.Not(self._skipped(K_META)))

    def _meta(self, q):
        return z3.And(self._meta_on(), NDOM0(ATTR_VAL(K_META), q))

    def requires(self, s):
        return [K_OUTPUTS != K_META, ('meta is a dict', z3.Implies(ATTR_DOM(K_META), KIND(ATTR_VAL(K_META)) == 1)),
                ('no meta key equals the name of a copied attribute (the result would depend on the attribute order)',
                 fa_key(lambda q: z3.Not(z3.And(self._copied(q), self._meta(q)))))]

    def _state(self, d, V):
        """data after the attributes in V have been processed"""
        VM = V(K_META)
        return [('keys: old keys + copied attributes + meta keys',
                 fa_key(lambda q: d.dom(q) == z3.Or(DOM0(q), z3.And(V(q), self._copied(q)), z3.And(VM, self._meta(q))))),
                ('values: attribute value / meta value / old value',
                 fa_key(lambda q: d.val(q) == z3.If(z3.And(V(q), self._copied(q)), ATTR_VAL(q), z3.If(z3.And(VM, self._meta(q)), NVAL0(ATTR_VAL(K_META), q), VAL0(q)))))]

    def _inv0(self, s, l):
        return self._state(s.data, l.it.visited)

    def _inv1(self, s, l):
        V2 = l.it.visited
        d, e = s.data, l.entry.data
        mo = ATTR_VAL(K_META)
        return [('the attribute being processed is meta', z3.And(l.key.t == K_META, self._meta_on())),
                ('keys: state at the start of the meta loop + visited meta keys', fa_key(lambda q: d.dom(q) == z3.Or(e.dom(q), V2(q)))),
                ('values: visited meta keys hold the meta values', fa_key(lambda q: d.val(q) == z3.If(V2(q), NVAL0(mo, q), e.val(q))))]

    @property
    def loops(self):
        return {0: Loop(inv=self._inv0, modifies=lambda s, l: [s.data]),
                1: Loop(inv=self._inv1, modifies=lambda s, l: [s.data], snapshot=lambda s, l: dict(data=s.data.snapshot()))}

    def ensures(self, s, result):
        allv = lambda q: z3.BoolVal(True)
        full = lambda q: ATTR_DOM(q)
        return [(nm, f) for nm, f in self._state(s.data, full)] + \
            [('the object and its meta dict are not modified',
              z3.BoolVal(s.hp.ndom is s.hp_fns[0] and s.hp.nval is s.hp_fns[1] and s.attrs.dom is s.attr_fns[0] and s.attrs.val is s.attr_fns[1]))]


# ================================================================ CAS tier: the real gelman_rubin_statistic at small concrete shapes
from pyvc.cas import CasContract, run_function as cas_run, decide_identity      # noqa: E402

CAS_SHAPES_QUICK = [(1, 4), (1, 5), (2, 4), (2, 5)]
CAS_SHAPES_THOROUGH = CAS_SHAPES_QUICK + [(3, 6), (2, 7)]


def _cas_textbook2(arr):
    """square of the textbook split R-hat, written over sympy terms without numpy reductions"""
    import sympy as sp
    C, N = arr.shape
    n, m = N // 2, 2 * C
    seqs = [[arr[c, h * n + t] for t in range(n)] for c in range(C) for h in range(2)]
    mu = [sum(q) / sp.Integer(n) for q in seqs]
    s2 = [sum((v - mu[r]) ** 2 for v in seqs[r]) / sp.Integer(n - 1) for r in range(m)]
    g = sum(mu) / sp.Integer(m)
    Bv = sp.Integer(n) / (m - 1) * sum((u - g) ** 2 for u in mu)
    Wv = sum(s2) / sp.Integer(m)
    return (sp.Rational(n - 1, n) * Wv + Bv / n) / Wv


def _cas_call(target, *args):
    """the real function over sympy terms; a module-level helper that an edit extracted (unknown global of the target) is
    taken from the SAME file of the tree, instrumented the same way and run in the same CAS globals (at most 4 helpers)"""
    import re
    from pyvc import cas
    loc, code, stats = cas.compile_function(target)
    g = cas.cas_globals()
    exec(code, g)
    for _ in range(5):
        try:
            return g[loc.node.name](*args)
        except NameError as e:
            m = re.match(r"name '(\w+)' is not defined", str(e))
            if not m or m.group(1) in g:
                raise
            try:
                code2 = cas.compile_function('%s::%s' % (target.split('::')[0], m.group(1)))[1]
            except OutOfSubset:
                raise e
            exec(code2, g)
    raise OutOfSubset('CAS run: too many helpers to resolve')


class RhatCas(CasContract):
    """the REAL body run over sympy terms (numpy object arrays): R-hat^2 = textbook formula, invariance under x -> a x + b with
    symbolic a != 0, b, and under every permutation of the chains - for ALL real chain values at the listed shapes"""
    target = 'elfi/methods/mcmc.py::gelman_rubin_statistic'
    prop = 'C16'
    label = 'cas'
    shapes = '(chains, length) in %r (thorough: + %r)' % (CAS_SHAPES_QUICK, CAS_SHAPES_THOROUGH[len(CAS_SHAPES_QUICK):])

    def identities(self, tier, seed):
        import itertools
        import numpy as np
        import sympy as sp
        for (C, N) in (CAS_SHAPES_QUICK if tier == 'quick' else CAS_SHAPES_THOROUGH):
            Xs = np.array([[sp.Symbol('x_%d_%d' % (c, t), real=True) for t in range(N)] for c in range(C)], dtype=object)
            dom = {v: (-2.0, 2.0) for v in Xs.ravel()}
            a, b = sp.Symbol('a', real=True, nonzero=True), sp.Symbol('b', real=True)
            dom2 = dict(dom)
            dom2[a], dom2[b] = (-3.0, -0.5), (-2.0, 2.0)

            def run(arr, what):
                try:
                    r = _cas_call(self.target, arr)
                    return r ** 2, None
                except OutOfSubset:
                    raise
                except Exception as e:
                    return None, dict(name=what, verdict='undecided', reason='%s: %s' % (type(e).__name__, e), case=dict(C=C, N=N))
            r2, err = run(Xs.copy(), 'formula C=%d N=%d' % (C, N))
            if err:
                yield err
                continue
            yield dict(name='R-hat^2 = ((n-1)/n W + B/n)/W, C=%d N=%d' % (C, N), lhs=r2, rhs=_cas_textbook2(Xs), domain=dom, case=dict(C=C, N=N, kind='formula'))
            ra, err = run(a * Xs + b, 'affine C=%d N=%d' % (C, N))
            yield err or dict(name='R-hat(a x + b) = R-hat(x), C=%d N=%d' % (C, N), lhs=ra, rhs=r2, domain=dom2, case=dict(C=C, N=N, kind='affine'))
            for perm in itertools.permutations(range(C)):
                if list(perm) == list(range(C)):
                    continue
                rp, err = run(Xs[list(perm), :].copy(), 'perm C=%d N=%d' % (C, N))
                yield err or dict(name='R-hat(chains %r) = R-hat(chains), C=%d N=%d' % (perm, C, N), lhs=rp, rhs=r2, domain=dom, case=dict(C=C, N=N, kind='perm', perm=list(perm)))


CONTRACTS = [SampleInit('plain'), SampleInit('weighted'), SamplesArray(), NSamples(), Dim(), Discrepancies(True), Discrepancies(False),
             SampleMeans(True), SampleMeans(False), SampleCIs(True), SampleCIs(False), SampleQuantiles(True), SampleQuantiles(False), SumExt(),
             BolfiInit(), BolfireInit(), GelmanRubin(), GelmanRubin('1/100000', 'finitised-at-scale-1e-5'), RhatCas(), EssOneChain('1d'), EssOneChain('2d'), EssMultiChain(2), EssMultiChain(3), EssMultiChain(4), MonotoneCum(), LemmaAffineSum(), LemmaAffineSS(), LemmaRhatAffine(), LemmaRhatPermutation(),
             LemmaAffineLag(), LemmaEssAffine(), LemmaEssPermutation(), LemmaEssSameRho(), LemmaEssExitUnique(),
             NumpyToPython(), SampleObjectToDict('given'), SampleObjectToDict('default')]

TRUSTED_BASE = ['pyvc engine: proxies, loop cutting, numpy spec table (np.sum / np.mean / np.average = mathematical finite sum by prefix recursion; slices, '
                'transpose; reshape row-major, incl. (A, M, d) -> (A*M, d) and (C, 2n) -> (2C, n) by div / mod index arithmetic)',
                'numpy.var(a, ddof, axis) = sum of squared deviations from the mean / (n - ddof) (contracts/c16.py::np_var; sanity-tested, and cross-checked by the CAS run of the real body on numpy itself)',
                'numpy.column_stack of L 1-d arrays of length n: out[i, j] = tup[j][i] (sanity-tested)',
                'python: OrderedDict keeps insertion order, assignment to a present key keeps its position; dict(zip(names, rows)) maps each name to the row of its last occurrence; dict.copy() is shallow',
                'weighted_sample_quantile through its C13 contract (contracts/c13.py::Quantile: element of the sample, weight <= q at least alpha, weight < q at most alpha)',
                'type names of numpy objects: for a numpy type the class name contains "array" exactly for arrays, else "int" exactly for integer scalars, else "float" exactly for '
                'floating scalars; .tolist() / int() / float() of those return plain python objects (sanity-tested on ndarray, int8..64, uint8..64, float16..64, bool_, str_)',
                'numpy.fft autocovariance idiom irfft(|rfft(d, P)|^2)[c, t] = sum_{i<n-t} d[c, i] d[c, i+t] for t < n when P is even and >= 2n - 1 (Wiener-Khinchin with zero padding; '
                'contracts/c16.py::_FFT; sanity-tested against direct summation, one and several rows) and 2 ** ceil(1 + log2 n) even and in [2n, 4n) - used only by EssOneChain / EssMultiChain (per row)',
                'L2a permutation invariance of a finite sum (Mathlib Equiv.sum_comp; lemmas/L2.lean, as in C13) - used only by LemmaRhatPermutation and LemmaEssPermutation',
                'sympy (CAS tier): expand / simplify / cancel reduce a zero rational function to 0; numpy object arrays apply +, -, *, / elementwise',
                'universal generalisation and quantifier instantiation in the R-hat proof script (contracts/c16.py::forall_intro, Univ.inst, fcut): fresh constant, syntactic membership checks']
ASSUMPTIONS = ['A-REAL: floats are reals; A-INT: integers are mathematical; no NaN / inf among samples, weights and chains',
               'parameter columns are 1-D arrays (univariate parameters); multivariate outputs are exercised by no clause of this check',
               'parameter names are pairwise distinct and all keys of outputs (otherwise Sample.__init__ raises KeyError / collapses entries); at least one parameter',
               'Sample attributes (samples, outputs, weights, parameter_names) are not re-assigned between __init__ and the reporting properties (public attributes; frame not enforced by the class)',
               'sample_means: weights sum to non-zero; intervals / quantiles: weights >= 0 with positive sum, n >= 1 (C13 Quantile.requires)',
               'BolfiSample: 0 <= warmup <= N, at least one chain and one parameter, len(parameter_names) = chains.shape[2]',
               'gelman_rubin_statistic: 2-D input with N >= 4 (two draws per half chain) and positive within-sequence variance (else 0/0)',
               'eff_sample_size[1-chain]: N >= 2 and a non-constant chain (W > 0); the loop exit lag T is characterised as the first lag with rho_T < 0 or n',
               'eff_sample_size[2-, 3-, 4-chains]: a 2-D input with exactly that many rows, N >= 2 and positive pooled variance var+ > 0 (the draws are not all one value; else 0/0); same exit-lag clause',
               'ESS invariance lemmas (LemmaEssAffine / LemmaEssPermutation / LemmaEssSameRho): a != 0, var+ > 0; hypotheses of the lemma statements, not assumptions about the code: the per-chain '
               'moments of a x + b are a mu_c + b, a^2 s2_c, a^2 acov_c(t) (each proved as its own lemma: LemmaAffineSum / LemmaAffineSS / LemmaAffineLag) and those of the reordered chains are '
               'the moments of chain pi(c); the step from "rho_t equal at a generic lag" to "at every lag" is universal generalisation done on paper (the lemma is stated for an arbitrary t)',
               'numpy_to_python_type: distinct top-level keys hold distinct nested dict objects; sample_object_to_dict: no meta key equals the name of a copied attribute',
               'A-LOG: logging / print calls have no effect']
NOT_PROVED = ['"the effective-sample-size and split R-hat diagnostics ... equal their textbook formulas" - the ESS half for FIVE OR MORE chains (and for a symbolic number of chains): not under '
              'contract.  For a SINGLE chain (1-d or (1, N); EssOneChain) and for 2 and 3 chains (quick tier; 4 chains in the thorough tier; EssMultiChain, one contract instance per number of '
              'chains, chain length and values symbolic) it is proved relative to ONE assumed library contract: the FFT autocovariance idiom equals the sum of lagged products, row by row '
              '(numpy.fft has no first-order specification of its own); 2-4 chains are also bounded against an independent O(n^2) implementation of the formula; the R-hat half is proved',
              '"the effective-sample-size and split R-hat diagnostics are invariant under affine rescaling of the chains and reordering of chains" - the ESS half ON THE REAL BODY DIRECTLY: bounded only '
              '(x -> -3x+7, scales 1e-6 .. 1e6, every chain order, C <= 4, N in 4..9; the FFT has no computer-algebra run).  At the level of the specification it is proved for every number of '
              'chains and every length (LemmaAffineLag, LemmaEssAffine, LemmaEssPermutation: every rho_t unchanged; LemmaEssSameRho, LemmaEssExitUnique: same exit lag, same ESS, the exit lag is unique), '
              'and EssOneChain / EssMultiChain tie the code to that specification for 1-4 chains only',
              '"Saving a sample to pickle, JSON or CSV and reading it back yields the same samples": byte fidelity of pickle / json float repr / csv text is library behaviour - bounded only '
              '(round trips in a temp dir); proved: which keys sample_object_to_dict copies and which values numpy_to_python_type converts (one nesting level)',
              'Sample.save itself (file handling, json.dumps, csv.writer, the populations letters) is not under contract; its JSON branch is covered through its two helpers and the bounded round trips',
              'R-hat invariance for ALL shapes is proved at the level of the specification (LemmaRhatAffine / LemmaRhatPermutation over the definitional sums, to which GelmanRubin ties the code); '
              'on the real body directly it is proved by CAS at the listed small shapes only']


def sanity():
    import collections
    import json
    import numpy as np
    out = []
    a = np.array([[1.0, 4.0, 2.0, 8.0], [0.5, 0.25, 3.0, 1.0]])
    m = a.mean(axis=1)
    out.append(('var(ddof=1, axis=1) = sum squared deviations / (n-1)', bool(np.allclose(np.var(a, ddof=1, axis=1), ((a - m[:, None]) ** 2).sum(axis=1) / 3))))
    out.append(('var(ddof=1) 1-d', abs(np.var(m, ddof=1) - ((m - m.mean()) ** 2).sum() / 1) < 1e-15))
    out.append(('column_stack: out[i, j] = tup[j][i]', np.column_stack((np.array([1, 2, 3]), np.array([4, 5, 6]))).tolist() == [[1, 4], [2, 5], [3, 6]]))
    b = np.arange(24.0).reshape(2, 4, 3)
    r = b[:, 1:, :].reshape((-1, 3))
    out.append(('reshape (A, M, d) -> (A*M, d) row-major on a slice', all(r[c * 3 + t, j] == b[c, 1 + t, j] for c in range(2) for t in range(3) for j in range(3)) and r.shape == (6, 3)))
    c = np.arange(10.0).reshape(2, 5)[:, :4].reshape((4, 2))
    out.append(('reshape (C, 2n) -> (2C, n): row r = chain r div 2, half r mod 2', c.tolist() == [[0, 1], [2, 3], [5, 6], [7, 8]]))
    od = collections.OrderedDict()
    od['b'] = 1
    od['a'] = 2
    od['b'] = 3
    out.append(('OrderedDict keeps insertion order; re-assignment keeps the position', list(od.items()) == [('b', 3), ('a', 2)]))
    out.append(('dict(zip()) keeps the last occurrence; dict.copy is shallow', dict(zip(['x', 'y', 'x'], [1, 2, 3])) == {'x': 3, 'y': 2} and (lambda d: d.copy()['k'] is d['k'])({'k': [1]})))
    ok = True
    for t in (np.int8, np.int16, np.int32, np.int64, np.uint8, np.uint16, np.uint32, np.uint64):
        v = t(3)
        nm = str(type(v))
        ok = ok and type(v).__module__ == np.__name__ and 'array' not in nm and 'int' in nm and type(int(v)) is int
    for t in (np.float16, np.float32, np.float64):
        v = t(0.5)
        nm = str(type(v))
        ok = ok and type(v).__module__ == np.__name__ and 'array' not in nm and 'int' not in nm and 'float' in nm and type(float(v)) is float
    arr = np.array([[1, 2]])
    nm = str(type(arr))
    ok = ok and type(arr).__module__ == np.__name__ and 'array' in nm and type(arr.tolist()) is list and type(arr.tolist()[0][0]) is int
    for v in (np.bool_(True), np.str_('s')):
        nm = str(type(v))
        ok = ok and not ('array' in nm or 'int' in nm or 'float' in nm)
    for v in (1, 0.5, 's', None, [1], {'a': 1}):
        ok = ok and type(v).__module__ != np.__name__
    out.append(('numpy type-name tests classify arrays / integers / floats; conversions give plain python objects', bool(ok)))
    d = np.array([[0.3, -1.2, 0.7, 2.0, -0.4, 0.1, 1.5]])
    ok = True
    for P in (14, 16, 32):
        ac = np.fft.irfft(np.abs(np.fft.rfft(d, P)) ** 2)[:, :7].real
        ok = ok and all(abs(ac[0, t] - sum(d[0, i] * d[0, i + t] for i in range(7 - t))) < 1e-12 for t in range(7))
    out.append(('irfft(|rfft(d, P)|^2)[t] = sum of lagged products for even P >= 2n - 1', bool(ok)))
    d3 = np.array([[0.3, -1.2, 0.7, 2.0, -0.4], [1.0, 0.5, -2.5, 0.25, 0.75], [-0.1, 0.2, 0.4, -0.6, 0.1]])
    ok = True
    for P in (10, 16):
        ac = np.fft.irfft(np.abs(np.fft.rfft(d3, P)) ** 2)[:, :5].real
        ok = ok and ac.shape == (3, 5) and all(abs(ac[c, t] - sum(d3[c, i] * d3[c, i + t] for i in range(5 - t))) < 1e-12 for c in range(3) for t in range(5))
    out.append(('the FFT autocovariance idiom works row by row on a (chains, n) array', bool(ok)))
    out.append(('2 ** ceil(1 + log2 n) is even and lies in [2n, 4n)', all(2 * n <= int(2 ** np.ceil(1 + np.log2(n))) < 4 * n and int(2 ** np.ceil(1 + np.log2(n))) % 2 == 0 for n in range(1, 3000))))
    out.append(('json round trip of python floats is exact', json.loads(json.dumps([0.1, 1 / 3, 2.5e-300])) == [0.1, 1 / 3, 2.5e-300]))
    return out


def bounded(tier, seed):
    from bounded import c16 as b
    return b.run(tier, seed)


_FAMILY = [('eff_sample_size', 'ess'), ('Sample.', 'sample'), ('BolfiSample', 'bolfi'), ('BOLFIRESample', 'bolfi'), ('gelman_rubin', 'diag'), ('lemma_rhat', None), ('lemma_', None),
           ('numpy_to_python_type', 'save'), ('sample_object_to_dict', 'save')]
_replay_cache = {}


def replay_refuted(cname, rf):
    """a refuted obligation: look for a failing native input of the same function family with the bounded harness
    (CAS refutations carry the counter-point, finitised R-hat refutations the fixed finitised input)"""
    from bounded import c16 as b
    fam = next((v for k, v in _FAMILY if cname.startswith(k)), None)
    if fam is None:
        return dict(found=False, note='lemma obligation: no native input')
    wit = rf.get('witness') or {}
    if fam == 'diag':
        cands = []
        if wit.get('point') and wit.get('case'):
            C, N = wit['case']['C'], wit['case']['N']
            cands.append(dict(fn='diag', C=C, N=N, values=[[float(wit['point'].get('x_%d_%d' % (c, t), 0.0)) for t in range(N)] for c in range(C)]))
        if wit.get('gen') == 'formula':
            cands.append(dict(wit))
        cands.append(dict(fn='diag', gen='formula', C=2, N=5))
        b._preload()
        for inp in cands:
            try:
                f = b.check_diag(inp)
            except Exception as e:
                f = '%s: %s' % (type(e).__name__, e)
            if f:
                return dict(found=True, input=inp, observed=f)
    if fam == 'ess' and wit.get('fn') == 'ess' and wit.get('values'):
        b._preload()                # the fixed finitised input of the refuted ESS contract first (its own number of chains)
        try:
            f = b.check_ess(dict(wit))
        except Exception as e:
            f = '%s: %s' % (type(e).__name__, e)
        if f:
            return dict(found=True, input=dict(wit), observed=f)
    if fam not in _replay_cache:
        res = b.run('thorough', 0, stop_first=True, which=(fam,))
        fails = [f for r in res for f in r['failures']]
        _replay_cache[fam] = dict(found=True, input=fails[0]['input'], observed=fails[0]['what']) if fails else dict(found=False, searched=[r['bound'] for r in res])
    return _replay_cache[fam]


def replay_input(inp):
    from bounded import c16 as b
    return b.replay_input(inp)


USES_LEAN_LEMMAS = ['L2a permutation invariance of a finite sum']      # re-checked with lean (selftest/lean_check.sh, lemmas/SmtForms.lean) in the thorough tier
