"""C17 - Regression adjustment and model comparison equal their formulas.

Functions under contract (all obligations generated from the source in the tree at run time):
  elfi/methods/post_processing.py
    LinearAdjustment._input_variables   X = sigma * (stack(simulated) - stack(observed)), ONE sign sigma for the whole matrix, columns in
                                        the order of summary_names.  The sign is deliberately not pinned: the fitted slope flips with it and
                                        theta - X.b does not change (ghost lemma `lemma_sign_cancels`), so either convention satisfies the
                                        property; what IS pinned is stated on the adjusted values relative to the regression fitted on the same X.
    RegressionAdjustment._get_finite    finite_i[r] <=> (all c. finite X[r,c]) and finite theta_i[r]
    RegressionAdjustment._pairs         yields (X[finite_i, :], theta_i[finite_i]) for i = 0..p-1 in order
    RegressionAdjustment.fit            (real _get_finite, _pairs, _fit1 inlined; _input_variables by its contract; the regression class is a
                                        recording stub) after fit the object holds exactly the models of THIS fit: model i constructed with the stored
                                        keyword arguments and fitted exactly once, on exactly (X[finite_i], theta_i[finite_i]); _X, _sample,
                                        _parameter_names, _fitted set as documented.  Cases: fresh object / object that was fitted before.
    LinearAdjustment._adjust            out[j] = theta_i(r) - sum_c X(r,c) * coef_(c) with r = the j-th finite row; corollary: X(r,:) = 0 => out[j] = theta_i(r)
    RegressionAdjustment.adjust         outputs[name_i] = _adjust(i, theta_i[finite_i], regression_models[i]); Sample(method_name, outputs, parameter_names);
                                        ValueError iff not fitted
    adjust_posterior                    the whole pipeline on classes assembled from the REAL method bodies: top-level clause of the property
  elfi/methods/model_selection.py
    compare_models                      (a) model list of ANY length M >= 1 (symbolic list proxy), the counting loop under its invariant:
                                        up_bound = sum of n_j over the visited models, p_j = |{t < n_min : LOW(j) <= inds[t] < LOW(j+1)}| / n_sim_j * prior_j
                                        (cardinality witnessed by an explicit bijection kept as ghost state), result = p / sum(p) and sums to one
                                        whenever sum(p) != 0, n_min = smallest size, order over the concatenation in list order, jointly smallest;
                                        (b) python lists of CONCRETE length 2 and 3 (loop unrolled natively): the same clauses plus every division
                                        obligation: non-empty samples, n_sim >= 1, positive prior weights => sum(p) > 0, 0 <= probability <= 1.
    adjust_posterior x 2                two calls of the real pipeline on (S, s_obs) and on (S A + 1 c^T, s_obs A + c), ONE summary: every regression is
                                        ordinary least squares with an intercept; under full column rank of [1, X_finite] and an unchanged finite-row filter the
                                        adjusted values of the two calls are equal row by row (AffineReexpression; LinearRegression by its normal equations)
  ghost lemmas (lemmas/c17_lemmas.py): Gram sums of [1, XA] = T^T G T (induction over rows), uniqueness of the normal-equation solution (Cramer),
  row identity x'.b' = x.b, equal masks select equal rows (induction), extensionality / linearity / monotonicity of prefix sums, the sign convention cancels, counts do not
  depend on the list order when there is no tie at the cut (pigeonhole instances), and two calls of the REAL compare_models on a permuted
  model list give permuted probabilities (2-lists: the swap; 3-lists: both adjacent transpositions, which generate every order).

Spec functions (independent of the code): FIN (uninterpreted finiteness predicate on float values - covers inf and nan alike),
DOT(r, c) = sum_{c' < c} X(r,c') * b(c') by its recursion equations, block offsets LOW(j) = prefix sums of the sample sizes,
W(c, j) = c / n_sim_j * prior_j.
"""
MANIFEST = {
    'category': 'proof',
    'text': 'Every function of the regression adjustment (regressor matrix, finite masks, pairing, fitting, theta - X.b with the zero-row corollary, '
            'result assembly, the adjust_posterior pipeline) and compare_models (counting loop under its invariant for any number of models: offsets, '
            'count by bijection witness, division by n_sim, prior weight, normalisation to one, jointly-smallest selection) is verified against the '
            'formulas of the property for all array lengths and contents over the reals; obligations are generated from the current source and '
            'discharged by z3/cvc5.  Permutation covariance is a two-call lemma on the real compare_models (no tie at the cut).  sklearn '
            'LinearRegression is an assumed library (recording stub; least-squares slope sanity-tested against numpy.linalg.lstsq each run).  '
            'Invariance under an invertible affine re-expression of the summaries is proved for one summary as a two-call lemma on the real adjust_posterior '
            '(normal equations as the assumed sklearn contract; uniqueness from full column rank, Gram sums under X -> XA by induction over the rows, equal masks '
            'select equal rows by induction), together with the clause that every regression is constructed as ordinary least squares with an intercept.  '
            'Bounded stand-in on the real code: adjust_posterior against numpy.linalg.lstsq with non-finite entries, zero rows, affine '
            're-expressions and re-used adjustment objects; compare_models against an independent tie-aware recomputation.',
    'note': 'Not decided by proof: invariance under an invertible affine re-expression for two or more summaries (bounded stand-in only; the one-summary proof '
            'assumes full column rank of [1, X_finite] and an unchanged finite-row filter).  Floats idealised as reals; lists of summary / parameter names have '
            'concrete lengths (1-3); division obligations and permutation covariance are proved for model lists of length 2 and 3 (all other '
            'compare_models clauses for any length); with ties at the cut the result is not a function of the multiset (stated; counted in the bounded stand-in).',
    'technique': 'deductive: VCs from the real AST executed over symbolic arrays (pyvc), loop invariant with ghost state, ghost lemma functions, z3/cvc5; '
                 'Lean-certified pigeonhole instances; bounded stand-in: random small samples vs numpy.linalg.lstsq / independent recomputation',
}

import builtins as _bi

import z3

from pyvc import npspec
from pyvc.core import cur, forall_range, forall2_range, exists_range, OutOfSubset, program_exception
from pyvc.engine import Contract, Loop, NS, Stub, inline, make_object
from pyvc.values import SInt, SReal, SBool, SOpt, Sym, lift, term as T
from pyvc.sarray import SArr, Cell, conc

R, I, B = z3.RealSort(), z3.IntSort(), z3.BoolSort()
PP = 'elfi/methods/post_processing.py::'
MS = 'elfi/methods/model_selection.py::'

# ---------------------------------------------------------------- library specs local to this property
FIN = z3.Function('finite', R, B)       # uninterpreted: which float values are finite (inf, -inf, nan are not)


def np_isfinite(x):
    """numpy.isfinite: elementwise, same shape"""
    if isinstance(x, SArr):
        src = x.snapshot()
        if src.kind != 'real':
            return SArr(Cell(lambda *i: z3.BoolVal(True), src.shape, 'bool'))
        return SArr(Cell(lambda *i: FIN(src.at(*i)), src.shape, 'bool'))
    l = lift(x)
    if isinstance(l, SReal):
        return SBool(FIN(l.t))
    if isinstance(l, SInt):
        return SBool(z3.BoolVal(True))
    raise OutOfSubset('isfinite(%s)' % type(x).__name__)


def np_stack(arrs, axis=0):
    """numpy.stack of a python sequence of 1-D arrays of equal length n: axis=0 -> (len, n), axis=1/-1 -> (n, len)"""
    arrs = [npspec.asarray(a).snapshot() for a in arrs]
    if not arrs:
        raise program_exception(ValueError('need at least one array to stack'))
    if _bi.any(a.ndim != arrs[0].ndim for a in arrs):
        raise program_exception(ValueError('all input arrays must have the same shape'))
    if arrs[0].ndim != 1 or axis not in (0, 1, -1):
        raise OutOfSubset('np.stack of rank-%d arrays along axis %r' % (arrs[0].ndim, axis))
    vc = cur()
    n = arrs[0].shape[0]
    for a in arrs[1:]:
        vc.oblige('call-pre[stack: all input arrays have the same shape]', a.shape[0] == n)
    kind = 'real' if _bi.any(a.kind == 'real' for a in arrs) else arrs[0].kind

    def col(c, r):
        out = None
        for k in reversed(range(len(arrs))):
            v = arrs[k].at(r)
            if kind == 'real' and arrs[k].kind == 'int':
                v = z3.ToReal(v)
            out = v if out is None else z3.If(c == k, v, out)
        return out
    L = z3.IntVal(len(arrs))
    if axis == 0:
        return SArr(Cell(lambda c, r: col(c, r), (L, n), kind))
    return SArr(Cell(lambda r, c: col(c, r), (n, L), kind))


def vc_all(x):
    """python's all(): conjunction of the truth values of the elements"""
    if isinstance(x, SArr):
        if x.ndim != 1:
            raise OutOfSubset('all() over a rank-%d array' % x.ndim)
        return npspec.all(x)
    items = list(x)
    if _bi.any(isinstance(i, Sym) for i in items):
        return SBool(z3.And([T(i) if not isinstance(i, SArr) else T(npspec.all(i)) for i in items] + [z3.BoolVal(True)]))
    return _bi.all(items)


def np_module():
    return npspec.module(extra={'isfinite': np_isfinite, 'stack': np_stack})


def prefix_def(P, n, summand):
    return z3.And(P(0) == 0, forall_range(0, n, lambda i: P(i + 1) == P(i) + summand(i), 'i'))


def stmt_sum_ext(n, a, b, A, Bp, m=None):
    """pointwise equal summands on [0,n) give equal prefix sums (proved: LemmaSumExt)"""
    m = n if m is None else m
    hyp = z3.And(0 <= m, m <= n, prefix_def(A, n, a), prefix_def(Bp, n, b), forall_range(0, n, lambda i: a(i) == b(i), 'i'))
    return hyp, A(m) == Bp(m)


def use(stmt):
    hyp, goal = stmt
    return z3.Implies(hyp, goal)


def named(i):
    return 'p%d' % i


# ---------------------------------------------------------------- stubs of the objects the adjustment code touches
def sample_stub(outputs, parameter_names=None):
    return make_object('SampleStub', attrs=dict(outputs=outputs, parameter_names=parameter_names))


def theta_fns(p):
    return [z3.Function('theta%d' % i, I, R) for i in range(p)]


def spec_finite(Xf, m, th):
    """the property's row filter: every regressor of the row and the parameter value are finite"""
    return lambda r: z3.And(forall_range(0, m, lambda c: FIN(Xf(r, c)), 'c'), FIN(th(r)))


# ---------------------------------------------------------------- LinearAdjustment._input_variables
class InputVariables(Contract):
    target = PP + 'LinearAdjustment._input_variables'
    prop = 'C17'
    fin = 4

    def __init__(self, m):
        self.m = m
        self.label = '%d-summaries' % m

    def env(self, vc):
        return {'np': np_module()}

    def setup(self, vc):
        n = z3.Int('n')
        vc.fin_bounds.append(n)
        names = ['s%d' % c for c in range(self.m)]
        S = [z3.Function('S%d' % c, I, R) for c in range(self.m)]
        O = [z3.Real('O%d' % c) for c in range(self.m)]
        outputs = {nm: SArr.from_fn((lambda r, f=S[c]: f(r)), (n,), 'real') for c, nm in enumerate(names)}
        outputs['unrelated'] = SArr.fresh('unrelated', (n,), 'real')
        model = {nm: make_object('NodeStub', attrs=dict(observed=SArr.from_fn((lambda i, o=O[c]: o), (1,), 'real'))) for c, nm in enumerate(names)}
        s = NS(n=n, S=S, O=O)
        return s, (make_object('LinearAdjustmentStub'), model, sample_stub(outputs), list(names)), {}

    def requires(self, s):
        return [s.n >= 0]

    def ensures(self, s, result):
        if not isinstance(result, SArr) or result.ndim != 2:
            return [('the regressors form a matrix', z3.BoolVal(False))]
        m = self.m
        plus = z3.And([forall_range(0, s.n, lambda r, c=c: result.at(r, c) == s.S[c](r) - s.O[c], 'r') for c in range(m)])
        minus = z3.And([forall_range(0, s.n, lambda r, c=c: result.at(r, c) == s.O[c] - s.S[c](r), 'r') for c in range(m)])
        return [('one row per accepted draw, one column per summary', z3.And(result.shape[0] == s.n, result.shape[1] == m)),
                ('column c is (simulated - observed) of summary_names[c], with one sign convention for the whole matrix', z3.Or(plus, minus))]

    def witness(self, vc, model, ob):
        return dict(function='_input_variables', m=self.m)


# ---------------------------------------------------------------- RegressionAdjustment._get_finite
def adj_self(vc, n, m, p, fitted=True, finite=None, extra_attrs=None, methods=None, properties=None):
    """stub `self` of a RegressionAdjustment holding symbolic X (n x m) and p parameters theta_i (n,)"""
    Xf = z3.Function('X', I, I, R)
    th = theta_fns(p)
    names = [named(i) for i in range(p)]
    outputs = {nm: SArr.from_fn((lambda r, f=th[i]: f(r)), (n,), 'real') for i, nm in enumerate(names)}
    sample = sample_stub(outputs, parameter_names=list(names))
    attrs = dict(_X=SArr.from_fn(lambda r, c: Xf(r, c), (n, m), 'real'), _sample=sample, _parameter_names=list(names),
                 _fitted=fitted, _finite=finite if finite is not None else [], regression_models=[], _name='LinearAdjustment', _model_kwargs={})
    attrs.update(extra_attrs or {})
    props = dict(parameter_names=inline(vc, PP + 'RegressionAdjustment.parameter_names'),
                 sample=inline(vc, PP + 'RegressionAdjustment.sample'),
                 X=inline(vc, PP + 'RegressionAdjustment.X'))
    props.update(properties or {})
    meths = dict(_check_fitted=inline(vc, PP + 'RegressionAdjustment._check_fitted'))
    meths.update(methods or {})
    self_ = make_object('RegressionAdjustmentStub', attrs=attrs, methods=meths, properties=props)
    return self_, NS(Xf=Xf, th=th, names=names, sample=sample, outputs=outputs)


def mask_posts(s, masks, what=''):
    out = []
    if not isinstance(masks, list) or len(masks) != s.p or not _bi.all(isinstance(k, SArr) and k.kind == 'bool' and k.ndim == 1 for k in masks):
        return [('one boolean row mask per parameter', z3.BoolVal(False))]
    for i, mk in enumerate(masks):
        sf = spec_finite(s.Xf, s.m, s.th[i])
        out.append(('%sfinite_%d[r] <=> every regressor of row r is finite and theta_%d[r] is finite' % (what, i, i),
                    z3.And(mk.shape[0] == s.n, forall_range(0, s.n, lambda r: mk.at(r) == sf(r), 'r'))))
    return out


class GetFinite(Contract):
    target = PP + 'RegressionAdjustment._get_finite'
    prop = 'C17'
    fin = 3

    def __init__(self, p):
        self.p = p
        self.label = '%d-parameters' % p

    def env(self, vc):
        return {'np': np_module(), 'all': vc_all}

    def setup(self, vc):
        n, m = z3.Ints('n m')
        vc.fin_bounds.extend([n, m])
        self_, x = adj_self(vc, n, m, self.p, fitted=False)
        s = NS(n=n, m=m, p=self.p, Xf=x.Xf, th=x.th, x=x)
        s.self = self_
        return s, (self_,), {}

    def requires(self, s):
        return [s.n >= 0, s.m >= 0]

    def ensures(self, s, result):
        return mask_posts(s, s.self._finite) + \
            [('the regressors, the sample and the parameter names are not replaced',
              z3.BoolVal(s.self._sample is s.x.sample and s.self._parameter_names == s.x.names and isinstance(s.self._X, SArr))),
             ('the regressors are not modified', forall_range(0, s.n, lambda r: forall_range(0, s.m, lambda c: s.self._X.at(r, c) == s.Xf(r, c), 'c'), 'r'))]

    def witness(self, vc, model, ob):
        return dict(function='_get_finite', p=self.p)


# ---------------------------------------------------------------- RegressionAdjustment._pairs
def fresh_masks(n, p):
    return [SArr.fresh('finite%d' % i, (n,), 'bool') for i in range(p)]


def selected_rows_posts(s, i, Xi, yi, who):
    """(Xi, yi) = (X[finite_i, :], theta_i[finite_i]): row j is original row sel_i(j), sel_i the increasing enumeration of finite_i"""
    if not (isinstance(Xi, SArr) and isinstance(yi, SArr) and Xi.ndim == 2 and yi.ndim == 1):
        return [('%s %d is a (matrix, vector) pair' % (who, i), z3.BoolVal(False))]
    k, sel, rank, msk = s.masks[i].select()
    return [('%s %d: regressor rows are exactly the rows of X selected by finite_%d, in order' % (who, i, i),
             z3.And(Xi.shape[0] == k, Xi.shape[1] == s.m,
                    forall_range(0, k, lambda j: forall_range(0, s.m, lambda c: Xi.at(j, c) == s.Xf(sel(j), c), 'c'), 'j'))),
            ('%s %d: responses are theta_%d at the same rows' % (who, i, i),
             z3.And(yi.shape[0] == k, forall_range(0, k, lambda j: yi.at(j) == s.th[i](sel(j)), 'j')))]


class Pairs(Contract):
    target = PP + 'RegressionAdjustment._pairs'
    prop = 'C17'
    fin = 3

    def __init__(self, p):
        self.p = p
        self.label = '%d-parameters' % p

    def env(self, vc):
        return {'np': np_module()}

    def setup(self, vc):
        n, m = z3.Ints('n m')
        vc.fin_bounds.extend([n, m])
        masks = fresh_masks(n, self.p)
        self_, x = adj_self(vc, n, m, self.p, fitted=False, finite=list(masks))
        s = NS(n=n, m=m, p=self.p, Xf=x.Xf, th=x.th, x=x, masks=masks)
        s.self = self_
        return s, (self_,), {}

    def requires(self, s):
        return [s.n >= 0, s.m >= 0]

    def lemmas_at_exit(self, s, result):
        s.pairs = list(result)          # _pairs is a generator: its (real) body runs here
        return []

    def ensures(self, s, result):
        out = [('one pair per parameter', z3.BoolVal(len(s.pairs) == self.p and _bi.all(isinstance(q, tuple) and len(q) == 2 for q in s.pairs)))]
        if len(s.pairs) != self.p:
            return out
        for i, (Xi, yi) in enumerate(s.pairs):
            out += selected_rows_posts(s, i, Xi, yi, 'pair')
        return out

    def witness(self, vc, model, ob):
        return dict(function='_pairs', p=self.p)


# ---------------------------------------------------------------- RegressionAdjustment.fit
def rec_model_class(log):
    """recording stub of the regression class (sklearn LinearRegression: assumed library; fit returns self, coef_ uninterpreted)"""
    class RecModel:
        def __init__(self, **kw):
            self.kw = kw
            self.fits = []
            log.append(self)

        def fit(self, X, y):
            self.fits.append((X, y))
            return self
    return RecModel


class Fit(Contract):
    target = PP + 'RegressionAdjustment.fit'
    prop = 'C17'
    fin = 3

    def __init__(self, p, names_given, refit=False):
        self.p, self.names_given, self.refit = p, names_given, refit     # refit: the object was fitted before (to another sample)
        self.label = '%d-parameters,%s%s' % (p, 'names-given' if names_given else 'names-default', ',fitted-before' if refit else '')

    def env(self, vc):
        return {'np': np_module(), 'all': vc_all}

    def setup(self, vc):
        n, m = z3.Ints('n m')
        vc.fin_bounds.extend([n, m])
        s = NS(n=n, m=m, p=self.p, calls=[], models=[])

        def input_variables(self_, model, sample, summary_names):
            # LinearAdjustment._input_variables by its contract (InputVariables): an n x m matrix
            s.calls.append((model, sample, summary_names))
            return s.Xarr
        self_, x = adj_self(vc, n, m, self.p, fitted=False,
                            extra_attrs=dict(_X=None, _sample=None, _parameter_names=None, _regression_model=rec_model_class(s.models),
                                             _model_kwargs={'fit_intercept': 'kw-sentinel'}),
                            methods=dict(_input_variables=input_variables,
                                         _get_finite=inline(vc, PP + 'RegressionAdjustment._get_finite'),
                                         _pairs=inline(vc, PP + 'RegressionAdjustment._pairs'),
                                         _fit1=inline(vc, PP + 'RegressionAdjustment._fit1')))
        s.Xarr = SArr.from_fn(lambda r, c: x.Xf(r, c), (n, m), 'real')
        s.self, s.Xf, s.th, s.x = self_, x.Xf, x.th, x
        if self.refit:
            n0 = vc.fresh_int('n_before', size=True)
            self_._X, self_._sample, self_._parameter_names = SArr.fresh('X_before', (n0, m), 'real'), object(), list(x.names)
            self_._finite, self_._fitted = fresh_masks(n0, self.p), True
            self_.regression_models = [make_object('ModelFittedBefore') for _ in range(self.p)]
        s.model, s.summary_names = object(), ['s0', 's1']
        s.given = list(x.names) if self.names_given else None
        if not self.names_given:
            pass                         # the default: sample.parameter_names (set by sample_stub)
        return s, (self_, x.sample, s.model, s.summary_names), dict(parameter_names=s.given)

    def requires(self, s):
        return [s.n >= 0, s.m >= 0]

    def ensures(self, s, result):
        me = s.self
        out = [('_input_variables is called once with (model, sample, summary_names) and its result is stored as the regressors',
                z3.BoolVal(len(s.calls) == 1 and s.calls[0][0] is s.model and s.calls[0][1] is s.x.sample and s.calls[0][2] is s.summary_names and me._X is s.Xarr)),
               ('the sample is stored; parameter names are the given ones, else those of the sample',
                z3.BoolVal(me._sample is s.x.sample and (me._parameter_names is s.given if self.names_given else me._parameter_names is s.x.sample.parameter_names))),
               ('the object is marked fitted', z3.BoolVal(me._fitted is True)),
               ('the object holds exactly one regression model per parameter - those of THIS fit, in order - each constructed with the stored keyword arguments and fitted exactly once',
                z3.BoolVal(len(s.models) == self.p and len(me.regression_models) == self.p and
                           _bi.all(a is b_ for a, b_ in zip(me.regression_models, s.models)) and
                           _bi.all(mm.kw == {'fit_intercept': 'kw-sentinel'} and len(mm.fits) == 1 for mm in s.models)))]
        if len(s.models) != self.p or not _bi.all(len(mm.fits) == 1 for mm in s.models):
            return out
        s.masks = me._finite
        out += mask_posts(s, me._finite)
        if not isinstance(me._finite, list) or len(me._finite) != self.p:
            return out
        for i, mm in enumerate(s.models):
            out += selected_rows_posts(s, i, mm.fits[0][0], mm.fits[0][1], 'model')
        return out

    def witness(self, vc, model, ob):
        return dict(function='fit', p=self.p)


# ---------------------------------------------------------------- LinearAdjustment._adjust
def dot_def(DOT, Xf, bf, n, m):
    """DOT(r, c) = sum_{c' < c} X(r,c') * b(c')  (recursion equations over the ORIGINAL rows)"""
    return forall_range(0, n, lambda r: z3.And(DOT(r, 0) == 0, forall_range(0, m, lambda c: DOT(r, c + 1) == DOT(r, c) + Xf(r, c) * bf(c), 'c')), 'r')


def dot_row_lemmas(vc, rec, G, j0, row_x, bf, m, D):
    """connect the code's X[...].dot(b) (library spec: per-row prefix sums `ps`) at output row j0 with the definitional sum D(c)
    of row_x(c) * b(c): pointwise equal summands (cut), extensionality instance (LemmaSumExt), equality of the totals (cut);
    and the zero-row instance: all-zero summands sum to zero.  With a CONCRETE number of columns both sums are unfolded instead."""
    arr, ps, res = rec['arr'], rec['ps'], rec['res']
    mc = conc(m) if isinstance(m, z3.ExprRef) else m
    if mc is not None:
        vc.cut('the product array has one column per regressor', z3.Implies(G, arr.shape[1] == mc))
        vc.cut('both sums start at zero', z3.Implies(G, z3.And(ps(j0, 0) == 0, D(0) == 0)))
        for c in range(mc):
            vc.cut('column %d: the product is X(r,c) * coef_(c); unfold both sums' % c,
                   z3.Implies(G, z3.And(arr.at(j0, c) == row_x(c) * bf(c), ps(j0, c + 1) == ps(j0, c) + arr.at(j0, c), D(c + 1) == D(c) + row_x(c) * bf(c))))
        vc.cut('dot(X[finite], coef_)[j] = sum_c X(r,c) * coef_(c)', z3.Implies(G, res.at(j0) == D(mc)))
        Z = z3.And([row_x(c) == 0 for c in range(mc)] + [z3.BoolVal(True)])
        vc.cut('a zero row of regressors contributes nothing', z3.Implies(z3.And(G, Z), D(mc) == 0))
        return Z
    prod = lambda c: row_x(c) * bf(c)
    vc.cut('row j of the product array is X(r,c) * coef_(c), r = the j-th selected row',
           z3.Implies(G, z3.And(arr.shape[1] == m, forall_range(0, m, lambda c: arr.at(j0, c) == prod(c), 'c'))))
    vc.cut('the library sums row j of the product array from the left', z3.Implies(G, prefix_def(lambda c: ps(j0, c), m, lambda c: arr.at(j0, c))))
    vc.cut('the definitional sum along row r', z3.Implies(G, prefix_def(D, m, prod)))
    vc.cut('0 <= m', m >= 0)
    vc.assume(z3.Implies(G, use(stmt_sum_ext(m, lambda c: arr.at(j0, c), prod, lambda c: ps(j0, c), D))))        # LemmaSumExt
    vc.cut('dot(X[finite], coef_)[j] = sum_c X(r,c) * coef_(c)', z3.Implies(G, res.at(j0) == D(m)))
    Z = forall_range(0, m, lambda c: row_x(c) == 0, 'c')
    vc.assume(z3.Implies(z3.And(G, Z), use(stmt_zero_row(m, row_x, bf, D))))                                      # LemmaZeroRow
    vc.cut('a zero row of regressors contributes nothing', z3.Implies(z3.And(G, Z), D(m) == 0))
    return Z


def stmt_zero_row(m, x, b, D):
    """D = prefix sums of x(c) * b(c), x(c) = 0 on [0,m)  =>  D(m) = 0   (proved: LemmaZeroRow; the product never meets a quantifier elsewhere)"""
    hyp = z3.And(m >= 0, prefix_def(D, m, lambda c: x(c) * b(c)), forall_range(0, m, lambda c: x(c) == 0, 'c'))
    return hyp, D(m) == 0


class LemmaZeroRow(Contract):
    """bilinearity of dot, the case used by the corollary: a zero row of regressors has a zero dot product with any coefficient vector"""
    target = '@verif/lemmas/c17_lemmas.py::lemma_zero_row'
    prop = 'C17'
    fin = 5

    def setup(self, vc):
        m = z3.Int('m')
        x, b, D = [z3.Function(nm, I, R) for nm in ('x', 'b', 'D')]
        vc.fin_bounds.append(m)
        hyp, goal = stmt_zero_row(m, x, b, lambda c: D(c))
        s = NS(m=m, x=x, b=b, D=D, hyp=hyp, goal=goal)
        vc._s = s
        return s, (SInt(m),), {}

    def env(self, vc):
        s = vc._s

        def inst(j):
            j = T(j)
            vc.assume(z3.Implies(z3.And(0 <= j, j < s.m), z3.And(s.D(j + 1) == s.D(j) + s.x(j) * s.b(j), s.x(j) == 0)))
        return dict(inst=inst)

    def requires(self, s):
        return [s.hyp]

    loops = {0: Loop(inv=lambda s, l: [z3.And(0 <= T(l.j), T(l.j) <= s.m), s.D(T(l.j)) == 0])}

    def ensures(self, s, result):
        return [('D(m) = 0', s.goal)]


class Adjust1(Contract):
    """out = theta_i[finite_i] - X[finite_i] . coef_; stated at an ARBITRARY output row j0 (a free constant: valid for every row)"""
    target = PP + 'LinearAdjustment._adjust'
    prop = 'C17'
    fin = 3
    P, IDX = 2, 1

    def env(self, vc):
        return {'np': np_module()}

    def setup(self, vc):
        n, m, j0 = z3.Ints('n m row')
        vc.fin_bounds.extend([n, m, j0])
        masks = fresh_masks(n, self.P)
        self_, x = adj_self(vc, n, m, self.P, fitted=True, finite=list(masks))
        k, sel, rank, msk = masks[self.IDX].select()
        bf = z3.Function('coef', I, R)
        model = make_object('FittedModelStub', attrs=dict(coef_=SArr.from_fn(lambda c: bf(c), (m,), 'real')))
        th = x.th[self.IDX]
        theta_i = SArr.from_fn(lambda j: th(sel(j)), (k,), 'real')          # the call site (adjust) passes theta_i[finite_i]
        s = NS(n=n, m=m, j0=j0, k=k, sel=sel, bf=bf, th=th, Xf=x.Xf, D0=z3.Function('DOTROW', I, R), G=z3.And(0 <= j0, j0 < k), R0=sel(j0))
        s.self = self_
        return s, (self_, self.IDX, theta_i, model), {}

    def requires(self, s):
        # spec function: DOTROW(c) = sum_{c' < c} X(r,c') * coef_(c') along the row r = sel(j0) of the arbitrary output row j0, by its recursion equations
        return [s.n >= 0, s.m >= 0, prefix_def(s.D0, s.m, lambda c: s.Xf(s.R0, c) * s.bf(c))]

    def hooks(self, s):
        def at_dot(vc, rec):
            s.Z = dot_row_lemmas(vc, rec, s.G, s.j0, lambda c: s.Xf(s.R0, c), s.bf, s.m, s.D0)
        return {('np.sum', 0): at_dot}

    def ensures(self, s, result):
        if not isinstance(result, SArr) or result.ndim != 1 or not s.has('Z'):
            return [('the adjusted values form a vector computed with one dot product', z3.BoolVal(False))]
        return [('one adjusted value per finite row', result.shape[0] == s.k),
                ('adjusted[j] = theta_i(r) - sum_c X(r,c) * coef_(c), r the j-th finite row', z3.Implies(s.G, result.at(s.j0) == s.th(s.R0) - s.D0(s.m))),
                ('a draw whose simulated summaries equal the observed ones (X(r,:) = 0) is returned unchanged',
                 z3.Implies(z3.And(s.G, s.Z), result.at(s.j0) == s.th(s.R0)))]

    def witness(self, vc, model, ob):
        return dict(function='_adjust')


# ---------------------------------------------------------------- RegressionAdjustment.adjust
class RecSample:
    made = None

    def __init__(self, **kw):
        self.kw = kw
        type(self).made.append(self)


def rec_sample_class():
    return type('Sample', (RecSample,), {'made': []})


class Adjust(Contract):
    target = PP + 'RegressionAdjustment.adjust'
    prop = 'C17'
    fin = 3

    def __init__(self, p):
        self.p = p
        self.label = '%d-parameters' % p

    def setup(self, vc):
        n, m = z3.Ints('n m')
        vc.fin_bounds.extend([n, m])
        masks = fresh_masks(n, self.p)
        s = NS(n=n, m=m, p=self.p, masks=masks, calls=[], fitted=z3.Bool('fitted'), Sample=rec_sample_class())

        def _adjust(self_, i, theta_i, regression_model):
            # LinearAdjustment._adjust by its contract (Adjust1): a vector with one value per row of theta_i
            out = SArr.fresh('adjusted%d' % len(s.calls), (theta_i.shape[0],), 'real')
            s.calls.append((i, theta_i, regression_model, out))
            return out
        self_, x = adj_self(vc, n, m, self.p, fitted=SBool(s.fitted), finite=list(masks), methods=dict(_adjust=_adjust),
                            extra_attrs=dict(regression_models=[make_object('FittedModelStub') for _ in range(self.p)]))
        s.self, s.x, s.th, s.Xf = self_, x, x.th, x.Xf
        s.models = list(self_.regression_models)
        vc._s = s
        return s, (self_,), {}

    def env(self, vc):
        return {'np': np_module(), 'results': NS(Sample=vc._s.Sample)}

    def requires(self, s):
        return [s.n >= 0, s.m >= 0]

    def raises(self, s):
        return {'ValueError': z3.Not(s.fitted)}

    def iff_raises(self, s):
        return [('a result is returned only by a fitted object', s.fitted)]

    def ensures(self, s, result):
        made = s.Sample.made
        ok = len(made) == 1 and result is made[0]
        out = [('the result is one Sample object built by this call', z3.BoolVal(ok))]
        if not ok:
            return out
        kw = made[0].kw
        outs = kw.get('outputs')
        out.append(('Sample(method_name = the adjustment name, parameter_names = the fitted names, outputs = one entry per parameter)',
                    z3.BoolVal(set(kw) == {'method_name', 'outputs', 'parameter_names'} and kw['method_name'] == 'LinearAdjustment' and
                               kw['parameter_names'] is s.self._parameter_names and isinstance(outs, dict) and list(outs) == s.x.names)))
        out.append(('_adjust is called once per parameter, in order, with the index and the fitted model of that parameter',
                    z3.BoolVal(len(s.calls) == self.p and _bi.all(c[0] == i and c[2] is s.models[i] for i, c in enumerate(s.calls)))))
        if len(s.calls) != self.p or not isinstance(outs, dict) or list(outs) != s.x.names:
            return out
        for i, (_, theta_i, _, ret) in enumerate(s.calls):
            k, sel, rank, msk = s.masks[i].select()
            out.append(('outputs[name_%d] is the value _adjust returned for parameter %d' % (i, i), z3.BoolVal(outs[named(i)] is ret)))
            out.append(('_adjust receives theta_%d restricted to finite_%d (rows in order)' % (i, i),
                        z3.And(z3.BoolVal(isinstance(theta_i, SArr) and theta_i.ndim == 1), theta_i.shape[0] == k,
                               forall_range(0, k, lambda j: theta_i.at(j) == s.th[i](sel(j)), 'j'))))
        return out

    def witness(self, vc, model, ob):
        return dict(function='adjust', p=self.p)


# ---------------------------------------------------------------- adjust_posterior: the whole pipeline on the real methods
def class_constants(vc, qual):
    """simple `name = literal | Name` assignments of a class body, read from the tree (so the stub class carries the REAL class attributes)"""
    import ast
    from pyvc import instrument
    path, q = qual.split('::')
    src, tree = instrument._parse(path, vc.repo)
    out = {}
    for node in tree.body:
        if isinstance(node, ast.ClassDef) and node.name == q:
            for st in node.body:
                if isinstance(st, ast.Assign) and len(st.targets) == 1 and isinstance(st.targets[0], ast.Name):
                    v = st.value
                    out[st.targets[0].id] = ('name', v.id) if isinstance(v, ast.Name) else ('lit', ast.literal_eval(v))
    return out


def real_adjustment_classes(vc, names, created):
    """RegressionAdjustment / LinearAdjustment assembled from the REAL method bodies (instrumented), class attributes read from the tree;
    every instance is appended to `created` (ghost record)"""
    def new(cls, *a, **kw):
        o = object.__new__(cls)
        created.append(o)
        return o

    def build(cls, bases, methods, props):
        d = {'__new__': new}
        for k, (tag, v) in class_constants(vc, PP + cls).items():
            d[k] = v if tag == 'lit' else names[v]
        for mth in methods:
            d[mth] = inline(vc, PP + cls + '.' + mth)
        for pr in props:
            d[pr] = property(inline(vc, PP + cls + '.' + pr))
        return type(cls, bases, d)
    RA = build('RegressionAdjustment', (object,), ['__init__', '_check_fitted', 'fit', '_fit1', '_pairs', 'adjust', '_adjust', '_input_variables', '_get_finite'],
               ['parameter_names', 'sample', 'X'])
    LA = build('LinearAdjustment', (RA,), ['_adjust', '_input_variables'], [])
    return RA, LA


class AdjustPosterior(Contract):
    """top-level clause: the adjusted values are (fitted responses) - (fitted regressors) . coef_ of the regression fitted on those SAME
    regressors and responses; these are +-(simulated - observed) and theta_i at exactly the rows where both are finite, in order"""
    target = PP + 'adjust_posterior'
    prop = 'C17'
    fin = 3
    M = 2

    def __init__(self, p, how):
        self.p, self.how = p, how          # how: 'linear' (string specification) | 'instance'
        self.label = '%d-parameters,%s' % (p, how)

    def setup(self, vc):
        n, j0 = z3.Ints('n row')
        vc.fin_bounds.extend([n, j0])
        m = self.M
        s = NS(n=n, m=z3.IntVal(m), p=self.p, j0=j0, models=[], Sample=rec_sample_class())

        class RecModel:
            def __init__(self_, **kw):
                self_.kw, self_.fits = kw, []
                s.models.append(self_)

            def fit(self_, X, y):
                self_.fits.append((X.snapshot(), y.snapshot()))
                self_.bf = vc.fresh_fn('coef', I, R)           # assumed library: the slope vector, one entry per regressor column
                self_.coef_ = SArr.from_fn(lambda c: self_.bf(c), (X.shape[1],), 'real')
                return self_
        s.created = []
        s.RA, s.LA = real_adjustment_classes(vc, {'LinearRegression': RecModel}, s.created)
        snames = ['s%d' % c for c in range(m)]
        pnames = [named(i) for i in range(self.p)]
        s.S = [z3.Function('S%d' % c, I, R) for c in range(m)]
        s.O = [z3.Real('O%d' % c) for c in range(m)]
        s.th = theta_fns(self.p)
        outputs = {nm: SArr.from_fn((lambda r, f=s.S[c]: f(r)), (n,), 'real') for c, nm in enumerate(snames)}
        outputs.update({nm: SArr.from_fn((lambda r, f=s.th[i]: f(r)), (n,), 'real') for i, nm in enumerate(pnames)})
        sample = sample_stub(outputs, parameter_names=list(pnames))
        model = {nm: make_object('NodeStub', attrs=dict(observed=SArr.from_fn((lambda i, o=s.O[c]: o), (1,), 'real'))) for c, nm in enumerate(snames)}
        s.pnames, s.snames, s.sample = pnames, snames, sample
        s.adj = s.LA() if self.how == 'instance' else 'linear'
        s.G = z3.BoolVal(True)
        vc._s = s
        return s, (sample, model, list(snames)), dict(parameter_names=list(pnames), adjustment=s.adj)

    def env(self, vc):
        s = vc._s
        return {'np': np_module(), 'all': vc_all, 'results': NS(Sample=s.Sample), 'RegressionAdjustment': s.RA, 'LinearAdjustment': s.LA,
                '_get_adjustment': inline(vc, PP + '_get_adjustment')}

    def requires(self, s):
        return [s.n >= 0]

    def hooks(self, s):
        def at_dot(i):
            def h(vc, rec):
                mm = s.models[i]
                Xfit = mm.fits[0][0]
                D = vc.fresh_fn('FIT%d' % i, I, R)                  # definitional: D(c) = sum_{c' < c} Xfit[j0, c'] * coef_(c')
                vc.assume(prefix_def(D, s.m, lambda c: Xfit.at(s.j0, c) * mm.bf(c)))
                G = z3.And(0 <= s.j0, s.j0 < Xfit.shape[0])
                mm.Z = dot_row_lemmas(vc, rec, G, s.j0, lambda c: Xfit.at(s.j0, c), mm.bf, s.m, D)
                mm.D, mm.G = D, G
            return h
        return {('np.sum', i): at_dot(i) for i in range(self.p)}

    def ensures(self, s, result):
        made = s.Sample.made
        ok = len(made) == 1 and result is made[0] and len(s.models) == self.p and _bi.all(len(mm.fits) == 1 and hasattr(mm, 'D') for mm in s.models)
        out = [('the result is one Sample object; one regression per parameter, fitted once', z3.BoolVal(ok))]
        if not ok:
            return out
        outs = made[0].kw.get('outputs')
        out.append(('the result has exactly the adjusted parameters as outputs and parameter names',
                    z3.BoolVal(isinstance(outs, dict) and list(outs) == s.pnames and made[0].kw.get('parameter_names') == s.pnames)))
        if not (isinstance(outs, dict) and list(outs) == s.pnames):
            return out
        so = s.sample.outputs
        out.append(("frame: the caller's sample is not modified (same output arrays, same contents)",
                    z3.And([z3.BoolVal(list(so) == s.snames + s.pnames and _bi.all(isinstance(v, SArr) and v.ndim == 1 for v in so.values()))] +
                           [z3.And(so[nm].shape[0] == s.n, forall_range(0, s.n, lambda r, c=c, nm=nm: so[nm].at(r) == s.S[c](r), 'r')) for c, nm in enumerate(s.snames) if isinstance(so.get(nm), SArr)] +
                           [z3.And(so[nm].shape[0] == s.n, forall_range(0, s.n, lambda r, i=i, nm=nm: so[nm].at(r) == s.th[i](r), 'r')) for i, nm in enumerate(s.pnames) if isinstance(so.get(nm), SArr)])))
        j0, m = s.j0, self.M
        inst = s.created[0] if len(s.created) == 1 else None
        X = getattr(inst, '_X', None)
        masks = getattr(inst, '_finite', None)
        ok2 = isinstance(X, SArr) and X.ndim == 2 and isinstance(masks, list) and len(masks) == self.p and (self.how != 'instance' or inst is s.adj)
        out.append(('exactly one adjustment object is used (the given instance, or a fresh LinearAdjustment for "linear"); it holds the regressors and one row mask per parameter',
                    z3.BoolVal(ok2)))
        if not ok2:
            return out
        plus = z3.And([forall_range(0, s.n, lambda r, c=c: X.at(r, c) == s.S[c](r) - s.O[c], 'r') for c in range(m)])
        minus = z3.And([forall_range(0, s.n, lambda r, c=c: X.at(r, c) == s.O[c] - s.S[c](r), 'r') for c in range(m)])
        out.append(('the regressors are (simulated - observed) summaries, one column per summary name in order (one sign convention for the whole matrix)',
                    z3.And(X.shape[0] == s.n, X.shape[1] == m, z3.Or(plus, minus))))
        for i, mm in enumerate(s.models):
            Xfit, yfit = mm.fits[0]
            res = outs[s.pnames[i]]
            k, sel, rank, msk = masks[i].select()
            out.append(('parameter %d: the regression sees exactly the rows where every regressor and the parameter are finite' % i,
                        z3.And(masks[i].shape[0] == s.n,
                               forall_range(0, s.n, lambda r, i=i: masks[i].at(r) == z3.And(z3.And([FIN(X.at(r, c)) for c in range(m)]), FIN(s.th[i](r))), 'r'))))
            out.append(('parameter %d: fitted regressors / responses are those rows of X / theta, in order' % i,
                        z3.And(Xfit.shape[0] == k, yfit.shape[0] == k, Xfit.shape[1] == m,
                               forall_range(0, k, lambda j, i=i: z3.And(yfit.at(j) == s.th[i](sel(j)), z3.And([Xfit.at(j, c) == X.at(sel(j), c) for c in range(m)])), 'j'))))
            out.append(('parameter %d: the adjusted values are (fitted responses) - (fitted regressors) . coef_ of the regression fitted on them' % i,
                        z3.And(z3.BoolVal(isinstance(res, SArr) and res.ndim == 1), res.shape[0] == k,
                               z3.Implies(mm.G, res.at(j0) == yfit.at(j0) - mm.D(m)))))
            out.append(('parameter %d: a fitted row whose regressors are all zero (simulated = observed) is returned unchanged' % i,
                        z3.Implies(z3.And(mm.G, mm.Z), res.at(j0) == yfit.at(j0))))
        return out

    def witness(self, vc, model, ob):
        return dict(function='adjust_posterior', p=self.p)


# ---------------------------------------------------------------- ghost lemmas (lemmas/c17_lemmas.py)
class LemmaSumExt(Contract):
    """pointwise equal summands on [0,n) give equal prefix sums at every m <= n"""
    target = '@verif/lemmas/c17_lemmas.py::lemma_sum_ext'
    prop = 'C17'
    fin = 5

    def setup(self, vc):
        n, m = z3.Ints('n m')
        a, b, A, Bp = [z3.Function(x, I, R) for x in ('a', 'b', 'A', 'Bp')]
        hyp, goal = stmt_sum_ext(n, a, b, A, Bp, m)
        vc.fin_bounds.extend([n, m])
        s = NS(n=n, m=m, a=a, b=b, A=A, Bp=Bp, hyp=hyp, goal=goal)
        vc._s = s
        return s, (SInt(m),), {}

    def env(self, vc):
        s = vc._s

        def inst(j):
            j = T(j)            # instances at j of the quantified hypotheses (recursion equations, pointwise equality)
            vc.assume(z3.Implies(z3.And(0 <= j, j < s.n), z3.And(s.A(j + 1) == s.A(j) + s.a(j), s.Bp(j + 1) == s.Bp(j) + s.b(j), s.a(j) == s.b(j))))
        return dict(inst=inst)

    def requires(self, s):
        return [s.hyp]

    loops = {0: Loop(inv=lambda s, l: [z3.And(0 <= T(l.j), T(l.j) <= s.m), s.A(T(l.j)) == s.Bp(T(l.j))])}

    def ensures(self, s, result):
        return [('A(m) = B(m)', s.goal)]


class LemmaSignCancels(Contract):
    """flipping the sign convention of the regressors flips the least-squares slope with it (assumed OLS contract, sanity-tested) and
    theta - X.b is unchanged: sum_c (-x_c)(-b_c) = sum_c x_c b_c"""
    target = '@verif/lemmas/c17_lemmas.py::lemma_sign_cancels'
    prop = 'C17'
    fin = 5

    def setup(self, vc):
        m = z3.Int('m')
        th = z3.Real('theta')
        x, b, P, Pn = [z3.Function(nm, I, R) for nm in ('x', 'b', 'P', 'Pn')]
        vc.fin_bounds.append(m)
        s = NS(m=m, th=th, x=x, b=b, P=P, Pn=Pn)
        vc._s = s
        return s, (SInt(m),), {}

    def env(self, vc):
        s = vc._s

        def use_sum_ext(m):
            hyp, goal = stmt_sum_ext(s.m, lambda c: (-s.x(c)) * (-s.b(c)), lambda c: s.x(c) * s.b(c), s.Pn, s.P)
            vc.oblige('call-pre[lemma_sum_ext hypotheses]', hyp)
            vc.assume(goal)                 # proved by LemmaSumExt
        return dict(use_sum_ext=use_sum_ext)

    def requires(self, s):
        return [s.m >= 0, prefix_def(s.P, s.m, lambda c: s.x(c) * s.b(c)), prefix_def(s.Pn, s.m, lambda c: (-s.x(c)) * (-s.b(c)))]

    def ensures(self, s, result):
        return [('theta - (-x).(-b) = theta - x.b', s.th - s.Pn(s.m) == s.th - s.P(s.m))]


# ---------------------------------------------------------------- compare_models
def cm_inputs(vc, M, priors, tag=''):
    """M sample stubs with symbolic sizes, discrepancy vectors and simulation counts; optional prior weights"""
    ns = [z3.Int('n%s%d' % (tag, j)) for j in range(M)]
    sims = [z3.Int('n_sim%s%d' % (tag, j)) for j in range(M)]
    d = [z3.Function('d%s%d' % (tag, j), I, R) for j in range(M)]
    objs = [make_object('SampleStub', attrs=dict(n_samples=SInt(ns[j]), n_sim=SInt(sims[j]),
                                                 discrepancies=SArr.from_fn((lambda t, f=d[j]: f(t)), (ns[j],), 'real'))) for j in range(M)]
    pri = [z3.Real('prior%s%d' % (tag, j)) for j in range(M)] if priors else None
    return NS(M=M, ns=ns, sims=sims, dv=d, objs=objs, pri=pri)


def cm_spec(x):
    """block offsets, total size, n_min and the concatenated discrepancy of the property statement (from the inputs only)"""
    low = [z3.IntVal(0)]
    for n in x.ns:
        low.append(low[-1] + n)
    nmin = x.ns[0]
    for n in x.ns[1:]:
        nmin = z3.If(n < nmin, n, nmin)

    def dcat(g):
        r = x.dv[-1](g - low[x.M - 1])
        for j in reversed(range(x.M - 1)):
            r = z3.If(g < low[j + 1], x.dv[j](g - low[j]), r)
        return r
    return NS(low=low, N=low[-1], nmin=nmin, dcat=dcat)


def cm_pre(x, positive=True):
    out = [z3.And([n >= (1 if positive else 0) for n in x.ns]), z3.And([q >= 1 for q in x.sims])]
    if x.pri is not None and positive:
        out.append(z3.And([w > 0 for w in x.pri]))
    return out


def cm_priors_arg(x):
    return None if x.pri is None else SArr.from_fn(lambda i: _ite_chain(i, x.pri), (x.M,), 'real')


def _ite_chain(i, vals):
    r = vals[-1]
    for k in reversed(range(len(vals) - 1)):
        r = z3.If(i == k, vals[k], r)
    return r


def weight_term(k, sim, pri):
    """the property's unnormalised weight: count / n_sim * prior weight (1 when no prior weights are given)"""
    return z3.ToReal(k) / z3.ToReal(sim) * (pri if pri is not None else 1)


def stmt_weight_sign(k, sim, pri, w):
    """k >= 0, n_sim >= 1, prior > 0, w = k / n_sim * prior  =>  w >= 0, and w > 0 when k >= 1   (proved: LemmaWeightSign)"""
    hyp = z3.And(k >= 0, sim >= 1, (pri > 0) if pri is not None else z3.BoolVal(True), w == weight_term(k, sim, pri))
    return hyp, z3.And(w >= 0, z3.Implies(k >= 1, w > 0))


def stmt_normalise(ws, Sn, qs):
    """S = sum w_i != 0, q_i = w_i / S  =>  sum q_i = 1   (proved: LemmaNormalise)"""
    hyp = z3.And([Sn == _bi.sum(ws[1:], ws[0]), Sn != 0] + [q == w / Sn for q, w in zip(qs, ws)])
    return hyp, _bi.sum(qs[1:], qs[0]) == 1


def stmt_unit_interval(ws, Sn, qs):
    """w_i >= 0, S = sum w_i > 0, q_i = w_i / S  =>  0 <= q_i <= 1   (proved: LemmaNormalise)"""
    hyp = z3.And([Sn == _bi.sum(ws[1:], ws[0]), Sn > 0] + [w >= 0 for w in ws] + [q == w / Sn for q, w in zip(qs, ws)])
    return hyp, z3.And([z3.And(q >= 0, q <= 1) for q in qs])


class LemmaWeightSign(Contract):
    """field arithmetic, isolated from everything else: count / n_sim * prior is non-negative, and positive for a positive count"""
    target = '@verif/lemmas/c17_lemmas.py::lemma_weight_sign'
    prop = 'C17'
    fin = 4

    def __init__(self, priors):
        self.priors = priors
        self.label = 'prior-weights' if priors else 'no-priors'

    def setup(self, vc):
        k, sim = z3.Ints('k n_sim')
        pri, w = z3.Reals('prior w')
        vc.fin_bounds.extend([k, sim])
        hyp, goal = stmt_weight_sign(k, sim, pri if self.priors else None, w)
        return NS(hyp=hyp, goal=goal), (), {}

    def requires(self, s):
        return [s.hyp]

    def ensures(self, s, result):
        return [('w >= 0, and w > 0 when the count is positive', s.goal)]


class LemmaNormalise(Contract):
    """field arithmetic, isolated: the quotients w_i / sum(w) sum to one; they lie in [0, 1] when the weights are non-negative"""
    target = '@verif/lemmas/c17_lemmas.py::lemma_normalise'
    prop = 'C17'
    fin = 4

    def __init__(self, M):
        self.M = M
        self.label = '%d-weights' % M

    def setup(self, vc):
        ws = [z3.Real('w%d' % i) for i in range(self.M)]
        qs = [z3.Real('q%d' % i) for i in range(self.M)]
        Sn = z3.Real('S')
        ks = [z3.Int('k%d' % i) for i in range(self.M)]
        vc.fin_bounds.extend(ks)
        s = NS(ws=ws, qs=qs, Sn=Sn, ks=ks)
        return s, (), {}

    def requires(self, s):
        return [s.Sn == _bi.sum(s.ws[1:], s.ws[0])] + [q == w / s.Sn for q, w in zip(s.qs, s.ws)]

    def ensures(self, s, result):
        return [('sum != 0: the quotients sum to one', use(stmt_normalise(s.ws, s.Sn, s.qs))),
                ('non-negative weights with a positive sum: every quotient is in [0, 1]', use(stmt_unit_interval(s.ws, s.Sn, s.qs))),
                ('non-negative weights, one of them positive: the sum is positive', use(stmt_pos_sum(s.ws, s.Sn, s.ks)))]


def stmt_pos_sum(ws, Sn, ks):
    """S = sum w_i, w_i >= 0, w_i > 0 when count_i >= 1, some count_i >= 1  =>  S > 0   (linear; proved in isolation: LemmaNormalise)"""
    hyp = z3.And([Sn == _bi.sum(ws[1:], ws[0])] + [z3.And(w >= 0, z3.Implies(k >= 1, w > 0)) for w, k in zip(ws, ks)] + [z3.Or([k >= 1 for k in ks])])
    return hyp, Sn > 0


def stmt_quot_of(A, w, Bt, Sn, q):
    """A = w, B = S, q = w / S  =>  A / B = q   (congruence of division; FieldLemma)"""
    return z3.And(A == w, Bt == Sn, q == w / Sn), A / Bt == q


def stmt_quot_cong(w, pr, Sn, S, q):
    """w = p, S' = S, q = w / S'  =>  q = p / S   (congruence of division; proved in isolation: FieldLemma)"""
    return z3.And(w == pr, Sn == S, q == w / Sn), q == pr / S


def stmt_weight_cong(k1, k2, sim, pri, w1, w2):
    """equal counts give equal weights (congruence; FieldLemma)"""
    return z3.And(k1 == k2, w1 == weight_term(k1, sim, pri), w2 == weight_term(k2, sim, pri)), w1 == w2


def stmt_quot_eq(w1, S1, q1, w2, S2, q2):
    """equal weights over equal normalisers give equal quotients (congruence; FieldLemma)"""
    return z3.And(w1 == w2, S1 == S2, q1 == w1 / S1, q2 == w2 / S2), q1 == q2


class FieldLemma(Contract):
    """one-line facts of real arithmetic, each proved in isolation (no quantifier anywhere near) and used through explicit instances"""
    target = '@verif/lemmas/c17_lemmas.py::lemma_field'
    prop = 'C17'
    fin = 4

    def __init__(self, which):
        self.which = which
        self.label = which

    def setup(self, vc):
        Rs = lambda names: [z3.Real(n) for n in names.split()]
        if self.which == 'quotient-congruence':
            stmt = stmt_quot_cong(*Rs('w p Sn S q'))
        elif self.which == 'quotient-of-equals':
            stmt = stmt_quot_of(*Rs('A w B S q'))
        elif self.which == 'weight-congruence':
            k1, k2, sim = z3.Ints('k1 k2 n_sim')
            vc.fin_bounds.extend([k1, k2, sim])
            stmt = stmt_weight_cong(k1, k2, sim, z3.Real('prior'), z3.Real('w1'), z3.Real('w2'))
        elif self.which == 'weight-congruence-no-priors':
            k1, k2, sim = z3.Ints('k1 k2 n_sim')
            vc.fin_bounds.extend([k1, k2, sim])
            stmt = stmt_weight_cong(k1, k2, sim, None, z3.Real('w1'), z3.Real('w2'))
        else:
            stmt = stmt_quot_eq(*Rs('w1 S1 q1 w2 S2 q2'))
        return NS(hyp=stmt[0], goal=stmt[1]), (), {}

    def requires(self, s):
        return [s.hyp]

    def ensures(self, s, result):
        return [(self.which, s.goal)]


def cm_final_sum_hook(M, x, store, positive=True, argsort_ord=0, sum_ord=0):
    """ghost steps at the final p_models.sum().  The nonlinear terms are NAMED by fresh constants (w_i := count_i / n_sim_i * prior_i,
    S := sum w_i, q_i := w_i / S: definitions of fresh constants, conservative) and every fact about them comes from an isolated field-arithmetic
    lemma (LemmaWeightSign, LemmaNormalise), so that each step below is linear / congruence reasoning over ground facts of the path condition."""
    def h(vc, rec):
        ps, arr = rec['ps'], rec['arr']
        ks = [vc.libcalls['np.sum'][sum_ord + i]['mask'].select()[0] for i in range(M)]
        pri = lambda i: None if x.pri is None else x.pri[i]
        w = [vc.fresh('w%d' % i, R) for i in range(M)]
        Sn = vc.fresh('S', R)
        q = [vc.fresh('q%d' % i, R) for i in range(M)]
        defs = [w[i] == weight_term(ks[i], x.sims[i], pri(i)) for i in range(M)]
        for i in range(M):
            vc.assume(defs[i])                                       # definition of the fresh constant w_i
        vc.assume(Sn == _bi.sum(w[1:], w[0]))                        # definition of S
        for i in range(M):
            vc.assume(q[i] == w[i] / Sn)                             # definition of q_i
        for i in range(M):
            vc.cut('slot %d of the weight vector holds w_%d = count_%d / n_sim_%d * prior_%d' % (i, i, i, i, i), arr.at(i) == w[i])
        vc.cut('the running sum starts at zero', ps(0) == 0)
        for j in range(M):
            vc.cut('unfold the sum of the %d unnormalised weights at %d' % (M, j), ps(j + 1) == ps(j) + arr.at(j))
        vc.cut('the normaliser computed by the code is S = sum of the w_i', T(rec['res']) == Sn)
        store.append(NS(w=w, Sn=Sn, q=q, ks=ks, arr=arr, res=T(rec['res']), pr=[weight_term(ks[i], x.sims[i], pri(i)) for i in range(M)], sims=list(x.sims), pri=[pri(i) for i in range(M)]))
        if not positive:
            return
        p = vc.libcalls['np.argsort'][argsort_ord]
        vc.cut('the first sorted index is a valid position', z3.Implies(p.n >= 1, z3.And(0 <= p.pi(0), p.pi(0) < p.n)))
        firsts = []
        for i in range(M):
            mk = vc.libcalls['np.sum'][sum_ord + i]['mask']
            k, sel, rank, msk = mk.select()
            firsts.append((msk.shape[0], msk.at(0)))
            vc.cut('model %d: a counted first draw makes the count positive' % i, z3.And(k >= 0, z3.Implies(z3.And(msk.shape[0] >= 1, msk.at(0)), k >= 1)))
        vc.cut('the smallest draw belongs to some model and is counted for it', z3.Or([z3.And(n_ >= 1, f_) for n_, f_ in firsts]))
        vc.cut('some count is positive', z3.Or([k >= 1 for k in ks]))
        for i in range(M):
            hyp, goal = stmt_weight_sign(ks[i], x.sims[i], pri(i), w[i])
            vc.assume(z3.Implies(hyp, goal))                         # LemmaWeightSign
            vc.cut('w_%d is non-negative, and positive when count_%d is' % (i, i), goal)
        hyp, goal = stmt_pos_sum(w, Sn, ks)
        vc.assume(z3.Implies(hyp, goal))                             # LemmaNormalise (positive sum)
        vc.cut('the normaliser is positive', goal)
    return h


def cm_exit_steps(vc, nm, result, M, positive):
    """ghost steps at the exit of one compare_models call: the returned probabilities are the named quotients; LemmaNormalise instances"""
    if not isinstance(result, SArr) or result.ndim != 1:
        return
    for i in range(M):
        hyp, goal = stmt_quot_of(nm.arr.at(i), nm.w[i], nm.res, nm.Sn, nm.q[i])
        vc.assume(z3.Implies(hyp, goal))                             # FieldLemma quotient-of-equals
        vc.cut('the code divides slot %d by the normaliser: that is the quotient q_%d = w_%d / S' % (i, i, i), goal)
        vc.cut('probability_%d is the quotient q_%d = w_%d / S' % (i, i, i), result.at(i) == nm.q[i])
    S = nm.pr[0]
    for t in nm.pr[1:]:
        S = S + t
    vc.cut('S is the sum of the weights p_i = count_i / n_sim_i * prior_i of the statement', nm.Sn == S)
    for i in range(M):
        hyp, goal = stmt_quot_cong(nm.w[i], nm.pr[i], nm.Sn, S, nm.q[i])
        vc.assume(z3.Implies(hyp, goal))                             # FieldLemma quotient-congruence
        vc.cut('q_%d = p_%d / sum_j p_j' % (i, i), goal)
    hyp, goal = stmt_normalise(nm.w, nm.Sn, nm.q)
    vc.assume(z3.Implies(hyp, goal))                                 # LemmaNormalise
    vc.cut('the quotients sum to one when S != 0', z3.Implies(nm.Sn != 0, goal))
    if positive:
        hyp, goal = stmt_unit_interval(nm.w, nm.Sn, nm.q)
        vc.assume(z3.Implies(hyp, goal))                             # LemmaNormalise
        vc.cut('every quotient is in [0, 1]', goal)


class CompareModels(Contract):
    target = MS + 'compare_models'
    prop = 'C17'
    fin = 3

    def __init__(self, M, priors, guarded=False):
        self.M, self.priors, self.guarded = M, priors, guarded
        self.label = '%d-models,%s%s' % (M, 'prior-weights' if priors else 'no-priors', ',any-sign' if guarded else '')
        self.fin_range = 3 * M + 1
        if guarded:
            self.options = {'div_check': False}

    def setup(self, vc):
        x = cm_inputs(vc, self.M, self.priors)
        vc.fin_bounds.extend(x.ns + x.sims)
        s = NS(x=x, sp=cm_spec(x))
        return s, (list(x.objs),), dict(model_priors=cm_priors_arg(x))

    def requires(self, s):
        return cm_pre(s.x, positive=not self.guarded)

    def hooks(self, s):
        s.names = []
        hk = {('np.sum', self.M): cm_final_sum_hook(self.M, s.x, s.names, positive=not self.guarded)}
        hk[('np.argsort', 0)] = cm_order_hook(s.sp)
        for i in range(self.M):
            hk[('np.sum', i)] = cm_count_hook(i, s.sp)
        return hk

    def lemmas_at_exit(self, s, result):
        if len(s.names) == 1:
            cm_exit_steps(cur(), s.names[0], result, self.M, positive=not self.guarded)
        return []

    def ensures(self, s, result):
        return cm_posts(cur(), s.x, s.sp, result, 0, 0, guarded=self.guarded)

    def witness(self, vc, model, ob):
        return cm_witness(s_x=None, model=model, M=self.M, priors=self.priors)


def cm_order_clauses(p, sp):
    N, nmin, dcat = sp.N, sp.nmin, sp.dcat
    return [('the order is taken over the concatenation of the discrepancy vectors, in list order',
             z3.And(p.n == N, forall_range(0, N, lambda g: p.of.at(g) == dcat(g), 'g'))),
            ('the n_min counted draws are jointly smallest: no uncounted draw is smaller than a counted one (free choice among ties)',
             forall2_range(0, N, lambda t, g: z3.Implies(z3.And(t < nmin, p.pinv(g) >= nmin), dcat(p.pi(t)) <= dcat(g))))]


def cm_inblock(i, p, sp):
    return lambda t: z3.And(sp.low[i] <= p.pi(t), p.pi(t) < sp.low[i + 1])


def cm_count_clause(i, p, sp, k, sel, rank):
    inblock, nmin = cm_inblock(i, p, sp), sp.nmin
    return ('count_%d = |{t < n_min : low_%d <= inds[t] < low_%d + n_%d}|, low_%d = sum of the earlier sample sizes (bijection witness)' % (i, i, i, i, i),
            z3.And(k >= 0,
                   forall_range(0, k, lambda j: z3.And(0 <= sel(j), sel(j) < nmin, inblock(sel(j)), rank(sel(j)) == j), 'j'),
                   forall_range(0, nmin, lambda t: z3.Implies(inblock(t), z3.And(0 <= rank(t), rank(t) < k, sel(rank(t)) == t)), 't')))


def cm_order_hook(sp, argsort_ord=0):
    """ghost steps right at np.argsort (small path condition): the two order clauses of the postcondition, via named intermediate steps"""
    def h(vc, p):
        N, nmin, dcat = sp.N, sp.nmin, sp.dcat
        (n1, f1), (n2, f2) = cm_order_clauses(p, sp)
        vc.cut('the sorted array has one entry per draw of every model', p.n == N)
        vc.cut(n1, f1)
        vc.cut('0 <= n_min <= N', z3.And(0 <= nmin, nmin <= N))
        V = vc.fresh_fn('joint', I, R)
        vc.assume(forall_range(0, N, lambda g: V(g) == dcat(g), 'g'))          # definition of a fresh function: V names the joint sample (short terms)
        vc.cut('the sorted array is the joint sample V', forall_range(0, N, lambda g: p.of.at(g) == V(g), 'g'))
        vc.cut('a sorted position holds a valid index whose rank is that position',
               forall_range(0, N, lambda t: z3.And(0 <= p.pi(t), p.pi(t) < N, p.pinv(p.pi(t)) == t), 't'))
        vc.cut('the order sorts V (rank form)', forall2_range(0, N, lambda i, j: z3.Implies(p.pinv(i) <= p.pinv(j), V(i) <= V(j))))
        vc.cut('an index ranked below n_min holds a value not above that of an index ranked at or above n_min',
               forall2_range(0, N, lambda i, j: z3.Implies(z3.And(p.pinv(i) < nmin, p.pinv(j) >= nmin), V(i) <= V(j))))
        vc.cut('jointly smallest, read on V',
               forall2_range(0, N, lambda t, g: z3.Implies(z3.And(t < nmin, p.pinv(g) >= nmin), V(p.pi(t)) <= V(g))))
        vc.cut('V at a sorted position is the joint sample there', forall_range(0, N, lambda t: V(p.pi(t)) == dcat(p.pi(t)), 't'))
        vc.cut(n2, f2)
    return h


def cm_count_hook(i, sp, argsort_ord=0, nmin_fact=None):
    """ghost steps right at the i-th mask sum: the count clause of the postcondition, via the pointwise reading of the mask"""
    def h(vc, rec):
        p = vc.libcalls['np.argsort'][argsort_ord]
        k, sel, rank, msk = rec['mask'].select()
        if nmin_fact is not None:
            vc.cut('n_min does not depend on the order', nmin_fact)
        vc.cut('model %d: the mask has one entry per counted draw' % i, z3.And(msk.shape[0] == sp.nmin, k >= 0))
        vc.cut('model %d: an entry of the mask says whether the sorted draw lies in the block of the model' % i,
               forall_range(0, sp.nmin, lambda t: msk.at(t) == cm_inblock(i, p, sp)(t), 't'))
        nm, f = cm_count_clause(i, p, sp, k, sel, rank)
        vc.cut(nm, f)
    return h


def cm_posts(vc, x, sp, result, argsort_ord, sum_ord, guarded=False):
    """postconditions of one compare_models call (argsort_ord / sum_ord: ordinals of its first np.argsort / np.sum library calls)"""
    M = x.M
    if not isinstance(result, SArr) or result.ndim != 1 or len(vc.libcalls.get('np.argsort', [])) <= argsort_ord or \
            len(vc.libcalls.get('np.sum', [])) < sum_ord + M + 1:
        return [('the result is a vector computed from one argsort and one count per model', z3.BoolVal(False))]
    p = vc.libcalls['np.argsort'][argsort_ord]
    out = cm_order_clauses(p, sp)
    ks = []
    for i in range(M):
        rec = vc.libcalls['np.sum'][sum_ord + i]
        if 'mask' not in rec:
            return out + [('count %d is the sum of a boolean mask' % i, z3.BoolVal(False))]
        k, sel, rank, msk = rec['mask'].select()
        ks.append(k)
        out.append(cm_count_clause(i, p, sp, k, sel, rank))
    pr = [weight_term(ks[i], x.sims[i], None if x.pri is None else x.pri[i]) for i in range(M)]
    S = pr[0]
    for q in pr[1:]:
        S = S + q
    tot = result.at(0)
    for i in range(1, M):
        tot = tot + result.at(i)
    g = (lambda f: z3.Implies(S != 0, f)) if guarded else (lambda f: f)
    out.append(('one probability per model', result.shape[0] == M))
    out.append(('probability_i = p_i / sum_j p_j with p_i = count_i / n_sim_i * prior_i' + (' (whenever sum_j p_j != 0)' if guarded else ''),
                g(z3.And([result.at(i) == pr[i] / S for i in range(M)]))))
    out.append(('the probabilities sum to one' + (' (whenever sum_j p_j != 0)' if guarded else ''), g(tot == 1)))
    if not guarded:
        out.append(('every sample non-empty, n_sim >= 1, positive prior weights: the normaliser is positive and the probabilities are in [0, 1]',
                    z3.And(S > 0, z3.And([z3.And(result.at(i) >= 0, result.at(i) <= 1) for i in range(M)]))))
    return out


def cm_witness(s_x, model, M, priors):
    ev = lambda t: str(model.eval(t, model_completion=True))
    w = dict(function='compare_models', M=M)
    try:
        ns = [int(ev(z3.Int('n%d' % j))) for j in range(M)]
        w['n_samples'] = ns
        w['n_sim'] = [int(ev(z3.Int('n_sim%d' % j))) for j in range(M)]
        w['discrepancies'] = [[ev(z3.Function('d%d' % j, I, R)(z3.IntVal(t))) for t in range(max(0, min(ns[j], 8)))] for j in range(M)]
        if priors:
            w['priors'] = [ev(z3.Real('prior%d' % j)) for j in range(M)]
    except Exception as e:
        w['witness_error'] = str(e)
    return w


# ---------------------------------------------------------------- permutation covariance: counts do not depend on the list order
def perm_axioms(N, pi, pinv):
    return forall_range(0, N, lambda i: z3.And(0 <= pi(i), pi(i) < N, pinv(pi(i)) == i, 0 <= pinv(i), pinv(i) < N, pi(pinv(i)) == i), 'i')


def sorted_by(N, pi, d):
    return forall2_range(0, N, lambda i, j: z3.Implies(i <= j, d(pi(i)) <= d(pi(j))))


def count_witness(k, sel, rank, nmin, member):
    """k = |{t < nmin : member(t)}|, witnessed by the bijection (sel, rank)"""
    return z3.And(k >= 0,
                  forall_range(0, k, lambda u: z3.And(0 <= sel(u), sel(u) < nmin, member(sel(u)), rank(sel(u)) == u), 'u'),
                  forall_range(0, nmin, lambda t: z3.Implies(member(t), z3.And(0 <= rank(t), rank(t) < k, sel(rank(t)) == t)), 't'))


def ph_range(n, m, f):
    return forall_range(0, n, lambda i: z3.And(0 <= f(i), f(i) < m), 'i')


def ph_inj(n, f):
    return forall2_range(0, n, lambda i, j: z3.Implies(i != j, f(i) != f(j)))


def pigeonhole(n, m, f):
    """Lean-certified (lemmas/L1.lean, pigeonhole_range): an injection of [0,n) into [0,m) forces n <= m.
    The two quantified hypotheses are built by ph_range / ph_inj: a contract cuts exactly these formulas, so the instance fires propositionally."""
    return z3.Implies(z3.And(n >= 0, m >= 0, ph_range(n, m, f), ph_inj(n, f)), n <= m)


def reindex_pieces(a):
    N = a.N
    return [('phi / psi are mutually inverse bijections of [0,N)', forall_range(0, N, lambda g: z3.And(0 <= a.phi(g), a.phi(g) < N, a.psi(a.phi(g)) == g,
                                                                                                       0 <= a.psi(g), a.psi(g) < N, a.phi(a.psi(g)) == g), 'g')),
            ('the second ordering is the first one re-indexed by phi', forall_range(0, N, lambda g: a.d2(g) == a.d1(a.phi(g)), 'g')),
            ('phi maps the positions of the model in the second ordering onto its positions in the first', forall_range(0, N, lambda g: a.in2(g) == a.in1(a.phi(g)), 'g'))]


def counts_agree_hyps(a, counts=True):
    """a: NS(N, nmin, d1, d2, pi1, pinv1, pi2, pinv2, phi, psi, in1, in2, k1, sel1, rank1, k2, sel2, rank2).
    Two orderings of the same joint sample (d2 = d1 o phi, phi a bijection of [0,N) with inverse psi, mapping the positions of one model's draws in
    the second order onto its positions in the first), each sorted by its own argsort, no tie at the cut of the first."""
    N, nmin = a.N, a.nmin
    return [('1 <= n_min <= N', z3.And(1 <= nmin, nmin <= N)),
            ('pi1 is a permutation of [0,N)', perm_axioms(N, a.pi1, a.pinv1)),
            ('pi1 sorts the first ordering', sorted_by(N, a.pi1, a.d1)),
            ('pi2 is a permutation of [0,N)', perm_axioms(N, a.pi2, a.pinv2)),
            ('pi2 sorts the second ordering', sorted_by(N, a.pi2, a.d2)),
            ] + reindex_pieces(a)[:2] + [
            ('no tie at the cut', z3.Or(nmin == N, a.d1(a.pi1(nmin - 1)) < a.d1(a.pi1(nmin)))),
            reindex_pieces(a)[2]] + ([
            ('k1 counts the chosen draws of the model in the first ordering', count_witness(a.k1, a.sel1, a.rank1, nmin, lambda t: a.in1(a.pi1(t)))),
            ('k2 counts the chosen draws of the model in the second ordering', count_witness(a.k2, a.sel2, a.rank2, nmin, lambda t: a.in2(a.pi2(t))))] if counts else [])


def chosen_claim(a, first_to_second):
    """chosen in one ordering => chosen in the other:  A: pinv1(g) < nmin => pinv2(psi g) < nmin;  B: pinv2(g) < nmin => pinv1(phi g) < nmin"""
    here, there, mp = (a.pinv1, a.pinv2, a.psi) if first_to_second else (a.pinv2, a.pinv1, a.phi)
    return forall_range(0, a.N, lambda g: z3.Not(z3.And(here(g) < a.nmin, there(mp(g)) >= a.nmin)), 'g')


CHOSEN_NEEDS = ('1 <= n_min <= N', 'pi1 is a permutation of [0,N)', 'pi1 sorts the first ordering', 'pi2 is a permutation of [0,N)', 'pi2 sorts the second ordering',
                'phi / psi are mutually inverse bijections of [0,N)', 'the second ordering is the first one re-indexed by phi', 'no tie at the cut')
COUNT_NEEDS = ('1 <= n_min <= N', 'pi1 is a permutation of [0,N)', 'pi2 is a permutation of [0,N)', 'phi / psi are mutually inverse bijections of [0,N)',
               'phi maps the positions of the model in the second ordering onto its positions in the first',
               'k1 counts the chosen draws of the model in the first ordering', 'k2 counts the chosen draws of the model in the second ordering')


def stmt_chosen(a, first_to_second):
    """LemmaChosen: two sorted orderings of one joint sample, no tie at the cut of the first => a draw chosen in one is chosen in the other"""
    hyps = dict(counts_agree_hyps(a, counts=False))
    return z3.And([hyps[nm] for nm in CHOSEN_NEEDS]), chosen_claim(a, first_to_second)


def stmt_counts_agree(a):
    """LemmaCountsAgree: the same draws are chosen in both orderings => a model has the same number of chosen draws in both"""
    hyps = dict(counts_agree_hyps(a))
    return z3.And([hyps[nm] for nm in COUNT_NEEDS] + [chosen_claim(a, True), chosen_claim(a, False)]), a.k1 == a.k2


def abstract_orderings(vc):
    N, nmin, k1, k2 = z3.Ints('N nmin k1 k2')
    fI = lambda nm: z3.Function(nm, I, I)
    a = NS(N=N, nmin=nmin, k1=k1, k2=k2, d1=z3.Function('d1', I, R), d2=z3.Function('d2', I, R), in1=z3.Function('in1', I, B), in2=z3.Function('in2', I, B),
           pi1=fI('pi1'), pinv1=fI('pinv1'), pi2=fI('pi2'), pinv2=fI('pinv2'), phi=fI('phi'), psi=fI('psi'),
           sel1=fI('sel1'), rank1=fI('rank1'), sel2=fI('sel2'), rank2=fI('rank2'))
    vc.fin_bounds.extend([N, nmin, k1, k2])
    return a


class LemmaChosen(Contract):
    """with no tie at the cut, the n_min jointly smallest draws are the same draws whatever the order of the model list (two pigeonhole instances)"""
    target = '@verif/lemmas/c17_lemmas.py::lemma_chosen_stays_chosen'
    prop = 'C17'
    fin = 3
    fin_range = 4

    def __init__(self, first_to_second):
        self.dir = first_to_second
        self.label = 'first-to-second' if first_to_second else 'second-to-first'

    def setup(self, vc):
        a = abstract_orderings(vc)
        hyp, goal = stmt_chosen(a, self.dir)
        s = NS(a=a, hyp=hyp, goal=goal)
        vc._s = s
        return s, (self.dir,), {}

    def requires(self, s):
        return [s.hyp]

    def env(self, vc):
        return LemmaCountsAgree.env(self, vc)

    def ensures(self, s, result):
        return [('chosen in one ordering => chosen in the other (%s)' % self.label, s.goal)]


class LemmaCountsAgree(Contract):
    """when the same draws are chosen in both orderings (LemmaChosen), a model has the same number of chosen draws in both (two pigeonhole instances)"""
    target = '@verif/lemmas/c17_lemmas.py::lemma_counts_agree'
    prop = 'C17'
    fin = 3
    fin_range = 4

    def setup(self, vc):
        a = abstract_orderings(vc)
        hyp, goal = stmt_counts_agree(a)
        s = NS(a=a, hyp=hyp, goal=goal)
        vc._s = s
        return s, (), {}

    def requires(self, s):
        return [s.hyp]

    def env(self, vc):
        a = vc._s.a
        N, nmin = a.N, a.nmin
        tau = a.d1(a.pi1(nmin - 1))

        def chosen_stays_chosen(first_to_second):
            """Claim A (first_to_second) : pinv1(g) < nmin => pinv2(psi g) < nmin;  Claim B: pinv2(g) < nmin => pinv1(phi g) < nmin.
            A counterexample g0 is named by a Skolem constant; the pigeonhole instance refutes it."""
            g0 = vc.fresh_int('g0')
            if first_to_second:
                here, there, mp = a.pinv1, a.pinv2, a.psi
            else:
                here, there, mp = a.pinv2, a.pinv1, a.phi
            bad = lambda g: z3.And(here(g) < nmin, there(mp(g)) >= nmin)
            claim = chosen_claim(a, first_to_second)
            vc.assume(z3.Implies(exists_range(0, N, bad, 'g'), z3.And(0 <= g0, g0 < N, bad(g0))))       # Skolem definition of the fresh constant g0
            Bd = z3.And(0 <= g0, g0 < N, bad(g0))
            vc.cut('a counterexample needs a proper cut', z3.Implies(Bd, z3.And(nmin < N, tau < a.d1(a.pi1(nmin)))))
            if first_to_second:
                t0 = a.pinv2(a.psi(g0))
                f = lambda t: a.pinv1(a.phi(a.pi2(t)))
                vc.cut('A1: the counterexample is not above the cut value', z3.Implies(Bd, z3.And(a.d1(g0) <= tau, a.d2(a.pi2(t0)) == a.d1(g0), 0 <= t0, t0 < N)))
                vc.cut('A2: everything sorted before it in the second ordering is not above the cut value',
                       z3.Implies(Bd, forall_range(0, t0 + 1, lambda t: a.d2(a.pi2(t)) <= tau, 't')))
                vc.cut('A3a: the maps involved undo each other there',
                       z3.Implies(Bd, forall_range(0, t0 + 1, lambda t: z3.And(0 <= a.pi2(t), a.pi2(t) < N, a.pinv2(a.pi2(t)) == t, 0 <= a.phi(a.pi2(t)), a.phi(a.pi2(t)) < N,
                                                                               a.psi(a.phi(a.pi2(t))) == a.pi2(t), a.pi1(f(t)) == a.phi(a.pi2(t)), 0 <= f(t), f(t) < N), 't')))
                vc.cut('A3b: ... and the draw keeps its value', z3.Implies(Bd, forall_range(0, t0 + 1, lambda t: a.d1(a.pi1(f(t))) == a.d2(a.pi2(t)), 't')))
                vc.cut('A3c: everything sorted at or after the cut of the first ordering is above the cut value',
                       z3.Implies(Bd, forall_range(nmin, N, lambda u: tau < a.d1(a.pi1(u)), 'u')))
                vc.cut('A3: ... hence chosen in the first ordering', z3.Implies(Bd, ph_range(t0 + 1, nmin, f)))
                vc.cut('A4: injectively', z3.Implies(Bd, ph_inj(t0 + 1, f)))
                vc.cut('A5: sizes', z3.Implies(Bd, z3.And(t0 + 1 >= 0, nmin >= 0)))
                vc.assume(z3.Implies(Bd, pigeonhole(t0 + 1, nmin, f)))
            else:
                t0 = a.pinv2(g0)
                f = lambda t: a.pinv2(a.psi(a.pi1(t)))
                vc.cut('B1: the counterexample is above the cut value', z3.Implies(Bd, z3.And(a.d2(g0) > tau, a.d2(a.pi2(t0)) == a.d2(g0), 0 <= t0, t0 < nmin)))
                vc.cut('B3a: the maps involved undo each other there',
                       z3.Implies(Bd, forall_range(0, nmin, lambda t: z3.And(0 <= a.pi1(t), a.pi1(t) < N, a.pinv1(a.pi1(t)) == t, 0 <= a.psi(a.pi1(t)), a.psi(a.pi1(t)) < N,
                                                                             a.phi(a.psi(a.pi1(t))) == a.pi1(t), a.pi2(f(t)) == a.psi(a.pi1(t)), 0 <= f(t), f(t) < N), 't')))
                vc.cut('B2a: a draw chosen in the first ordering is not above the cut value', z3.Implies(Bd, forall_range(0, nmin, lambda t: a.d1(a.pi1(t)) <= tau, 't')))
                vc.cut('B2b: ... and keeps its value in the second ordering', z3.Implies(Bd, forall_range(0, nmin, lambda t: a.d2(a.pi2(f(t))) == a.d1(a.pi1(t)), 't')))
                vc.cut('B2c: everything sorted at or after the counterexample in the second ordering is above the cut value',
                       z3.Implies(Bd, forall_range(t0, N, lambda u: tau < a.d2(a.pi2(u)), 'u')))
                vc.cut('B2: every draw chosen in the first ordering is sorted before it in the second', z3.Implies(Bd, ph_range(nmin, t0, f)))
                vc.cut('B4: injectively', z3.Implies(Bd, ph_inj(nmin, f)))
                vc.cut('B5: sizes', z3.Implies(Bd, z3.And(nmin >= 0, t0 >= 0)))
                vc.assume(z3.Implies(Bd, pigeonhole(nmin, t0, f)))
            vc.cut('there is no counterexample', z3.Not(Bd))
            vc.cut('chosen in one ordering <=> chosen in the other (this direction)', claim)

        def count_le(first_to_second):
            if first_to_second:
                k, kk, sel, pi, pinv, inn, mp, unmp = a.k1, a.k2, a.sel1, a.pi1, a.pinv1, a.in1, a.psi, a.phi
                pi_o, pinv_o, in_o, rk, back = a.pi2, a.pinv2, a.in2, a.rank2, a.sel2
            else:
                k, kk, sel, pi, pinv, inn, mp, unmp = a.k2, a.k1, a.sel2, a.pi2, a.pinv2, a.in2, a.phi, a.psi
                pi_o, pinv_o, in_o, rk, back = a.pi1, a.pinv1, a.in1, a.rank1, a.sel1
            g = lambda u: pi(sel(u))                 # the u-th counted draw (position in this ordering's concatenation)
            go = lambda u: mp(g(u))                  # the same draw in the other ordering's concatenation
            h = lambda u: pinv_o(go(u))              # its sorted position there
            f = lambda u: rk(h(u))                   # its rank among the draws counted there
            vc.cut('C0a: a counted draw is a chosen draw of the model', forall_range(0, k, lambda u: z3.And(0 <= g(u), g(u) < N, pinv(g(u)) == sel(u), pinv(g(u)) < nmin, inn(g(u))), 'u'))
            vc.cut('C0b: it is a draw of the same model in the other ordering',
                   forall_range(0, k, lambda u: z3.And(0 <= go(u), go(u) < N, unmp(go(u)) == g(u), in_o(go(u))), 'u'))
            vc.cut('C0c: ... chosen there as well', forall_range(0, k, lambda u: z3.And(0 <= h(u), h(u) < nmin, pi_o(h(u)) == go(u)), 'u'))
            vc.cut('C1a: ... hence counted there', forall_range(0, k, lambda u: back(f(u)) == h(u), 'u'))
            vc.cut('C1: its rank there is a valid rank', ph_range(k, kk, f))
            vc.cut('C2: distinct counted draws have distinct positions in the other ordering', forall2_range(0, k, lambda i, j: z3.Implies(h(i) == h(j), sel(i) == sel(j))))
            vc.cut('C3: ... and distinct ranks', ph_inj(k, f))
            vc.cut('C4: sizes', z3.And(k >= 0, kk >= 0))
            vc.assume(pigeonhole(k, kk, f))
            vc.cut('count inequality', k <= kk)
        return dict(chosen_stays_chosen=chosen_stays_chosen, count_le=count_le)

    def ensures(self, s, result):
        return [('k1 = k2', s.goal)]


def reindex_maps(perm, sp, sp2):
    """phi: position in the permuted concatenation -> position of the same draw in the original one; psi its inverse; block predicates"""
    M = len(perm)
    inv = [perm.index(i) for i in range(M)]

    def phi(g):
        r = g - sp2.low[M - 1] + sp.low[perm[M - 1]]
        for j in reversed(range(M - 1)):
            r = z3.If(g < sp2.low[j + 1], g - sp2.low[j] + sp.low[perm[j]], r)
        return r

    def psi(g):
        r = g - sp.low[M - 1] + sp2.low[inv[M - 1]]
        for i in reversed(range(M - 1)):
            r = z3.If(g < sp.low[i + 1], g - sp.low[i] + sp2.low[inv[i]], r)
        return r
    in1 = [(lambda g, i=i: z3.And(sp.low[i] <= g, g < sp.low[i + 1])) for i in range(M)]
    in2 = [(lambda g, j=j: z3.And(sp2.low[j] <= g, g < sp2.low[j + 1])) for j in range(M)]
    return phi, psi, in1, in2


def reindex_facts(perm, x, sp, sp2):
    """the facts about the block re-indexing that LemmaCountsAgree needs (sizes only): named formulas"""
    M = len(perm)
    phi, psi, in1, in2 = reindex_maps(perm, sp, sp2)
    out = [('n_min and the total size do not depend on the order', z3.And(sp2.N == sp.N, sp2.nmin == sp.nmin, 1 <= sp.nmin, sp.nmin <= sp.N))]
    for j in range(M):
        a = NS(N=sp.N, d1=sp.dcat, d2=sp2.dcat, phi=phi, psi=psi, in1=in1[perm[j]], in2=in2[j])
        for nm, f in (reindex_pieces(a) if j == 0 else reindex_pieces(a)[2:]):
            out.append(('model %d of the permuted list: %s' % (j, nm), f))
    return out


def permuted_inputs(x, perm):
    return NS(M=x.M, ns=[x.ns[j] for j in perm], sims=[x.sims[j] for j in perm], dv=[x.dv[j] for j in perm], objs=[x.objs[j] for j in perm],
              pri=None if x.pri is None else [x.pri[j] for j in perm])


class LemmaReindex(Contract):
    """the block re-indexing between the concatenation of a model list and of the permuted list: mutually inverse bijections of [0,N) that carry
    each model's block onto its block and each draw onto itself (pure integer arithmetic on the sample sizes; isolated from the calls)"""
    target = '@verif/lemmas/c17_lemmas.py::lemma_reindexing'
    prop = 'C17'
    fin = 3

    def __init__(self, perm):
        self.perm = tuple(perm)
        self.M = len(perm)
        self.label = 'order-%s' % ''.join(str(j) for j in perm)
        self.fin_range = 3 * self.M + 1

    def setup(self, vc):
        x = cm_inputs(vc, self.M, False)
        vc.fin_bounds.extend(x.ns)
        s = NS(x=x, x2=permuted_inputs(x, self.perm))
        s.sp, s.sp2 = cm_spec(x), cm_spec(s.x2)
        vc._s = s
        return s, (), {}

    def requires(self, s):
        return [z3.And([n >= 1 for n in s.x.ns])]

    def env(self, vc):
        def blocks():
            """ghost: block by block first (simple case analyses), so that the whole-range facts are one instantiation away"""
            s = vc._s
            M, perm = self.M, self.perm
            sp, sp2 = s.sp, s.sp2
            phi, psi, in1, in2 = reindex_maps(perm, sp, sp2)
            for j in range(M):
                i = perm[j]
                vc.cut('block %d of the permuted concatenation is block %d of the original one' % (j, i),
                       forall_range(sp2.low[j], sp2.low[j + 1], lambda g: z3.And(phi(g) == g - sp2.low[j] + sp.low[i], psi(phi(g)) == g,
                                                                                 sp2.dcat(g) == s.x.dv[i](g - sp2.low[j]), sp.dcat(phi(g)) == s.x.dv[i](g - sp2.low[j])), 'g'))
                vc.cut('block %d of the original concatenation is block %d of the permuted one' % (i, j),
                       forall_range(sp.low[i], sp.low[i + 1], lambda g: z3.And(psi(g) == g - sp.low[i] + sp2.low[j], phi(psi(g)) == g), 'g'))
        return {'blocks': blocks}

    def ensures(self, s, result):
        return reindex_facts(self.perm, s.x, s.sp, s.sp2)


class PermutedModels(Contract):
    """two calls of the REAL compare_models: on a model list and on the list permuted by `perm` (list2[j] = list1[perm[j]], prior weights
    permuted alike).  If there is no tie at the cut (the n_min-th and (n_min+1)-th smallest joint discrepancies differ, or every draw is counted)
    the probabilities are permuted alike.  With a tie at the cut the counts depend on argsort's tie order: not a function of the multiset."""
    target = '@verif/lemmas/c17_lemmas.py::lemma_permuted_models'
    prop = 'C17'
    fin = 3

    def __init__(self, perm, priors):
        self.perm, self.priors = tuple(perm), priors
        self.M = len(perm)
        self.label = 'order-%s,%s' % (''.join(str(j) for j in perm), 'prior-weights' if priors else 'no-priors')
        self.fin_range = 3 * self.M + 1

    def setup(self, vc):
        M, perm = self.M, self.perm
        x = cm_inputs(vc, M, self.priors)
        vc.fin_bounds.extend(x.ns + x.sims)
        x2 = permuted_inputs(x, perm)
        s = NS(x=x, x2=x2, sp=cm_spec(x), sp2=cm_spec(x2))
        vc._s = s
        return s, (list(x.objs), cm_priors_arg(x), list(x2.objs), cm_priors_arg(x2)), {}

    def env(self, vc):
        return {'compare_models': inline(vc, MS + 'compare_models')}

    def requires(self, s):
        return cm_pre(s.x)

    def hooks(self, s):
        """ghost steps anchored at the library calls: the count of every model right where it is computed (small path condition),
        the naming of weights / normaliser / quotients at the two final sums"""
        M, perm = self.M, self.perm
        s.names, s.count_cut = [], {}
        sp, sp2 = s.sp, s.sp2
        phi, psi, in1, in2 = reindex_maps(perm, sp, sp2)

        def at_count(call, idx):
            def h(vc, rec):
                p = vc.libcalls['np.argsort'][call]
                k, sel, rank, msk = rec['mask'].select()
                if call == 1 and idx == 0:
                    vc.cut('n_min does not depend on the order', sp2.nmin == sp.nmin)
                vc.cut('call %d, model %d: the mask has one entry per counted draw' % (call + 1, idx), z3.And(msk.shape[0] == sp.nmin, k >= 0))
                member = (lambda t: in1[idx](p.pi(t))) if call == 0 else (lambda t: in2[idx](p.pi(t)))
                vc.cut('call %d, model %d: an entry of the mask says whether the sorted draw belongs to the model' % (call + 1, idx),
                       forall_range(0, sp.nmin, lambda t: msk.at(t) == member(t), 't'))
                f = count_witness(k, sel, rank, sp.nmin, member)
                vc.cut('call %d, model %d: the count is the number of its draws among the n_min smallest (bijection witness)' % (call + 1, idx), f)
                s.count_cut[(call, idx)] = f
            return h
        hk = {('np.sum', M): cm_final_sum_hook(M, s.x, s.names, True, 0, 0), ('np.sum', 2 * M + 1): cm_final_sum_hook(M, s.x2, s.names, True, 1, M + 1)}
        for i in range(M):
            hk[('np.sum', i)] = at_count(0, i)
            hk[('np.sum', M + 1 + i)] = at_count(1, i)
        return hk

    def lemmas_at_exit(self, s, result):
        vc = cur()
        M, perm = self.M, self.perm
        if len(vc.libcalls.get('np.argsort', [])) != 2 or len(vc.libcalls.get('np.sum', [])) != 2 * M + 2:
            return []
        p1, p2 = vc.libcalls['np.argsort']
        sp, sp2 = s.sp, s.sp2
        N, nmin = sp.N, sp.nmin
        phi, psi, in1, in2 = reindex_maps(perm, sp, sp2)
        vc.cut('call 1 sorts the concatenation in list order', z3.And(p1.n == N, forall_range(0, N, lambda g: p1.of.at(g) == sp.dcat(g), 'g')))
        vc.cut('the total size does not depend on the order', sp2.N == N)
        vc.cut('call 2 sorts the concatenation in the permuted order', z3.And(p2.n == N, forall_range(0, N, lambda g: p2.of.at(g) == sp2.dcat(g), 'g')))
        s.H = z3.Or(nmin == N, sp.dcat(p1.pi(nmin - 1)) < sp.dcat(p1.pi(nmin)))
        # facts about the block re-indexing between the two concatenations: they depend on the sample sizes only (proved: LemmaReindex)
        vc.assume(z3.Implies(z3.And([n >= 1 for n in s.x.ns]), z3.And([f for _, f in reindex_facts(perm, s.x, sp, sp2)])))
        early = {nm for nm, _ in reindex_pieces(NS(N=N, d1=sp.dcat, d2=sp2.dcat, phi=phi, psi=psi, in1=in1[0], in2=in2[0]))}
        for j in range(M):
            i = perm[j]
            k1, sel1, rank1, _ = vc.libcalls['np.sum'][i]['mask'].select()
            k2, sel2, rank2, _ = vc.libcalls['np.sum'][M + 1 + j]['mask'].select()
            a = NS(N=N, nmin=nmin, d1=sp.dcat, d2=sp2.dcat, pi1=p1.pi, pinv1=p1.pinv, pi2=p2.pi, pinv2=p2.pinv, phi=phi, psi=psi,
                   in1=in1[i], in2=in2[j], k1=k1, sel1=sel1, rank1=rank1, k2=k2, sel2=sel2, rank2=rank2)
            for nm, f in counts_agree_hyps(a):
                if nm == 'no tie at the cut' or nm in early:
                    continue                       # the re-indexing facts come from LemmaReindex
                if j > 0 and not (nm.startswith('k1 ') or nm.startswith('k2 ')):
                    continue                       # the order facts were cut for j = 0 (same formulas)
                done = s.count_cut.get((0, i) if nm.startswith('k1 ') else (1, j)) if nm.startswith(('k1 ', 'k2 ')) else None
                if done is not None and done.eq(f):
                    continue                       # cut at the library call that computed the count
                vc.cut('model %d of the permuted list: %s' % (j, nm), f)
            if j == 0:
                for d in (True, False):
                    hyp, goal = stmt_chosen(a, d)
                    vc.assume(z3.Implies(hyp, goal))     # proved by LemmaChosen
                    vc.cut('no tie at the cut: a draw chosen in one call is chosen in the other (%s)' % ('1 -> 2' if d else '2 -> 1'), z3.Implies(s.H, goal))
            hyp, goal = stmt_counts_agree(a)
            vc.assume(z3.Implies(hyp, goal))         # proved by LemmaCountsAgree
            vc.cut('model %d of the permuted list is counted as model %d of the original list' % (j, i), z3.Implies(s.H, k1 == k2))
        if len(s.names) == 2 and isinstance(result, tuple) and len(result) == 2:
            n1, n2 = s.names
            cm_exit_steps(vc, n1, result[0], M, True)
            cm_exit_steps(vc, n2, result[1], M, True)
            for j in range(M):
                i = perm[j]
                hyp, goal = stmt_weight_cong(n2.ks[j], n1.ks[i], n1.sims[i], n1.pri[i], n2.w[j], n1.w[i])
                vc.assume(z3.Implies(hyp, goal))                     # FieldLemma weight-congruence
                vc.cut('model %d of the permuted list has the weight of model %d of the original list' % (j, i), z3.Implies(s.H, goal))
            vc.cut('the normaliser does not depend on the order', z3.Implies(s.H, n2.Sn == n1.Sn))
            for j in range(M):
                i = perm[j]
                hyp, goal = stmt_quot_eq(n2.w[j], n2.Sn, n2.q[j], n1.w[i], n1.Sn, n1.q[i])
                vc.assume(z3.Implies(hyp, goal))                     # FieldLemma quotient-equality
                vc.cut('model %d of the permuted list has the quotient of model %d of the original list' % (j, i), z3.Implies(s.H, goal))
        return []

    def ensures(self, s, result):
        if not s.has('H') or not (isinstance(result, tuple) and len(result) == 2 and _bi.all(isinstance(r, SArr) and r.ndim == 1 for r in result)):
            return [('two result vectors from two argsorts and one count per model and call', z3.BoolVal(False))]
        r1, r2 = result
        return [('no tie at the cut: permuting the model list permutes the probabilities',
                 z3.Implies(s.H, z3.And(r1.shape[0] == self.M, r2.shape[0] == self.M, z3.And([r2.at(j) == r1.at(self.perm[j]) for j in range(self.M)]))))]

    def witness(self, vc, model, ob):
        return cm_witness(None, model, self.M, self.priors)


# ---------------------------------------------------------------- compare_models for ANY number of models (loop invariant)
class SymSeq(Sym):
    """python list of symbolic length M whose j-th element is gen(j) (a proxy); produced by a comprehension over a ModelList"""

    def __init__(self, M, gen):
        self.M, self.gen, self.t = M, gen, None

    def _vc_len(self):
        return SInt(self.M)

    def __iter__(self):
        raise OutOfSubset('python iteration over a list of symbolic length')


class ModelList(Sym):
    """the list of Sample objects: symbolic length M >= 1; element j has n_samples = n(j), n_sim = sim(j), discrepancies = d(j, .) of length n(j)"""

    def __init__(self, M, nf, simf, df):
        self.M, self.nf, self.simf, self.df, self.t = M, nf, simf, df, None

    def elem(self, j):
        return make_object('SampleStub', attrs=dict(n_samples=SInt(self.nf(j)), n_sim=SInt(self.simf(j)),
                                                    discrepancies=SArr.from_fn((lambda t: self.df(j, t)), (self.nf(j),), 'real')))

    def _vc_len(self):
        return SInt(self.M)

    def __getitem__(self, i):
        j = T(i)
        cur().oblige('call-pre[list index in range]', z3.And(0 <= j, j < self.M))
        return self.elem(j)

    def _vc_listcomp(self, elt, cond):
        if cond is not None:
            raise OutOfSubset('filtered comprehension over the model list')
        return SymSeq(self.M, lambda j: elt(self.elem(j)))

    def __iter__(self):
        raise OutOfSubset('python iteration over a list of symbolic length')


def seq_min(*a):
    """min() of a non-empty sequence of integers: a lower bound that is attained (at the recorded index `arg`)"""
    if len(a) == 1 and isinstance(a[0], SymSeq):
        q = a[0]
        vc = cur()
        vc.oblige('call-pre[min of a non-empty sequence]', q.M >= 1)
        mn, jm = vc.fresh_int('min'), vc.fresh_int('argmin')
        vc.assume(forall_range(0, q.M, lambda j: mn <= T(q.gen(j)), 'j'), 0 <= jm, jm < q.M, mn == T(q.gen(jm)))
        vc.libcall('min', dict(min=mn, arg=jm))
        return SInt(mn)
    from pyvc import pyspec
    return pyspec.vc_min(*a)


def seq_concatenate_at(OFF):
    """numpy.concatenate of a list of M 1-D arrays laid out at the offsets OFF (the caller's prefix sums of the lengths: call-pre OFF(0) = 0,
    OFF(j+1) = OFF(j) + len(j) - these equations determine the offsets): total length OFF(M) and result[OFF(j) + t] = arrays[j][t] for t < len(j)"""
    def seq_concatenate(seq, axis=0):
        if not isinstance(seq, SymSeq):
            return npspec.concatenate(seq, axis)
        vc = cur()
        M = seq.M
        probe = seq.gen(z3.IntVal(0))
        if not isinstance(probe, SArr) or probe.ndim != 1:
            raise OutOfSubset('concatenate over a list whose elements are not 1-D arrays')
        ln = lambda j: seq.gen(j).shape[0]
        vc.oblige('call-pre[concatenate: at least one array]', M >= 1)
        vc.oblige('call-pre[concatenate: the offsets are the prefix sums of the lengths]',
                  z3.And(OFF(0) == 0, forall_range(0, M, lambda j: z3.And(OFF(j + 1) == OFF(j) + ln(j), ln(j) >= 0), 'j')))
        cat = vc.fresh_fn('cat', I, R)
        vc.assume(forall_range(0, M, lambda j: forall_range(0, ln(j), lambda t: cat(OFF(j) + t) == seq.gen(j).at(t), 't'), 'j'))
        out = SArr(Cell(lambda g: cat(g), (OFF(M),), 'real'))
        vc.libcall('np.concatenate', dict(res=out, seq=seq))
        return out
    return seq_concatenate


class GhostCounts:
    """ghost record of the counting step of every visited model: CNT(j), and the bijection (SEL(j, .), RANK(j, .)) that witnesses it"""

    def __init__(self):
        z = lambda *a: z3.IntVal(0)
        self.CNT, self.SEL, self.RANK = z, z, z

    def _vc_havoc(self, name):
        vc = cur()
        c, se, ra = vc.fresh_fn('CNT', I, I), vc.fresh_fn('SEL', I, I, I), vc.fresh_fn('RANK', I, I, I)
        self.CNT, self.SEL, self.RANK = (lambda j: c(j)), (lambda j, u: se(j, u)), (lambda j, t: ra(j, t))


def stmt_scale_sum(n, a, c, A, Bp):
    """linearity: sum_i a(i)/c = (sum_i a(i))/c   (proved: LemmaScaleSum)"""
    hyp = z3.And(n >= 0, c != 0, prefix_def(A, n, a), prefix_def(Bp, n, lambda i: a(i) / c))
    return hyp, Bp(n) == A(n) / c


def stmt_monotone_cum(n, a_, b_, v, cum):
    """prefix sums of non-negative terms are monotone (proved: LemmaMonotoneCum)"""
    hyp = z3.And(0 <= a_, a_ <= b_, b_ <= n, forall_range(0, n, lambda i: v(i) >= 0, 'i'), prefix_def(cum, n, v))
    return hyp, cum(a_) <= cum(b_)


class LemmaMonotoneCum(Contract):
    """prefix sums of non-negative terms are monotone"""
    target = '@verif/lemmas/c17_lemmas.py::lemma_monotone_cum'
    prop = 'C17'
    fin = 5

    def setup(self, vc):
        n, a_, b_ = z3.Ints('n a b')
        v, cum = [z3.Function(x, I, R) for x in ('v', 'cum')]
        hyp, goal = stmt_monotone_cum(n, a_, b_, v, cum)
        vc.fin_bounds.extend([n, a_, b_])
        s = NS(n=n, a=a_, b=b_, v=v, cum=cum, hyp=hyp, goal=goal)
        vc._s = s
        return s, (SInt(a_), SInt(b_)), {}

    def env(self, vc):
        s = vc._s

        def inst(j):
            j = T(j)
            vc.assume(z3.Implies(z3.And(0 <= j, j < s.n), z3.And(s.cum(j + 1) == s.cum(j) + s.v(j), s.v(j) >= 0)))
        return dict(inst=inst)

    def requires(self, s):
        return [s.hyp]

    loops = {0: Loop(inv=lambda s, l: [z3.And(s.a <= T(l.j), T(l.j) <= s.b), s.cum(s.a) <= s.cum(T(l.j))])}

    def ensures(self, s, result):
        return [('cum(a) <= cum(b)', s.goal)]


class LemmaScaleSum(Contract):
    """linearity of a finite sum: sum_i a(i)/c = (sum_i a(i))/c"""
    target = '@verif/lemmas/c17_lemmas.py::lemma_scale_sum'
    prop = 'C17'
    fin = 5

    def setup(self, vc):
        n = z3.Int('n')
        c = z3.Real('c')
        a, A, Bp = [z3.Function(x, I, R) for x in ('a', 'A', 'Bp')]
        hyp, goal = stmt_scale_sum(n, a, c, A, Bp)
        vc.fin_bounds.append(n)
        s = NS(n=n, c=c, a=a, A=A, Bp=Bp, hyp=hyp, goal=goal)
        vc._s = s
        return s, (SInt(n),), {}

    def env(self, vc):
        s = vc._s

        def inst(j):
            j = T(j)
            vc.assume(z3.Implies(z3.And(0 <= j, j < s.n), z3.And(s.A(j + 1) == s.A(j) + s.a(j), s.Bp(j + 1) == s.Bp(j) + s.a(j) / s.c)))
        return dict(inst=inst)

    def requires(self, s):
        return [s.hyp]

    loops = {0: Loop(inv=lambda s, l: [z3.And(0 <= T(l.j), T(l.j) <= s.n), s.Bp(T(l.j)) == s.A(T(l.j)) / s.c])}

    def ensures(self, s, result):
        return [('sum_i a(i)/c = (sum_i a(i))/c', s.goal)]


class CompareModelsAnyM(Contract):
    """the counting loop under its invariant, for a model list of ANY length M >= 1:
       up_bound = sum of n_j over the visited models;  p_j = |{t < n_min : LOW(j) <= inds[t] < LOW(j+1)}| / n_sim_j * prior_j for every visited j.
    Divisions are not checked here (the concrete-length contracts prove the normaliser positive); the normalisation clauses are stated
    under sum_j p_j != 0."""
    target = MS + 'compare_models'
    prop = 'C17'
    fin = 3
    fin_range = 5          # M <= 2 models of <= 2 draws: positions and offsets up to 4
    comprehensions = True
    options = {'div_check': False}

    def __init__(self, priors):
        self.priors = priors
        self.label = 'any-number-of-models,%s' % ('prior-weights' if priors else 'no-priors')

    def setup(self, vc):
        M = z3.Int('n_models')
        nf, simf, df, LOW, pri = z3.Function('n', I, I), z3.Function('n_sim', I, I), z3.Function('d', I, I, R), z3.Function('LOW', I, I), z3.Function('prior', I, R)
        vc.fin_bounds.append(M)
        s = NS(M=M, nf=nf, simf=simf, df=df, LOW=LOW, pri=(pri if self.priors else (lambda j: z3.RealVal(1))), G=GhostCounts(),
               models=ModelList(M, nf, simf, df))
        # spec function W(c, j) := c / n_sim_j * prior_j, the unnormalised weight of model j when c of its draws are counted.  It is kept opaque
        # in the quantified reasoning (no nonlinear arithmetic under quantifiers); its definition enters as the explicit instance at the point
        # where the code computes the value (ghost step), and in full in finitised mode.
        s.W = z3.Function('weight', I, I, R)
        s.Wdef = lambda c, j: s.W(c, j) == z3.ToReal(c) / z3.ToReal(simf(j)) * s.pri(j)
        if vc.fin is not None:
            vc.axioms = [z3.And([s.Wdef(z3.IntVal(c), z3.IntVal(j)) for c in range(-1, self.fin_range) for j in range(-1, self.fin_range)])]
        s.P = lambda j: s.W(s.G.CNT(j), j)
        vc._s = s
        return s, (s.models,), dict(model_priors=SArr.from_fn(lambda j: pri(j), (M,), 'real') if self.priors else None)

    def env(self, vc):
        return {'min': seq_min, 'np': npspec.module(extra={'concatenate': seq_concatenate_at(vc._s.LOW)})}

    def requires(self, s):
        bound = (lambda j: s.nf(j) < cur().fin) if cur().fin is not None else (lambda j: z3.BoolVal(True))      # finitised mode: small samples
        return [s.M >= 1, forall_range(0, s.M, lambda j: z3.And(s.nf(j) >= 0, bound(j), s.simf(j) >= 1), 'j'),
                s.LOW(0) == 0, forall_range(0, s.M, lambda j: s.LOW(j + 1) == s.LOW(j) + s.nf(j), 'j')]

    def hooks(self, s):
        def at_min(vc, rec):
            """n_min = n(arg) <= LOW(arg+1) <= LOW(M): two instances of the monotonicity of prefix sums of non-negative terms (LemmaMonotoneCum)"""
            jm, mn = rec['arg'], rec['min']
            cum, v = (lambda j: z3.ToReal(s.LOW(j))), (lambda j: z3.ToReal(s.nf(j)))
            vc.assume(use(stmt_monotone_cum(s.M, z3.IntVal(0), jm, v, cum)), use(stmt_monotone_cum(s.M, jm + 1, s.M, v, cum)))
            vc.cut('0 <= n_min <= total number of draws', z3.And(0 <= mn, mn <= s.LOW(s.M)))
        return {('min', 0): at_min}

    # ---- loop 0: for i in range(n_models)
    def _member(self, s, j):
        p = cur().libcalls['np.argsort'][0]
        return lambda t: z3.And(s.LOW(j) <= p.pi(t), p.pi(t) < s.LOW(j + 1))

    def _inv(self, s, l):
        vc = cur()
        idx = l.it.index
        nmin = vc.libcalls['min'][0]['min']
        pm = l.p_models
        return [('up_bound = sum of the sample sizes of the visited models', T(l.up_bound) == s.LOW(idx)),
                ('one slot per model', z3.And(z3.BoolVal(isinstance(pm, SArr) and pm.ndim == 1), pm.shape[0] == s.M)),
                ('visited model j: p_j = W(count_j, j) [= count_j / n_sim_j * prior_j]',
                 forall_range(0, idx, lambda j: pm.at(j) == s.P(j), 'j')),
                ('visited model j: count_j = |{t < n_min : LOW(j) <= inds[t] < LOW(j+1)}| (bijection witness)',
                 forall_range(0, idx, lambda j: count_witness(s.G.CNT(j), lambda u: s.G.SEL(j, u), lambda t: s.G.RANK(j, t), nmin, self._member(s, j)), 'j'))]

    def _ghost_step(self, s, l0, l1):
        """ghost update after the body of iteration i: record the count of this iteration and its witness"""
        vc = cur()
        i0 = l0.h.i
        rec = vc.libcalls['np.sum'][-1]
        if 'mask' not in rec:
            raise OutOfSubset('the count of the iteration is not the sum of a boolean mask')
        k, sel, rank, msk = rec['mask'].select()
        oc, os_, orr = s.G.CNT, s.G.SEL, s.G.RANK
        s.G.CNT = lambda j: z3.If(j == i0, k, oc(j))
        s.G.SEL = lambda j, u: z3.If(j == i0, sel(u), os_(j, u))
        s.G.RANK = lambda j, t: z3.If(j == i0, rank(t), orr(j, t))
        nmin = vc.libcalls['min'][0]['min']
        vc.cut('the mask of this iteration has one entry per counted draw', z3.And(msk.shape[0] == nmin, k >= 0))
        vc.cut('this iteration counts the draws of model i among the n_min smallest',
               count_witness(k, sel, rank, nmin, self._member(s, i0)))
        pm = l1.p_models
        vc.assume(s.Wdef(k, i0))                  # definition of W, instantiated at (count of this iteration, i)
        vc.cut('this iteration stores W(count_i, i) = count_i / n_sim_i * prior_i in slot i', pm.at(i0) == s.W(k, i0))
        vc.cut('... and leaves the slots of the earlier models alone', forall_range(0, i0, lambda j: pm.at(j) == l0.h.pm.at(j), 'j'))

    @property
    def loops(self):
        return {0: Loop(inv=self._inv, modifies=lambda s, l: [l.p_models, s.G], at_head=lambda s, l: dict(i=l.it.index, pm=l.p_models.snapshot()), ghost_step=self._ghost_step)}

    def lemmas_at_exit(self, s, result):
        vc = cur()
        recs = [r for r in vc.libcalls.get('np.sum', []) if 'ps' in r]
        if len(recs) != 1 or 0 not in s.rt.loopstate:
            return []
        rec = recs[-1]
        PS, RS = vc.fresh_fn('PS', I, R), vc.fresh_fn('RS', I, R)
        vc.assume(prefix_def(PS, s.M, s.P))                                   # definitional: PS(j) = sum_{j' < j} p_j'
        S = PS(s.M)
        vc.assume(prefix_def(RS, s.M, lambda j: s.P(j) / S))                  # definitional: RS(j) = sum_{j' < j} p_j' / S
        vc.cut('after the loop every model was visited', forall_range(0, s.M, lambda j: rec['arr'].at(j) == s.P(j), 'j'))
        vc.assume(use(stmt_sum_ext(s.M, lambda j: rec['arr'].at(j), s.P, rec['ps'], PS)))          # LemmaSumExt
        vc.cut('the normaliser is sum_j p_j', T(rec['res']) == S)
        vc.assume(z3.Implies(S != 0, use(stmt_scale_sum(s.M, s.P, S, PS, RS))))                    # LemmaScaleSum
        vc.cut('linearity of the sum', z3.Implies(S != 0, RS(s.M) == S / S))
        s.S, s.RS = S, RS
        return []

    def ensures(self, s, result):
        vc = cur()
        if not s.has('S') or not isinstance(result, SArr) or result.ndim != 1 or 'np.concatenate' not in vc.libcalls:
            return [('the result is a vector computed by one counting loop and one normalisation', z3.BoolVal(False))]
        p = vc.libcalls['np.argsort'][0]
        nmin = vc.libcalls['min'][0]['min']
        N = s.LOW(s.M)
        out = [('n_min is the smallest sample size', z3.And(forall_range(0, s.M, lambda j: nmin <= s.nf(j), 'j'), exists_range(0, s.M, lambda j: nmin == s.nf(j), 'j'))),
               ('the order is taken over the concatenation in list order: position LOW(j) + t holds draw t of model j',
                z3.And(p.n == N, forall_range(0, s.M, lambda j: forall_range(0, s.nf(j), lambda t: p.of.at(s.LOW(j) + t) == s.df(j, t), 't'), 'j'))),
               ('the n_min counted draws are jointly smallest (free choice among ties)',
                forall2_range(0, N, lambda t, g: z3.Implies(z3.And(t < nmin, p.pinv(g) >= nmin), p.of.at(p.pi(t)) <= p.of.at(g)))),
               ('count_j = |{t < n_min : LOW(j) <= inds[t] < LOW(j+1)}| for every model (bijection witness)',
                forall_range(0, s.M, lambda j: count_witness(s.G.CNT(j), lambda u: s.G.SEL(j, u), lambda t: s.G.RANK(j, t), nmin, self._member(s, j)), 'j')),
               ('probability_j = p_j / sum p with p_j = W(count_j, j) := count_j / n_sim_j * prior_j (whenever sum p != 0)',
                z3.And(result.shape[0] == s.M, z3.Implies(s.S != 0, forall_range(0, s.M, lambda j: result.at(j) == s.P(j) / s.S, 'j')))),
               ('the probabilities sum to one (whenever sum p != 0): RS = prefix sums of p_j / sum p', z3.Implies(s.S != 0, s.RS(s.M) == 1))]
        return out

    def witness(self, vc, model, ob):
        return dict(function='compare_models', M='symbolic')


# ---------------------------------------------------------------- invariance under an invertible affine re-expression of the summaries
# Assumed library contract used here (and only here): LinearRegression() / LinearRegression(fit_intercept=True).fit(X, y) sets (intercept_, coef_)
# to A solution of the normal equations of y on [1, X] (residual orthogonal to every column of [1, X]); such a solution always exists.
# Nothing else is assumed: uniqueness is PROVED from full column rank (Gram determinant != 0, Cramer), the transformation of the Gram sums
# under X -> X A by induction over the rows (LemmaGramTransform), and that equal masks select equal rows by induction (LemmaSelectUnique).
def _rsum(xs):
    xs = [x for x in xs if x is not None]
    if not xs:
        return z3.RealVal(0)
    r = xs[0]
    for x in xs[1:]:
        r = r + x
    return r


def _rmul(*fs):
    """product with python 0 / 1 entries folded (block structure of T = diag(1, A))"""
    out = None
    for f in fs:
        if isinstance(f, int):
            if f == 0:
                return None
            continue
        out = f if out is None else out * f
    return z3.RealVal(1) if out is None else out


def aug(Amat):
    """T = diag(1, A): the map on the augmented columns [1, x] -> [1, x A]"""
    d = len(Amat) + 1
    return [[(1 if u == a else 0) if (u == 0 or a == 0) else Amat[u - 1][a - 1] for a in range(d)] for u in range(d)]


class Gram:
    """prefix sums over the rows of the products of the augmented columns z_0 = 1, z_c+1 = x_c: GS[a,b](j) = sum_{i<j} z_a(i) z_b(i) (a <= b),
    YS[a](j) = sum_{i<j} z_a(i) y(i); by their recursion equations"""

    def __init__(self, d, mk):
        self.d = d
        self.GS = {(a, b): mk('GS%d%d' % (a, b)) for a in range(d) for b in range(a, d)}
        self.YS = [mk('YS%d' % a) for a in range(d)]

    def g(self, a, b):
        return self.GS[(_bi.min(a, b), _bi.max(a, b))]

    def defs(self, k, z, y):
        return z3.And([prefix_def(self.GS[(a, b)], k, lambda j, a=a, b=b: z[a](j) * z[b](j)) for (a, b) in self.GS] +
                      [prefix_def(self.YS[a], k, lambda j, a=a: z[a](j) * y(j)) for a in range(self.d)])

    def inst(self, j, z, y):
        return z3.And([self.GS[(a, b)](j + 1) == self.GS[(a, b)](j) + z[a](j) * z[b](j) for (a, b) in self.GS] +
                      [self.YS[a](j + 1) == self.YS[a](j) + z[a](j) * y(j) for a in range(self.d)])

    def at(self, k):
        d = self.d
        return [[self.g(a, b)(k) for b in range(d)] for a in range(d)], [self.YS[a](k) for a in range(d)]


def normal_eqs(G, Y, beta):
    """[1, X]^T [1, X] beta = [1, X]^T y   (G, Y: the Gram sums over all fitted rows; beta = (intercept, slope_0, ...))"""
    d = len(Y)
    return z3.And([_rsum(G[a][b] * beta[b] for b in range(d)) == Y[a] for a in range(d)])


def det_of(M):
    d = len(M)
    if d == 1:
        return M[0][0]
    return _rsum((M[0][c] if c % 2 == 0 else -M[0][c]) * det_of([row[:c] + row[c + 1:] for row in M[1:]]) for c in range(d))


def gram_transformed(T, G, Y):
    d = len(Y)
    Gt = [[_rsum(_rmul(T[u][a], T[v][b], G[u][v]) for u in range(d) for v in range(d)) for b in range(d)] for a in range(d)]
    Yt = [_rsum(_rmul(T[u][a], Y[u]) for u in range(d)) for a in range(d)]
    return Gt, Yt


def stmt_gram_transform(k, z, zp, y, yp, T, g, gp, at=None):
    """same responses (yp = y), rows re-expressed by T (zp_a(j) = sum_u z_u(j) T[u][a]): the Gram sums transform as T^T G T and T^T Y   (proved: LemmaGramTransform)"""
    d = g.d
    hyp = z3.And(k >= 0, g.defs(k, z, y), gp.defs(k, zp, yp),
                 forall_range(0, k, lambda j: z3.And([yp(j) == y(j)] + [zp[a](j) == _rsum(_rmul(T[u][a], z[u](j)) for u in range(d)) for a in range(d)]), 'j'))
    at = k if at is None else at
    (G, Y), (Gp, Yp) = g.at(at), gp.at(at)
    Gt, Yt = gram_transformed(T, G, Y)
    goal = z3.And([Gp[a][b] == Gt[a][b] for a in range(d) for b in range(a, d)] + [Yp[a] == Yt[a] for a in range(d)])
    return hyp, goal


class LemmaGramTransform(Contract):
    """induction over the rows: if every row of [1, X'] is the row of [1, X] times T = diag(1, A), the Gram sums of [1, X'] are T^T G T and T^T Y"""
    target = '@verif/lemmas/c17_lemmas.py::lemma_gram_transform'
    prop = 'C17'
    fin = 4

    def __init__(self, m):
        self.m = m
        self.label = '%d-summaries' % m

    def setup(self, vc):
        m, d = self.m, self.m + 1
        k = z3.Int('k')
        vc.fin_bounds.append(k)
        x = [z3.Function('x%d' % c, I, R) for c in range(m)]
        xp = [z3.Function('xp%d' % c, I, R) for c in range(m)]
        y, yp = z3.Function('y', I, R), z3.Function('yp', I, R)
        A = [[z3.Real('A%d%d' % (u, c)) for c in range(m)] for u in range(m)]
        one = lambda j: z3.RealVal(1)
        s = NS(k=k, z=[one] + [(lambda j, f=f: f(j)) for f in x], zp=[one] + [(lambda j, f=f: f(j)) for f in xp], y=lambda j: y(j), yp=lambda j: yp(j), T=aug(A),
               g=Gram(d, lambda nm: z3.Function(nm, I, R)), gp=Gram(d, lambda nm: z3.Function(nm + 'p', I, R)))
        s.hyp, s.goal = stmt_gram_transform(k, s.z, s.zp, s.y, s.yp, s.T, s.g, s.gp)
        vc._s = s
        return s, (SInt(k),), {}

    def env(self, vc):
        s = vc._s

        def inst(j):
            j = T(j)
            d = s.g.d
            vc.assume(z3.Implies(z3.And(0 <= j, j < s.k),
                                 z3.And(s.g.inst(j, s.z, s.y), s.gp.inst(j, s.zp, s.yp), s.yp(j) == s.y(j),
                                        z3.And([s.zp[a](j) == _rsum(_rmul(s.T[u][a], s.z[u](j)) for u in range(d)) for a in range(d)]))))
        return dict(inst=inst)

    def requires(self, s):
        return [s.hyp]

    @property
    def loops(self):
        return {0: Loop(inv=lambda s, l: [z3.And(0 <= T(l.j), T(l.j) <= s.k), stmt_gram_transform(s.k, s.z, s.zp, s.y, s.yp, s.T, s.g, s.gp, at=T(l.j))[1]])}

    def ensures(self, s, result):
        return [("G' = T^T G T and Y' = T^T Y", s.goal)]


def stmt_affine_ols(G, Y, Gp, Yp, Tm, Ti, beta, betap):
    """(a, b) solves the normal equations of y on [1, X], (a', b') those of y on [1, X'] with Gram sums G' = T^T G T, Y' = T^T Y, T = diag(1, A),
    A invertible, det G != 0 (full column rank of [1, X])  =>  a' = a and A b' = b   (proved: LemmaAffineOLS)"""
    d = len(Y)
    Gt, Yt = gram_transformed(Tm, G, Y)
    hyp = z3.And([normal_eqs(G, Y, beta), normal_eqs(Gp, Yp, betap)] +
                 [Gp[a][b] == Gt[a][b] for a in range(d) for b in range(d)] + [Yp[a] == Yt[a] for a in range(d)] +
                 [_rsum(_rmul(Tm[u][a], Ti[a][w]) for a in range(d)) == (1 if u == w else 0) for u in range(1, d) for w in range(1, d)] +
                 [_rsum(_rmul(Ti[u][a], Tm[a][w]) for a in range(d)) == (1 if u == w else 0) for u in range(1, d) for w in range(1, d)] +
                 [det_of(G) != 0])
    goal = z3.And([beta[u] == _rsum(_rmul(Tm[u][a], betap[a]) for a in range(d)) for u in range(d)])
    return hyp, goal


def stmt_row_product(x, xp, Amat, b, bp):
    """x' = x A (row vector), b = A b'  =>  x' . b' = x . b   (proved: LemmaAffineOLS row-product)"""
    m = len(x)
    hyp = z3.And([xp[c] == _rsum(x[u] * Amat[u][c] for u in range(m)) for c in range(m)] + [b[u] == _rsum(Amat[u][c] * bp[c] for c in range(m)) for u in range(m)])
    return hyp, _rsum(xp[c] * bp[c] for c in range(m)) == _rsum(x[u] * b[u] for u in range(m))


class LemmaAffineOLS(Contract):
    """real algebra in isolation (no quantifier, no program term): uniqueness of the solution of the normal equations under full column rank,
    and the witness A^-1 b for the re-expressed regressors; and the row identity x' . b' = x . b"""
    target = '@verif/lemmas/c17_lemmas.py::lemma_field'
    prop = 'C17'
    fin = 4

    def __init__(self, m, which):
        self.m, self.which = m, which
        self.label = '%s,%d-summaries' % (which, m)

    def setup(self, vc):
        m, d = self.m, self.m + 1
        A = [[z3.Real('A%d%d' % (u, c)) for c in range(m)] for u in range(m)]
        if self.which == 'row-product':
            Rs = lambda nm: [z3.Real('%s%d' % (nm, c)) for c in range(m)]
            hyp, goal = stmt_row_product(Rs('x'), Rs('xp'), A, Rs('b'), Rs('bp'))
            return NS(hyp=hyp, goal=goal), (), {}
        Ai = [[z3.Real('Ai%d%d' % (u, c)) for c in range(m)] for u in range(m)]

        def sym(nm):
            M = [[None] * d for _ in range(d)]
            for u in range(d):
                for v in range(u, d):
                    M[u][v] = M[v][u] = z3.Real('%s%d%d' % (nm, u, v))
            return M
        Rs = lambda nm: [z3.Real('%s%d' % (nm, c)) for c in range(d)]
        hyp, goal = stmt_affine_ols(sym('G'), Rs('Y'), sym('Gp'), Rs('Yp'), aug(A), aug(Ai), Rs('beta'), Rs('betap'))
        return NS(hyp=hyp, goal=goal), (), {}

    def requires(self, s):
        return [s.hyp]

    def ensures(self, s, result):
        return [(self.which, s.goal)]


def stmt_select_unique(n, m1, m2, k1, sel1, rank1, k2, sel2, rank2, upto=None):
    """two boolean masks with the same contents select the same rows: the order-preserving enumeration of the True entries is unique
    (proved: LemmaSelectUnique, induction over the selected rows)"""
    def enum(mk, k, sel, rank):
        return z3.And(k >= 0, k <= n,
                      forall_range(0, k, lambda j: z3.And(0 <= sel(j), sel(j) < n, mk(sel(j)), rank(sel(j)) == j), 'j'),
                      forall_range(0, n, lambda i: z3.Implies(mk(i), z3.And(0 <= rank(i), rank(i) < k, sel(rank(i)) == i)), 'i'),
                      forall_range(0, k, lambda j: forall_range(0, j, lambda i: sel(i) < sel(j), 'i'), 'j'))
    hyp = z3.And(n >= 0, enum(m1, k1, sel1, rank1), enum(m2, k2, sel2, rank2), forall_range(0, n, lambda i: m1(i) == m2(i), 'i'))
    if upto is not None:
        return hyp, z3.And(upto <= k2, forall_range(0, upto, lambda j: sel1(j) == sel2(j), 'j'))
    return hyp, z3.And(k1 == k2, forall_range(0, k1, lambda j: sel1(j) == sel2(j), 'j'))


class LemmaSelectUnique(Contract):
    """numpy boolean-mask selection is a function of the mask's CONTENTS: derived from the enumeration axioms of the library spec, not assumed"""
    target = '@verif/lemmas/c17_lemmas.py::lemma_select_unique'
    prop = 'C17'
    fin = 4

    def setup(self, vc):
        n, k1, k2 = z3.Ints('n k1 k2')
        vc.fin_bounds.extend([n, k1, k2])
        fI, fB = (lambda nm: z3.Function(nm, I, I)), (lambda nm: z3.Function(nm, I, B))
        s = NS(n=n, k1=k1, k2=k2, m1=fB('m1'), m2=fB('m2'), sel1=fI('sel1'), rank1=fI('rank1'), sel2=fI('sel2'), rank2=fI('rank2'))
        s.args = (n, s.m1, s.m2, k1, s.sel1, s.rank1, k2, s.sel2, s.rank2)
        s.hyp, s.goal = stmt_select_unique(*s.args)
        vc._s = s
        return s, (SInt(k1),), {}

    def env(self, vc):
        s = vc._s
        n = s.n

        def facts(mk, k, sel, rank, j=None, i=None, pair=None):
            out = []
            if j is not None:
                out.append(z3.Implies(z3.And(0 <= j, j < k), z3.And(0 <= sel(j), sel(j) < n, mk(sel(j)), rank(sel(j)) == j)))
            if i is not None:
                out.append(z3.Implies(z3.And(0 <= i, i < n, mk(i)), z3.And(0 <= rank(i), rank(i) < k, sel(rank(i)) == i)))
            if pair is not None:
                a, b_ = pair
                out.append(z3.Implies(z3.And(0 <= a, a < b_, b_ < k), sel(a) < sel(b_)))
            return out

        def inst(j):
            """instances (of the quantified hypotheses) that the induction step at row j needs"""
            j = T(j)
            r = s.sel1(j)
            t = s.rank2(r)
            r2 = s.sel2(j)
            u = s.rank1(r2)
            F = facts(s.m1, s.k1, s.sel1, s.rank1, j=j) + [z3.Implies(z3.And(0 <= r, r < n), s.m1(r) == s.m2(r))] + facts(s.m2, s.k2, s.sel2, s.rank2, i=r) + \
                facts(s.m2, s.k2, s.sel2, s.rank2, j=t) + facts(s.m1, s.k1, s.sel1, s.rank1, pair=(t, j)) + facts(s.m2, s.k2, s.sel2, s.rank2, pair=(j, t)) + \
                facts(s.m2, s.k2, s.sel2, s.rank2, j=j) + [z3.Implies(z3.And(0 <= r2, r2 < n), s.m1(r2) == s.m2(r2))] + facts(s.m1, s.k1, s.sel1, s.rank1, i=r2) + \
                facts(s.m1, s.k1, s.sel1, s.rank1, j=u) + facts(s.m1, s.k1, s.sel1, s.rank1, pair=(u, j)) + facts(s.m1, s.k1, s.sel1, s.rank1, pair=(j, u)) + \
                facts(s.m2, s.k2, s.sel2, s.rank2, pair=(u, j))
            vc.assume(*F)
        return dict(inst=inst)

    def requires(self, s):
        return [s.hyp]

    @property
    def loops(self):
        return {0: Loop(inv=lambda s, l: [z3.And(0 <= T(l.j), T(l.j) <= s.k1), stmt_select_unique(*s.args, upto=T(l.j))[1]])}

    def ensures(self, s, result):
        return [('k1 = k2 and sel1 = sel2 on [0, k1)', s.goal)]


PLAIN_OLS_KW = {'fit_intercept': (True,), 'copy_X': (True, False), 'n_jobs': (None, 1), 'positive': (False,)}


def ols_model_class(vc, log):
    """sklearn LinearRegression by its ASSUMED contract: constructed with arguments that leave the estimator ordinary least squares with an
    intercept, fit(X, y) returns self and sets (intercept_, coef_) to a solution of the normal equations of y on [1, X] over the fitted rows.
    Constructed with anything else (fit_intercept=False, positive=True, unknown arguments) NOTHING is known about coef_ and `plain` is False."""
    class OLS:
        def __init__(self_, *a, **kw):
            self_.kw, self_.fits = kw, []
            self_.plain = not a and _bi.all(k in PLAIN_OLS_KW and _bi.any(v is w or (isinstance(v, bool) == isinstance(w, bool) and v == w) for w in PLAIN_OLS_KW[k])
                                            for k, v in kw.items())
            log.append(self_)

        def fit(self_, X, y):
            X, y = X.snapshot(), y.snapshot()
            self_.fits.append((X, y))
            m = conc(X.shape[1])
            if m is None or X.ndim != 2 or y.ndim != 1:
                raise OutOfSubset('regression on a matrix with a symbolic number of columns')
            self_.bf = vc.fresh_fn('coef', I, R)
            self_.icpt = vc.fresh('intercept', R)
            self_.coef_ = SArr.from_fn(lambda c: self_.bf(c), (X.shape[1],), 'real')
            self_.intercept_ = SReal(self_.icpt)
            self_.k = X.shape[0]
            self_.z = [lambda j: z3.RealVal(1)] + [(lambda j, c=c: X.at(j, c)) for c in range(m)]
            self_.y = lambda j: y.at(j)
            self_.beta = [self_.icpt] + [self_.bf(c) for c in range(m)]
            if self_.plain:
                self_.gram = Gram(m + 1, lambda nm: vc.fresh_fn(nm, I, R))
                vc.assume(self_.gram.defs(self_.k, self_.z, self_.y))              # definitional: the Gram sums by their recursion equations
                G, Y = self_.gram.at(self_.k)
                vc.assume(normal_eqs(G, Y, self_.beta))                          # ASSUMED library contract: the normal equations hold
            return self_
    return OLS


class AffineReexpression(Contract):
    """two calls of the REAL adjust_posterior (classes assembled from the real method bodies): on (S, s_obs) and on the re-expressed summaries
    (S A + 1 c^T, s_obs A + c), A invertible.  If a row of the re-expressed differences is finite exactly when the original row is, and
    [1, X_finite] has full column rank, every adjusted value is the same."""
    target = '@verif/lemmas/c17_lemmas.py::lemma_affine_reexpression'
    prop = 'C17'
    fin = 3

    def __init__(self, m):
        self.m = m
        self.label = '%d-summaries' % m

    def setup(self, vc):
        m = self.m
        n, j0 = z3.Ints('n row')
        vc.fin_bounds.extend([n, j0])
        s = NS(n=n, m=m, j0=j0, models=[], created=[], Sample=rec_sample_class())
        s.RA, s.LA = real_adjustment_classes(vc, {'LinearRegression': ols_model_class(vc, s.models)}, s.created)
        snames, pnames = ['s%d' % c for c in range(m)], ['p0']
        s.S = [z3.Function('S%d' % c, I, R) for c in range(m)]
        s.Sp = [z3.Function('Sp%d' % c, I, R) for c in range(m)]
        s.O = [z3.Real('O%d' % c) for c in range(m)]
        s.Op = [z3.Real('Op%d' % c) for c in range(m)]
        s.A = [[z3.Real('A%d%d' % (u, c)) for c in range(m)] for u in range(m)]
        s.Ai = [[z3.Real('Ai%d%d' % (u, c)) for c in range(m)] for u in range(m)]
        s.cv = [z3.Real('c%d' % c) for c in range(m)]
        s.th = z3.Function('theta0', I, R)

        def mk(Sf, Of):
            outputs = {nm: SArr.from_fn((lambda r, f=Sf[c]: f(r)), (n,), 'real') for c, nm in enumerate(snames)}
            outputs['p0'] = SArr.from_fn(lambda r: s.th(r), (n,), 'real')
            model = {nm: make_object('NodeStub', attrs=dict(observed=SArr.from_fn((lambda i, o=Of[c]: o), (1,), 'real'))) for c, nm in enumerate(snames)}
            return sample_stub(outputs, parameter_names=list(pnames)), model
        (s.sample1, s.model1), (s.sample2, s.model2) = mk(s.S, s.O), mk(s.Sp, s.Op)
        s.pnames, s.snames = pnames, snames
        vc._s = s
        return s, (s.sample1, s.model1, s.sample2, s.model2, list(snames), list(pnames)), {}

    def env(self, vc):
        s = vc._s
        return {'np': np_module(), 'all': vc_all, 'results': NS(Sample=s.Sample), 'RegressionAdjustment': s.RA, 'LinearAdjustment': s.LA,
                '_get_adjustment': inline(vc, PP + '_get_adjustment'), 'adjust_posterior': inline(vc, PP + 'adjust_posterior')}

    def _rowfin(self, s, Sf, Of, sign):
        m = self.m
        return lambda r: z3.And([FIN((Sf[c](r) - Of[c]) if sign > 0 else (Of[c] - Sf[c](r))) for c in range(m)])

    def requires(self, s):
        m = self.m
        return [s.n >= 0,
                # the re-expression: s' = s A + c for the simulated AND the observed summaries
                forall_range(0, s.n, lambda r: z3.And([s.Sp[c](r) == _rsum(s.S[u](r) * s.A[u][c] for u in range(m)) + s.cv[c] for c in range(m)]), 'r'),
                z3.And([s.Op[c] == _rsum(s.O[u] * s.A[u][c] for u in range(m)) + s.cv[c] for c in range(m)]),
                # A is invertible
                z3.And([_rsum(s.A[u][a] * s.Ai[a][w] for a in range(m)) == (1 if u == w else 0) for u in range(m) for w in range(m)] +
                       [_rsum(s.Ai[u][a] * s.A[a][w] for a in range(m)) == (1 if u == w else 0) for u in range(m) for w in range(m)]),
                # floats idealised as reals: finiteness is an uninterpreted predicate, so "a row with a non-finite entry stays non-finite and a finite
                # row stays finite under the re-expression" (true of IEEE arithmetic up to overflow) is a hypothesis, for either sign convention
                forall_range(0, s.n, lambda r: z3.And(self._rowfin(s, s.Sp, s.Op, 1)(r) == self._rowfin(s, s.S, s.O, 1)(r),
                                                      self._rowfin(s, s.Sp, s.Op, -1)(r) == self._rowfin(s, s.S, s.O, -1)(r)), 'r')]

    def hooks(self, s):
        def at_dot(i):
            def h(vc, rec):
                mm = s.models[i]
                Xfit = mm.fits[0][0]
                D = vc.fresh_fn('FIT%d' % i, I, R)                  # definitional: D(c) = sum_{c' < c} Xfit[j0, c'] * coef_(c')
                vc.assume(prefix_def(D, z3.IntVal(self.m), lambda c: Xfit.at(s.j0, c) * mm.bf(c)))
                G = z3.And(0 <= s.j0, s.j0 < Xfit.shape[0])
                mm.Z = dot_row_lemmas(vc, rec, G, s.j0, lambda c: Xfit.at(s.j0, c), mm.bf, z3.IntVal(self.m), D)
                mm.D, mm.G = D, G
            return h
        return {('np.sum', i): at_dot(i) for i in range(2)}

    def _ok(self, s, result):
        made = s.Sample.made
        return (len(made) == 2 and isinstance(result, tuple) and len(result) == 2 and result[0] is made[0] and result[1] is made[1] and len(s.models) == 2 and
                _bi.all(len(mm.fits) == 1 and hasattr(mm, 'D') for mm in s.models) and len(s.created) == 2 and
                _bi.all(isinstance(getattr(o, '_X', None), SArr) and o._X.ndim == 2 and isinstance(getattr(o, '_finite', None), list) and len(o._finite) == 1 for o in s.created) and
                _bi.all(isinstance(mk.kw.get('outputs'), dict) and isinstance(mk.kw['outputs'].get('p0'), SArr) and mk.kw['outputs']['p0'].ndim == 1 for mk in made))

    def lemmas_at_exit(self, s, result):
        vc = cur()
        s.ready, s.blocked = False, None

        class _Abandon(Exception):
            pass

        def probe(fact):
            # private 3 s look-ahead: on the unchanged tree every step below closes in < 0.1 s.  When an edit of the code breaks a step, the
            # remaining steps would each run into the full solver budget on each of the 9 paths; instead the chain is abandoned and the path gets ONE
            # fail-closed obligation (tagged over-approximate: refuted + native failing input = VIOLATION, otherwise undecided - never a proof)
            sv = z3.Solver()
            sv.set('timeout', 3000)
            for a_ in list(getattr(vc, 'axioms', []) or []) + list(vc.pc):
                sv.add(a_)
            sv.add(z3.Not(fact))
            return sv.check() == z3.unsat

        class _Steps:
            @staticmethod
            def cut(name, fact):
                if not probe(fact):
                    s.blocked = (name, fact)
                    raise _Abandon()
                vc.cut(name, fact)
        real_vc, vc_ = vc, _Steps
        try:
            self._chain(s, result, real_vc, vc_)
        except _Abandon:
            real_vc.taint('affine lemma chain abandoned at step "%s" (not provable within the look-ahead budget)' % s.blocked[0])
            # ONE fail-closed obligation, stated without the path condition (finding a model of the quantified non-linear path condition costs z3
            # 15-35 s per path): it can never be discharged, and being tagged over-approximate it is a VIOLATION only with a native failing input
            saved = real_vc.pc
            real_vc.pc = []
            try:
                real_vc.oblige('post[affine re-expression: proof step "%s" abandoned; decided only by a native failing input]' % s.blocked[0], z3.BoolVal(False))
            finally:
                real_vc.pc = saved
        return []

    def _chain(self, s, result, vc, steps):
        if not self._ok(s, result) or not _bi.all(mm.plain for mm in s.models):
            return []
        m, d, n, j0 = self.m, self.m + 1, s.n, s.j0
        o1, o2 = s.created
        X1, X2 = o1._X, o2._X
        m1, m2 = s.models
        (Xf1, y1), (Xf2, y2) = m1.fits[0], m2.fits[0]
        steps.cut('both regressor matrices have one row per draw and one column per summary', z3.And(X1.shape[0] == n, X2.shape[0] == n, X1.shape[1] == m, X2.shape[1] == m))
        steps.cut('the regressors of the second call are those of the first call times A (the shift c cancels in simulated - observed)',
               forall_range(0, n, lambda r: z3.And([X2.at(r, c) == _rsum(X1.at(r, u) * s.A[u][c] for u in range(m)) for c in range(m)]), 'r'))
        k1, sel1, rank1, mk1 = o1._finite[0].select()
        k2, sel2, rank2, mk2 = o2._finite[0].select()
        steps.cut('the two calls keep the same rows: the masks have the same contents',
               z3.And(mk1.shape[0] == n, mk2.shape[0] == n, forall_range(0, n, lambda r: mk1.at(r) == mk2.at(r), 'r')))
        hyp, goal = stmt_select_unique(n, lambda i: mk1.at(i), lambda i: mk2.at(i), k1, sel1, rank1, k2, sel2, rank2)
        vc.assume(z3.Implies(hyp, goal))                                           # proved by LemmaSelectUnique
        steps.cut('equal masks select equal rows', goal)
        steps.cut('both regressions see the same number of rows', z3.And(m1.k == k1, m2.k == k1, Xf1.shape[0] == k1, Xf2.shape[0] == k1))
        steps.cut('the second regression sees the same responses', forall_range(0, k1, lambda j: y2.at(j) == y1.at(j), 'j'))
        steps.cut('... and the regressor rows of the first regression times A',
               forall_range(0, k1, lambda j: z3.And([Xf2.at(j, c) == _rsum(Xf1.at(j, u) * s.A[u][c] for u in range(m)) for c in range(m)]), 'j'))
        # the Gram sums of the second regression, re-read over the responses of the first (pointwise equal summands)
        Tm, Ti = aug(s.A), aug(s.Ai)
        steps.cut('the Gram sums of the first regression run over the k selected rows', m1.gram.defs(k1, m1.z, m1.y))
        steps.cut('the Gram sums of the second regression run over the same k rows', m2.gram.defs(k1, m2.z, m2.y))
        hyp, goal = stmt_gram_transform(k1, m1.z, m2.z, m1.y, m2.y, Tm, m1.gram, m2.gram)
        vc.assume(z3.Implies(hyp, goal))                                           # proved by LemmaGramTransform
        steps.cut("the Gram sums of the second regression are T^T G T and T^T Y, T = diag(1, A)", goal)
        (G, Y), (Gp, Yp) = m1.gram.at(k1), m2.gram.at(k1)
        s.fullrank = det_of(G) != 0
        hyp, goal = stmt_affine_ols(G, Y, Gp, Yp, Tm, Ti, m1.beta, m2.beta)
        vc.assume(z3.Implies(hyp, goal))                                           # proved by LemmaAffineOLS
        steps.cut('full column rank: the solution of the normal equations is unique, so slope = A slope\' (and the intercepts agree)', z3.Implies(s.fullrank, goal))
        Gj = z3.And(0 <= j0, j0 < k1)
        hyp, goal = stmt_row_product([Xf1.at(j0, c) for c in range(m)], [Xf2.at(j0, c) for c in range(m)], s.A, m1.beta[1:], m2.beta[1:])
        vc.assume(z3.Implies(hyp, goal))                                           # proved by LemmaAffineOLS row-product
        steps.cut("row j: x' . slope' = x . slope", z3.Implies(z3.And(Gj, s.fullrank), goal))
        steps.cut('row j: the two fitted-value sums agree', z3.Implies(z3.And(Gj, s.fullrank), m2.D(m) == m1.D(m)))
        s.ready, s.Gj, s.k1 = True, Gj, k1
        return []

    def ensures(self, s, result):
        out = [('two result objects, one adjustment object, one regression and one row mask per call', z3.BoolVal(self._ok(s, result))),
               ('each regression is ordinary least squares with an intercept (LinearRegression constructed with its default estimator settings)',
                z3.BoolVal(len(s.models) == 2 and _bi.all(mm.plain for mm in s.models)))]
        if not s.has('ready') or not s.ready:
            return out
        r1, r2 = (mk.kw['outputs']['p0'] for mk in s.Sample.made)
        out.append(('full column rank of [1, X_finite]: the adjusted values are unaffected by the invertible affine re-expression of the summaries (every row j)',
                    z3.And(r1.shape[0] == s.k1, r2.shape[0] == s.k1, z3.Implies(z3.And(s.Gj, s.fullrank), r2.at(s.j0) == r1.at(s.j0)))))
        return out

    def witness(self, vc, model, ob):
        return dict(function='adjust_posterior', affine=True, m=self.m)


CONTRACTS = [InputVariables(1), InputVariables(3), GetFinite(1), GetFinite(2), Pairs(2), Fit(1, True), Fit(2, False), Fit(1, False, refit=True),
             Adjust1(), Adjust(2), AdjustPosterior(1, 'linear'), AdjustPosterior(2, 'instance'),
             LemmaSumExt(), LemmaZeroRow(), LemmaSignCancels(), LemmaScaleSum(), LemmaMonotoneCum(), LemmaWeightSign(True), LemmaWeightSign(False), LemmaNormalise(2), LemmaNormalise(3), FieldLemma('quotient-congruence'), FieldLemma('quotient-of-equals'), FieldLemma('weight-congruence'), FieldLemma('weight-congruence-no-priors'), FieldLemma('quotient-equality'), CompareModelsAnyM(False), CompareModelsAnyM(True), LemmaChosen(True), LemmaChosen(False), LemmaCountsAgree(), LemmaReindex((1, 0)), LemmaReindex((1, 0, 2)), LemmaReindex((0, 2, 1)), PermutedModels((1, 0), True), PermutedModels((1, 0, 2), True), PermutedModels((0, 2, 1), False),
             CompareModels(2, False), CompareModels(2, True), CompareModels(3, False), CompareModels(3, True), CompareModels(3, True, guarded=True),
             LemmaGramTransform(1), LemmaAffineOLS(1, 'unique-solution'), LemmaAffineOLS(1, 'row-product'), LemmaSelectUnique(), AffineReexpression(1)]
TRUSTED_BASE = ['sklearn.linear_model.LinearRegression (assumed library, recording stub): fit(X, y) returns the object itself and sets coef_ to the '
                'least-squares slope of y on X with an intercept, one entry per column (sanity-tested against numpy.linalg.lstsq each run, '
                'including coef_(-X, y) = -coef_(X, y)).  In AffineReexpression the contract is made explicit: constructed with the default estimator '
                'settings (fit_intercept=True, positive=False), (intercept_, coef_) is A solution of the normal equations [1,X]^T [1,X] beta = [1,X]^T y '
                'over the fitted rows (residual orthogonal to every column of [1, X]; sanity-tested); constructed otherwise nothing is known about coef_ '
                'and the clause "ordinary least squares with an intercept" fails.  Uniqueness is NOT assumed (proved from full column rank)',
                'numpy: stack of 1-D arrays along axis 1, isfinite elementwise (uninterpreted finiteness predicate), boolean-mask row selection = '
                'increasing enumeration of the True entries, sum of a boolean array = their number, dot = per-row sum of products, argsort = a '
                'permutation that sorts ascending (tie order unspecified), concatenate (for a list of symbolic length: block j of the result starts at the '
                'prefix sum of the earlier lengths, which the recursion off(0)=0, off(j+1)=off(j)+len(j) determines), basic slicing (pyvc.npspec / local specs; sanity-tested)',
                'python min() of a non-empty sequence: a lower bound that is attained',
                "python: all() is the conjunction of its elements' truth values; list.append / dict insertion order",
                'Lean-certified pigeonhole on initial segments (lemmas/L1.lean), used as explicit instances in the swap lemma',
                'pyvc engine: proxies, path forking, inlining of real callees, spec tables']
ASSUMPTIONS = ['A-REAL: floats are mathematical reals; non-finite values are values on which the uninterpreted predicate `finite` is false (no arithmetic facts about them are used)',
               'A-INT: integers are mathematical',
               'A-LOG: warnings.warn has no effect on program state',
               'scalar summaries and parameters (1-D outputs), observed summaries of shape (1,) as ELFI produces for one observed data set',
               'compare_models: each Sample satisfies its class invariant len(discrepancies) == n_samples; n_sim >= 1; at least one model; lists of summary / parameter '
               'names have concrete lengths 1-3 (array lengths, values, sizes, n_sim and weights are symbolic); division obligations and the permutation lemma: model lists of length 2 and 3',
               'affine re-expression (AffineReexpression, one summary, one parameter - parameters are adjusted independently): hypotheses, not assumptions about the code: '
               'A invertible (A A^-1 = A^-1 A = I), the observed summary is re-expressed with the simulated ones, the finite-row predicate of the re-expressed differences equals '
               'that of the original ones, Gram determinant of [1, X_finite] != 0 (full column rank)',
               'compare_models sums to one only if sum_j p_j != 0: proved (with 0 <= probability <= 1) for non-empty samples and positive prior weights, and as an implication for arbitrary weights']
NOT_PROVED = ['is unaffected by an invertible affine re-expression of the summaries - for TWO OR MORE summaries (bounded stand-in only).  For ONE summary it is now '
              'proved (AffineReexpression: two calls of the real adjust_posterior, any number of draws, non-finite rows, either sign convention, any '
              'invertible A and shift c) under the hypotheses stated there: [1, X_finite] has full column rank (Gram determinant != 0; without it the '
              'least-squares solution is not unique and sklearn returns the minimum-norm one, which is not equivariant) and the finite-row filter '
              'is the same for the original and the re-expressed summaries (finiteness is uninterpreted over the idealised reals).  Blocked for d >= 2 '
              'by the solver only: the Gram-transform induction and the row identity are generic in d, but z3/cvc5 do not decide the uniqueness step '
              '(Cramer on the 3x3 Gram matrix with A A^-1 = I, degree-4 polynomial equalities in 23 unknowns) within the budget, with or without explicit '
              'multiplier instances']
# Paper argument for the clause above (the d = 1 proof follows it step by step; bounded stand-in checks it numerically for d = 1..3): OLS with intercept on regressors D (k x m, full column rank after
# centring) gives fitted deviations D_c b = H_c y with H_c the orthogonal projector on the column space of the centred D_c.  Re-expressing the
# summaries s -> sA + c (A invertible) maps D -> DA (the shift c cancels in simulated - observed), D_c -> D_c A, whose column space, hence H_c, is the
# same; the slope becomes A^{-1} b and (DA)(A^{-1} b) = D b row by row (the intercept absorbs nothing because X.b is evaluated on the UNcentred D and
# DA A^{-1} b = D b exactly).  The finite-row filter is unchanged because a non-finite entry of a row makes the whole re-expressed row non-finite.
# Everything rests on "coef_ is the least-squares slope", which is the assumed contract on sklearn - not a property of ELFI's code.


def sanity():
    import numpy as np
    out = []
    try:
        from sklearn.linear_model import LinearRegression
        rng = np.random.default_rng(7)
        X = rng.normal(size=(12, 3))
        y = X @ np.array([1.5, -2.0, 0.3]) + 0.7 + rng.normal(size=12) * 0.1
        mdl = LinearRegression()
        ret = mdl.fit(X, y)
        ref = np.linalg.lstsq(np.column_stack([np.ones(12), X]), y, rcond=None)[0][1:]
        out.append(('sklearn LinearRegression.fit returns self', ret is mdl))
        out.append(('sklearn coef_ = least-squares slope with intercept (numpy.linalg.lstsq)', bool(mdl.coef_.shape == (3,) and np.allclose(mdl.coef_, ref, atol=1e-10))))
        Z = np.column_stack([np.ones(12), X])
        res = y - mdl.intercept_ - X @ mdl.coef_
        out.append(('sklearn (intercept_, coef_) solve the normal equations: the residual is orthogonal to every column of [1, X]',
                    bool(np.abs(Z.T @ res).max() < 1e-9 and np.abs(Z.T @ Z @ np.concatenate([[mdl.intercept_], mdl.coef_]) - Z.T @ y).max() < 1e-9)))
        m3 = LinearRegression(fit_intercept=True, positive=False).fit(X, y)
        out.append(('sklearn LinearRegression() defaults are fit_intercept=True, positive=False', bool(mdl.fit_intercept is True and mdl.positive is False and np.allclose(m3.coef_, mdl.coef_, atol=1e-12))))
        msk1, msk2 = np.array([True, False, True, True]), np.array([1, 0, 1, 1], bool)
        out.append(('boolean-mask selection depends on the contents of the mask only', bool((X[:4][msk1] == X[:4][msk2]).all())))
        out.append(('sklearn coef_ flips with the sign of the regressors', bool(np.allclose(LinearRegression().fit(-X, y).coef_, -mdl.coef_, atol=1e-10))))
    except Exception as e:
        out.append(('sklearn LinearRegression importable and fits: %s' % e, False))
    a, b = np.array([1.0, 2.0, 3.0]), np.array([4.0, 5.0, 6.0])
    st = np.stack([a, b], axis=1)
    out.append(('np.stack axis=1: result[r, c] = arrays[c][r]', bool(st.shape == (3, 2) and st[2, 0] == 3.0 and st[1, 1] == 5.0)))
    out.append(('broadcast (n, m) - (1, m) subtracts row 0', bool(((st - np.stack([np.array([1.0]), np.array([2.0])], axis=1)) == np.array([[0., 2.], [1., 3.], [2., 4.]])).all())))
    out.append(('np.isfinite is False for inf, -inf, nan', bool((np.isfinite(np.array([np.inf, -np.inf, np.nan, 1.0])) == np.array([False, False, False, True])).all())))
    msk = np.array([True, False, True, True])
    out.append(('boolean mask selects the True rows in increasing order; sum of a mask counts them',
                bool((np.arange(8).reshape(4, 2)[msk, :] == np.array([[0, 1], [4, 5], [6, 7]])).all() and msk.sum() == 3)))
    d = np.array([3.0, 1.0, 2.0, 1.0])
    idx = np.argsort(d)
    out.append(('argsort is a permutation that sorts ascending', bool(sorted(idx.tolist()) == [0, 1, 2, 3] and (np.diff(d[idx]) >= 0).all())))
    out.append(('X.dot(b) is the per-row sum of products', bool(np.allclose(np.arange(6.0).reshape(3, 2).dot(np.array([2.0, -1.0])), [-1.0, 1.0, 3.0]))))
    parts = [np.array([1.0, 2.0]), np.array([]), np.array([3.0]), np.array([4.0, 5.0, 6.0])]
    cat, off = np.concatenate(parts), np.concatenate([[0], np.cumsum([len(q) for q in parts])])
    out.append(('np.concatenate lays block j out at the prefix sum of the earlier lengths',
                bool(len(cat) == off[-1] and all(cat[off[j] + t] == parts[j][t] for j in range(4) for t in range(len(parts[j]))))))
    out.append(('python min() of a non-empty list is an attained lower bound', min([3, 1, 2]) == 1))
    out.append(('python all() over a numpy bool array / a list of bools', all(np.array([True, True])) is True and not all([True, np.False_])))
    return out


def bounded(tier, seed):
    from bounded import c17 as b
    return b.run(tier, seed)


_replay_cache = {}


def replay_refuted(cname, rf):
    """a refuted obligation: first try the finitised counter-model as a native input (compare_models), then search the bounded grid of the
    half of the property the obligation belongs to for a failing input of the executable statement on the real code"""
    from bounded import c17 as b
    half = 'compare' if ('compare_models' in cname or 'lemma_permuted' in cname or 'lemma_counts' in cname) else 'adjust'
    w = rf.get('witness') or {}
    if half == 'compare' and w.get('discrepancies') and all(len(d) >= 1 for d in w['discrepancies']):
        inp = dict(kind='compare', discrepancies=w['discrepancies'], n_sim=w['n_sim'], priors=w.get('priors'), perm=None)
        try:
            what = b.check_compare(inp)
        except Exception as e:
            what = None
        if what:
            return dict(found=True, input=inp, observed=what)
    if half not in _replay_cache:
        r = (b.run_compare if half == 'compare' else b.run_adjust)('thorough', 0, first_failure_only=True)
        if r['failures']:
            f = r['failures'][0]
            _replay_cache[half] = dict(found=True, input=f['input'], observed=f['what'])
        else:
            _replay_cache[half] = dict(found=False, searched=r['bound'], cases=r['cases'])
    return _replay_cache[half]


def replay_input(inp):
    from bounded import c17 as b
    return b.replay_input(inp)


USES_LEAN_LEMMAS = ['L1 pigeonhole']      # re-checked with lean (selftest/lean_check.sh, lemmas/SmtForms.lean) in the thorough tier
