"""C18 - vectorize and external_operation behave as per-row application.

Functions under contract (all in elfi/model/tools.py, bodies read from the tree at run time):
  run_vectorized   one contract per (arity 0..3, kind of every input); inside each contract the cases
                   dtype in {None, user dtype, False} x meta present/absent x batch_size given/None are
                   path forks.  Kinds: A = array of SYMBOLIC length, C = declared constant (array-like,
                   own symbolic length), S = scalar without .shape, Z = 0-d array.  elfi/utils.py::is_array
                   is NOT modelled: its real body is instrumented and inlined at the call site.
  vectorize, unpack_meta, prepare_seed, stdout_to_array, run_external, external_operation
  ghost lemma lemmas/c18_lemmas.py::lemma_rows_get_distinct_seeds (two rows of one batch).
Spec objects (independent of the code):
  op_k(args.., kwx, has_meta, meta_rest, has_iib, iib)   the user's operation: uninterpreted and pure
  np_array_item(dtype, v)      row of np.array(list, dtype) that comes from list item v (assumed numpy contract)
  sub_seed(word, index)        C15's postcondition of get_sub_seed as a function (assumed stub, proved in C15)
"""
MANIFEST = {
    'category': 'proof',
    'text': 'run_vectorized is verified on its real body for every batch length (loop invariant over a symbolic-length result sequence) at '
            'arities 0-4 (arity 4: all 256 kind words in the thorough tier, 8 in the quick tier) plus four arity-5 words (two in the quick tier) and every combination of input kinds (array / declared constant / scalar / 0-d array), dtype None / given / False, '
            'meta present or not, batch_size given or not: the result has the batch length taken from the inputs, else batch_size, else 1; entry j is '
            'the uninterpreted operation applied to row j of the non-constant inputs with constants and keyword arguments unchanged and '
            'meta[index_in_batch] = j; ValueError iff two lengths disagree. vectorize, unpack_meta (explicit kwargs win, for every meta key set), '
            'prepare_seed (seed = C15 sub-seed of the generator state word at index_in_batch or 0; two rows get different seeds), run_external '
            '(command.format(*inputs, **kwinputs) is what subprocess.run receives; process_result receives stdout iff stdout) and '
            'external_operation (option plumbing) are verified on their real bodies with recording stubs for str.format / subprocess / '
            'np.fromstring / functools.partial. A bounded grid on the real code (native numpy, real echo subprocesses, a model run with '
            'batch_size > 1) is the labelled stand-in and replay vehicle.',
    'note': 'Bound of the proof: concrete arity <= 4 exhaustively, four words of arity 5 (batch length, values, lengths of constants unbounded). Assumed: the operation is pure and returns '
            'outputs numpy can stack; np.array(list, dtype) is item-wise; str.format / subprocess.run / np.fromstring / functools.partial / '
            'RandomState.get_state library contracts (each sanity-tested per run); get_sub_seed by its C15 contract; positional placeholders of '
            'the command refer to available inputs (IndexError of str.format not modelled).',
    'technique': 'deductive: VCs from the real AST executed over proxies (pyvc), loop invariant with an append-only symbolic sequence, z3/cvc5; '
                 'bounded stand-in: exhaustive kinds^arity grid + real subprocess runs',
}

import z3

from pyvc.core import cur, forall_range, OutOfSubset, program_exception, _z
from pyvc.engine import Contract, Loop, NS, Stub, Runtime
from pyvc.values import Sym, SInt
from pyvc.sarray import zi

I, Bz = z3.IntSort(), z3.BoolSort()
Val = z3.DeclareSort('Val')          # any python object whose only observable here is its identity
Key = z3.DeclareSort('Key')          # dict keys (strings)

OP = {k: z3.Function('op%d' % k, *([Val] * k + [Val, Bz, Val, Bz, I, Val])) for k in range(0, 7)}
ITEM = z3.Function('np_array_item', Val, Val, Val)
OOB = z3.Function('out_of_range_item', I, Val)
STDOUT_OF = z3.Function('stdout_of', Val, Val)
SUBSEED = z3.Function('sub_seed', I, I, I)
HIGH = 2 ** 31

ABSENT = z3.Const('absent', Val)
DT_NONE = z3.Const('dtype_None', Val)
DT_USER = z3.Const('dtype_user', Val)

KEYNAMES = ['meta', 'ka', 'kb', 'kc', 'seed', 'random_state', 'index_in_batch', 'batch_index', 'submission_index', 'master_seed', 'model_name']
KEYC = {n: z3.Const('key_' + n, Key) for n in KEYNAMES}
KEY_AXIOMS = [z3.Distinct(*KEYC.values())]


def key(k):
    if isinstance(k, str) and k in KEYC:
        return KEYC[k]
    if isinstance(k, z3.ExprRef) and k.sort() == Key:
        return k
    raise OutOfSubset('dict key %r outside the modelled key names' % (k,))


def vt(x):
    """Val term of a proxy"""
    t = getattr(x, 't', None)
    if isinstance(t, z3.ExprRef) and t.sort() == Val:
        return t
    raise OutOfSubset('value %r has no identity term' % (x,))


def same(a, b):
    """z3 fact 'a and b are the same value' for proxies / python atoms"""
    ta, tb = getattr(a, 't', None), getattr(b, 't', None)
    if a is b:
        return (ta == tb) if isinstance(ta, z3.ExprRef) else z3.BoolVal(True)
    if isinstance(a, bool) or isinstance(b, bool) or a is None or b is None or isinstance(a, str) or isinstance(b, str):
        return z3.BoolVal(type(a) is type(b) and a == b)
    if isinstance(a, int) and isinstance(b, int):
        return z3.BoolVal(a == b)
    if isinstance(a, int) and isinstance(tb, z3.ExprRef) and tb.sort() == I:
        return z3.IntVal(a) == tb
    if isinstance(b, int) and isinstance(ta, z3.ExprRef) and ta.sort() == I:
        return ta == z3.IntVal(b)
    if isinstance(ta, z3.ExprRef) and isinstance(tb, z3.ExprRef) and ta.sort() == tb.sort():
        return ta == tb
    return z3.BoolVal(False)


def same_dict(actual, expected, what):
    """-> [(name, fact)]: `actual` (python dict) has exactly the expected keys with the same values"""
    if not isinstance(actual, dict):
        return [('%s is a dict' % what, z3.BoolVal(False))]
    out = [('%s: key set %s' % (what, sorted(expected)), z3.BoolVal(set(actual) == set(expected)))]
    for k in expected:
        if k in actual:
            out.append(('%s[%s]' % (what, k), same(actual[k], expected[k])))
    return out


def same_seq(actual, expected, what):
    out = [('%s: length' % what, z3.BoolVal(isinstance(actual, (tuple, list)) and len(actual) == len(expected)))]
    if isinstance(actual, (tuple, list)):
        for i, (a, b) in enumerate(zip(actual, expected)):
            out.append(('%s[%d]' % (what, i), same(a, b)))
    return out


# ---------------------------------------------------------------- proxies
class Opaque(Sym):
    """python object known only by identity (no .shape -> is_array's hasattr test is False)"""

    def __init__(self, t):
        self.t = t

    def _vc_fresh_like(self, name):
        return Opaque(cur().fresh(name, Val))

    def __bool__(self):
        raise OutOfSubset('truth value of an opaque object')

    def __repr__(self):
        return '%s(%s)' % (type(self).__name__, self.t)


class ZeroD(Opaque):
    """0-d numpy array"""
    shape = ()
    ndim = 0

    def _vc_len(self):
        raise program_exception(TypeError('len() of unsized object'))       # numpy behaviour for 0-d arrays

    def __getitem__(self, i):
        raise program_exception(IndexError('too many indices for array: array is 0-dimensional'))


def _norm_index(i, n, what):
    i = zi(i)
    r = z3.If(i >= 0, i, n + i)
    cur().oblige('call-pre[index in range: %s]' % what, z3.And(r >= 0, r < n))
    return r


class VArr(Opaque):
    """array-like of symbolic length n; row j is the opaque value elt(j) (rank of the rows irrelevant)"""
    ndim = 1

    def __init__(self, t, n, elt):
        self.t, self.n, self.elt = t, n, elt

    @property
    def shape(self):
        return (SInt(self.n),)

    def _vc_len(self):
        return SInt(self.n)

    def __len__(self):
        raise OutOfSubset('len() through the C slot')

    def __iter__(self):
        raise OutOfSubset('iteration over a symbolic array')

    def __getitem__(self, i):
        if isinstance(i, (slice, tuple)):
            raise OutOfSubset('non-scalar index into an input')
        return Opaque(self.elt(_norm_index(i, self.n, 'input row')))

    def _vc_fresh_like(self, name):
        vc = cur()
        f = vc.fresh_fn(name, I, Val)
        return VArr(vc.fresh(name, Val), vc.fresh_int(name + '_n'), lambda j: f(j))


class Prefix:
    """marker INSIDE a real python list: stands for n earlier items f(0..n-1) (symbolic-length, append-only view)"""

    def __init__(self, n, f):
        self.n, self.f = n, f


class ListHavoc:
    def __init__(self, lst):
        self.lst = lst

    def _vc_havoc(self, name):
        vc = cur()
        n = vc.fresh_int(name + '_len', size=True)
        vc.assume(n >= 0)
        f = vc.fresh_fn(name + '_items', I, Val)
        self.lst[:] = [Prefix(n, lambda j: f(j))]


class ObjArr(Opaque):
    """1-D numpy object array (np.empty(n, dtype=object)): item store keeps the python object"""
    ndim = 1

    def __init__(self, n):
        vc = cur()
        self.t = vc.fresh('objarr', Val)
        self.n = n
        f = vc.fresh_fn('empty_items', I, Val)
        self.elt = lambda j: f(j)

    @property
    def shape(self):
        return (SInt(self.n),)

    def _vc_len(self):
        return SInt(self.n)

    def __setitem__(self, i, v):
        if isinstance(i, (slice, tuple)):
            raise OutOfSubset('slice store into the object array')
        r = _norm_index(i, self.n, 'object array store')
        t, old = vt(v), self.elt
        self.elt = lambda j: z3.If(j == r, t, old(j))

    def __getitem__(self, i):
        if isinstance(i, (slice, tuple)):
            raise OutOfSubset('slice of the object array')
        return Opaque(self.elt(_norm_index(i, self.n, 'object array load')))

    def _vc_havoc(self, name):
        f = cur().fresh_fn(name + '_items', I, Val)
        self.elt = lambda j: f(j)


class ResArr(Opaque):
    """np.array(list_of_outputs, dtype): row j = np_array_item(dtype, list[j]) (assumed numpy contract)"""
    ndim = 1

    def __init__(self, n, elt):
        self.t = cur().fresh('resarr', Val)
        self.n, self.elt = n, elt

    def _vc_len(self):
        return SInt(self.n)


def seq_view(x):
    """(length term, j -> item term) of a result / accumulator object"""
    if isinstance(x, (ObjArr, ResArr)):
        return x.n, x.elt
    if type(x) is list:
        n, pieces = z3.IntVal(0), []
        for it in x:
            if isinstance(it, Prefix):
                pieces.append((n, it.n, it.f))
                n = n + it.n
            else:
                pieces.append((n, None, vt(it)))
                n = n + 1

        def elt(j):
            r = OOB(j)
            for st, ln, f in reversed(pieces):
                r = z3.If(j == st, f, r) if ln is None else z3.If(z3.And(j >= st, j < st + ln), f(j - st), r)
            return r
        return z3.simplify(n), elt
    raise OutOfSubset('not a modelled sequence: %s' % type(x).__name__)


def dt_term(dtype):
    if dtype is None:
        return DT_NONE
    if isinstance(dtype, Opaque):
        return dtype.t
    raise OutOfSubset('np.array dtype %r' % (dtype,))


class DtypeSpec:
    """numpy.dtype instance: observable = its name through str()"""

    def __init__(self, name):
        self.name = name

    def __str__(self):
        return self.name


def np_module(extra=None):
    from pyvc import npspec
    import numpy as _np

    def empty(shape, dtype=None):
        if dtype is object:
            n = zi(shape)
            cur().oblige('call-pre[non-negative dimension]', n >= 0)
            return ObjArr(n)
        return npspec.empty(shape, dtype)

    def array(x, dtype=None, copy=True):
        if type(x) is list:
            n, elt = seq_view(x)
            d = dt_term(dtype)
            return cur().libcall('np.array', ResArr(n, lambda j: ITEM(d, elt(j))))
        return npspec.array(x, dtype)
    e = dict(empty=empty, array=array, dtype=DtypeSpec)
    e.update(extra or {})
    return npspec.module(extra=e)


def sym_range(*a):
    from pyvc import pyspec
    if len(a) == 1:
        return pyspec.SRange(0, a[0])
    return pyspec.vc_range(*a)


_code_cache = {}


def _instrumented(target):
    from pyvc import instrument
    loc = instrument.locate(target, None)
    ck = (target, loc.sha256)
    if ck not in _code_cache:
        _code_cache[ck] = instrument.instrument(loc, ())[0]
    return _code_cache[ck], loc


def inline(target, extra=None):
    """the REAL body of another repository function, instrumented like the target and bound in the env
    (no loop contracts, so only loop-free callees or concrete iteration)"""
    from pyvc import pyspec, npspec
    code, loc = _instrumented(target)
    g = pyspec.make_globals()
    g['np'] = npspec.module()
    g['__vc__'] = Runtime(None, None, None)
    g.update(extra or {})
    exec(code, g)
    return g[loc.node.name]


class Memo:
    """functools.lru_cache / functools.cache: a memo keyed by the HASH/EQ of the arguments.  Python atoms are keyed by
    value; objects that hash by identity (numpy RandomState and other plain objects: proxies flagged
    _vc_hash_identity) are keyed by id() - so a second call with the same OBJECT in a different STATE returns the
    stale value, exactly as natively.  Anything else (symbolic numbers, opaque objects of unknown hash) fails closed.
    Eviction (maxsize) is not modelled: more distinct keys than maxsize is out of subset."""

    def __init__(self, fn, maxsize=None):
        self.fn, self.memo, self.keep, self.maxsize = fn, {}, [], maxsize

    def _k(self, x):
        if x is None or isinstance(x, (bool, int, float, str, bytes)):
            return ('v', type(x).__name__, x)
        if isinstance(x, tuple):
            return ('t',) + tuple(self._k(y) for y in x)
        if getattr(x, '_vc_hash_identity', False):
            return ('id', id(x))
        raise OutOfSubset('memoised call keyed on %s (hash not modelled)' % type(x).__name__)

    def __call__(self, *a, **k):
        key = tuple(self._k(x) for x in a) + tuple((n, self._k(v)) for n, v in sorted(k.items()))
        if key in self.memo:
            return self.memo[key]
        if self.maxsize is not None and len(self.memo) >= self.maxsize:
            raise OutOfSubset('memo eviction')
        self.keep.append((a, k))            # keep the key objects alive: id() must stay unique
        r = self.fn(*a, **k)
        self.memo[key] = r
        return r


class _Unmodelled:
    def __init__(self, why):
        self.why = why

    def __call__(self, *a, **k):
        raise OutOfSubset(self.why)


def _decorate(fn, decorators, name):
    """apply the decorators found in the tree (innermost first): caches are modelled, anything else fails closed"""
    import ast
    for d in reversed(decorators):
        text = ast.unparse(d.func if isinstance(d, ast.Call) else d)
        if text in ('lru_cache', 'functools.lru_cache', 'cache', 'functools.cache'):
            maxsize = 128 if text.endswith('lru_cache') else None
            if isinstance(d, ast.Call):
                try:
                    vals = [ast.literal_eval(a) for a in d.args] + [ast.literal_eval(k.value) for k in d.keywords if k.arg == 'maxsize']
                    if vals:
                        maxsize = vals[0]
                except Exception:
                    return _Unmodelled('decorator %s of %s' % (ast.unparse(d), name))
            fn = Memo(fn, maxsize)
        else:
            return _Unmodelled('decorator %s of %s is not modelled' % (ast.unparse(d), name))
    return fn


class ModuleState:
    """module-level MUTABLE object of the analysed module (dict / list / set display at top level, also one an edit
    introduces): state that SURVIVES between calls, so at the start of a call its content is whatever earlier calls left
    there - never "fresh empty".  Reads of the content, truthiness and writes fail closed; .clear() and passing the object
    on are allowed (a consumer such as the get_sub_seed stub decides what it may assume about it)."""

    def __init__(self, name, kind):
        self.name, self.kind = name, kind
        self.cleared = False        # known empty on this path (after .clear())
        self.owner = None           # ghost: the seed term whose stream get_sub_seed stored in it on this path

    def clear(self):
        self.cleared, self.owner = True, None

    def _closed(self, *a, **k):
        raise OutOfSubset('content of the module-level %s `%s` (state from earlier calls) is not modelled' % (self.kind, self.name))

    __bool__ = __len__ = __iter__ = __contains__ = __getitem__ = __setitem__ = __delitem__ = __eq__ = __ne__ = _closed
    get = setdefault = pop = popitem = update = keys = values = items = copy = append = extend = insert = remove = add = discard = _closed
    __hash__ = object.__hash__


class _UnmodelledValue:
    """module-level name bound to something the contract does not model: any use fails closed"""

    def __init__(self, why):
        object.__setattr__(self, '_why', why)

    def _closed(self, *a, **k):
        raise OutOfSubset(object.__getattribute__(self, '_why'))

    def __getattr__(self, k):
        raise OutOfSubset(object.__getattribute__(self, '_why'))

    __bool__ = __len__ = __iter__ = __contains__ = __getitem__ = __setitem__ = __call__ = __eq__ = __ne__ = _closed
    __hash__ = object.__hash__


def _immutable_literal(v):
    if v is None or isinstance(v, (bool, int, float, complex, str, bytes)):
        return True
    if isinstance(v, (tuple, frozenset)):
        return all(_immutable_literal(x) for x in v)
    return False


def _module_assignments(tree):
    """{name: value} for the top-level assignments of the analysed module"""
    import ast
    out = {}
    for n in tree.body:
        if isinstance(n, ast.Assign) and len(n.targets) == 1 and isinstance(n.targets[0], ast.Name):
            name, val = n.targets[0].id, n.value
        elif isinstance(n, ast.AnnAssign) and isinstance(n.target, ast.Name) and n.value is not None:
            name, val = n.target.id, n.value
        elif isinstance(n, (ast.Assign, ast.AnnAssign, ast.AugAssign)):
            for t in ast.walk(n):
                if isinstance(t, ast.Name) and isinstance(t.ctx, ast.Store):
                    out[t.id] = _UnmodelledValue('module-level assignment to %s is not modelled' % t.id)
            continue
        else:
            continue
        kind = {ast.Dict: 'dict', ast.List: 'list', ast.Set: 'set', ast.DictComp: 'dict', ast.ListComp: 'list', ast.SetComp: 'set'}.get(type(val))
        if kind is None and isinstance(val, ast.Call) and isinstance(val.func, ast.Name) and val.func.id in ('dict', 'list', 'set', 'OrderedDict', 'defaultdict'):
            kind = val.func.id
        if kind is not None:
            out[name] = ModuleState(name, kind)
            continue
        try:
            v = ast.literal_eval(val)
        except Exception:
            out[name] = _UnmodelledValue('module-level value of %s (%s) is not modelled' % (name, ast.unparse(val)[:40]))
            continue
        out[name] = v if _immutable_literal(v) else _UnmodelledValue('module-level value of %s is not modelled' % name)
    return out


def module_env(path, target_name, extra=None):
    """every module-level function of the analysed module `path` (read from the tree), instrumented and bound so that
    the target and the inlined callees can call same-module helpers (also ones an edit introduces); `extra` = stubs that
    replace functions / supply other globals.  Decorators are honoured through _decorate.  Top-level ASSIGNMENTS are bound
    too: immutable literals concretely, mutable displays as ModuleState (state surviving between calls), the rest fails closed."""
    import ast
    from pyvc import instrument, pyspec
    extra = dict(extra or {})
    src, tree = instrument._parse(path, None)
    G = pyspec.make_globals()
    G['np'] = np_module()
    G['__vc__'] = Runtime(None, None, None)
    out = {k: v for k, v in _module_assignments(tree).items() if k not in extra}
    G.update(out)
    G.update(extra)
    for n in tree.body:
        if not isinstance(n, ast.FunctionDef):
            continue
        if n.name == target_name:
            if n.decorator_list:
                raise OutOfSubset('the function under contract is decorated (%s)' % ', '.join(ast.unparse(d) for d in n.decorator_list))
            continue
        if n.name in extra:
            continue
        try:
            code, loc = _instrumented('%s::%s' % (path, n.name))
            exec(code, G)
            G[n.name] = out[n.name] = _decorate(G[n.name], n.decorator_list, n.name)
        except OutOfSubset as e:
            G[n.name] = out[n.name] = _Unmodelled('helper %s: %s' % (n.name, e))
    out.update(extra)
    return out


TOOLS = 'elfi/model/tools.py'


class CallLog:
    def __init__(self):
        self.n = z3.IntVal(0)

    def _vc_havoc(self, name):
        self.n = cur().fresh_int(name + '_ncalls')


class MetaDict(Sym):
    """the run-metadata dict: observable content = (rest, 'index_in_batch' present?, its value)"""

    def __init__(self, rest, has, iib):
        self.t = None
        self.rest, self.has, self.iib = rest, has, iib

    def __setitem__(self, k, v):
        if k != 'index_in_batch':
            raise OutOfSubset('store of meta[%r]' % (k,))
        self.has, self.iib = z3.BoolVal(True), zi(v)

    def _vc_havoc(self, name):
        vc = cur()
        self.has, self.iib = vc.fresh(name + '_has_iib', Bz), vc.fresh_int(name + '_iib')


class OpSpec:
    """the user's operation: pure, uninterpreted; one z3 function per arity"""

    def __init__(self, log):
        self.log = log
        self.t = z3.Const('operation', Val)

    def __call__(self, *args, **kwargs):
        extra = set(kwargs) - {'kwx', 'meta'}
        if extra or len(args) not in OP:
            raise OutOfSubset('operation called with unexpected keywords %s / arity %d' % (sorted(extra), len(args)))
        kwx = vt(kwargs['kwx']) if 'kwx' in kwargs else ABSENT
        m = kwargs.get('meta')
        if m is None:
            mt = (z3.BoolVal(False), ABSENT, z3.BoolVal(False), z3.IntVal(0))
        elif isinstance(m, MetaDict):
            mt = (z3.BoolVal(True), m.rest, _z(m.has), m.iib)
        else:
            raise OutOfSubset('meta of type %s' % type(m).__name__)
        self.log.n = self.log.n + 1
        return Opaque(OP[len(args)](*([vt(a) for a in args] + [kwx] + list(mt))))


# ---------------------------------------------------------------- run_vectorized
def _find_acc(l):
    cands, seen = [], set()
    consts = l.get('constants')
    for k, v in l.__dict__.items():
        if k in ('it', 'entry', 'h') or id(v) in seen:
            continue
        if (type(v) is list and v is not consts) or isinstance(v, ObjArr):
            seen.add(id(v))
            cands.append(v)
    if len(cands) != 1:
        raise OutOfSubset('cannot identify the result accumulator among the locals (%d candidates)' % len(cands))
    return cands[0]


class RunVectorized(Contract):
    target = 'elfi/model/tools.py::run_vectorized'
    prop = 'C18'
    fin = 4
    max_paths = 20000

    def __init__(self, kinds, empty_constants=False):
        self.kinds = kinds
        self.empty_constants = empty_constants
        self.label = (kinds or 'no-inputs') + (',constants=()' if empty_constants else '')

    def env(self, vc):
        return module_env(TOOLS, 'run_vectorized', {'np': np_module(), 'is_array': inline('elfi/utils.py::is_array'), 'range': sym_range})

    def setup(self, vc):
        kinds = self.kinds
        k = len(kinds)
        dt = vc.fork_values('dtype', ['none', 'user', 'false'])
        has_meta = vc.fork_values('meta', [True, False])
        bs_given = vc.fork_values('batch_size', [False, True])
        ins, whole, rows, lens = [], [], [], []
        for i, kd in enumerate(kinds):
            w = z3.Const('input%d' % i, Val)
            whole.append(w)
            if kd in 'AC':
                n = z3.Int('len%d' % i)
                f = z3.Function('row%d' % i, I, Val)
                ins.append(VArr(w, n, lambda j, f=f: f(j)))
                vc.fin_bounds.append(n)
                lens.append(n)
                rows.append(f)
            else:
                ins.append(Opaque(w) if kd == 'S' else ZeroD(w))
                lens.append(None)
                rows.append(None)
        bs = z3.Int('batch_size')
        vc.fin_bounds.append(bs)
        kwx = Opaque(z3.Const('kwx', Val))
        meta = MetaDict(z3.Const('meta_rest', Val), z3.Bool('meta_has_iib0'), z3.Int('meta_iib0')) if has_meta else None
        log = CallLog()
        op = OpSpec(log)
        dtv = {'none': None, 'user': Opaque(DT_USER), 'false': False}[dt]
        kwargs = dict(dtype=dtv, kwx=kwx)
        cidx = tuple(i for i, kd in enumerate(kinds) if kd == 'C')
        # the mask object handed in by the caller (vectorize binds ONE such object for all later calls): tuple or list, or None
        if cidx or self.empty_constants:
            container = vc.fork_values('constants_container', ['tuple', 'list'])
        else:
            container = vc.fork_values('constants_container', ['none', 'list'])
        cobj = None if container == 'none' else (list(cidx) if container == 'list' else cidx)
        if cobj is not None:
            kwargs['constants'] = cobj
        if has_meta:
            kwargs['meta'] = meta
        if bs_given:
            kwargs['batch_size'] = SInt(bs)

        # ---- the specification (independent of the code)
        alen = [lens[i] for i, kd in enumerate(kinds) if kd == 'A'] + ([bs] if bs_given else [])
        agree = z3.And([alen[i] == alen[i + 1] for i in range(len(alen) - 1)]) if len(alen) > 1 else z3.BoolVal(True)
        B = alen[0] if alen else z3.IntVal(1)
        meta_rest = meta.rest if has_meta else ABSENT

        def app(j):
            args = [rows[i](j) if kinds[i] == 'A' else whole[i] for i in range(k)]
            return OP[k](*(args + [kwx.t, z3.BoolVal(has_meta), meta_rest, z3.BoolVal(has_meta), j if has_meta else z3.IntVal(0)]))

        def expected(j):
            return app(j) if dt == 'false' else ITEM(DT_NONE if dt == 'none' else DT_USER, app(j))
        s = NS(dt=dt, has_meta=has_meta, bs_given=bs_given, lens=[n for n in lens if n is not None], bs=bs, B=B, agree=agree,
               app=app, expected=expected, log=log, meta=meta, cobj=cobj, cidx=cidx, ins=tuple(ins), kwx=kwx)
        return s, tuple([op] + ins), kwargs

    def requires(self, s):
        return [n >= 0 for n in s.lens] + ([s.bs >= 0] if s.bs_given else [])

    # loop 1: `for index_in_batch in range(batch_size)` (loop 0 and the inner loop 2 iterate the concrete input tuple)
    def _inv(self, s, l):
        idx = l.it.index
        acc = l.entry.acc
        n, elt = seq_view(acc)
        out = []
        if not isinstance(acc, ObjArr):
            out.append(('the list holds one output per finished row', n == idx))
        out.append(('runs[j] is the operation applied to row j, for every finished row j',
                    forall_range(0, idx, lambda j: elt(j) == s.app(j), 'j')))
        out.append(('one call per finished row', s.log.n == idx))
        return out

    def _mod(self, s, l):
        acc = l.entry.acc
        return [acc if isinstance(acc, ObjArr) else ListHavoc(acc), s.log] + ([s.meta] if s.meta is not None else [])

    @property
    def loops(self):
        return {1: Loop(inv=self._inv, modifies=self._mod, snapshot=lambda s, l: {'acc': _find_acc(l)})}

    def raises(self, s):
        return {'ValueError': z3.And([z3.Not(s.agree)] + [f for _, f in self._frame(s)])}

    def iff_raises(self, s):
        return [('normal return only if all array lengths (and batch_size when given) agree', s.agree)]

    def ensures(self, s, result):
        n, elt = seq_view(result)
        kind_ok = isinstance(result, ObjArr) if s.dt == 'false' else isinstance(result, ResArr)
        return [('batch length = common length of the array inputs, else batch_size, else 1', n == s.B),
                ('result[j] = operation(row j of every non-constant input, constants and kwargs unchanged, meta.index_in_batch = j)'
                 + (' kept as object' if s.dt == 'false' else ' through np.array(.., dtype)'),
                 forall_range(0, s.B, lambda j: elt(j) == s.expected(j), 'j')),
                ('dtype=False returns the object array itself, otherwise np.array(outputs, dtype)', z3.BoolVal(kind_ok)),
                ('the operation is called exactly once per row', s.log.n == s.B)] + self._frame(s)

    def _frame(self, s):
        """whole-view frame on the caller's argument objects: the mask bound by vectorize is reused by every later call"""
        if s.cobj is None:
            return []
        now = s.cobj
        ok_type = type(now) in (list, tuple) and all(type(x) is int for x in now)
        if not ok_type:
            return [("frame: the caller's constants object is not modified", z3.BoolVal(False))]
        return [("frame: the caller's constants object is not modified (same length)", z3.IntVal(len(now)) == z3.IntVal(len(s.cidx))),
                ("frame: the caller's constants object is not modified (same entries)",
                 z3.And([z3.IntVal(a) == z3.IntVal(b) for a, b in zip(now, s.cidx)] + [z3.BoolVal(len(now) == len(s.cidx))]))]

    def witness(self, vc, model, ob):
        ev = lambda t: str(model.eval(t, model_completion=True))
        return dict(kinds=self.kinds, lengths=[ev(z3.Int('len%d' % i)) for i in range(len(self.kinds))], batch_size=ev(z3.Int('batch_size')))


def _all_kinds():
    import itertools
    out = []
    for k in range(0, 4):
        out.extend(''.join(p) for p in itertools.product('ACSZ', repeat=k))
    return out


# ---------------------------------------------------------------- vectorize / external_operation (functools.partial stub)
class PartialSpec:
    """functools.partial: records (func, args, keywords).  Assumed contract (sanity-tested):
    partial(f, *a, **k)(*b, **k2) == f(*a, *b, **{**k, **k2})"""

    def __init__(self, func, *args, **keywords):
        self.func, self.args, self.keywords = func, args, dict(keywords)
        self.t = cur().fresh('partial', Val)


class Named:
    """a module-level function seen from a caller (identity only)"""

    def __init__(self, name):
        self.t = z3.Const('fn_' + name, Val)
        self.name = name


class Vectorize(Contract):
    target = 'elfi/model/tools.py::vectorize'
    prop = 'C18'
    fin = 3

    def env(self, vc):
        self.rv = Named('run_vectorized')
        return module_env(TOOLS, 'vectorize', {'partial': PartialSpec, 'run_vectorized': self.rv})

    def setup(self, vc):
        op, c, d = Opaque(z3.Const('operation', Val)), Opaque(z3.Const('constants', Val)), Opaque(z3.Const('dtype', Val))
        return NS(op=op, c=c, dtv=d), (op,), dict(constants=c, dtype=d)

    def ensures(self, s, result):
        if not isinstance(result, PartialSpec):
            return [('returns a partial', z3.BoolVal(False))]
        return [('the callable is run_vectorized', same(result.func, self.rv))] + same_seq(result.args, [s.op], 'bound positional = (operation,)') + \
            same_dict(result.keywords, dict(constants=s.c, dtype=s.dtv), 'bound keywords')


# ---------------------------------------------------------------- unpack_meta
class SymDict(Opaque):
    """dict with a SYMBOLIC key set: has(q), val(q) over the Key sort"""

    def __init__(self, t, has, val):
        self.t, self.has, self.val = t, has, val

    def copy(self):
        return SymDict(cur().fresh('dictcopy', Val), self.has, self.val)

    def __setitem__(self, k, v):
        kt, t, h0, v0 = key(k), vt(v), self.has, self.val
        self.has = lambda q: z3.Or(q == kt, h0(q))
        self.val = lambda q: z3.If(q == kt, t, v0(q))

    def update(self, other=(), **kw):
        if isinstance(other, SymDict):
            h0, v0, h1, v1 = self.has, self.val, other.has, other.val
            self.has = lambda q: z3.Or(h1(q), h0(q))
            self.val = lambda q: z3.If(h1(q), v1(q), v0(q))
        elif isinstance(other, dict):
            for k, v in other.items():
                self[k] = v
        elif other != ():
            raise OutOfSubset('dict.update(%s)' % type(other).__name__)
        for k, v in kw.items():
            self[k] = v

    def __contains__(self, k):
        return cur().branch(self.has(key(k)))

    def __getitem__(self, k):
        kt = key(k)
        cur().oblige('call-pre[dict key present: %s]' % k, self.has(kt))
        return Opaque(self.val(kt))


class UnpackMeta(Contract):
    target = 'elfi/model/tools.py::unpack_meta'
    prop = 'C18'
    fin = 3

    def __init__(self, mode):
        self.mode = mode            # 'symbolic-meta' | 'concrete-meta' | 'no-meta'
        self.label = mode

    def setup(self, vc):
        vc.axioms = list(KEY_AXIOMS)
        x0, x1 = Opaque(z3.Const('x0', Val)), Opaque(z3.Const('x1', Val))
        ka, kb = Opaque(z3.Const('explicit_ka', Val)), Opaque(z3.Const('explicit_kb', Val))
        s = NS(x=(x0, x1), q=z3.Const('q', Key))
        kw = dict(ka=ka, kb=kb)
        if self.mode == 'symbolic-meta':
            h, v = z3.Function('meta_has', Key, Bz), z3.Function('meta_val', Key, Val)
            s.h0, s.v0 = h, v
            s.meta = SymDict(z3.Const('meta', Val), lambda q: h(q), lambda q: v(q))
            kw['meta'] = s.meta
        elif self.mode == 'concrete-meta':
            s.mvals = dict(ka=Opaque(z3.Const('meta_ka', Val)), kc=Opaque(z3.Const('meta_kc', Val)), index_in_batch=SInt(z3.Int('iib')))
            s.mvals.update(meta_entries(vc, s))
            s.meta = dict(s.mvals)
            kw['meta'] = s.meta
        s.kw = kw
        return s, s.x, dict(kw)

    def ensures(self, s, result):
        if not (isinstance(result, tuple) and len(result) == 2):
            return [('returns (inputs, kwinputs)', z3.BoolVal(False))]
        out = same_seq(result[0], s.x, 'positional inputs unchanged')
        r = result[1]
        if self.mode == 'symbolic-meta':
            if not isinstance(r, SymDict):
                raise OutOfSubset('result dict of type %s' % type(r).__name__)
            q = s.q
            expl = [(key(k), vt(v)) for k, v in s.kw.items()]
            exp_val = s.v0(q)
            for kt, t in expl:
                exp_val = z3.If(q == kt, t, exp_val)
            out += [('for every key q: q in result iff q is an explicit keyword or q in meta',
                     r.has(q) == z3.Or(z3.Or([q == kt for kt, _ in expl]), s.h0(q))),
                    ('for every key q of the result: the explicit keyword wins, else the meta entry', z3.Implies(r.has(q), r.val(q) == exp_val)),
                    ("the caller's meta dict is not modified", z3.And(s.meta.has(q) == s.h0(q), s.meta.val(q) == s.v0(q), z3.BoolVal(r is not s.meta)))]
        else:
            exp = dict(s.mvals) if self.mode == 'concrete-meta' else {}
            exp.update(s.kw)
            out += same_dict(r, exp, 'kwinputs = meta entries overridden by explicit keywords')
            if self.mode == 'concrete-meta':
                out += same_dict(s.meta, s.mvals, "caller's meta unchanged")
        return out


# ---------------------------------------------------------------- prepare_seed (get_sub_seed by its C15 contract)
class StateVec:
    def __init__(self, word):
        self.word = word

    def __getitem__(self, i):
        if isinstance(i, int) and not isinstance(i, bool) and i == 0:
            return SInt(self.word)
        raise OutOfSubset('state vector index %r' % (i,))


class RSProxy(Opaque):
    """numpy RandomState; observable: word = get_state()[1][0] (get_state does not advance the generator);
    hashes by identity, its state is mutable (`word` may be re-assigned by a ghost statement)"""
    _vc_hash_identity = True

    def __init__(self, t, word):
        self.t, self.word = t, word

    def get_state(self, legacy=True):
        return ('MT19937', StateVec(self.word), 624, 0, 0.0)


def meta_entries(vc, s):
    """the entries elfi's loader puts into the run metadata (elfi/loader.py: batch_index, submission_index, master_seed,
    model_name) as SYMBOLIC values; integers are non-negative and otherwise unconstrained"""
    b, sub, ms = z3.Int('batch_index'), z3.Int('submission_index'), z3.Int('master_seed')
    vc.fin_bounds.extend([b, sub, ms])
    s.__dict__['meta_requires'] = [b >= 0, sub >= 0, ms >= 0]
    s.__dict__['batch_index'] = b
    return dict(batch_index=SInt(b), submission_index=SInt(sub), master_seed=SInt(ms), model_name=Opaque(z3.Const('model_name', Val)))


def _gss_spec(vc, seed, sub_seed_index, high=HIGH, cache=None):
    """C15's contract of elfi.utils.get_sub_seed seen from a caller: requires a non-generator seed, cache_ok(cache) and
    0 <= index < high; returns sub_seed(seed, index) in [0, high); different indices of one seed give
    different values (C15 LemmaDistinct; instance placed for every earlier call on this path)."""
    if isinstance(seed, RSProxy):
        vc.oblige('call-pre[get_sub_seed: seed is not a RandomState]', z3.BoolVal(False))
    st, it, hi = zi(seed), zi(sub_seed_index), zi(high)
    # cache_ok of C15: the cache is {} or holds a prefix of the stream of THIS seed
    PRE = 'call-pre[get_sub_seed: cache is {} or a stream prefix of THIS seed]'
    if cache is None:
        pass
    elif type(cache) is dict and (len(cache) == 0 or set(cache) == {'__stream_of__'}):
        if cache:
            vc.oblige(PRE, cache['__stream_of__'] == st)
        cache['__stream_of__'] = st                 # ghost: filled by this call
    elif isinstance(cache, ModuleState):
        if cache.cleared:
            pass
        elif cache.owner is not None:
            vc.oblige(PRE, cache.owner == st)
        else:
            vc.taint('module-level cache %s: contents from earlier calls unknown' % cache.name)
            vc.oblige(PRE, z3.BoolVal(False), note='module-level state `%s` may hold the stream of another seed' % cache.name)
        cache.cleared, cache.owner = False, st
    else:
        raise OutOfSubset('get_sub_seed cache of type %s' % type(cache).__name__)
    vc.oblige('call-pre[get_sub_seed: 0 <= index]', it >= 0)
    vc.oblige('call-pre[get_sub_seed: index < high]', it < hi)
    if not (isinstance(high, int) and high == HIGH):
        raise OutOfSubset('get_sub_seed with a non-default high')
    r = SUBSEED(st, it)
    vc.assume(r >= 0, r < hi)
    prev = vc.ghost.setdefault('gss_calls', [])
    for pst, pit, pr in prev:
        vc.assume(z3.Implies(z3.And(pst == st, pit != it), pr != r))
    prev.append((st, it, r))
    return SInt(r)


def gss_stub():
    return Stub('get_sub_seed', _gss_spec, checked_by='C15/get_sub_seed + LemmaUnique + LemmaDistinct')


class PrepareSeed(Contract):
    target = 'elfi/model/tools.py::prepare_seed'
    prop = 'C18'
    fin = 4

    def __init__(self, mode):
        self.mode = mode            # 'rs+index' | 'rs+index=None' | 'rs' | 'no-rs'
        self.label = mode

    def env(self, vc):
        return module_env(TOOLS, 'prepare_seed', {'get_sub_seed': gss_stub()})

    def setup(self, vc):
        x0 = Opaque(z3.Const('x0', Val))
        w, i = z3.Int('state_word'), z3.Int('index_in_batch')
        vc.fin_bounds.extend([w, i])
        s = NS(x=(x0,), w=w, i=i)
        kw = dict(ka=Opaque(z3.Const('explicit_ka', Val)))
        kw.update(meta_entries(vc, s))      # what unpack_meta delivers when the node uses meta
        if self.mode != 'no-rs':
            kw['random_state'] = RSProxy(z3.Const('random_state', Val), w)
        if self.mode == 'rs+index':
            kw['index_in_batch'] = SInt(i)
        elif self.mode == 'rs+index=None':
            kw['index_in_batch'] = None
        s.kw = kw
        return s, s.x, dict(kw)

    def requires(self, s):
        return [s.w >= 0, s.w < 2 ** 32, s.i >= 0, s.i < HIGH] + s.meta_requires

    def ensures(self, s, result):
        if not (isinstance(result, tuple) and len(result) == 2):
            return [('returns (inputs, kwinputs)', z3.BoolVal(False))]
        exp = dict(s.kw)
        if self.mode != 'no-rs':
            exp['seed'] = SInt(SUBSEED(s.w, s.i if self.mode == 'rs+index' else z3.IntVal(0)))
        return same_seq(result[0], s.x, 'positional inputs unchanged') + \
            same_dict(result[1], exp, 'kwinputs + seed = sub_seed(state word of random_state, index_in_batch or 0)'
                      if self.mode != 'no-rs' else 'kwinputs unchanged without random_state')


class LemmaRows(Contract):
    target = '@verif/lemmas/c18_lemmas.py::lemma_rows_get_distinct_seeds'
    prop = 'C18'
    fin = 4

    def env(self, vc):
        return {'prepare_seed': module_env(TOOLS, None, {'get_sub_seed': gss_stub()})['prepare_seed']}

    def setup(self, vc):
        w, i, j = z3.Ints('state_word i j')
        vc.fin_bounds.extend([w, i, j])
        rs = RSProxy(z3.Const('random_state', Val), w)
        s = NS(w=w, i=i, j=j)
        return s, (rs, SInt(i), SInt(j), meta_entries(vc, s)), {}

    def requires(self, s):
        return [s.w >= 0, s.w < 2 ** 32, s.i >= 0, s.i < HIGH, s.j >= 0, s.j < HIGH] + s.meta_requires

    def ensures(self, s, result):
        a, b = result
        return [('two rows of one batch (same generator, different index_in_batch) get different seeds', z3.Implies(s.i != s.j, a.t != b.t)),
                ('the seed is a function of (generator state word, row index) only', z3.And(a.t == SUBSEED(s.w, s.i), b.t == SUBSEED(s.w, s.j))),
                ('0 <= seed < 2**31', z3.And(a.t >= 0, a.t < HIGH))]


class LemmaState(Contract):
    """the seed follows the STATE of the generator, not the generator object: same RandomState object, state changed
    (re-seeded / advanced) between two calls of the real prepare_seed"""
    target = '@verif/lemmas/c18_lemmas.py::lemma_seed_follows_generator_state'
    prop = 'C18'
    fin = 4

    def env(self, vc):
        def generator_changes_state(rs):
            rs.word = self.w2
        return {'prepare_seed': module_env(TOOLS, None, {'get_sub_seed': gss_stub()})['prepare_seed'], 'generator_changes_state': generator_changes_state}

    def setup(self, vc):
        w1, w2, i = z3.Ints('state_word state_word_after index_in_batch')
        self.w2 = w2
        vc.fin_bounds.extend([w1, w2, i])
        rs = RSProxy(z3.Const('random_state', Val), w1)
        s = NS(w1=w1, w2=w2, i=i)
        return s, (rs, SInt(i), meta_entries(vc, s)), {}

    def requires(self, s):
        return [s.w1 >= 0, s.w1 < 2 ** 32, s.w2 >= 0, s.w2 < 2 ** 32, s.i >= 0, s.i < HIGH] + s.meta_requires

    def ensures(self, s, result):
        a, b = result
        return [('first call: seed = sub_seed(state word at that call, row index)', a.t == SUBSEED(s.w1, s.i)),
                ('second call on the SAME generator object after its state changed: seed = sub_seed(NEW state word, row index)',
                 b.t == SUBSEED(s.w2, s.i))]


# ---------------------------------------------------------------- stdout_to_array / run_external / external_operation
class Recorder:
    """recording stub of a callable: keeps (args, kwargs) of every call, returns a fresh opaque value"""

    def __init__(self, name, ret=None):
        self.name, self.calls, self.ret = name, [], ret
        self.t = z3.Const('callable_' + name, Val)

    def __call__(self, *a, **k):
        out = self.ret(*a, **k) if self.ret else Opaque(cur().fresh(self.name + '_result', Val))
        self.calls.append(NS(args=a, kw=dict(k), out=out))
        return out


class StdoutToArray(Contract):
    target = 'elfi/model/tools.py::stdout_to_array'
    prop = 'C18'
    fin = 3

    def env(self, vc):
        self.fs = Recorder('np.fromstring')
        return module_env(TOOLS, 'stdout_to_array', {'np': np_module({'fromstring': self.fs})})

    def setup(self, vc):
        s = NS(out=Opaque(z3.Const('stdout', Val)), sep=Opaque(z3.Const('sep', Val)), dt=Opaque(z3.Const('dtype', Val)))
        given = vc.fork_values('given', [True, False])
        s.given = given
        kw = dict(sep=s.sep, dtype=s.dt) if given else {}
        kw['ka'] = Opaque(z3.Const('ka', Val))
        return s, (s.out, Opaque(z3.Const('x0', Val))), kw

    def ensures(self, s, result):
        c = self.fs.calls
        if len(c) != 1:
            return [('np.fromstring called exactly once', z3.BoolVal(False))]
        exp = dict(dtype=s.dt, sep=s.sep) if s.given else dict(dtype=None, sep=' ')
        return [('result is what np.fromstring returned', same(result, c[0].out))] + same_seq(c[0].args, [s.out], 'np.fromstring(stdout)') + \
            same_dict(c[0].kw, exp, 'np.fromstring options = requested dtype and separator')


class CmdSpec:
    """the command template (a str): .format is the assumed library contract, modelled by a recording stub
    that either reports a missing keyword placeholder (KeyError) or returns the formatted command line"""

    def __init__(self):
        self.t = z3.Const('command', Val)
        self.calls = []

    def format(self, *a, **k):
        vc = cur()
        missing = vc.fresh('placeholder_missing', Bz)
        call = NS(args=a, kw=dict(k), missing=missing, out=None)
        self.calls.append(call)
        if vc.branch(missing):
            raise KeyError('placeholder')
        call.out = Opaque(vc.fresh('command_line', Val))
        return call.out


class CompletedProc(Opaque):
    def __init__(self, t):
        self.t = t
        self.stdout = Opaque(STDOUT_OF(t))


class SubprocessSpec:
    def __init__(self):
        self.PIPE = Named('subprocess.PIPE')
        self.calls = []

    def run(self, *a, **k):
        cp = CompletedProc(cur().fresh('completed_process', Val))
        self.calls.append(NS(args=a, kw=dict(k), out=cp))
        return cp


class RunExternal(Contract):
    target = 'elfi/model/tools.py::run_external'
    prop = 'C18'
    fin = 4
    max_paths = 20000

    def __init__(self, meta, rs):
        self.meta, self.rs = meta, rs
        self.label = ('meta' if meta else 'no-meta') + (',random_state' if rs else '')

    def env(self, vc):
        self.sub = SubprocessSpec()
        return module_env(TOOLS, 'run_external', {'subprocess': self.sub, 'get_sub_seed': gss_stub()})

    def setup(self, vc):
        s = NS(cmd=CmdSpec(), pr=Recorder('process_result'), x=(Opaque(z3.Const('x0', Val)), Opaque(z3.Const('x1', Val))))
        s.stdout = vc.fork_values('stdout', [True, False])
        s.use_pi = vc.fork_values('prepare_inputs', [False, True])
        s.user_sk = vc.fork_values('subprocess_kwargs', [False, True])
        s.iib_where = vc.fork_values('index_in_batch', ['meta', 'none']) if self.meta else 'none'
        w, i = z3.Int('state_word'), z3.Int('index_in_batch')
        vc.fin_bounds.extend([w, i])
        s.w, s.i = w, i
        s.meta_requires = []
        kw = dict(ka=Opaque(z3.Const('explicit_ka', Val)))
        if self.rs:
            kw['random_state'] = RSProxy(z3.Const('random_state', Val), w)
        s.mvals = None
        if self.meta:
            s.mvals = dict(ka=Opaque(z3.Const('meta_ka', Val)))
            s.mvals.update(meta_entries(vc, s))
            if s.iib_where == 'meta':
                s.mvals['index_in_batch'] = SInt(i)
            s.meta_obj = dict(s.mvals)
            kw['meta'] = s.meta_obj
        s.kw = kw
        s.pi = None
        if s.use_pi:
            s.pi_out = ((Opaque(z3.Const('prepared_x0', Val)),), dict(pk=Opaque(z3.Const('prepared_pk', Val))))
            s.pi = Recorder('prepare_inputs', ret=lambda *a, **k: s.pi_out)
        s.sk = dict(cwd=Opaque(z3.Const('user_cwd', Val)), check=Opaque(z3.Const('user_check', Val))) if s.user_sk else None
        call_kw = dict(kw, process_result=s.pr, prepare_inputs=s.pi, stdout=s.stdout, subprocess_kwargs=s.sk)
        return s, tuple([s.cmd]) + s.x, call_kw

    def requires(self, s):
        return [s.w >= 0, s.w < 2 ** 32, s.i >= 0, s.i < HIGH] + s.meta_requires

    def _expected(self, s):
        """kwinputs' of the statement: meta entries, overridden by explicit keywords, plus the seed"""
        exp = dict(s.mvals or {})
        exp.update(s.kw)
        if self.rs:
            exp['seed'] = SInt(SUBSEED(s.w, s.i if s.iib_where == 'meta' else z3.IntVal(0)))
        return exp

    def raises(self, s):
        c = s.cmd.calls
        return {'KeyError': c[-1].missing if c else z3.BoolVal(False)}

    def iff_raises(self, s):
        c = s.cmd.calls
        return [('normal return only if str.format found every keyword placeholder', z3.Not(c[-1].missing) if c else z3.BoolVal(False))]

    def ensures(self, s, result):
        exp_kw = self._expected(s)
        out = []
        fin_x, fin_kw = s.x, exp_kw
        if s.use_pi:
            c = s.pi.calls
            if len(c) != 1:
                return [('prepare_inputs called exactly once', z3.BoolVal(False))]
            out += same_seq(c[0].args, s.x, 'prepare_inputs receives the inputs') + same_dict(c[0].kw, exp_kw, 'prepare_inputs receives kwinputs (meta unpacked, seed added)')
            fin_x, fin_kw = s.pi_out
        f, r, p = s.cmd.calls, self.sub.calls, s.pr.calls
        if not (len(f) == 1 and len(r) == 1 and len(p) == 1):
            return out + [('format, subprocess.run and process_result are each called exactly once', z3.BoolVal(False))]
        out += same_seq(f[0].args, fin_x, 'command.format positional arguments = inputs')
        out += same_dict(f[0].kw, fin_kw, 'command.format keyword arguments = kwinputs (meta unpacked, explicit wins, seed added)')
        out += same_seq(r[0].args, [f[0].out], 'subprocess.run receives the formatted command line')
        sk = dict(shell=True, check=True)
        sk.update(s.sk or {})
        out += same_dict(r[0].kw, sk, 'subprocess.run options = shell/check defaults overridden by subprocess_kwargs')
        out += same_seq(p[0].args, [r[0].out.stdout if s.stdout else r[0].out] + list(fin_x),
                        'process_result receives %s, then the inputs' % ('the stdout of the process' if s.stdout else 'the CompletedProcess'))
        out += same_dict(p[0].kw, fin_kw, 'process_result keyword arguments = kwinputs')
        out.append(('the result is what process_result returned', same(result, p[0].out)))
        if self.meta:
            out += same_dict(s.meta_obj, s.mvals, "caller's meta unchanged")
        return out


class ExternalOperation(Contract):
    target = 'elfi/model/tools.py::external_operation'
    prop = 'C18'
    fin = 3

    def __init__(self, pr_kind):
        self.pr_kind = pr_kind      # 'none' | 'str' | 'dtype' | 'callable'
        self.label = 'process_result=' + pr_kind

    def env(self, vc):
        self.sub = SubprocessSpec()
        self.re, self.s2a = Named('run_external'), Named('stdout_to_array')
        return module_env(TOOLS, 'external_operation', {'partial': PartialSpec, 'run_external': self.re, 'stdout_to_array': self.s2a,
                                                        'subprocess': self.sub, 'np': np_module()})

    def setup(self, vc):
        s = NS(cmd=Opaque(z3.Const('command', Val)), sep=Opaque(z3.Const('sep', Val)), pi=Opaque(z3.Const('prepare_inputs', Val)))
        s.stdout = vc.fork_values('stdout', [True, False])
        s.user_sk = vc.fork_values('subprocess_kwargs', [False, True])
        s.pr = {'none': None, 'str': 'int8', 'dtype': DtypeSpec('float32'), 'callable': Recorder('process_result')}[self.pr_kind]
        s.sk0 = dict(cwd=Opaque(z3.Const('user_cwd', Val))) if s.user_sk else None
        s.sk = dict(s.sk0) if s.user_sk else None
        return s, (s.cmd,), dict(process_result=s.pr, prepare_inputs=s.pi, sep=s.sep, stdout=s.stdout, subprocess_kwargs=s.sk)

    def ensures(self, s, result):
        if not isinstance(result, PartialSpec):
            return [('returns a partial', z3.BoolVal(False))]
        out = [('the callable is run_external', same(result.func, self.re))] + same_seq(result.args, [s.cmd], 'bound positional = (command,)')
        kw = result.keywords
        out.append(('bound keywords', z3.BoolVal(set(kw) == {'process_result', 'prepare_inputs', 'stdout', 'subprocess_kwargs'})))
        if set(kw) != {'process_result', 'prepare_inputs', 'stdout', 'subprocess_kwargs'}:
            return out
        out.append(('prepare_inputs passed through', same(kw['prepare_inputs'], s.pi)))
        default = self.pr_kind != 'callable'
        if default:
            p = kw['process_result']
            if not isinstance(p, PartialSpec):
                return out + [('default handler is a partial of stdout_to_array', z3.BoolVal(False))]
            exp = dict(sep=s.sep)
            if self.pr_kind != 'none':
                exp['dtype'] = str(s.pr)
            out += [('default handler is stdout_to_array', same(p.func, self.s2a)), ('no bound positionals', z3.BoolVal(p.args == ()))] + \
                same_dict(p.keywords, exp, 'stdout_to_array options: separator and the requested dtype')
        else:
            out.append(('callable handler passed through', same(kw['process_result'], s.pr)))
        want_stdout = True if default else s.stdout
        out.append(('stdout flag (forced on for the default handler)', same(kw['stdout'], want_stdout)))
        if want_stdout:
            exp = dict(s.sk0 or {})
            exp['stdout'] = self.sub.PIPE
            out += same_dict(kw['subprocess_kwargs'], exp, 'subprocess options: user entries + stdout=PIPE')
        elif s.user_sk:
            out += same_dict(kw['subprocess_kwargs'], s.sk0, 'subprocess options passed through')
        else:
            out.append(('no subprocess options', z3.BoolVal(kw['subprocess_kwargs'] is None)))
        return out


def _arity4(kinds, quick):
    c = RunVectorized(kinds)
    if not quick:
        c.tiers = ('thorough',)
    return c


# arity 4: every kind mask in the thorough tier, a fixed spread of 8 masks (every kind in every position at least once)
# in the quick tier; arity 5: four words in the thorough tier, two of them in the quick tier.  The proof is per concrete arity (python *args).
_QUICK4 = ['AAAA', 'ACSZ', 'ZSCA', 'CASZ', 'SZAC', 'CACA', 'SAAZ', 'ZCCA']
_ARITY4 = [_arity4(''.join(p), ''.join(p) in _QUICK4) for p in __import__('itertools').product('ACSZ', repeat=4)]
_ARITY5 = [_arity4(k, k in ('ACSZA', 'ZSCAC')) for k in ('AAAAA', 'ACSZA', 'ZSCAC', 'SAZCA')]

CONTRACTS = [RunVectorized(k) for k in _all_kinds()] + _ARITY4 + _ARITY5 + [RunVectorized('A', empty_constants=True), RunVectorized('SA', empty_constants=True)] + \
    [Vectorize(), UnpackMeta('symbolic-meta'), UnpackMeta('concrete-meta'), UnpackMeta('no-meta'),
     PrepareSeed('rs+index'), PrepareSeed('rs+index=None'), PrepareSeed('rs'), PrepareSeed('no-rs'), LemmaRows(), LemmaState(), StdoutToArray(),
     RunExternal(True, True), RunExternal(True, False), RunExternal(False, True), RunExternal(False, False),
     ExternalOperation('none'), ExternalOperation('str'), ExternalOperation('dtype'), ExternalOperation('callable')]

TRUSTED_BASE = ['pyvc engine: proxies, loop cutting, path forking; property-specific proxies of this module (VArr/ObjArr/ResArr/Prefix/SymDict/MetaDict)',
                'numpy: np.array(list, dtype) is item-wise (row j depends on item j and dtype only) for outputs of one shape; np.empty(n, dtype=object) '
                'item store keeps the object; np.fromstring(text, dtype, sep) parses separated numbers (sanity-tested)',
                'python: str.format substitutes positional / keyword arguments and raises KeyError for a missing keyword; functools.partial; '
                'dict copy/update; subprocess.run(shell=True, stdout=PIPE).stdout is the output of the command (sanity-tested)',
                'numpy RandomState.get_state()[1][0] is a word of the generator state, reading it does not advance the generator, and equals the seed for a fresh generator (sanity-tested)',
                'elfi.utils.get_sub_seed by its C15 contract (range, function of (seed, index), distinct for distinct indices)']
ASSUMPTIONS = ['the vectorised operation is pure (its result is a function of its arguments; it does not modify inputs, kwargs or meta)',
               'the outputs of the operation have one common shape when dtype is not False (numpy raises for ragged lists otherwise)',
               'A-INT: integers are mathematical; index_in_batch < 2**31 (precondition of get_sub_seed)',
               'command templates refer only to available positional inputs (IndexError of str.format is not modelled)',
               'run_vectorized proof is per concrete arity 0..4 (all kind masks; arity 4 exhaustively only in the thorough tier) and four kind words of arity 5; larger arities are covered by the bounded sample (arity 4-6) only']
NOT_PROVED = ['for all arities: proved per concrete arity 0..4 and for four kind words of arity 5 (python *args has no symbolic arity in the engine); arity 5-6 otherwise bounded (sampled kind words), arity > 6 neither',
              'parses its standard output into an array of the requested type (np.fromstring itself is an assumed library contract; only the plumbing of dtype/sep is proved)']


def sanity():
    import functools
    import subprocess
    import numpy as np
    out = []
    a = np.array([np.array([1, 2]), np.array([3, 4])], dtype=float)
    out.append(('np.array(list, dtype) is item-wise', bool((a[1] == np.array(np.array([3, 4]), dtype=float)).all()) and a.shape == (2, 2)))
    e = np.empty(2, dtype=object)
    o = (1, [2])
    e[1] = o
    out.append(('object array keeps the stored object', e[1] is o and e.shape == (2,)))
    out.append(('str.format positional + keyword', 'a {0} {k} {1}'.format(1, 2, k=3) == 'a 1 3 2'))
    try:
        'x {nokey}'.format(1, k=2)
        out.append(('str.format KeyError for a missing keyword', False))
    except KeyError:
        out.append(('str.format KeyError for a missing keyword', True))
    p = functools.partial(lambda *a, **k: (a, k), 1, x=2, y=3)
    out.append(('functools.partial', p(4, y=5) == ((1, 4), dict(x=2, y=5)) and p.args == (1,) and p.keywords == dict(x=2, y=3)))
    r = subprocess.run('echo 1 2', shell=True, check=True, stdout=subprocess.PIPE)
    out.append(('subprocess.run stdout', r.stdout == b'1 2\n'))
    out.append(('np.fromstring text mode', np.fromstring(r.stdout, dtype='int8', sep=' ').tolist() == [1, 2] and np.fromstring('1.5,2', sep=',').tolist() == [1.5, 2.0]))
    rs = np.random.RandomState(1234)
    w = rs.get_state()[1][0]
    st = rs.get_state()[1].copy()
    out.append(('RandomState state word = seed, get_state does not advance', int(w) == 1234 and bool((rs.get_state()[1] == st).all())))
    return out


def bounded(tier, seed):
    from bounded import c18 as b
    return b.run(tier, seed)


_replay_cache = {}


def replay_refuted(cname, rf):
    from bounded import c18 as b
    part = 'rv' if cname.startswith(('run_vectorized', 'vectorize')) else 'ext'
    if part not in _replay_cache:
        f = b.first_failure(part) or b.first_failure('ext' if part == 'rv' else 'rv')
        _replay_cache[part] = dict(found=True, input=f['input'], observed=f['what']) if f else dict(found=False, searched=b.BOUND)
    return _replay_cache[part]


def replay_input(inp):
    from bounded import c18 as b
    return b.replay_input(inp)
