"""C19 - ROMC regions: samples lie inside, density is 1/volume inside and 0 outside, weights follow.

Functions under contract (real bodies read from the tree at run time):
  elfi/methods/inference/romc.py  NDimBoundingBox._secure_limits / _compute_volume (any dimension D, loop invariants),
                                  NDimBoundingBox.sample / contains (D = 1, 2, 3 with ALL matrix / vector entries symbolic:
                                  the linear algebra R^-1 (R theta + c) - R^-1 c = theta is decided per coordinate in NRA),
                                  NDimBoundingBox.pdf (any D, modular over contains), line_search (any D, any objective),
                                  RegionConstructor.build (assembly, D = 1, 2, 3)
  elfi/methods/posteriors.py      RomcPosterior._sum_over_indicators / _sum_over_regions / _sum_over_regions_indicators
                                  (any number of problems, counting invariants), _pdf_unnorm_single_point,
                                  _worker_compute_weight and sample (any number of regions / draws)

Spec functions (independent of the code):
  region(R, c, lo, hi) = { R theta + c : lo <= theta <= hi }     (membership is stated with an explicit witness theta)
  FL(o)      the objective on the search line, FL(o) = f(th* + o vd)          (uninterpreted, pure)
  CNT(k)     |{ i < k : pred(i) }| by prefix recursion CNT(0) = 0, CNT(k+1) = CNT(k) + [pred(i)]
  PR, F(i), Q(i), IN(i)   prior density, i-th distance, i-th region density / membership at the evaluated point (uninterpreted)
"""
MANIFEST = {
    'category': 'proof',
    'text': 'NDimBoundingBox._secure_limits/_compute_volume/pdf, line_search and the RomcPosterior counting / density / weight functions are verified on the '
            'real source for all dimensions, sizes and values (loop invariants, no bound); NDimBoundingBox.sample and contains are verified against the '
            'definition region = {R theta + c : lo <= theta <= hi} for every invertible R, centre and limits with all entries symbolic at dimensions 1, 2, 3 '
            '(per-coordinate nonlinear real arithmetic), which gives sample-subset-of-contains and pdf = 1/volume inside, 0 outside. '
            'The float(prior.pdf(...)) conversions of posteriors.py are refuted under the installed numpy (defect F6).',
    'note': 'Trusted: pyvc engine and numpy spec table, scipy uniform.rvs in [loc, loc+scale], numpy.linalg.inv (both products are the identity) and '
            'ModelPrior.pdf returning one value per row (sanity-tested each run); floats are reals (a draw on a face of the box can fall outside in floats). '
            'Dimension bound 3 for the linear-algebra clauses; dims 1-4 with random orthonormal rotations in the bounded stand-in. '
            'NOT proved: the density integrates to one (measure theory, needs |det R| = 1); _find_rotation_vector (numpy.linalg).',
    'technique': 'deductive: loop-invariant VCs from the real AST (pyvc), NRA per coordinate for D <= 3, ghost lemma functions, z3/cvc5; '
                 'bounded: random orthonormal rotations dims 1-4, step objectives, direct RomcPosterior construction',
}

import z3

from pyvc.core import cur, forall_range, exists_range, OutOfSubset
from pyvc.engine import Contract, Loop, NS, make_object
from pyvc.values import SInt, SReal, SBool, Sym, lift, term as T
from pyvc.sarray import SArr, Cell, conc
from pyvc import npspec, pyspec

R_, I_, B_ = z3.RealSort(), z3.IntSort(), z3.BoolSort()
ROMC = 'elfi/methods/inference/romc.py'
POST = 'elfi/methods/posteriors.py'
DIMS = (1, 2, 3)
EPS_W = z3.RealVal('0.001')        # minimal width of a region (romc.py: eps = .001), from the property text "degenerate ones that get widened"


# ---------------------------------------------------------------- library specs local to this property
def conc_range(*a):
    """range(): ndarray.shape entries of a proxy whose size is a z3 integer LITERAL count as python ints
    (concrete-dimension contracts run the short loops over the coordinates natively)"""
    vals = []
    for x in a:
        if isinstance(x, z3.ExprRef):
            c = conc(x)
            if c is None:
                return pyspec.vc_range(*a)
            vals.append(c)
        else:
            vals.append(x)
    return pyspec.vc_range(*vals)


def _ssum(terms):
    r = None
    for t in terms:
        r = t if r is None else r + t
    return r if r is not None else z3.RealVal(0)


def dot_spec(a, b):
    """np.dot(A, b) / np.dot(A, B) with a CONCRETE inner dimension: the explicit sum of products (assumed, sanity-tested);
    symbolic inner dimensions go to the engine's prefix-sum spec"""
    a, b = npspec.asarray(a), npspec.asarray(b)
    m = conc(a.shape[-1]) if a.ndim == 2 else None
    if m is None or b.ndim not in (1, 2) or a.kind != 'real' or b.kind != 'real':
        return npspec.dot(a, b)
    cur().oblige('call-pre[dot: inner dimensions]', a.shape[1] == b.shape[0])
    A, B = a.snapshot(), b.snapshot()
    if b.ndim == 1:
        out = SArr(Cell(lambda i: _ssum([A.at(i, k) * B.at(k) for k in range(m)]), (A.shape[0],), 'real'))
    else:
        out = SArr(Cell(lambda i, j: _ssum([A.at(i, k) * B.at(k, j) for k in range(m)]), (A.shape[0], B.shape[1]), 'real'))
    cur().libcall('np.dot', dict(a=A, b=B, res=out))
    return out


def prod_spec(x):
    """np.prod of a 1-D array = the finite product, by prefix recursion pp(0) = 1, pp(i+1) = pp(i) * a[i]"""
    if isinstance(x, SArr) and x.ndim == 1:
        vc = cur()
        s = x.snapshot()
        n = s.shape[0]
        pp = vc.fresh_fn('pp', I_, R_)
        vc.assume(prodfn_def(pp, n, lambda i: s.at(i)))
        r = SReal(pp(n))
        vc.libcall('np.prod', dict(arr=s, pp=pp, res=r, n=n))
        return r
    return npspec.prod(x)


def prodfn_def(pp, n, factor):
    return z3.And(pp(0) == 1, forall_range(0, n, lambda i: pp(i + 1) == pp(i) * factor(i), 'i'))


def np_module(**extra):
    e = dict(dot=dot_spec, prod=prod_spec)
    e.update(extra)
    return npspec.module(extra=e)


class UniformSpec:
    """scipy.stats.uniform(loc, scale).rvs(size=(n, 1), random_state=seed): n values in [loc, loc + scale] (assumed, sanity-tested);
    nothing is assumed about their distribution or about the seed"""

    def __init__(self, loc, scale):
        self.loc, self.scale = T(loc), T(scale)

    def rvs(self, size=None, random_state=None):
        vc = cur()
        if not (isinstance(size, tuple) and len(size) == 2 and size[1] == 1):
            raise OutOfSubset('uniform.rvs size %r' % (size,))
        n = T(size[0])
        vc.oblige('call-pre[uniform: scale > 0]', self.scale > 0)
        vc.oblige('call-pre[rvs: size >= 0]', n >= 0)
        out = SArr.fresh('u', (n, 1), 'real')
        vc.assume(forall_range(0, n, lambda r: z3.And(self.loc <= out.at(r, 0), out.at(r, 0) <= self.loc + self.scale), 'r'))
        vc.libcall('uniform.rvs', dict(res=out, loc=self.loc, scale=self.scale, n=n))
        return out


class _SS:
    uniform = UniformSpec


# ---------------------------------------------------------------- the region, symbolically
def row_ok(new, old, r):
    """clause of the property for one dimension of the limits: at least EPS_W wide, never narrower than given,
    untouched when wide enough, otherwise moved out by EPS_W / 2 on both sides"""
    lo, hi, lo2, hi2 = old.at(r, 0), old.at(r, 1), new.at(r, 0), new.at(r, 1)
    return z3.And(hi2 - lo2 >= EPS_W, lo2 <= lo, hi <= hi2,
                  z3.If(hi - lo > EPS_W, z3.And(lo2 == lo, hi2 == hi), z3.And(lo2 == lo - EPS_W / 2, hi2 == hi + EPS_W / 2)))


class SecureLimits(Contract):
    target = ROMC + '::NDimBoundingBox._secure_limits'
    prop = 'C19'
    fin = 4

    def setup(self, vc):
        D = z3.Int('D')
        vc.fin_bounds.append(D)
        lim = SArr.fresh('limits', (D, 2), 'real')
        s = NS(D=D, lim=lim, lim0=lim.snapshot())
        return s, (make_object('NDimBoundingBox'), lim), {}

    def requires(self, s):
        return [s.D >= 0, forall_range(0, s.D, lambda i: z3.And(s.lim0.at(i, 0) <= 0, s.lim0.at(i, 1) >= 0), 'i')]

    loops = {0: Loop(inv=lambda s, l: [('shape kept', z3.And(l.limits.shape[0] == s.D, l.limits.shape[1] == 2)),
                                       ('visited dimensions are secured', forall_range(0, l.it.index, lambda r: row_ok(l.limits, s.lim0, r), 'r')),
                                       ('the others still hold the given limits',
                                        forall_range(l.it.index, s.D, lambda r: z3.And(l.limits.at(r, 0) == s.lim0.at(r, 0), l.limits.at(r, 1) == s.lim0.at(r, 1)), 'r'))],
                     modifies=lambda s, l: [l.limits])}

    def ensures(self, s, result):
        if not (isinstance(result, SArr) and result.ndim == 2):
            return [('limits array (D, 2)', z3.BoolVal(False))]
        return [('shape (D, 2)', z3.And(result.shape[0] == s.D, result.shape[1] == 2)),
                ('every dimension is at least 0.001 wide, contains the given interval, and is untouched when it was wide enough',
                 forall_range(0, s.D, lambda r: row_ok(result, s.lim0, r), 'r')),
                ('the argument is not modified', forall_range(0, s.D, lambda r: z3.And(s.lim.at(r, 0) == s.lim0.at(r, 0), s.lim.at(r, 1) == s.lim0.at(r, 1)), 'r'))]

    def witness(self, vc, model, ob):
        ev = lambda t: str(model.eval(t, model_completion=True))
        d = int(ev(z3.Int('D')))
        return dict(D=d, limits=[[ev(vc._s.lim0.at(i, 0)), ev(vc._s.lim0.at(i, 1))] for i in range(max(d, 0))]) if hasattr(vc, '_s') else dict(D=d)


# ---------------------------------------------------------------- _compute_volume (any D)
def stmt_prod_positive(n, a, pp):
    hyp = z3.And(n >= 0, prodfn_def(pp, n, a), forall_range(0, n, lambda i: a(i) > 0, 'i'))
    return hyp, pp(n) > 0


class LemmaProdPositive(Contract):
    """a finite product of positive factors is positive (induction on the number of factors)"""
    target = '@verif/lemmas/c19_lemmas.py::lemma_prod_positive'
    prop = 'C19'
    fin = 4

    def setup(self, vc):
        n = z3.Int('n')
        vc.fin_bounds.append(n)
        A, PP = z3.Function('A', I_, R_), z3.Function('PP', I_, R_)
        hyp, goal = stmt_prod_positive(n, A, PP)
        s = NS(n=n, A=A, PP=PP, hyp=hyp, goal=goal)
        return s, (SInt(n),), {}

    def env(self, vc):
        def unfold_prod(k):
            k = T(k)
            s = self._s
            vc.oblige('call-pre[unfold_prod at 0 <= k < n]', z3.And(0 <= k, k < s.n))
            vc.assume(s.PP(k + 1) == s.PP(k) * s.A(k), s.A(k) > 0)       # instances of the quantified hypotheses
        return dict(unfold_prod=unfold_prod)

    def requires(self, s):
        self._s = s
        return [s.hyp]

    loops = {0: Loop(inv=lambda s, l: [z3.And(T(l.k) >= 0, T(l.k) <= s.n), s.PP(T(l.k)) > 0])}

    def ensures(self, s, result):
        return [('the product of n positive factors is positive', s.goal)]


class ComputeVolume(Contract):
    target = ROMC + '::NDimBoundingBox._compute_volume'
    prop = 'C19'
    fin = 4

    def env(self, vc):
        return dict(np=np_module())

    def setup(self, vc):
        D = z3.Int('D')
        vc.fin_bounds.append(D)
        lim = SArr.fresh('limits', (D, 2), 'real')
        s = NS(D=D, lim=lim.snapshot())
        return s, (make_object('NDimBoundingBox', attrs=dict(limits=lim)),), {}

    def requires(self, s):
        # class invariant established by _secure_limits (contract SecureLimits)
        return [s.D >= 0, forall_range(0, s.D, lambda i: s.lim.at(i, 1) - s.lim.at(i, 0) >= EPS_W, 'i')]

    def hooks(self, s):
        def at_prod(vc, rec):
            vc.cut('np.prod receives the D widths hi - lo', z3.And(rec['n'] == s.D, forall_range(0, s.D, lambda i: rec['arr'].at(i) == s.lim.at(i, 1) - s.lim.at(i, 0), 'i')))
            hyp, goal = stmt_prod_positive(rec['n'], lambda i: rec['arr'].at(i), rec['pp'])
            vc.assume(z3.Implies(hyp, goal))            # instance of LemmaProdPositive
            vc.cut('a product of positive widths is positive', goal)
        return {('np.prod', 0): at_prod}

    def ensures(self, s, result):
        vc = cur()
        rec = (vc.libcalls.get('np.prod') or [None])[0]
        if rec is None:
            return [('volume = product of the widths', z3.BoolVal(False))]
        return [('volume = product over the dimensions of hi - lo', z3.And(T(result) == rec['pp'](s.D), rec['n'] == s.D,
                                                                             forall_range(0, s.D, lambda i: rec['arr'].at(i) == s.lim.at(i, 1) - s.lim.at(i, 0), 'i'))),
                ('volume > 0', T(result) > 0)]


# ---------------------------------------------------------------- concrete-dimension matrices with symbolic entries
def _pick(terms, k):
    c = conc(k) if isinstance(k, z3.ExprRef) else k
    if c is not None:
        if 0 <= c < len(terms):
            return terms[c]
        return z3.FreshConst(R_, 'oob')
    r = terms[-1]
    for j in reversed(range(len(terms) - 1)):
        r = z3.If(k == j, terms[j], r)
    return r


def vec(terms):
    terms = list(terms)
    return SArr(Cell(lambda k: _pick(terms, k), (z3.IntVal(len(terms)),), 'real'))


def mat(rows):
    rows = [list(r) for r in rows]
    return SArr(Cell(lambda i, j: _pick([_pick(r, j) for r in rows], i), (z3.IntVal(len(rows)), z3.IntVal(len(rows[0]))), 'real'))


def consts(name, *dims):
    if len(dims) == 1:
        return [z3.Real('%s_%d' % (name, i)) for i in range(dims[0])]
    return [[z3.Real('%s_%d_%d' % (name, i, j)) for j in range(dims[1])] for i in range(dims[0])]


def matvec(M, v):
    return [_ssum([M[i][k] * v[k] for k in range(len(v))]) for i in range(len(M))]


def is_identity(A, B):
    """A . B = I, entry by entry"""
    D = len(A)
    return z3.And([_ssum([A[i][k] * B[k][j] for k in range(D)]) == (1 if i == j else 0) for i in range(D) for j in range(D)])


def in_box(th, lim):
    return z3.And([z3.And(lim[i][0] <= th[i], th[i] <= lim[i][1]) for i in range(len(th))])


class Box:
    """symbolic region of concrete dimension D: every entry of R, R^-1, c, limits is a real constant"""

    def __init__(self, D):
        self.D = D
        self.R, self.Rinv, self.c, self.lim = consts('R', D, D), consts('Rinv', D, D), consts('c', D), consts('lim', D, 2)
        self.V = z3.Real('volume')

    def image(self, th):
        """R theta + c"""
        return [a + b for a, b in zip(matvec(self.R, th), self.c)]

    def preimage(self, p):
        """R^-1 (p - c)"""
        return matvec(self.Rinv, [a - b for a, b in zip(p, self.c)])

    def obj(self, **methods):
        return make_object('NDimBoundingBox', attrs=dict(dim=self.D, rotation=mat(self.R), center=vec(self.c), limits=mat(self.lim),
                                                          rotation_inv=mat(self.Rinv), volume=SReal(self.V)), methods=methods)

    def wide(self):
        return z3.And([self.lim[i][1] - self.lim[i][0] >= EPS_W for i in range(self.D)])

    def witness(self, model):
        ev = lambda t: str(model.eval(t, model_completion=True))
        return dict(D=self.D, R=[[ev(x) for x in r] for r in self.R], Rinv=[[ev(x) for x in r] for r in self.Rinv], c=[ev(x) for x in self.c],
                    limits=[[ev(x) for x in r] for r in self.lim])


class Sample(Contract):
    target = ROMC + '::NDimBoundingBox.sample'
    prop = 'C19'
    fin = 4

    def __init__(self, D):
        self.D = D
        self.label = 'D%d' % D

    def env(self, vc):
        return dict(np=np_module(), ss=_SS, range=conc_range)

    def setup(self, vc):
        n2 = z3.Int('n2')
        vc.fin_bounds.append(n2)
        b = Box(self.D)
        s = NS(n2=n2, b=b)
        return s, (b.obj(), SInt(n2)), dict(seed=vc.fork_values('seed', [None, SInt(z3.Int('seed'))]))

    def requires(self, s):
        return [s.n2 >= 0, s.b.wide()]

    def ensures(self, s, result):
        D, b = self.D, s.b
        draws = cur().libcalls.get('uniform.rvs', [])
        if not (isinstance(result, SArr) and result.ndim == 2 and len(draws) == D):
            return [('(n2, D) array built from one uniform draw per dimension', z3.BoolVal(False))]
        U = [d['res'] for d in draws]

        def row(r):
            th = [U[j].at(r, 0) for j in range(D)]
            img = b.image(th)
            return z3.And(in_box(th, b.lim), z3.And([result.at(r, i) == img[i] for i in range(D)]))
        return [('shape (n2, D)', z3.And(result.shape[0] == s.n2, result.shape[1] == D)),
                ('row r is R theta_r + c with lo <= theta_r <= hi (theta_r = the uniform draws)', forall_range(0, s.n2, row, 'r'))]

    def witness(self, vc, model, ob):
        return dict(function='sample', n2=str(model.eval(z3.Int('n2'), model_completion=True)), **Box(self.D).witness(model))


def _as_bool(x):
    return z3.BoolVal(x) if isinstance(x, bool) else T(x)


def _conjuncts(f, out):
    if z3.is_and(f):
        for ch in f.children():
            _conjuncts(ch, out)
    else:
        out.add(f.get_id())
    return out


class Script:
    """A small proof script run on the path condition: `step(name, hyps, fact)` emits the obligation  hyps => fact  where every
    hypothesis must be a conjunct of the current path condition or an earlier step of the script (checked syntactically), so each
    step is a consequence of the path condition proved from FEWER assumptions (sound; it keeps nonlinear steps small).
    `export(fact)` adds a proved step to the path condition."""

    def __init__(self, vc):
        self.vc = vc
        self.known = set()
        for p in vc.pc:
            _conjuncts(p, self.known)

    def step(self, name, hyps, fact):
        vc = self.vc
        for h in hyps:
            if not _conjuncts(h, set()) <= self.known:
                raise OutOfSubset('proof script step %r uses a hypothesis that is not on the path condition' % name)
        saved = vc.pc
        vc.pc = list(hyps)
        try:
            vc.oblige('lemma-step[%s]' % name, fact)
        finally:
            vc.pc = saved
        _conjuncts(fact, self.known)
        return fact

    def export(self, fact):
        if not _conjuncts(fact, set()) <= self.known:
            raise OutOfSubset('export of an unproved fact')
        self.vc.assume(fact)


class Contains(Contract):
    """Two cases per dimension.  'region-point': the argument is constrained to p = R theta + c with lo <= theta <= hi, and the answer
    must be True.  'any-point': arbitrary p; with the ghost definition y := R^-1 (p - c) the answer must be [lo <= y <= hi] and
    p = R y + c must hold (so `True` is only ever answered for a point of the region).  All polynomial facts are stated over
    flat monomials (products of constants) and the products of hypotheses with a coordinate are explicit cut steps:
    the remaining goals are linear combinations."""
    target = ROMC + '::NDimBoundingBox.contains'
    prop = 'C19'
    fin = 4

    def __init__(self, D, case):
        self.D, self.case = D, case
        self.label = 'D%d-%s' % (D, case)

    def env(self, vc):
        return dict(np=np_module(), range=conc_range)

    def setup(self, vc):
        D = self.D
        b = Box(D)
        s = NS(b=b, p=consts('p', D))
        if self.case == 'region-point':
            s.th = consts('theta', D)
        else:
            s.y = consts('y', D)
        return s, (b.obj(), vec(s.p)), {}

    def _hyps(self, s):
        b, D = s.b, self.D
        h = NS()
        # numpy.linalg.inv (assumed): both products are the identity
        h.RinvR = [[_ssum([b.Rinv[i][k] * b.R[k][j] for k in range(D)]) == (1 if i == j else 0) for j in range(D)] for i in range(D)]
        h.RRinv = [[_ssum([b.R[k][i] * b.Rinv[i][m] for i in range(D)]) == (1 if k == m else 0) for m in range(D)] for k in range(D)]
        if self.case == 'region-point':
            h.box = in_box(s.th, b.lim)
            h.pdef = [s.p[k] == _ssum([b.R[k][j] * s.th[j] for j in range(D)]) + b.c[k] for k in range(D)]           # p = R theta + c
        else:
            # ghost definition y = R^-1 (p - c), written per monomial
            h.ydef = [s.y[i] == _ssum([b.Rinv[i][m] * s.p[m] - b.Rinv[i][m] * b.c[m] for m in range(D)]) for i in range(D)]
        return h

    def requires(self, s):
        h = self._hyps(s)
        out = [z3.And([e for r in h.RinvR for e in r]), z3.And([e for r in h.RRinv for e in r])]
        if self.case == 'region-point':
            out += [h.box, z3.And(h.pdef)]
        else:
            out += [z3.And(h.ydef)]
        return out

    def snapshot(self, s):
        """runs once, after the preconditions are assumed and before the body: the linear-algebra steps (proof script)"""
        vc, b, D, h = cur(), s.b, self.D, self._hyps(s)
        ps = Script(vc)
        if self.case == 'region-point':
            for i in range(D):
                A = [ps.step('R^-1[%d,%d] times the equation of p_%d' % (i, k, k), [h.pdef[k]],
                             b.Rinv[i][k] * s.p[k] == _ssum([b.Rinv[i][k] * b.R[k][j] * s.th[j] for j in range(D)]) + b.Rinv[i][k] * b.c[k]) for k in range(D)]
                B = [ps.step('(R^-1 R)[%d,%d] times theta_%d' % (i, j, j), [h.RinvR[i][j]],
                             _ssum([b.Rinv[i][k] * b.R[k][j] * s.th[j] for k in range(D)]) == (s.th[j] if i == j else 0)) for j in range(D)]
                ps.export(ps.step('(R^-1 p - R^-1 c)_%d = theta_%d' % (i, i), A + B,
                                  _ssum([b.Rinv[i][k] * s.p[k] for k in range(D)]) - _ssum([b.Rinv[i][k] * b.c[k] for k in range(D)]) == s.th[i]))
        else:
            for k in range(D):
                C = [ps.step('R[%d,%d] times the definition of y_%d' % (k, i, i), [h.ydef[i]],
                             b.R[k][i] * s.y[i] == _ssum([b.R[k][i] * b.Rinv[i][m] * s.p[m] - b.R[k][i] * b.Rinv[i][m] * b.c[m] for m in range(D)])) for i in range(D)]
                Dp = [ps.step('(R R^-1)[%d,%d] times p_%d' % (k, m, m), [h.RRinv[k][m]],
                              _ssum([b.R[k][i] * b.Rinv[i][m] * s.p[m] for i in range(D)]) == (s.p[m] if k == m else 0)) for m in range(D)]
                Dc = [ps.step('(R R^-1)[%d,%d] times c_%d' % (k, m, m), [h.RRinv[k][m]],
                              _ssum([b.R[k][i] * b.Rinv[i][m] * b.c[m] for i in range(D)]) == (b.c[m] if k == m else 0)) for m in range(D)]
                ps.export(ps.step('(R y + c)_%d = p_%d' % (k, k), C + Dp + Dc, s.p[k] == _ssum([b.R[k][i] * s.y[i] for i in range(D)]) + b.c[k]))
        return {}

    def ensures(self, s, result):
        b, D = s.b, self.D
        res = _as_bool(result)
        if self.case == 'region-point':
            return [('every point R theta + c with lo <= theta <= hi is reported inside', res)]
        return [('reported inside  <=>  y = R^-1 (p - c) satisfies lo <= y <= hi', res == in_box(s.y, b.lim)),
                ('p = R y + c (so a point reported inside is a point of the region, with witness y)',
                 z3.And([s.p[k] == _ssum([b.R[k][i] * s.y[i] for i in range(D)]) + b.c[k] for k in range(D)]))]

    def witness(self, vc, model, ob):
        ev = lambda t: str(model.eval(t, model_completion=True))
        w = Box(self.D).witness(model)
        w['function'] = 'contains'
        w['point'] = [ev(x) for x in consts('p', self.D)]
        if self.case == 'region-point':
            w['theta'] = [ev(x) for x in consts('theta', self.D)]
        return w


INSIDE = z3.Bool('inside')


class Pdf(Contract):
    """modular over `contains` (contract Contains): any dimension, any rotation and centre"""
    target = ROMC + '::NDimBoundingBox.pdf'
    prop = 'C19'
    fin = 4

    def setup(self, vc):
        D = z3.Int('D')
        vc.fin_bounds.append(D)
        theta = SArr.fresh('theta', (D,), 'real')
        V = z3.Real('volume')
        s = NS(D=D, theta=theta, V=V)

        def contains(self_, point):
            cur().oblige('call-pre[contains receives the evaluated point]', z3.BoolVal(point is theta))
            return SBool(INSIDE)
        return s, (make_object('NDimBoundingBox', attrs=dict(volume=SReal(V)), methods=dict(contains=contains)), theta), {}

    def requires(self, s):
        return [s.D >= 0, s.V > 0]         # class invariant: contract ComputeVolume

    def ensures(self, s, result):
        return [('density = 1/volume if the region contains the point else 0', T(result) == z3.If(INSIDE, 1 / s.V, 0))]

    def witness(self, vc, model, ob):
        return dict(function='pdf')


class LemmaSampleInside(Contract):
    """sample subset-of contains, from the two contracts (D = 1, 2, 3)"""
    target = '@verif/lemmas/c19_lemmas.py::lemma_sample_inside'
    prop = 'C19'
    fin = 4

    def __init__(self, D):
        self.D = D
        self.label = 'D%d' % D

    def setup(self, vc):
        D = self.D
        n2, r = z3.Ints('n2 r')
        vc.fin_bounds.extend([n2, r])
        b = Box(D)
        TH = z3.Function('TH', I_, I_, R_)
        s = NS(b=b, n2=n2, r=r, inv_ok=z3.And(is_identity(b.Rinv, b.R), is_identity(b.R, b.Rinv)))      # numpy.linalg.inv contract

        def sample(self_, n, seed=None):
            # post of contract Sample[D]
            n = T(n)
            cur().oblige('call-pre[sample: n2 >= 0, limits at least 0.001 wide]', z3.And(n >= 0, b.wide()))
            pts = SArr.fresh('pts', (n, D), 'real')

            def row(q):
                th = [TH(q, j) for j in range(D)]
                img = b.image(th)
                return z3.And(in_box(th, b.lim), z3.And([pts.at(q, i) == img[i] for i in range(D)]))
            cur().assume(forall_range(0, n, row, 'r'))
            return pts

        def contains(self_, point):
            # post of contract Contains[D-region-point], instantiated at theta := TH(r, .)
            res = cur().fresh('inside', B_)
            th = [TH(r, j) for j in range(D)]
            img = b.image(th)
            cur().assume(z3.Implies(z3.And(s.inv_ok, in_box(th, b.lim), z3.And([point.at(k) == img[k] for k in range(D)])), res))
            return SBool(res)
        return s, (b.obj(sample=sample, contains=contains), SInt(n2), SInt(z3.Int('seed')), SInt(r)), {}

    def requires(self, s):
        b = s.b
        return [0 <= s.r, s.r < s.n2, b.wide()]

    def ensures(self, s, result):
        return [('every sampled point is contained in the region (R^-1 the inverse of R)', z3.Implies(s.inv_ok, _as_bool(result)))]


CONTRACTS = ([SecureLimits(), ComputeVolume(), LemmaProdPositive(), Pdf()]
             + [Sample(D) for D in DIMS] + [Contains(D, c) for D in DIMS for c in ('region-point', 'any-point')]
             + [LemmaSampleInside(D) for D in DIMS])

TRUSTED_BASE = []
ASSUMPTIONS = []
NOT_PROVED = []


def sanity():
    return []
