"""C19 - ROMC regions: samples lie inside, density is 1/volume inside and 0 outside, weights follow.

Functions under contract (real bodies read from the tree at run time):
  elfi/methods/inference/romc.py
    NDimBoundingBox._secure_limits, _compute_volume, pdf     any dimension D (loop invariants; pdf modular over contains)
    NDimBoundingBox.__init__, sample, contains               D = 1, 2, 3 with EVERY entry of R, R^-1, c, limits, point symbolic
    line_search                                              any D, any (pure) objective, two cases: start below the threshold / any start
    RegionConstructor.build                                  assembly, D = 1, 2, 3 (line_search and the box constructor as callees under contract)
  elfi/methods/posteriors.py
    RomcPosterior._sum_over_indicators / _sum_over_regions / _sum_over_regions_indicators    any number of problems (counting invariants)
    RomcPosterior._pdf_unnorm_single_point (both counting modes), _worker_compute_weight, sample (sequential path), any sizes
  lemmas/c19_lemmas.py: product of positive factors is positive; 0 <= count <= n; sample subset-of contains (from the two contracts)

Spec functions (independent of the code):
  region(R, c, lo, hi) = { R theta + c : lo <= theta <= hi }.  Membership is stated with explicit witnesses: contains[region-point] takes
      p := R theta + c with theta in the box and must answer True; contains[any-point] must answer [lo <= y <= hi] for the ghost y := R^-1 (p - c)
      and p = R y + c must hold, so True is only answered for points of the region.  Together: contains(p) <=> p in region.
  FL(o) = f(th* + o vd), the objective on the search line (uninterpreted, pure); ghost record of the probes that observed f >= eps.
  CNT(k) = |{ i < k : pred(i) }| by prefix recursion; PR / F(i) / Q(i) / IN(i): prior density, distance, region density, membership at the point.

Linear algebra (dimension bound 3, labelled): R^-1 R = R R^-1 = I enters as D*D polynomial equations per product (numpy.linalg.inv, assumed).
The identities R^-1 (R theta + c) - R^-1 c = theta and R (R^-1 (p - c)) + c = p are derived per coordinate by a proof script (class Script):
each step is an SMT obligation over the few hypotheses it needs, polynomials are named by fresh constants so that the last step of every
chain is linear.  In proof mode the body is then analysed under the weaker path condition without the bilinear hypotheses (sound); in finitised
mode (counter-models, vacuity covers) R is a fixed generic rational matrix and R^-1 its exact inverse, so that every counter-model is genuine.

NOT decided - paper lemma for "the density integrates to one":
  Let B = prod_i [lo_i, hi_i], hi_i > lo_i, R invertible, T(theta) = R theta + c.  region = T(B) is measurable and, by the linear change of
  variables, lambda(T(B)) = |det R| * prod_i (hi_i - lo_i).  By the contracts below pdf = 1[region] / V with V = prod_i (hi_i - lo_i) > 0, hence
  integral(pdf) = lambda(T(B)) / V = |det R|.  The density integrates to one iff |det R| = 1, e.g. for every orthonormal R (R^T R = I => det R = +-1).
  The constructor only asserts full rank; _find_rotation_vector returns numpy.linalg.eig eigenvectors (unit columns, |det R| <= 1 by Hadamard,
  = 1 iff they are orthogonal).  Neither measure theory nor numpy.linalg is mechanised here.
"""
MANIFEST = {
    'category': 'proof',
    'text': 'NDimBoundingBox._secure_limits/_compute_volume/pdf, line_search and the RomcPosterior counting / density / weight functions are verified on the '
            'real source for all dimensions, sizes and values (loop invariants, no bound); NDimBoundingBox.__init__/sample/contains and RegionConstructor.build '
            'are verified against the definition region = {R theta + c : lo <= theta <= hi} for every invertible R, centre and limits with all entries symbolic at '
            'dimensions 1, 2, 3 (per-coordinate nonlinear real arithmetic), which gives sample-subset-of-contains and pdf = 1/volume inside, 0 outside. '
            'The float(prior.pdf(...)) conversions of posteriors.py are refuted under the installed numpy (defect F6) until repaired.',
    'note': 'Trusted: pyvc engine and numpy spec table, scipy uniform.rvs in [loc, loc+scale], numpy.linalg.inv (both products are the identity) and '
            'ModelPrior.pdf returning one value per row (sanity-tested each run); floats are reals (a draw on a face of the box can fall outside in floats); '
            'objectives pure. Dimension bound 3 for the linear-algebra clauses; dims 1-4 with random orthonormal rotations in the bounded stand-in. '
            'line_search: full clause under f(th*) < eps and rep_lim >= 0, positivity unconditionally; termination not proved. '
            'NOT proved: the density integrates to one (measure theory, = |det R|, needs |det R| = 1); _find_rotation_vector (numpy.linalg).',
    'technique': 'deductive: loop-invariant VCs from the real AST (pyvc), NRA proof script per coordinate for D <= 3, ghost lemma functions, z3/cvc5; '
                 'bounded: random orthonormal rotations dims 1-4, step objectives, direct RomcPosterior construction with a real ModelPrior',
}

import z3

from pyvc.core import cur, forall_range, exists_range, OutOfSubset
from pyvc.engine import Contract, Loop, NS, make_object
from pyvc.values import SInt, SReal, SBool, Sym, lift, term as T
from pyvc.sarray import SArr, Cell, conc
from pyvc import npspec, pyspec

R_, I_, B_ = z3.RealSort(), z3.IntSort(), z3.BoolSort()
ROMC = 'elfi/methods/inference/romc.py'
POST = 'elfi/methods/posteriors.py'
DIMS = (1, 2, 3)
EPS_W = z3.RealVal('0.001')        # minimal width of a region (romc.py: eps = .001), from the property text "degenerate ones that get widened"


# ---------------------------------------------------------------- library specs local to this property
def conc_range(*a):
    """range(): ndarray.shape entries of a proxy whose size is a z3 integer LITERAL count as python ints
    (concrete-dimension contracts run the short loops over the coordinates natively)"""
    vals = []
    for x in a:
        if isinstance(x, z3.ExprRef):
            c = conc(x)
            if c is None:
                return pyspec.vc_range(*a)
            vals.append(c)
        else:
            vals.append(x)
    return pyspec.vc_range(*vals)


def _ssum(terms):
    r = None
    for t in terms:
        r = t if r is None else r + t
    return r if r is not None else z3.RealVal(0)


def dot_spec(a, b):
    """np.dot(A, b) / np.dot(A, B) with a CONCRETE inner dimension: the explicit sum of products (assumed, sanity-tested);
    symbolic inner dimensions go to the engine's prefix-sum spec"""
    a, b = npspec.asarray(a), npspec.asarray(b)
    m = conc(a.shape[-1]) if a.ndim == 2 else None
    if m is None or b.ndim not in (1, 2) or a.kind != 'real' or b.kind != 'real':
        return npspec.dot(a, b)
    cur().oblige('call-pre[dot: inner dimensions]', a.shape[1] == b.shape[0])
    A, B = a.snapshot(), b.snapshot()
    if b.ndim == 1:
        out = SArr(Cell(lambda i: _ssum([A.at(i, k) * B.at(k) for k in range(m)]), (A.shape[0],), 'real'))
    else:
        out = SArr(Cell(lambda i, j: _ssum([A.at(i, k) * B.at(k, j) for k in range(m)]), (A.shape[0], B.shape[1]), 'real'))
    cur().libcall('np.dot', dict(a=A, b=B, res=out))
    return out


def prod_spec(x):
    """np.prod of a 1-D array = the finite product, by prefix recursion pp(0) = 1, pp(i+1) = pp(i) * a[i]"""
    if isinstance(x, SArr) and x.ndim == 1:
        vc = cur()
        s = x.snapshot()
        n = s.shape[0]
        pp = vc.fresh_fn('pp', I_, R_)
        vc.assume(prodfn_def(pp, n, lambda i: s.at(i)))
        r = SReal(pp(n))
        vc.libcall('np.prod', dict(arr=s, pp=pp, res=r, n=n))
        return r
    return npspec.prod(x)


def prodfn_def(pp, n, factor):
    return z3.And(pp(0) == 1, forall_range(0, n, lambda i: pp(i + 1) == pp(i) * factor(i), 'i'))


def np_module(**extra):
    e = dict(dot=dot_spec, prod=prod_spec)
    e.update(extra)
    return npspec.module(extra=e)


class UniformSpec:
    """scipy.stats.uniform(loc, scale).rvs(size=(n, 1), random_state=seed): n values in [loc, loc + scale] (assumed, sanity-tested);
    nothing is assumed about their distribution or about the seed"""

    def __init__(self, loc, scale):
        self.loc, self.scale = T(loc), T(scale)

    def rvs(self, size=None, random_state=None):
        vc = cur()
        if not (isinstance(size, tuple) and len(size) == 2 and size[1] == 1):
            raise OutOfSubset('uniform.rvs size %r' % (size,))
        n = T(size[0])
        vc.oblige('call-pre[uniform: scale > 0]', self.scale > 0)
        vc.oblige('call-pre[rvs: size >= 0]', n >= 0)
        out = SArr.fresh('u', (n, 1), 'real')
        vc.assume(forall_range(0, n, lambda r: z3.And(self.loc <= out.at(r, 0), out.at(r, 0) <= self.loc + self.scale), 'r'))
        vc.libcall('uniform.rvs', dict(res=out, loc=self.loc, scale=self.scale, n=n))
        return out


class _SS:
    uniform = UniformSpec


# ---------------------------------------------------------------- the region, symbolically
def row_ok(new, old, r):
    """clause of the property for one dimension of the limits: at least EPS_W wide, never narrower than given,
    untouched when wide enough, otherwise moved out by EPS_W / 2 on both sides"""
    lo, hi, lo2, hi2 = old.at(r, 0), old.at(r, 1), new.at(r, 0), new.at(r, 1)
    return z3.And(hi2 - lo2 >= EPS_W, lo2 <= lo, hi <= hi2,
                  z3.If(hi - lo > EPS_W, z3.And(lo2 == lo, hi2 == hi), z3.And(lo2 == lo - EPS_W / 2, hi2 == hi + EPS_W / 2)))


class SecureLimits(Contract):
    target = ROMC + '::NDimBoundingBox._secure_limits'
    prop = 'C19'
    fin = 4

    def setup(self, vc):
        D = z3.Int('D')
        vc.fin_bounds.append(D)
        lim = SArr.fresh('limits', (D, 2), 'real')
        s = NS(D=D, lim=lim, lim0=lim.snapshot())
        # as in the constructor at the time of the call: dim, rotation, center are set, the rest is not yet
        return s, (region_self(D, without=('limits', 'rotation_inv', 'volume')), lim), {}

    def requires(self, s):
        return [s.D >= 0, forall_range(0, s.D, lambda i: z3.And(s.lim0.at(i, 0) <= 0, s.lim0.at(i, 1) >= 0), 'i')]

    loops = {0: Loop(inv=lambda s, l: [('shape kept', z3.And(l.limits.shape[0] == s.D, l.limits.shape[1] == 2)),
                                       ('visited dimensions are secured', forall_range(0, l.it.index, lambda r: row_ok(l.limits, s.lim0, r), 'r')),
                                       ('the others still hold the given limits',
                                        forall_range(l.it.index, s.D, lambda r: z3.And(l.limits.at(r, 0) == s.lim0.at(r, 0), l.limits.at(r, 1) == s.lim0.at(r, 1)), 'r'))],
                     modifies=lambda s, l: [l.limits])}

    def ensures(self, s, result):
        if not (isinstance(result, SArr) and result.ndim == 2):
            return [('limits array (D, 2)', z3.BoolVal(False))]
        return [('shape (D, 2)', z3.And(result.shape[0] == s.D, result.shape[1] == 2)),
                ('every dimension is at least 0.001 wide, contains the given interval, and is untouched when it was wide enough',
                 forall_range(0, s.D, lambda r: row_ok(result, s.lim0, r), 'r')),
                ('the argument is not modified', forall_range(0, s.D, lambda r: z3.And(s.lim.at(r, 0) == s.lim0.at(r, 0), s.lim.at(r, 1) == s.lim0.at(r, 1)), 'r'))]

    def witness(self, vc, model, ob):
        ev = lambda t: str(model.eval(t, model_completion=True))
        d = int(ev(z3.Int('D')))
        return dict(D=d, limits=[[ev(vc._s.lim0.at(i, 0)), ev(vc._s.lim0.at(i, 1))] for i in range(max(d, 0))]) if hasattr(vc, '_s') else dict(D=d)


# ---------------------------------------------------------------- _compute_volume (any D)
def stmt_prod_positive(n, a, pp):
    hyp = z3.And(n >= 0, prodfn_def(pp, n, a), forall_range(0, n, lambda i: a(i) > 0, 'i'))
    return hyp, pp(n) > 0


class LemmaProdPositive(Contract):
    """a finite product of positive factors is positive (induction on the number of factors)"""
    target = '@verif/lemmas/c19_lemmas.py::lemma_prod_positive'
    prop = 'C19'
    fin = 4

    def setup(self, vc):
        n = z3.Int('n')
        vc.fin_bounds.append(n)
        A, PP = z3.Function('A', I_, R_), z3.Function('PP', I_, R_)
        hyp, goal = stmt_prod_positive(n, A, PP)
        s = NS(n=n, A=A, PP=PP, hyp=hyp, goal=goal)
        return s, (SInt(n),), {}

    def env(self, vc):
        def unfold_prod(k):
            k = T(k)
            s = self._s
            vc.oblige('call-pre[unfold_prod at 0 <= k < n]', z3.And(0 <= k, k < s.n))
            vc.assume(s.PP(k + 1) == s.PP(k) * s.A(k), s.A(k) > 0)       # instances of the quantified hypotheses
        return dict(unfold_prod=unfold_prod)

    def requires(self, s):
        self._s = s
        return [s.hyp]

    loops = {0: Loop(inv=lambda s, l: [z3.And(T(l.k) >= 0, T(l.k) <= s.n), s.PP(T(l.k)) > 0])}

    def ensures(self, s, result):
        return [('the product of n positive factors is positive', s.goal)]


class ComputeVolume(Contract):
    target = ROMC + '::NDimBoundingBox._compute_volume'
    prop = 'C19'
    fin = 4

    def env(self, vc):
        return dict(np=np_module())

    def setup(self, vc):
        D = z3.Int('D')
        vc.fin_bounds.append(D)
        lim = SArr.fresh('limits', (D, 2), 'real')
        s = NS(D=D, lim=lim.snapshot())
        return s, (region_self(D, attrs=dict(limits=lim), without=('volume',)),), {}

    def requires(self, s):
        # class invariant established by _secure_limits (contract SecureLimits)
        return [s.D >= 0, forall_range(0, s.D, lambda i: s.lim.at(i, 1) - s.lim.at(i, 0) >= EPS_W, 'i')]

    def hooks(self, s):
        def at_prod(vc, rec):
            vc.cut('np.prod receives the D widths hi - lo', z3.And(rec['n'] == s.D, forall_range(0, s.D, lambda i: rec['arr'].at(i) == s.lim.at(i, 1) - s.lim.at(i, 0), 'i')))
            hyp, goal = stmt_prod_positive(rec['n'], lambda i: rec['arr'].at(i), rec['pp'])
            vc.assume(z3.Implies(hyp, goal))            # instance of LemmaProdPositive
            vc.cut('a product of positive widths is positive', goal)
        return {('np.prod', 0): at_prod}

    def ensures(self, s, result):
        vc = cur()
        rec = (vc.libcalls.get('np.prod') or [None])[0]
        if rec is None:
            return [('volume = product of the widths', z3.BoolVal(False))]
        return [('volume = product over the dimensions of hi - lo', z3.And(T(result) == rec['pp'](s.D), rec['n'] == s.D,
                                                                             forall_range(0, s.D, lambda i: rec['arr'].at(i) == s.lim.at(i, 1) - s.lim.at(i, 0), 'i'))),
                ('volume > 0', T(result) > 0)]


# ---------------------------------------------------------------- concrete-dimension matrices with symbolic entries
def _pick(terms, k):
    c = conc(k) if isinstance(k, z3.ExprRef) else k
    if c is not None:
        if 0 <= c < len(terms):
            return terms[c]
        return z3.FreshConst(R_, 'oob')
    r = terms[-1]
    for j in reversed(range(len(terms) - 1)):
        r = z3.If(k == j, terms[j], r)
    return r


def vec(terms):
    terms = list(terms)
    return SArr(Cell(lambda k: _pick(terms, k), (z3.IntVal(len(terms)),), 'real'))


def mat(rows):
    rows = [list(r) for r in rows]
    return SArr(Cell(lambda i, j: _pick([_pick(r, j) for r in rows], i), (z3.IntVal(len(rows)), z3.IntVal(len(rows[0]))), 'real'))


def consts(name, *dims):
    if len(dims) == 1:
        return [z3.Real('%s_%d' % (name, i)) for i in range(dims[0])]
    return [[z3.Real('%s_%d_%d' % (name, i, j)) for j in range(dims[1])] for i in range(dims[0])]


def matvec(M, v):
    return [_ssum([M[i][k] * v[k] for k in range(len(v))]) for i in range(len(M))]


def is_identity(A, B):
    """A . B = I, entry by entry"""
    D = len(A)
    return z3.And([_ssum([A[i][k] * B[k][j] for k in range(D)]) == (1 if i == j else 0) for i in range(D) for j in range(D)])


def in_box(th, lim):
    return z3.And([z3.And(lim[i][0] <= th[i], th[i] <= lim[i][1]) for i in range(len(th))])


# finitised mode (counter-model search, vacuity covers) fixes R to a generic rational matrix with no zero / equal / symmetric entries
# and R^-1 to its exact inverse: the search is then linear.  Proof mode keeps every entry symbolic.
_GENERIC = {1: [[2]], 2: [[2, 1], [-3, 5]], 3: [[2, 1, -1], [3, -2, 4], [1, 5, 7]]}


def _generic_pair(D):
    import sympy
    M = sympy.Matrix(_GENERIC[D])
    Mi = M.inv()
    q = lambda x: z3.RealVal('%d/%d' % (sympy.Rational(x).p, sympy.Rational(x).q))
    return [[q(M[i, j]) for j in range(D)] for i in range(D)], [[q(Mi[i, j]) for j in range(D)] for i in range(D)]


class Box:
    """symbolic region of concrete dimension D: every entry of R, R^-1, c, limits is a real constant"""

    def pinned(self):
        R0, Ri0 = _generic_pair(self.D)
        D = self.D
        return z3.And([z3.And(self.R[i][j] == R0[i][j], self.Rinv[i][j] == Ri0[i][j]) for i in range(D) for j in range(D)])

    def __init__(self, D):
        self.D = D
        self.R, self.Rinv, self.c, self.lim = consts('R', D, D), consts('Rinv', D, D), consts('c', D), consts('lim', D, 2)
        self.V = z3.Real('volume')

    def image(self, th):
        """R theta + c"""
        return [a + b for a, b in zip(matvec(self.R, th), self.c)]

    def preimage(self, p):
        """R^-1 (p - c)"""
        return matvec(self.Rinv, [a - b for a, b in zip(p, self.c)])

    def obj(self, **methods):
        return make_object('NDimBoundingBox', attrs=dict(dim=self.D, rotation=mat(self.R), center=vec(self.c), limits=mat(self.lim),
                                                          rotation_inv=mat(self.Rinv), volume=SReal(self.V)), methods=methods)

    def wide(self):
        return z3.And([self.lim[i][1] - self.lim[i][0] >= EPS_W for i in range(self.D)])

    def witness(self, model):
        ev = lambda t: str(model.eval(t, model_completion=True))
        return dict(D=self.D, R=[[ev(x) for x in r] for r in self.R], Rinv=[[ev(x) for x in r] for r in self.Rinv], c=[ev(x) for x in self.c],
                    limits=[[ev(x) for x in r] for r in self.lim])


class Sample(Contract):
    target = ROMC + '::NDimBoundingBox.sample'
    prop = 'C19'
    fin = 4

    def __init__(self, D):
        self.D = D
        self.label = 'D%d' % D

    def env(self, vc):
        return dict(np=np_module(), ss=_SS, range=conc_range)

    def setup(self, vc):
        n2 = z3.Int('n2')
        vc.fin_bounds.append(n2)
        b = Box(self.D)
        s = NS(n2=n2, b=b)
        return s, (b.obj(), SInt(n2)), dict(seed=vc.fork_values('seed', [None, SInt(z3.Int('seed'))]))

    def requires(self, s):
        return [s.n2 >= 0, s.b.wide()]

    def ensures(self, s, result):
        D, b = self.D, s.b
        draws = cur().libcalls.get('uniform.rvs', [])
        if not (isinstance(result, SArr) and result.ndim == 2 and len(draws) == D):
            return [('(n2, D) array built from one uniform draw per dimension', z3.BoolVal(False))]
        U = [d['res'] for d in draws]

        def row(r):
            th = [U[j].at(r, 0) for j in range(D)]
            img = b.image(th)
            return z3.And(in_box(th, b.lim), z3.And([result.at(r, i) == img[i] for i in range(D)]))
        return [('shape (n2, D)', z3.And(result.shape[0] == s.n2, result.shape[1] == D)),
                ('row r is R theta_r + c with lo <= theta_r <= hi (theta_r = the uniform draws)', forall_range(0, s.n2, row, 'r'))]

    def witness(self, vc, model, ob):
        return dict(function='sample', n2=str(model.eval(z3.Int('n2'), model_completion=True)), **Box(self.D).witness(model))


def _as_bool(x):
    return z3.BoolVal(x) if isinstance(x, bool) else T(x)


def _conjuncts(f, out):
    if z3.is_and(f):
        for ch in f.children():
            _conjuncts(ch, out)
    else:
        out.add(f.get_id())
    return out


class Script:
    """A small proof script run on the path condition: `step(name, hyps, fact)` emits the obligation  hyps => fact  where every
    hypothesis must be a conjunct of the current path condition or an earlier step of the script (checked syntactically), so each
    step is a consequence of the path condition proved from FEWER assumptions (sound; it keeps nonlinear steps small).
    `export(fact)` adds a proved step to the path condition."""

    def __init__(self, vc):
        self.vc = vc
        self.known = set()
        for p in vc.pc:
            _conjuncts(p, self.known)

    def step(self, name, hyps, fact):
        vc = self.vc
        for h in hyps:
            if not _conjuncts(h, set()) <= self.known:
                raise OutOfSubset('proof script step %r uses a hypothesis that is not on the path condition' % name)
        saved = vc.pc
        vc.pc = list(hyps)
        try:
            vc.oblige('lemma-step[%s]' % name, fact)
        finally:
            vc.pc = saved
        _conjuncts(fact, self.known)
        return fact

    def define(self, name, term):
        """ghost definition: a FRESH constant naming a polynomial (conservative extension); returns (constant, defining equation)"""
        c = self.vc.fresh(name, R_)
        d = c == term
        _conjuncts(d, self.known)
        return c, d

    def export(self, fact):
        if not _conjuncts(fact, set()) <= self.known:
            raise OutOfSubset('export of an unproved fact')
        self.vc.assume(fact)


class Contains(Contract):
    """Two cases per dimension.  'region-point': the argument is constrained to p = R theta + c with lo <= theta <= hi, and the answer
    must be True.  'any-point': arbitrary p; with the ghost definition y := R^-1 (p - c) the answer must be [lo <= y <= hi] and
    p = R y + c must hold (so `True` is only ever answered for a point of the region).  All polynomial facts are stated over
    flat monomials (products of constants) and the products of hypotheses with a coordinate are explicit cut steps:
    the remaining goals are linear combinations."""
    target = ROMC + '::NDimBoundingBox.contains'
    prop = 'C19'
    fin = 4

    def __init__(self, D, case):
        self.D, self.case = D, case
        self.label = 'D%d-%s' % (D, case)

    def env(self, vc):
        return dict(np=np_module(), range=conc_range)

    def setup(self, vc):
        D = self.D
        b = Box(D)
        s = NS(b=b, p=consts('p', D))
        if self.case == 'region-point':
            s.th = consts('theta', D)
        else:
            s.y = consts('y', D)
            s.image = []
        return s, (b.obj(), vec(s.p)), {}

    def _hyps(self, s):
        b, D = s.b, self.D
        h = NS()
        # numpy.linalg.inv (assumed): both products are the identity
        h.RinvR = [[_ssum([b.Rinv[i][k] * b.R[k][j] for k in range(D)]) == (1 if i == j else 0) for j in range(D)] for i in range(D)]
        h.RRinv = [[_ssum([b.R[k][i] * b.Rinv[i][m] for i in range(D)]) == (1 if k == m else 0) for m in range(D)] for k in range(D)]
        if self.case == 'region-point':
            h.box = in_box(s.th, b.lim)
            h.pdef = [s.p[k] == _ssum([b.R[k][j] * s.th[j] for j in range(D)]) + b.c[k] for k in range(D)]           # p = R theta + c
        else:
            # ghost definition y = R^-1 (p - c), written per monomial
            h.ydef = [s.y[i] == _ssum([b.Rinv[i][m] * s.p[m] - b.Rinv[i][m] * b.c[m] for m in range(D)]) for i in range(D)]
        return h

    def requires(self, s):
        h = self._hyps(s)
        s.inv = [z3.And([e for r in h.RinvR for e in r]), z3.And([e for r in h.RRinv for e in r])]
        out = list(s.inv)
        if self.case == 'region-point':
            s.pdef = z3.And(h.pdef)
            out += [h.box, s.pdef]
        else:
            out += [z3.And(h.ydef)]
        if cur().fin is not None:
            out.append(s.b.pinned())
        return out

    def snapshot(self, s):
        """runs once, after the preconditions are assumed and before the body: the linear-algebra steps (proof script)"""
        vc, b, D, h = cur(), s.b, self.D, self._hyps(s)
        ps = Script(vc)
        # Every step is kept small on purpose: pure real obligations go to z3's nlsat, whose cost grows with the number of variables,
        # and z3 rewrites  x*poly == 0  into a disjunction.  Polynomials are therefore NAMED by fresh constants (ghost definitions),
        # the bilinear work is done in steps that see only the definitions and hypotheses they need, and the last step of each chain is linear.
        if self.case == 'region-point':
            for i in range(D):
                u, du = ps.define('u%d' % i, _ssum([b.Rinv[i][k] * s.p[k] for k in range(D)]))                                   # (R^-1 p)_i
                v, dv = ps.define('v%d' % i, _ssum([b.Rinv[i][k] * b.c[k] for k in range(D)]))                                   # (R^-1 c)_i
                t, dt = ps.define('t%d' % i, _ssum([b.Rinv[i][k] * b.R[k][j] * s.th[j] for k in range(D) for j in range(D)]))    # (R^-1 R theta)_i
                A = ps.step('(R^-1 p)_%d = (R^-1 R theta)_%d + (R^-1 c)_%d, from p = R theta + c' % (i, i, i), h.pdef + [du, dv, dt], u == t + v)
                B = ps.step('(R^-1 R theta)_%d = theta_%d, from R^-1 R = I' % (i, i), h.RinvR[i] + [dt], t == s.th[i])
                F = ps.step('(R^-1 p)_%d - (R^-1 c)_%d = theta_%d' % (i, i, i), [A, B], u - v == s.th[i])
                for f in (du, dv, F):
                    ps.export(f)
        else:
            for k in range(D):
                a, da = ps.define('a%d' % k, _ssum([b.R[k][i] * s.y[i] for i in range(D)]))                                                                  # (R y)_k
                t2, d2 = ps.define('rp%d' % k, _ssum([b.R[k][i] * b.Rinv[i][m] * s.p[m] for i in range(D) for m in range(D)]))      # (R R^-1 p)_k
                t3, d3 = ps.define('rc%d' % k, _ssum([b.R[k][i] * b.Rinv[i][m] * b.c[m] for i in range(D) for m in range(D)]))      # (R R^-1 c)_k
                C = ps.step('(R y)_%d = (R R^-1 p)_%d - (R R^-1 c)_%d, from the definition of y' % (k, k, k), h.ydef + [da, d2, d3], a == t2 - t3)
                Dp = ps.step('(R R^-1 p)_%d = p_%d, from R R^-1 = I' % (k, k), h.RRinv[k] + [d2], t2 == s.p[k])
                Dc = ps.step('(R R^-1 c)_%d = c_%d, from R R^-1 = I' % (k, k), h.RRinv[k] + [d3], t3 == b.c[k])
                F = ps.step('(R y)_%d = p_%d - c_%d' % (k, k, k), [C, Dp, Dc], a == s.p[k] - b.c[k])
                s.image += [da, F]
        if vc.fin is None:
            # proof mode: the bilinear hypotheses have done their work in the script; the body is analysed under the WEAKER path condition
            # without them (sound: fewer assumptions), which keeps the comparisons of the body in linear arithmetic over the monomials
            drop = set(f.get_id() for f in s.inv + ([s.pdef] if self.case == 'region-point' else []))
            vc.pc = [f for f in vc.pc if f.get_id() not in drop]
        return {}

    def ensures(self, s, result):
        b, D = s.b, self.D
        res = _as_bool(result)
        if self.case == 'region-point':
            return [('every point R theta + c with lo <= theta <= hi is reported inside', res)]
        # the second clause is the conjunction of the last steps of the proof script: it is discharged from those steps alone
        # (they are NOT put on the path condition: products R*y next to the comparisons would only slow the first clause down)
        vc = cur()
        saved = vc.pc
        vc.pc = list(s.image)
        try:
            vc.oblige('post[p = R y + c (so a point reported inside is a point of the region, with witness y)]',
                      z3.And([s.p[k] == _ssum([b.R[k][i] * s.y[i] for i in range(D)]) + b.c[k] for k in range(D)]))
        finally:
            vc.pc = saved
        return [('reported inside  <=>  y = R^-1 (p - c) satisfies lo <= y <= hi', res == in_box(s.y, b.lim))]

    def witness(self, vc, model, ob):
        ev = lambda t: str(model.eval(t, model_completion=True))
        w = Box(self.D).witness(model)
        w['function'] = 'contains'
        w['point'] = [ev(x) for x in consts('p', self.D)]
        if self.case == 'region-point':
            w['theta'] = [ev(x) for x in consts('theta', self.D)]
        return w


RANK = z3.Int('matrix_rank')


class Init(Contract):
    """the constructor establishes the class invariant that the other contracts of the region require: limits secured (>= 0.001 wide),
    rotation_inv the inverse of rotation, volume > 0.  _secure_limits / _compute_volume are callees under contract; numpy.linalg is assumed."""
    target = ROMC + '::NDimBoundingBox.__init__'
    prop = 'C19'
    fin = 4

    def __init__(self, D):
        self.D = D
        self.label = 'D%d' % D

    def setup(self, vc):
        D = self.D
        b = Box(D)
        lim0 = consts('given', D, 2)
        rot, cen, lim_arg = mat(b.R), vec(b.c), mat(lim0)
        s = NS(b=b, lim0=lim0, rot=rot, cen=cen, sec=None)
        old = lim_arg.snapshot()

        def secure(self_, limits):
            # contract SecureLimits
            cur().oblige('call-pre[_secure_limits: the given limits with lo <= 0 <= hi]', z3.And([z3.BoolVal(limits is lim_arg)] + [z3.And(lim0[i][0] <= 0, lim0[i][1] >= 0) for i in range(D)]))
            s.sec = mat(b.lim)
            cur().assume(z3.And([row_ok(s.sec, old, i) for i in range(D)]))
            return s.sec

        def volume(self_):
            # contract ComputeVolume
            lim = getattr(self_, 'limits', None)
            cur().oblige('call-pre[_compute_volume: self.limits are the secured limits]', z3.BoolVal(lim is s.sec and lim is not None))
            cur().assume(b.V > 0)
            return SReal(b.V)

        class _Linalg:
            @staticmethod
            def matrix_rank(a):
                cur().oblige('call-pre[matrix_rank of the rotation]', z3.BoolVal(a is rot))
                cur().assume(z3.And(RANK >= 0, RANK <= D))
                return SInt(RANK)

            @staticmethod
            def inv(a):
                cur().oblige('call-pre[inv of the full-rank rotation]', z3.And(z3.BoolVal(a is rot), RANK == D))
                cur().assume(z3.And(is_identity(b.Rinv, b.R), is_identity(b.R, b.Rinv)))      # numpy.linalg.inv (assumed)
                return mat(b.Rinv)
        s.np = np_module(linalg=_Linalg)
        s.self = make_object('NDimBoundingBox', methods=dict(_secure_limits=secure, _compute_volume=volume))
        vc._s19i = s
        return s, (s.self, rot, cen, lim_arg), {}

    def env(self, vc):
        return dict(np=vc._s19i.np)

    def requires(self, s):
        out = [z3.And([z3.And(s.lim0[i][0] <= 0, s.lim0[i][1] >= 0) for i in range(self.D)])]
        if cur().fin is not None:
            out.append(s.b.pinned())        # finitised mode: generic rational rotation and its exact inverse (see _GENERIC)
        return out

    def raises(self, s):
        return {'AssertionError': RANK != self.D}

    def iff_raises(self, s):
        return [('constructed only for a full-rank rotation', RANK == self.D)]

    def ensures(self, s, result):
        o, b, D = s.self, s.b, self.D
        g = lambda k: getattr(o, k, None)
        if not (g('rotation') is s.rot and g('center') is s.cen and g('limits') is s.sec and s.sec is not None and isinstance(g('rotation_inv'), SArr)):
            return [('attributes rotation, center, limits (secured), rotation_inv, volume are set', z3.BoolVal(False))]
        ri = o.rotation_inv
        Ri = [[ri.at(i, j) for j in range(D)] for i in range(D)]
        return [('dim = D', T(o.dim) == D),
                ('limits are the secured limits: every dimension at least 0.001 wide', z3.And([o.limits.at(i, 1) - o.limits.at(i, 0) >= EPS_W for i in range(D)])),
                ('rotation_inv is the inverse of rotation', z3.And(is_identity(Ri, b.R), is_identity(b.R, Ri))),
                ('volume > 0', _real(o.volume) > 0)]

    def witness(self, vc, model, ob):
        return dict(function='box', D=self.D)


INSIDE = z3.Bool('inside')


class Pdf(Contract):
    """modular over `contains` (contract Contains): any dimension, any rotation and centre"""
    target = ROMC + '::NDimBoundingBox.pdf'
    prop = 'C19'
    fin = 4

    def setup(self, vc):
        D = z3.Int('D')
        vc.fin_bounds.append(D)
        theta = SArr.fresh('theta', (D,), 'real')
        V = z3.Real('volume')
        s = NS(D=D, theta=theta, V=V)

        def contains(self_, point):
            cur().oblige('call-pre[contains receives the evaluated point]', z3.BoolVal(point is theta))
            return SBool(INSIDE)
        return s, (region_self(D, attrs=dict(volume=SReal(V)), methods=dict(contains=contains)), theta), {}

    def requires(self, s):
        return [s.D >= 0, s.V > 0]         # class invariant: contract ComputeVolume

    def ensures(self, s, result):
        return [('density = 1/volume if the region contains the point else 0', T(result) == z3.If(INSIDE, 1 / s.V, 0))]

    def witness(self, vc, model, ob):
        return dict(function='pdf')


class LemmaSampleInside(Contract):
    """sample subset-of contains, from the two contracts (D = 1, 2, 3)"""
    target = '@verif/lemmas/c19_lemmas.py::lemma_sample_inside'
    prop = 'C19'
    fin = 4

    def __init__(self, D):
        self.D = D
        self.label = 'D%d' % D

    def setup(self, vc):
        D = self.D
        n2, r = z3.Ints('n2 r')
        vc.fin_bounds.extend([n2, r])
        b = Box(D)
        TH = z3.Function('TH', I_, I_, R_)
        s = NS(b=b, n2=n2, r=r, inv_ok=z3.And(is_identity(b.Rinv, b.R), is_identity(b.R, b.Rinv)))      # numpy.linalg.inv contract

        def sample(self_, n, seed=None):
            # post of contract Sample[D]
            n = T(n)
            cur().oblige('call-pre[sample: n2 >= 0, limits at least 0.001 wide]', z3.And(n >= 0, b.wide()))
            pts = SArr.fresh('pts', (n, D), 'real')

            def row(q):
                th = [TH(q, j) for j in range(D)]
                img = b.image(th)
                return z3.And(in_box(th, b.lim), z3.And([pts.at(q, i) == img[i] for i in range(D)]))
            cur().assume(forall_range(0, n, row, 'r'))
            return pts

        def contains(self_, point):
            # post of contract Contains[D-region-point], instantiated at theta := TH(r, .)
            res = cur().fresh('inside', B_)
            th = [TH(r, j) for j in range(D)]
            img = b.image(th)
            cur().assume(z3.Implies(z3.And(s.inv_ok, in_box(th, b.lim), z3.And([point.at(k) == img[k] for k in range(D)])), res))
            return SBool(res)
        return s, (b.obj(sample=sample, contains=contains), SInt(n2), SInt(z3.Int('seed')), SInt(r)), {}

    def requires(self, s):
        b = s.b
        return [0 <= s.r, s.r < s.n2, b.wide()]

    def ensures(self, s, result):
        return [('every sampled point is contained in the region (R^-1 the inverse of R)', z3.Implies(s.inv_ok, _as_bool(result)))]


# ---------------------------------------------------------------- line_search (any dimension, any objective)
FL = z3.Function('FL', R_, R_)          # the objective restricted to the search line: FL(o) = f(th* + o vd); uninterpreted, pure


def _real(x):
    t = T(x)
    return z3.ToReal(t) if t.sort() == I_ else t


class ProbeGhost:
    """ghost record of the probes that observed f >= eps: whether there was one and the smallest offset of one
    (f is pure, so "every probe at an offset <= x observed f < eps" is  not hasbad or x < minbad)"""

    def __init__(self):
        self.hasbad, self.minbad, self.hint = z3.BoolVal(False), z3.RealVal(0), None

    def _vc_havoc(self, name):
        vc = cur()
        self.hasbad, self.minbad = vc.fresh(name + '_hasbad', B_), vc.fresh(name + '_minbad', R_)

    def state(self):
        return (self.hasbad, self.minbad)


class LineSearch(Contract):
    """case 'start-below' (f(th*) < eps, rep_lim >= 0: the situation of RegionConstructor.build around an accepted optimum): the full clause;
    case 'any-start' (no assumption on f, K, rep_lim): the returned offset is positive."""
    target = ROMC + '::line_search'
    prop = 'C19'
    fin = 4

    def __init__(self, case):
        self.case = case
        self.label = case

    def setup(self, vc):
        D, K, rep_lim = z3.Ints('D K rep_lim')
        eps, eta0 = z3.Reals('eps eta0')
        vc.fin_bounds.extend([D, K])
        ths, vd = SArr.fresh('th_star', (D,), 'real'), SArr.fresh('vd', (D,), 'real')
        g = ProbeGhost()
        s = NS(D=D, K=K, rep_lim=rep_lim, eps=eps, eta0=eta0, ths=ths.snapshot(), vd=vd.snapshot(), g=g, ths_arg=ths, vd_arg=vd)
        below = self.case == 'start-below'
        if below:
            vc.fin_bounds.append(rep_lim)

        def f(arg):
            if not below:
                return SReal(vc.fresh('f', R_))
            a = arg.snapshot()
            o = g.hint                        # ghost offset of this probe (set at the loop head that precedes every probe)
            if o is None:
                raise OutOfSubset('objective called outside the search loop')
            vc.oblige('call-pre[the probed point is th* + offset vd]', self.line(s, a, o))
            r = FL(o)
            bad = r >= eps
            g.minbad = z3.If(bad, z3.If(z3.And(g.hasbad, g.minbad <= o), g.minbad, o), g.minbad)
            g.hasbad = z3.Or(g.hasbad, bad)
            vc.libcall('f', dict(offset=o, value=r))
            return SReal(r)
        return s, (f, ths, vd, SReal(eps)), dict(K=SInt(K), eta=SReal(eta0), rep_lim=SInt(rep_lim))

    @staticmethod
    def line(s, th, o):
        return z3.And(th.shape[0] == s.D, forall_range(0, s.D, lambda j: th.at(j) == s.ths.at(j) + o * s.vd.at(j), 'j'))

    def requires(self, s):
        out = [s.D >= 0, s.eta0 > 0]
        if self.case == 'start-below':
            out += [s.rep_lim >= 0, FL(z3.RealVal(0)) < s.eps]
        return out

    # loop 0: for i in range(K)           loop 1: while f(th) < eps and rep <= rep_lim
    def _outer(self, s, l):
        eta, off, g = _real(l.eta), _real(l.offset), s.g
        out = [('eta > 0', eta > 0)]
        if self.case == 'start-below':
            out += [('th = th* + offset vd', self.line(s, l.th, off)),
                    ('offset >= 0 and f < eps was observed there', z3.And(off >= 0, FL(off) < s.eps)),
                    ('the only probe that observed f >= eps so far was two current steps ahead',
                     z3.Implies(g.hasbad, z3.And(g.minbad == off + 2 * eta, FL(g.minbad) >= s.eps)))]
        return out

    def _inner(self, s, l):
        if self.case != 'start-below':
            return [('rep >= 0', T(l.rep) >= 0)]
        eta, off, rep, g, e = _real(l.eta), _real(l.offset), T(l.rep), s.g, l.entry
        return [('rep >= 0', rep >= 0),
                ('th = th* + offset vd', self.line(s, l.th, off)),
                ('no step yet: still at the entry offset', z3.And(off >= e.off, z3.Implies(rep == 0, off == e.off))),
                ('after a step: the previous offset is at or beyond the entry offset and f < eps was observed there',
                 z3.Implies(rep >= 1, z3.And(off - eta >= e.off, FL(off - eta) < s.eps))),
                ('no probe observed f >= eps inside this loop', z3.And(g.hasbad == e.hasbad, g.minbad == e.minbad)),
                ('the earlier bad probe is 0, 1 or 2 steps ahead', z3.Implies(g.hasbad, z3.Or(g.minbad == off, g.minbad == off + eta, g.minbad == off + 2 * eta)))]

    @property
    def loops(self):
        def hint(s, l):
            s.g.hint = _real(l.offset)
        fresh = {'offset': lambda why: SReal(cur().fresh('offset', R_))}
        return {0: Loop(inv=self._outer, modifies=lambda s, l: [s.g], fresh=fresh),
                1: Loop(inv=self._inner, modifies=lambda s, l: [s.g], fresh=fresh, on_head=hint,
                        snapshot=lambda s, l: dict(off=_real(l.offset), hasbad=s.g.hasbad, minbad=s.g.minbad))}

    def ensures(self, s, result):
        res = _real(result)
        out = [('the returned offset is positive', res > 0)]
        if self.case == 'start-below':
            g = s.g
            eta_last = _real(s.rt.loopstate[0]['head'].eta)
            out.append(('f < eps was observed at the returned offset and at every probed offset up to it, or (degenerate branch) the result is the last step size',
                        z3.Or(z3.And(FL(res) < s.eps, z3.Implies(g.hasbad, res < g.minbad)), res == eta_last)))
            out.append(('the arguments are not modified', z3.And(self.line(s, s.ths_arg, z3.RealVal(0)), forall_range(0, s.D, lambda j: s.vd_arg.at(j) == s.vd.at(j), 'j'))))
        return out

    def witness(self, vc, model, ob):
        ev = lambda t: str(model.eval(t, model_completion=True))
        return dict(function='line_search', eps=ev(z3.Real('eps')), eta=ev(z3.Real('eta0')), K=ev(z3.Int('K')), rep_lim=ev(z3.Int('rep_lim')))


# ---------------------------------------------------------------- RegionConstructor.build (assembly; D = 1, 2, 3)
class Build(Contract):
    """the box is assembled from the rotation (numpy.linalg, assumed: _find_rotation_vector is a stub returning an arbitrary matrix), the optimum as
    centre and, per direction d, the limits [-line_search(-v_d), +line_search(v_d)]; line_search is the callee under contract LineSearch[any-start]
    (result > 0), which is exactly what NDimBoundingBox / _secure_limits need (lo <= 0 <= hi)"""
    target = ROMC + '::RegionConstructor.build'
    prop = 'C19'
    fin = 4

    def __init__(self, D):
        self.D = D
        self.label = 'D%d' % D

    def setup(self, vc):
        D = self.D
        eps, eta = z3.Reals('eps_region eta')
        K, rep_lim = z3.Ints('K rep_lim')
        x_min = vec(consts('x_min', D))
        Rm = consts('R', D, D)
        rot = mat(Rm)
        hess = SArr.fresh('hess_appr', (D, D), 'real')
        func = object()
        s = NS(eps=eps, eta=eta, K=K, rep_lim=rep_lim, Rm=Rm, xm=consts('x_min', D), calls=[], boxes=[], func=func)
        LS = z3.Function('LS', I_, R_)
        s.LS = LS

        def find_rotation(self_, h):
            cur().oblige('call-pre[_find_rotation_vector receives the hessian approximation of the optimisation result]', z3.BoolVal(h is hess))
            return rot

        def line_search(f, th_star, vd, eps_, K_, eta_, rep_lim_):
            vc_ = cur()
            vc_.oblige('call-pre[line_search: eta > 0]', _real(eta_) > 0)        # precondition of contract LineSearch[any-start]
            k = len(s.calls)
            s.calls.append(dict(f=f, th=th_star.snapshot(), vd=vd.snapshot(), eps=_real(eps_), K=T(K_), eta=_real(eta_), rep_lim=T(rep_lim_)))
            vc_.assume(LS(k) > 0)                                                # its postcondition
            return SReal(LS(k))

        class BoxStub:
            _vc_models = None

            def __init__(self_, rotation, center, limits):
                lim = limits.snapshot()
                cur().oblige('call-pre[NDimBoundingBox: limits of shape (D, 2) with lo <= 0 <= hi]',
                             z3.And([lim.shape[0] == D, lim.shape[1] == 2] + [z3.And(lim.at(d, 0) <= 0, lim.at(d, 1) >= 0) for d in range(D)]))
                self_.rotation, self_.center, self_.limits = rotation.snapshot(), center.snapshot(), lim
                s.boxes.append(self_)
        s.env = dict(line_search=line_search, NDimBoundingBox=BoxStub, range=conc_range, np=np_module(array=array_spec))
        res = make_object('RomcOptimisationResult', attrs=dict(x_min=x_min, hess_appr=hess))
        self_ = make_object('RegionConstructor', attrs=dict(res=res, func=func, dim=D, eps_region=SReal(eps), K=SInt(K), eta=SReal(eta), rep_lim=SInt(rep_lim)),
                            methods=dict(_find_rotation_vector=find_rotation))
        vc._s19b = s
        return s, (self_,), {}

    def env(self, vc):
        return vc._s19b.env

    def requires(self, s):
        return [s.eta > 0]

    def ensures(self, s, result):
        D = self.D
        if not (isinstance(result, list) and len(result) == 1 and len(s.boxes) == 1 and result[0] is s.boxes[0] and len(s.calls) == 2 * D):
            return [('one box, two line searches per direction', z3.BoolVal(False))]
        b = result[0]
        facts = []
        for d in range(D):
            neg, pos = s.calls[2 * d], s.calls[2 * d + 1]
            for c, sign in ((neg, -1), (pos, 1)):
                facts.append(z3.BoolVal(c['f'] is s.func))
                facts.append(z3.And(c['eps'] == s.eps, c['K'] == s.K, c['eta'] == s.eta, c['rep_lim'] == s.rep_lim))
                facts.append(z3.And([z3.And(c['th'].at(k) == s.xm[k], c['vd'].at(k) == sign * s.Rm[k][d]) for k in range(D)]))
            facts.append(z3.And(b.limits.at(d, 0) == -s.LS(2 * d), b.limits.at(d, 1) == s.LS(2 * d + 1)))
        return [('rotation = the matrix of search directions, centre = the optimum',
                 z3.And([b.center.at(k) == s.xm[k] for k in range(D)] + [b.rotation.at(i, j) == s.Rm[i][j] for i in range(D) for j in range(D)])),
                ('limits of direction d = [-line_search(-v_d), +line_search(v_d)], searched from the optimum with the configured eps, K, eta, rep_lim', z3.And(facts))]

    def witness(self, vc, model, ob):
        return dict(function='build', D=self.D)


# ---------------------------------------------------------------- RomcPosterior: counting loops, density, weights
CNT = z3.Function('CNT', I_, I_)            # CNT(k) = |{ i < k : pred(i) }|
Fv = z3.Function('F', I_, R_)               # F(i)  = distance of problem i at the evaluated point (pure)
INr = z3.Function('IN', I_, B_)             # IN(i) = region i contains the evaluated point
PR = z3.Real('prior_pdf')                   # prior density at the evaluated point


def count_def(n, pred):
    return z3.And(CNT(0) == 0, forall_range(0, n, lambda i: CNT(i + 1) == CNT(i) + z3.If(pred(i), 1, 0), 'i'))


def count_inst(pred, k):
    return CNT(k + 1) == CNT(k) + z3.If(pred(k), 1, 0)


def same_point(arg, D, co):
    if not (isinstance(arg, SArr) and arg.ndim == 1):
        return z3.BoolVal(False)
    a = arg.snapshot()
    return z3.And(a.shape[0] == D, forall_range(0, D, lambda k: a.at(k) == co(k), 'k'))


class Unmodelled:
    """an attribute that exists on the real object but that the analysed functions have no business with: any use is outside the subset"""

    def __init__(self, what):
        self.__dict__['_what'] = what

    def _no(self, *a, **kw):
        raise OutOfSubset('use of %s, which the contract does not model' % self._what)
    __getattr__ = __call__ = __getitem__ = __len__ = __iter__ = __bool__ = _no


class _ProgressBar:
    def __getattr__(self, k):
        return lambda *a, **kw: None


class UsedBefore(Sym):
    """State the object may carry from EARLIER calls (a cache / memo / lazily created container, or an optional scalar): its content is
    arbitrary - possibly computed under another eps_cutoff.  Membership and truthiness are fresh symbolic booleans, a lookup gives a fresh
    symbolic number (every such READ taints the path, see _taint), stores are accepted and do not taint; `optional` additionally lets the whole thing be None.  clear() / re-binding to an empty value is
    what reset_eps_cutoff must do to it."""

    def __init__(self, name, optional=False):
        self.name, self.optional, self.cleared = name, optional, False
        self.t = None

    def _taint(self):
        # the content is an OVER-APPROXIMATION (no representation invariant is known for it): whatever fails on this path from here on
        # is a violation only if the one-object histories of the bounded stand-in replay it on the real code (pyvc/README, vc.taint)
        cur().taint('arbitrary content of self.%s left by earlier calls' % self.name)

    def _b(self, what):
        self._taint()
        return SBool(cur().fresh('%s_%s' % (self.name, what), B_))

    def _v(self):
        self._taint()
        return SReal(cur().fresh(self.name + '_item', R_))

    def _vc_is_none(self):
        return self._b('is_none') if self.optional else False

    def __contains__(self, key):
        return bool(self._b('has_key')) if not self.cleared else False

    def __bool__(self):
        return bool(self._b('non_empty')) if not self.cleared else False

    def __getitem__(self, key):
        return self._v()

    def get(self, key, default=None):
        return self._v() if key in self else default

    def __setitem__(self, key, v):
        pass

    def setdefault(self, key, v):
        return self._v() if key in self else v

    def pop(self, key, *d):
        return self._v()

    def clear(self):
        self.cleared = True

    def _vc_fresh_like(self, name):
        return UsedBefore(self.name, self.optional)


def _is_cleared(v):
    return v is None or (isinstance(v, (dict, list, set)) and not v) or (isinstance(v, UsedBefore) and v.cleared)


_init_cache = {}


def init_attrs(spec, repo=None):
    """[(name, rhs AST)] of the `self.name = rhs` statements of `path::Class.__init__`, read from the tree under analysis"""
    import ast
    from pyvc import instrument
    loc = instrument.locate(spec + '.__init__', repo)
    if loc.sha256 not in _init_cache:
        out = []
        for n in ast.walk(loc.node):
            if isinstance(n, (ast.Assign, ast.AnnAssign)):
                for t in (n.targets if isinstance(n, ast.Assign) else [n.target]):
                    if isinstance(t, ast.Attribute) and isinstance(t.value, ast.Name) and t.value.id == 'self' and n.value is not None:
                        out.append((t.attr, n.value))
        _init_cache[loc.sha256] = out
    return _init_cache[loc.sha256]


def self_names_read(target, repo=None):
    """attribute names of `self` that the analysed function reads (self.x, getattr/hasattr(self, 'x'))"""
    import ast
    from pyvc import instrument
    loc = instrument.locate(target, repo)
    names = set()
    for n in ast.walk(loc.node):
        if isinstance(n, ast.Attribute) and isinstance(n.value, ast.Name) and n.value.id == 'self':
            names.add(n.attr)
        if isinstance(n, ast.Call) and isinstance(n.func, ast.Name) and n.func.id in ('getattr', 'hasattr', 'setattr') and len(n.args) >= 2 \
                and isinstance(n.args[0], ast.Name) and n.args[0].id == 'self' and isinstance(n.args[1], ast.Constant) and isinstance(n.args[1].value, str):
            names.add(n.args[1].value)
    cls_methods = set()
    if loc.cls_node is not None:
        cls_methods = {m.name for m in loc.cls_node.body if hasattr(m, 'name')}
    return names - cls_methods


def _unknown_attr(name, rhs):
    """an attribute the tree's __init__ sets but this module has no model for: state that may have been filled by earlier calls"""
    import ast
    if isinstance(rhs, (ast.Dict, ast.List, ast.Set)) or (isinstance(rhs, ast.Call) and isinstance(rhs.func, ast.Name) and rhs.func.id in ('dict', 'list', 'set', 'OrderedDict', 'defaultdict')):
        return UsedBefore(name)
    if isinstance(rhs, ast.Constant) and rhs.value is None:
        return UsedBefore(name, optional=True)
    if isinstance(rhs, ast.Constant) and isinstance(rhs.value, bool):
        return SBool(cur().fresh(name, B_))
    if isinstance(rhs, ast.Constant) and isinstance(rhs.value, (int, float)):
        return SReal(cur().fresh(name, R_))
    return Unmodelled('self.' + name)


POSTERIOR_KNOWN = ('regions', 'funcs', 'objectives_actual', 'objectives_surrogate', 'objectives_local', 'nuisance', 'surrogate_used', 'prior',
                   'eps_filter', 'eps_region', 'eps_cutoff', 'left_lim', 'right_lim', 'dim', 'parallelize', 'partition', 'progress_bar')
# of these, what the cut-off changes: eps_cutoff itself and the cached normalisation constant
DEPENDS_ON_EPS_CUTOFF = ('eps_cutoff', 'partition')


def posterior_self(vc, D, attrs, methods=None, target=None):
    """stub `self` of a RomcPosterior that may have been USED BEFORE.  It carries every attribute the tree's __init__ sets (read mechanically
    from the tree, so an attribute added by an edit is present too): the optimisation bounds left_lim / right_lim are case-split into None and
    symbolic (D,) arrays, surrogate_used into False / True unless the contract fixes it, `partition` is None or a number left by an earlier
    pdf() call; attributes the property does not speak about are Unmodelled; attributes this module does not know (or that the analysed function
    creates lazily through getattr / hasattr) are UsedBefore state with arbitrary content."""
    bounds = vc.fork_values('bounds', ['none', 'given'])
    a = dict(regions=Unmodelled('self.regions'), funcs=Unmodelled('self.funcs'), objectives_actual=Unmodelled('self.objectives_actual'),
             objectives_surrogate=Unmodelled('self.objectives_surrogate'), objectives_local=Unmodelled('self.objectives_local'),
             nuisance=Unmodelled('self.nuisance'), prior=Unmodelled('self.prior'),
             eps_filter=SReal(z3.Real('eps_filter')), eps_region=SReal(z3.Real('eps_region')), eps_cutoff=SReal(z3.Real('eps_cutoff')),
             left_lim=None if bounds == 'none' else SArr.fresh('left_lim', (D,), 'real'),
             right_lim=None if bounds == 'none' else SArr.fresh('right_lim', (D,), 'real'),
             dim=SInt(D) if isinstance(D, z3.ExprRef) else D, parallelize=False, partition=UsedBefore('partition', optional=True), progress_bar=_ProgressBar())
    if 'surrogate_used' not in attrs:
        a['surrogate_used'] = vc.fork_values('surrogate_used', [False, True])
    a.update(attrs)
    unknown = []
    for name, rhs in init_attrs(POST + '::RomcPosterior', getattr(vc, 'repo', None)):
        if name not in a:
            a[name] = _unknown_attr(name, rhs)
            unknown.append(name)
    if target is not None:
        for name in sorted(self_names_read(target, getattr(vc, 'repo', None))):
            if name not in a and not (methods and name in methods):
                a[name] = UsedBefore(name, optional=True)
                unknown.append(name)
    o = make_object('RomcPosterior', attrs=a, methods=methods)
    vc._c19_unknown = unknown
    return o


def region_self(D, attrs=None, methods=None, without=()):
    """stub NDimBoundingBox carrying every attribute its constructor sets (symbolic, dimension D), minus `without`"""
    a = dict(dim=SInt(D) if isinstance(D, z3.ExprRef) else D, rotation=SArr.fresh('rotation', (D, D), 'real'), center=SArr.fresh('center', (D,), 'real'),
             limits=SArr.fresh('self_limits', (D, 2), 'real'), rotation_inv=SArr.fresh('rotation_inv', (D, D), 'real'), volume=SReal(z3.Real('self_volume')))
    for k in without:
        a.pop(k)
    a.update(attrs or {})
    return make_object('NDimBoundingBox', attrs=a, methods=methods)


class Seq(Sym):
    """python list of n opaque objects (objective functions, regions): len and indexing; `make(i)` builds the stub of element i"""

    def __init__(self, n, make, what):
        self.n, self.make, self.what = n, make, what
        self.t = None

    def _vc_len(self):
        return SInt(self.n)

    def __getitem__(self, i):
        i = T(i)
        cur().oblige('call-pre[index in range: %s]' % self.what, z3.And(0 <= i, i < self.n))
        return self.make(i)


class PriorStub:
    """ModelPrior.pdf on a (1, D) batch: ONE density value per row, i.e. an array of shape (1,) (assumed, sanity-tested on the real class)"""

    def __init__(self, is_point, value):
        self.is_point, self.value = is_point, value

    def pdf(self, x):
        vc = cur()
        if not (isinstance(x, SArr) and x.ndim == 2):
            raise OutOfSubset('prior.pdf on something else than a 2-D batch')
        xs = x.snapshot()
        row = SArr(Cell(lambda k: xs.at(0, k), (xs.shape[1],), 'real'))
        vc.oblige('call-pre[prior.pdf receives the evaluated point as a batch of one row]', z3.And(xs.shape[0] == 1, self.is_point(row)))
        v = self.value()
        return SArr(Cell(lambda i: v, (z3.IntVal(1),), 'real'))


class _Counting(Contract):
    prop = 'C19'
    fin = 4
    uses_regions = uses_funcs = False

    def pred(self, s):
        raise NotImplementedError

    def setup(self, vc):
        n, D = z3.Ints('n D')
        eps = z3.Real('eps_cutoff')
        vc.fin_bounds.extend([n, D])
        theta = SArr.fresh('theta', (D,), 'real')
        s = NS(n=n, D=D, eps=eps, theta=theta)

        def func(i):
            def f(arg):
                cur().oblige('call-pre[the objective is evaluated at theta]', z3.BoolVal(arg is theta))
                return SReal(Fv(i))
            return f

        def region(i):
            def contains(self_, arg):
                cur().oblige('call-pre[contains is evaluated at theta]', z3.BoolVal(arg is theta))
                return SBool(INr(i))
            return make_object('NDimBoundingBox', methods=dict(contains=contains))
        # class invariant of RomcPosterior: one objective and one region per accepted problem
        s.self = posterior_self(vc, D, dict(funcs=Seq(n, func, 'funcs'), regions=Seq(n, region, 'regions'), eps_cutoff=SReal(eps)), target=self.target)
        return s, (s.self, theta), {}

    def requires(self, s):
        return [s.n >= 0, s.D >= 0, count_def(s.n, self.pred(s))]

    @property
    def loops(self):
        return {0: Loop(inv=lambda s, l: [('nof_inside = |{ i < k : problem i counts }|', T(l.nof_inside) == CNT(l.it.index))],
                        lemmas=lambda s, l0, l1: [count_inst(self.pred(s), l0.it.index)])}

    def ensures(self, s, result):
        return [(self.clause, T(result) == CNT(s.n))]

    def witness(self, vc, model, ob):
        ev = lambda t: str(model.eval(t, model_completion=True))
        n = int(ev(z3.Int('n')))
        return dict(function=self.target.split('.')[-1], n=n, eps=ev(z3.Real('eps_cutoff')), F=[ev(Fv(z3.IntVal(i))) for i in range(max(n, 0))],
                    IN=[ev(INr(z3.IntVal(i))) for i in range(max(n, 0))])


class SumOverIndicators(_Counting):
    target = POST + '::RomcPosterior._sum_over_indicators'
    clause = 'result = number of problems whose distance at theta is within the cut-off'

    def pred(self, s):
        return lambda i: Fv(i) <= s.eps


class SumOverRegions(_Counting):
    target = POST + '::RomcPosterior._sum_over_regions'
    clause = 'result = number of regions that contain theta'

    def pred(self, s):
        return lambda i: INr(i)


class SumOverRegionsIndicators(_Counting):
    target = POST + '::RomcPosterior._sum_over_regions_indicators'
    clause = 'result = number of problems whose region contains theta and whose distance at theta is within the cut-off'

    def pred(self, s):
        return lambda i: z3.And(INr(i), Fv(i) <= s.eps)


class LemmaCountBounds(Contract):
    """0 <= CNT(n) <= n (the count is a count)"""
    target = '@verif/lemmas/c19_lemmas.py::lemma_count_bounds'
    prop = 'C19'
    fin = 4

    def setup(self, vc):
        n = z3.Int('n')
        vc.fin_bounds.append(n)
        P = z3.Function('P', I_, B_)
        s = NS(n=n, P=P)

        def unfold_count(k):
            k = T(k)
            vc.oblige('call-pre[unfold_count at 0 <= k < n]', z3.And(0 <= k, k < n))
            vc.assume(count_inst(lambda i: P(i), k))
        s.unfold = unfold_count
        return s, (SInt(n),), {}

    def env(self, vc):
        return dict(unfold_count=lambda k: self._s.unfold(k))

    def requires(self, s):
        self._s = s
        return [s.n >= 0, count_def(s.n, lambda i: s.P(i))]

    loops = {0: Loop(inv=lambda s, l: [z3.And(T(l.k) >= 0, T(l.k) <= s.n), z3.And(CNT(T(l.k)) >= 0, CNT(T(l.k)) <= T(l.k))])}

    def ensures(self, s, result):
        return [('0 <= count <= n', z3.And(CNT(s.n) >= 0, CNT(s.n) <= s.n))]


CNT_I, CNT_RI = z3.Int('count_indicators'), z3.Int('count_regions_indicators')


class PdfUnnormSinglePoint(Contract):
    target = POST + '::RomcPosterior._pdf_unnorm_single_point'
    prop = 'C19'
    fin = 4

    def __init__(self, surrogate):
        self.surrogate = surrogate
        self.label = 'surrogate' if surrogate else 'actual'

    def setup(self, vc):
        D = z3.Int('D')
        vc.fin_bounds.append(D)
        theta = SArr.fresh('theta', (D,), 'real')
        s = NS(D=D, theta=theta)
        th0 = theta.snapshot()

        def counter(value, name):
            def m(self_, arg):
                cur().oblige('call-pre[%s is evaluated at theta]' % name, z3.BoolVal(arg is theta))
                return SInt(value)
            return m
        prior = PriorStub(lambda row: same_point(row, D, lambda k: th0.at(k)), lambda: PR)
        s.self = posterior_self(vc, D, dict(prior=prior, surrogate_used=self.surrogate),
                                methods=dict(_sum_over_indicators=counter(CNT_I, '_sum_over_indicators'),             # contract SumOverIndicators
                                          _sum_over_regions_indicators=counter(CNT_RI, '_sum_over_regions_indicators')), target=self.target)   # contract SumOverRegionsIndicators
        return s, (s.self, theta), {}

    def requires(self, s):
        return [s.D >= 1]

    def ensures(self, s, result):
        cnt = CNT_RI if self.surrogate else CNT_I
        what = 'whose region contains the point and whose distance is within the cut-off' if self.surrogate else 'whose distance is within the cut-off'
        return [('unnormalised density = prior density x number of accepted problems ' + what, _real(result) == PR * z3.ToReal(cnt))]

    def witness(self, vc, model, ob):
        return dict(function='_pdf_unnorm_single_point', surrogate_used=self.surrogate, dim=2)


class ResetEpsCutoff(Contract):
    """whole-state postcondition: after reset_eps_cutoff(e) the object is as a posterior constructed with cut-off e that has not been used yet, as far
    as the cut-off matters: eps_cutoff = e, the cached normalisation constant is cleared, every attribute known to be independent of the cut-off
    is the same object as before, and any OTHER state the tree's __init__ gives the object (caches added by an edit) is cleared"""
    target = POST + '::RomcPosterior.reset_eps_cutoff'
    prop = 'C19'
    fin = 3

    def setup(self, vc):
        D = z3.Int('D')
        vc.fin_bounds.append(D)
        new = z3.Real('new_eps_cutoff')
        o = posterior_self(vc, D, {}, target=self.target)
        s = NS(D=D, new=new, obj=o, before=dict(o.__dict__), unknown=list(vc._c19_unknown))
        return s, (o, SReal(new)), {}

    def requires(self, s):
        return [s.D >= 1]

    def ensures(self, s, result):
        o = s.obj
        now = o.__dict__
        part = now.get('partition', 'missing')
        out = [('eps_cutoff is the new cut-off', _real(now['eps_cutoff']) == s.new if isinstance(now.get('eps_cutoff'), (SReal, SInt)) else z3.BoolVal(False)),
               ('the cached normalisation constant is cleared', z3.BoolVal(_is_cleared(part))),
               ('attributes that do not depend on the cut-off are untouched',
                z3.BoolVal(all(now.get(k, 'missing') is s.before[k] for k in POSTERIOR_KNOWN if k not in DEPENDS_ON_EPS_CUTOFF)))]
        other = [k for k in now if k not in POSTERIOR_KNOWN]
        if not other:
            return out
        # State this module cannot classify (an attribute the unchanged tree does not have): demanding that it be cleared OVER-APPROXIMATES what
        # depends on the cut-off (a memo of prior densities need not be cleared).  The exact clauses above are emitted first, un-tainted; this one
        # is generated under a taint, so its refutation is a violation only when the one-object history replays a failing input natively.
        vc = cur()
        for nm, g in out:
            vc.oblige('post[%s]' % nm, g)
        vc.taint('state not known to this module (%s) is assumed to depend on eps_cutoff' % ', '.join(other))
        return [('every other piece of state the object carries (possibly computed under the old cut-off) is cleared: %s' % ', '.join(other),
                 z3.BoolVal(all(_is_cleared(now[k]) for k in other)))]

    def witness(self, vc, model, ob):
        return dict(function='history', dim=1)


# ---------------------------------------------------------------- sample weights: python lists grown in loops
class RealList(Sym):
    """python list of numbers, append-only: length n and element function"""

    def __init__(self, n, elt):
        self.n, self.elt = n, elt
        self.t = None

    @staticmethod
    def fresh(name):
        vc = cur()
        f = vc.fresh_fn(name, I_, R_)
        n = vc.fresh_int(name + '_len', size=True)
        return RealList(n, lambda i: f(i))

    def append(self, v):
        n0, old, t = self.n, self.elt, _real(v)
        self.elt = lambda i: z3.If(i == n0, t, old(i))
        self.n = n0 + 1

    def _vc_len(self):
        return SInt(self.n)


class OpaqueList(Sym):
    """append-only python list whose contents the property does not speak about (the flat list of distances)"""

    def __init__(self):
        self.t = None

    def append(self, v):
        pass


class DrawsArr(SArr):
    """the (n2, D) array returned by regions[i].sample: TH(i, ., .)"""
    __slots__ = ('region',)


class ArrList(Sym):
    """python list of arrays of draws, append-only: entry t holds the draws of region src(t)"""

    def __init__(self, n, src, rows, cols):
        self.n, self.src, self.rows, self.cols = n, src, rows, cols
        self.t = None

    @staticmethod
    def fresh(name, rows, cols):
        vc = cur()
        f = vc.fresh_fn(name + '_src', I_, I_)
        return ArrList(vc.fresh_int(name + '_len', size=True), lambda a: f(a), rows, cols)

    def append(self, a):
        if not isinstance(a, DrawsArr):
            raise OutOfSubset('list of draws: appended %s' % type(a).__name__)
        cur().oblige('call-pre[np.array of the list needs equal shapes]', z3.And(a.shape[0] == self.rows, a.shape[1] == self.cols))
        n0, old, reg = self.n, self.src, a.region
        self.src = lambda t: z3.If(t == n0, reg, old(t))
        self.n = n0 + 1


class ListList(Sym):
    """python list of lists of numbers: rows are appended empty and then grown through w[i].append(x)"""

    def __init__(self, n, rowlen, elt):
        self.n, self.rowlen, self.elt = n, rowlen, elt
        self.t = None

    @staticmethod
    def fresh(name):
        vc = cur()
        f, g = vc.fresh_fn(name, I_, I_, R_), vc.fresh_fn(name + '_rowlen', I_, I_)
        return ListList(vc.fresh_int(name + '_len', size=True), lambda a: g(a), lambda a, b: f(a, b))

    def append(self, x):
        if not (isinstance(x, list) and not x):
            raise OutOfSubset('list of lists: appended something else than []')
        n0, old = self.n, self.rowlen
        self.rowlen = lambda a: z3.If(a == n0, 0, old(a))
        self.n = n0 + 1

    def __getitem__(self, i):
        i = T(i)
        cur().oblige('call-pre[index in range: list of rows]', z3.And(0 <= i, i < self.n))
        return _Row(self, i)


class _Row:
    def __init__(self, L, i):
        self.L, self.i = L, i

    def append(self, v):
        L, i, t = self.L, self.i, _real(v)
        c, oldl, olde = L.rowlen(i), L.rowlen, L.elt
        L.elt = lambda a, b: z3.If(z3.And(a == i, b == c), t, olde(a, b))
        L.rowlen = lambda a: z3.If(a == i, c + 1, oldl(a))


def array_spec(x, dtype=None):
    """np.array of the list proxies above (numpy: equal-length rows give a 2-D array, an empty list a 1-D array of length 0)"""
    vc = cur()
    if isinstance(x, RealList):
        e, n = x.elt, x.n
        return SArr(Cell(lambda i: e(i), (n,), 'real'))
    if isinstance(x, OpaqueList):
        return SArr.fresh('flat', (vc.fresh_int('flat_len', nonneg=True, size=True),), 'real')
    if isinstance(x, (ArrList, ListList)):
        if vc.branch(x.n == 0):
            return SArr(Cell(lambda i: z3.RealVal(0), (z3.IntVal(0),), 'real'))
        if isinstance(x, ArrList):
            src = x.src
            return SArr(Cell(lambda a, r, k: TH3(src(a), r, k), (x.n, x.rows, x.cols), 'real'))
        e, rl = x.elt, x.rowlen
        vc.oblige('call-pre[np.array: rows of equal length]', forall_range(0, x.n, lambda a: rl(a) == rl(0), 'a'))
        return SArr(Cell(lambda a, b: e(a, b), (x.n, rl(0)), 'real'))
    return npspec.array(x, dtype)


def weight(ind, pr, q):
    """[distance below the cut-off] * prior density / region density if the region density is positive, else 0"""
    return z3.If(q > 0, z3.ToReal(z3.If(ind, 1, 0)) * pr / q, 0)


QJ, FJ, PJ = z3.Function('Q', I_, R_), z3.Function('Fd', I_, R_), z3.Function('P', I_, R_)      # region density, distance, prior density at the j-th draw


def _as_reallist(L, name):
    if isinstance(L, list):
        if L:
            raise OutOfSubset('%s is not empty at loop entry' % name)
        return RealList(z3.IntVal(0), lambda i: z3.RealVal(0))
    if not isinstance(L, RealList):
        raise OutOfSubset('%s is a %s' % (name, type(L).__name__))
    return L


class WorkerComputeWeight(Contract):
    target = POST + '::RomcPosterior._worker_compute_weight'
    prop = 'C19'
    fin = 4

    def env(self, vc):
        return dict(np=np_module(array=array_spec))

    def setup(self, vc):
        n2, D = z3.Ints('n2 D')
        eps = z3.Real('eps_cutoff')
        vc.fin_bounds.extend([n2, D])
        theta = SArr.fresh('theta', (n2, D), 'real')
        th0 = theta.snapshot()
        s = NS(n2=n2, D=D, eps=eps, theta=theta, j=None)
        at_draw = lambda arg: same_point(arg, D, lambda k: th0.at(s.j, k))

        def pdf(self_, arg):
            cur().oblige('call-pre[region.pdf is evaluated at the j-th draw]', at_draw(arg))
            return SReal(QJ(s.j))

        def func(arg):
            cur().oblige('call-pre[the objective is evaluated at the j-th draw]', at_draw(arg))
            return SReal(FJ(s.j))
        region = make_object('NDimBoundingBox', methods=dict(pdf=pdf))
        prior = PriorStub(at_draw, lambda: PJ(s.j))
        args = (SInt(z3.Int('i')), theta, region, prior, func, SReal(eps), SInt(n2))
        return s, (posterior_self(vc, D, dict(prior=prior, eps_cutoff=SReal(eps)), target=self.target), args), {}

    def requires(self, s):
        return [s.n2 >= 0, s.D >= 1]

    def _w(self, s, j):
        return weight(FJ(j) < s.eps, PJ(j), QJ(j))

    def _inv(self, s, l):
        w, d = _as_reallist(l.w, 'w'), _as_reallist(l.distances, 'distances')
        k = l.it.index
        return [('one weight and one distance per draw so far', z3.And(w.n == k, d.n == k)),
                ('each weight = [dist < eps] * prior / q if q > 0 else 0', forall_range(0, k, lambda t: w.elt(t) == self._w(s, t), 't')),
                ('distances in order', forall_range(0, k, lambda t: d.elt(t) == FJ(t), 't'))]

    @property
    def loops(self):
        def hint(s, l):
            s.j = l.it.index
        L = Loop(inv=self._inv, fresh={'w': lambda why: RealList.fresh('w'), 'distances': lambda why: RealList.fresh('distances')}, on_head=hint)
        L.rebind = ('w', 'distances')
        return {0: L}

    def ensures(self, s, result):
        if not (isinstance(result, tuple) and len(result) == 2 and isinstance(result[0], RealList) and isinstance(result[1], RealList)):
            return [('(weights, distances)', z3.BoolVal(False))]
        w, d = result
        return [('weight of draw j = [dist_j < eps] * prior(theta_j) / q(theta_j) if q(theta_j) > 0 else 0', z3.And(w.n == s.n2, forall_range(0, s.n2, lambda t: w.elt(t) == self._w(s, t), 't'))),
                ('distances of the draws, in order', z3.And(d.n == s.n2, forall_range(0, s.n2, lambda t: d.elt(t) == FJ(t), 't')))]

    def witness(self, vc, model, ob):
        return dict(function='_worker_compute_weight', dim=2)


TH3 = z3.Function('TH', I_, I_, I_, R_)                  # TH(i, j, k): k-th coordinate of the j-th draw of region i
Q2, F2, P2 = z3.Function('Q2', I_, I_, R_), z3.Function('F2', I_, I_, R_), z3.Function('P2', I_, I_, R_)


class PosteriorSample(Contract):
    """sequential path (parallelize is False); any number of regions N and draws n2"""
    target = POST + '::RomcPosterior.sample'
    prop = 'C19'
    fin = 3

    def env(self, vc):
        return dict(np=np_module(array=array_spec))

    def setup(self, vc):
        N, n2, D = z3.Ints('N n2 D')
        eps = z3.Real('eps_cutoff')
        vc.fin_bounds.extend([N, n2, D])
        s = NS(N=N, n2=n2, D=D, eps=eps, i=None, j=None)

        def region(i):
            def sample(self_, n, seed=None):
                cur().oblige('call-pre[region.sample is asked for n2 draws]', T(n) == n2)
                a = DrawsArr(Cell(lambda r, k: TH3(i, r, k), (n2, D), 'real'))
                a.region = i
                return a

            def pdf(self_, arg):
                cur().oblige('call-pre[region i evaluates its density at its own j-th draw]', same_point(arg, D, lambda k: TH3(i, s.j, k)))
                return SReal(Q2(i, s.j))
            return make_object('NDimBoundingBox', methods=dict(sample=sample, pdf=pdf))

        def func(i):
            def f(arg):
                cur().oblige('call-pre[objective i is evaluated at the j-th draw of region i]', same_point(arg, D, lambda k: TH3(i, s.j, k)))
                return SReal(F2(i, s.j))
            return f
        prior = PriorStub(lambda row: same_point(row, D, lambda k: TH3(s.i, s.j, k)), lambda: P2(s.i, s.j))
        s.self = posterior_self(vc, D, dict(regions=Seq(N, region, 'regions'), funcs=Seq(N, func, 'funcs'), prior=prior, eps_cutoff=SReal(eps), parallelize=False), target=self.target)
        return s, (s.self, SInt(n2)), dict(seed=vc.fork_values('seed', [None, SInt(z3.Int('seed'))]))

    def requires(self, s):
        return [s.N >= 0, s.n2 >= 0, s.D >= 1]

    def _w(self, s, i, j):
        return weight(F2(i, j) < s.eps, P2(i, j), Q2(i, j))

    def _inv0(self, s, l):
        L = l.theta
        if isinstance(L, list):
            if L:
                raise OutOfSubset('theta not empty at loop entry')
            L = ArrList(z3.IntVal(0), lambda a: z3.IntVal(0), s.n2, s.D)
        k = l.it.index
        return [('one entry per region visited so far', L.n == k),
                ('entry t holds the draws of region t', forall_range(0, k, lambda a: L.src(a) == a, 'a'))]

    def _rows_done(self, s, w, upto):
        return forall_range(0, upto, lambda a: z3.And(w.rowlen(a) == s.n2, forall_range(0, s.n2, lambda c: w.elt(a, c) == self._w(s, a, c), 'c')), 'a')

    def _inv1(self, s, l):
        w = l.w
        if isinstance(w, list):
            if w:
                raise OutOfSubset('w not empty at loop entry')
            w = ListList(z3.IntVal(0), lambda a: z3.IntVal(0), lambda a, b: z3.RealVal(0))
        k = l.it.index
        return [('one row per region visited so far', w.n == k), ('the rows are complete rows of weights', self._rows_done(s, w, k))]

    def _inv2(self, s, l):
        w, i, k = l.w, T(l.i), l.it.index
        return [('one row per region up to the current one', w.n == i + 1), ('rows of the earlier regions are complete', self._rows_done(s, w, i)),
                ('the row of region i has one entry per draw so far', w.rowlen(i) == k),
                ('which are the weights of its first j draws', forall_range(0, k, lambda c: w.elt(i, c) == self._w(s, i, c), 'c'))]

    @property
    def loops(self):
        def hint_i(s, l):
            s.i = l.it.index

        def hint_j(s, l):
            s.j = l.it.index
        L0 = Loop(inv=self._inv0, fresh={'theta': lambda why: ArrList.fresh('theta', cur()._s19.n2, cur()._s19.D)})
        L0.rebind = ('theta',)
        fr = {'w': lambda why: ListList.fresh('w'), 'distances': lambda why: OpaqueList()}
        L1 = Loop(inv=self._inv1, fresh=fr, on_head=hint_i)
        L1.rebind = ('w', 'distances')
        L2 = Loop(inv=self._inv2, fresh=fr, on_head=hint_j)
        L2.rebind = ('w', 'distances')
        return {0: L0, 1: L1, 2: L2}

    def snapshot(self, s):
        cur()._s19 = s
        return {}

    def ensures(self, s, result):
        if not (isinstance(result, tuple) and len(result) == 3 and all(isinstance(r, SArr) for r in result)):
            return [('(samples, weights, distances)', z3.BoolVal(False))]
        th, w, d = result
        if th.ndim == 1 and w.ndim == 1:
            return [('no region: empty results', z3.And(s.N == 0, th.shape[0] == 0, w.shape[0] == 0))]
        if not (th.ndim == 3 and w.ndim == 2):
            return [('samples (N, n2, D) and weights (N, n2)', z3.BoolVal(False))]
        return [('samples[i, j] is the j-th draw of region i',
                 z3.And(th.shape[0] == s.N, th.shape[1] == s.n2, th.shape[2] == s.D,
                        forall_range(0, s.N, lambda a: forall_range(0, s.n2, lambda r: forall_range(0, s.D, lambda c: th.at(a, r, c) == TH3(a, r, c), 'c'), 'r'), 'a'))),
                ('weight[i, j] = [f_i(theta_ij) < eps] * prior(theta_ij) / q_i(theta_ij) if q_i(theta_ij) > 0 else 0',
                 z3.And(w.shape[0] == s.N, w.shape[1] == s.n2,
                        forall_range(0, s.N, lambda a: forall_range(0, s.n2, lambda c: w.at(a, c) == self._w(s, a, c), 'c'), 'a')))]

    def witness(self, vc, model, ob):
        return dict(function='RomcPosterior.sample', dim=2)


CONTRACTS = ([SecureLimits(), ComputeVolume(), LemmaProdPositive(), Pdf()] + [Init(D) for D in DIMS]
             + [Sample(D) for D in DIMS] + [Contains(D, c) for D in DIMS for c in ('region-point', 'any-point')]
             + [LemmaSampleInside(D) for D in DIMS]
             + [LineSearch('start-below'), LineSearch('any-start')] + [Build(D) for D in DIMS]
             + [SumOverIndicators(), SumOverRegions(), SumOverRegionsIndicators(), LemmaCountBounds(), PdfUnnormSinglePoint(False), PdfUnnormSinglePoint(True),
                ResetEpsCutoff(), WorkerComputeWeight(), PosteriorSample()])

TRUSTED_BASE = ['pyvc engine: proxies, loop cutting, numpy / builtins spec tables (real mode: floats are reals; math.isclose read as its documented formula)',
                'numpy.dot = sum of products, numpy.prod = finite product, numpy.concatenate / transpose / broadcasting as in the spec table (sanity-tested)',
                'scipy.stats.uniform(loc, scale).rvs(size=(n, 1)): n values in [loc, loc + scale] (sanity-tested); nothing assumed about the distribution or the seed',
                'numpy.linalg.inv: R^-1 R = R R^-1 = I for the full-rank R accepted by the constructor (sanity-tested); numpy.linalg in _find_rotation_vector is not analysed',
                'ModelPrior.pdf on a (1, D) batch returns one value per row, shape (1,) (sanity-tested on the real class; its value is C08\'s subject)',
                'float() of a 1-D array raises TypeError under the installed numpy (engine spec pyspec.vc_float; sanity-tested each run)',
                'objective functions are pure (same point, same value); region / prior / objective stubs stand for callees under their own contracts']
ASSUMPTIONS = ['A-REAL: floats are mathematical reals. In floats a draw on a face of the box can be reported outside after the rotation round trip; the bounded stand-in uses a 1e-9 tolerance there',
               'A-INT: integers are mathematical', 'A-LOG: logging and progress-bar calls have no effect',
               'sample / contains / build: all entries symbolic, dimension 1, 2 or 3 (dimension bound 3 for the linear-algebra clauses; the bounded stand-in covers dimension 4)',
               'line_search full clause under f(th*) < eps and rep_lim >= 0 (the call site: a region is built around an accepted optimum); without them only positivity of the result is proved',
               'termination of line_search is not proved (it is bounded by K * (rep_lim + 2) probes by inspection)',
               'RomcPosterior class invariant: one objective and one region per accepted problem (len(funcs) == len(regions)); sample: sequential path (parallelize is False); '
               'the multiprocessing path maps _worker_compute_weight, which is under contract, over the regions']
NOT_PROVED = ['"density integrates to one" (title): the integral of pdf = 1[contains]/volume over R^D is vol(R.B + c)/prod(widths) = |det R|; it is one iff |det R| = 1 '
              '(change of variables: Lean lemma L5, lemmas/L5.lean - volume_rotated_box / volume_linear_image_box, accepted by lean + Mathlib and re-checked in the thorough tier - gives vol(R.B + c) = |det R| * prod(widths) for every linear R); NDimBoundingBox only asserts full rank',
              '_find_rotation_vector returns a full-rank matrix of search directions: numpy.linalg (eig, matrix_rank), assumed',
              'samples are uniformly distributed in the region (not claimed by the property; note: sample() passes the SAME seed to every dimension)']


def sanity():
    import math
    import numpy as np
    import scipy.stats as ss
    out = []
    u = ss.uniform(loc=-0.3, scale=1.7).rvs(size=(500, 1), random_state=3)
    out.append(('uniform.rvs(size=(n,1)) has shape (n,1) and lies in [loc, loc+scale]', u.shape == (500, 1) and bool((u >= -0.3).all() and (u <= 1.4).all())))
    rs = np.random.RandomState(0)
    A, B, v = rs.normal(size=(3, 3)), rs.normal(size=(3, 4)), rs.normal(size=3)
    out.append(('np.dot = explicit sum of products', bool(np.allclose(np.dot(A, v), [sum(A[i, k] * v[k] for k in range(3)) for i in range(3)]) and
                                                          np.allclose(np.dot(A, B), [[sum(A[i, k] * B[k, j] for k in range(3)) for j in range(4)] for i in range(3)]))))
    out.append(('np.prod = finite product', bool(np.isclose(np.prod(v), v[0] * v[1] * v[2])) and np.prod(np.array([])) == 1.0))
    Ai = np.linalg.inv(A)
    out.append(('np.linalg.inv: both products are the identity', bool(np.allclose(Ai @ A, np.eye(3)) and np.allclose(A @ Ai, np.eye(3)))))
    out.append(('math.isclose = |a-b| <= max(rel_tol*max(|a|,|b|), abs_tol)', math.isclose(0.0, 0.001, abs_tol=.001) and not math.isclose(0.0, 0.0011, abs_tol=.001)
                and math.isclose(-0.0005, 0.0005, abs_tol=.001)))
    try:
        float(np.array([0.5]))
        out.append(('float() of a 1-D array raises TypeError (installed numpy)', False))
    except TypeError:
        out.append(('float() of a 1-D array raises TypeError (installed numpy)', True))
    out.append(('float(np.squeeze(1-element array)) is the element', float(np.squeeze(np.array([0.5]))) == 0.5))
    out.append(('np.array of equal-length rows is 2-D, of an empty list 1-D of length 0', np.array([[1.0, 2.0], [3.0, 4.0]]).shape == (2, 2) and np.array([]).shape == (0,)))
    try:
        from bounded import c19 as b
        ok = True
        for D in (1, 2):
            v = b.model_prior(D).pdf(np.zeros((1, D)))
            ok = ok and isinstance(v, np.ndarray) and v.shape == (1,) and abs(float(v[0]) - b.prior_density(D, np.zeros(D))) < 1e-12
        out.append(('ModelPrior.pdf on a (1, D) batch has shape (1,) and is the product of the marginals', bool(ok)))
    except Exception as e:
        out.append(('ModelPrior.pdf on a (1, D) batch has shape (1,) [%s: %s]' % (type(e).__name__, str(e)[:80]), False))
    return out


def bounded(tier, seed):
    from bounded import c19 as b
    return b.run(tier, seed)


_replay_cache = {}


def replay_refuted(cname, rf):
    """a refuted obligation: look for a failing input of the executable clause on the real code (bounded harness, first failure)"""
    from bounded import c19 as b
    if any(k in cname for k in ('_pdf_unnorm_single_point', '_worker_compute_weight', 'RomcPosterior.sample', '_sum_over', 'reset_eps_cutoff')):
        key = 'posterior:' + cname
        if key not in _replay_cache:
            fn = 'posterior'
            for k in ('_pdf_unnorm_single_point', '_worker_compute_weight', 'reset_eps_cutoff'):
                if k in cname:
                    fn = k
            if 'RomcPosterior.sample' in cname:
                fn = 'RomcPosterior.sample'
            surr = [True] if 'surrogate' in cname else [False] if 'actual' in cname else [False, True]
            r = dict(found=False, searched='dims 2, 1, 3; seeds 0-3')
            for D, sd, su in [(D, sd, su) for D in (2, 1, 3) for sd in range(4) for su in surr]:
                f = b.check_posterior(dict(function=fn, D=D, seed=sd, N=3, surrogate_used=su, eps=0.8, n2=3, bounds='tight'))
                if f:
                    r = dict(found=True, input=f['input'], observed=f['what'])
                    break
            _replay_cache[key] = r
        return _replay_cache[key]
    if 'line_search' in cname:
        key, run = 'ls', b.run_line_search
    elif 'build' in cname:
        return dict(found=False, searched='no native harness for the assembly in RegionConstructor.build')
    else:
        key, run = 'box', b.run_box
    if key not in _replay_cache:
        r = run('thorough', 0, first=True)
        if r['failures']:
            f = r['failures'][0]
            _replay_cache[key] = dict(found=True, input=f['input'], observed=f['what'])
        else:
            _replay_cache[key] = dict(found=False, searched=r['bound'], cases=r['cases'])
    return _replay_cache[key]


def replay_input(inp):
    from bounded import c19 as b
    return b.replay_input(inp)

USES_LEAN_LEMMAS = ['L5 volume of a linearly transformed box']      # re-checked with lean (selftest/lean_check.sh) in the thorough tier
