"""C20 - BSL: synthetic likelihood and its Metropolis-Hastings step are the stated ones.

Functions under contract (all obligations generated from the source in the tree at run time):
  SMT tier (contracts/c20_smt.py, pyvc engine, all chain lengths / parameter dimensions / values; callees by contract):
    BSL._get_mh_ratio  [bounds | no-bounds]      ratio = exp(clip(logJ(fwd(theta_n)) - logJ(fwd(theta_n-1)) + post_n - post_n-1))
    BSL._propagate_state [bounds | no-bounds]    proposal = back(Gaussian step around fwd(current))
    BSL._process_simulated [3 configurations]    accept iff u < min(1, ratio); rejected state restored field by field
    BSL._init_round [plain | misspec]            loop invariant: proposals with non-finite log-prior are rejected without simulating
    BSL._init_state [params0 given | None, p = 1 | 2]   row 0 = start point and its log-prior; ValueError iff a given start is outside the support
  CAS tier (contracts/c20_cas.py, sympy, all real values at the listed concrete shapes):
    BSL._para_logit_transform / _para_logit_back_transform   back(fwd(x)) = x, fwd(back(y)) = y per bound type and for mixed vectors
    BSL._jacobian_logit_transform                            logJ = log|det d back/dy| of the EXTRACTED back-transform
    BSL._get_mh_ratio end to end                             real static helpers bound, clip by path forking + z3
    gaussian_syn_likelihood / syn_likelihood_misspec         arguments of the MVN log density (recording stub); warton / glasso calls
    gaussian_syn_likelihood_ghurye_olkin / wcon              Price et al. 2018 / Ghurye & Olkin 1969 (transcribed in c20_formulas.py)
    cov_warton                                               ridge formula, ValueError iff gamma outside [0, 1]
  Bounded stand-in / replay vehicle: bounded/c20.py (native floats against scipy and the transcribed formulas; real end-to-end
  BSL.sample runs and one-object histories with every accept / reject decision re-derived from the recorded draws)."""
MANIFEST = {
    'category': 'proof',
    'text': 'The Metropolis-Hastings step of BSL (_get_mh_ratio, _propagate_state, _process_simulated, _init_round) is verified deductively '
            '(pyvc: VCs from the real source, z3/cvc5, loop invariant for the reject-without-simulating loop) against the acceptance rule of the '
            'property, for all chain lengths, parameter dimensions and values, with the transform helpers as callees under contract. The transform '
            'helpers, the Jacobian, the arguments of the multivariate-normal log density (standard / whitened / Warton), the Ghurye-Olkin and '
            'misspecification-adjusted variants and the ridge formula are verified in the computer-algebra tier: the real function bodies are run '
            'over sympy terms and the extracted expressions are shown identical to the formulas transcribed from the papers, for all real values '
            'at the listed concrete shapes. A seeded native float comparison on the real code is the labelled bounded stand-in and replay vehicle.',
    'note': 'CAS identities hold at the listed shapes only ((n,d) = (4,2),(5,3),(4,1) / (6,2),(8,3),(6,1); glasso at (4,2); vectors of <= 4 '
            'parameters; more shapes in the thorough tier). Trusted: pyvc engine and CAS runner, sympy, scipy multivariate_normal.logpdf / loggamma, '
            'sklearn graphical_lasso (arguments and use of its estimate are checked, not its optimisation) and numpy cov / slogdet (models '
            'sanity-tested each run), floats read as reals. Not contracted: semi-parametric likelihood (outside the statement), the sampler above '
            '_process_simulated/_init_round (start-up fails under numpy 2.5: F7), shape-(1,) results stored into scalar state slots (F7 class).',
    'technique': 'deductive: path-wise VCs with loop invariants from the real AST (pyvc, z3/cvc5) + computer algebra on the extracted expressions '
                 '(sympy; path forking for piecewise code); bounded stand-in: seeded native comparison against scipy / transcribed formulas',
}

import math

from contracts import c20_smt, c20_cas

CONTRACTS = c20_smt.contracts() + c20_cas.contracts()

TRUSTED_BASE = [
    'pyvc engine (proxies, loop cutting, spec tables) and pyvc.cas runner; sympy simplification and z3/cvc5',
    'scipy.stats.multivariate_normal.logpdf(x, mean, cov) is the multivariate normal log density (sanity-tested against the written-out formula)',
    'scipy.special.loggamma = log Gamma (uninterpreted LG in the CAS tier; sanity-tested against math.lgamma)',
    'numpy.cov(m, rowvar) incl. its final squeeze, numpy.eye, numpy.linalg.slogdet (LinAlgError below 2-D; logdet(cA) = d log c + logdet A): '
    'exact models in c20_cas.py, sanity-tested against numpy; det(cA) = c^d det(A) is proved as a lemma for d <= 3',
    'numpy RandomState.uniform() in [0, 1); multivariate_normal(mean, cov) is a Gaussian draw around mean (proposal symmetric in transformed space)',
    'object ndarrays with sympy-Integer shapes (SA) behave as ndarrays for the structural numpy functions used (sanity-tested)',
    'sklearn.covariance.graphical_lasso(emp_cov, alpha) returns the penalised estimate of the matrix it is given, on the scale of that matrix',
    'CAS path forking (bool() of an undecided sympy relational inside analysed code forks the run) and the two extra sound decision '
    'strategies of c20_cas.decide (logs of factored arguments split without force; sqrt(A) abstracted to t with t^2 = A)',
]
ASSUMPTIONS = [
    'A-REAL: floats are reals; float literals denote their decimal value; exp/log are the real functions (uninterpreted in the SMT tier)',
    'A-LOG: logging calls have no effect',
    'callee results have the callees\' real shapes: standard / unbiased likelihood np.array([x]) (C20 CAS contracts, sanity-tested), '
    'misspec likelihood a scalar, ModelPrior.logpdf of the (1, d) proposal a shape-(1,) array (ModelPrior._evaluate_pdf, C08); storing an '
    'array with ndim >= 1 into one array element is a ValueError as in numpy 2 (sanity-tested)',
    'an attribute that BSL.__init__ of the tree sets to None and this module does not model is None or an arbitrary parameter vector '
    '(object possibly used before); obligations refuted only under that over-approximation are violations only with a native one-object history',
    '-inf log-likelihood is the real constant -INF of the engine (no arithmetic law is used on it)',
    'Warton ridge: the code\'s documented division guard eps = 1e-5 on the diagonal is part of the specification',
    'ModelBased.set_objective(rounds) sets objective[round] = rounds and objective[n_batches] = rounds * batches-per-round (callee, not in the statement)',
    'the gamma sampler of the misspecification variants (slice_gamma_mean / slice_gamma_variance) is an opaque callee',
]
NOT_PROVED = [
    'the semi-parametric likelihood (semi_param_kernel_estimate, semiBSL) is outside the statement and not contracted; it also '
    'crashes under the installed numpy (np.NINF at pdf_methods.py:235)',
    'BSL._init_state (start of the chain) is under contract for the plain sampler only; the misspec start (gamma rows) is covered by the '
    'bounded end-to-end runs',
    'after the optional whitening/shrinkage: for shrinkage="glasso" only the call of sklearn graphical_lasso (argument = sample covariance / '
    'correlation, alpha = penalty) and the use of its estimate are verified; graphical_lasso itself is assumed; it refuses a single summary (d = 1)',
    'for all simulated-summary matrices: CAS identities are proved at the listed (n, d) only; other shapes are covered by the bounded stand-in',
    'is accepted with probability min(1, ...): proved as "accepted iff u < min(1, ratio)" for the uniform draw u; that u is uniform on [0, 1) is numpy\'s contract',
]


# ------------------------------------------------------------------------------------------------ sanity of assumed contracts
def sanity():
    import numpy as np
    import scipy.stats as ss
    from scipy.special import loggamma
    from contracts import c20_formulas as F
    out = []
    rs = np.random.RandomState(3)
    ok = True
    for shape, rowvar in (((6, 3), False), ((3, 6), True), ((6, 1), False), ((1, 6), True), ((6,), True), ((6,), False)):
        m = rs.randn(*shape)
        a, b = np.cov(m, rowvar=rowvar), np.asarray(c20_cas.np_cov(m, rowvar=rowvar), dtype=float)
        ok = ok and a.shape == b.shape and np.allclose(a, b)
    out.append(('numpy.cov model (rowvar, 1-D input, 0-d result for one variable)', bool(ok)))
    out.append(('numpy.eye model', bool(np.array_equal(np.asarray(c20_cas.np_eye(3), dtype=float), np.eye(3)))))
    ok = True
    for d in (1, 2, 3):
        A = rs.randn(d, d) + 2 * np.eye(d)
        S = A @ A.T
        y, mu = rs.randn(d), rs.randn(d)
        ok = ok and abs(ss.multivariate_normal.logpdf(y, mean=mu, cov=S) - F.mvn_logpdf_float(y, mu, S)) < 1e-9
        ok = ok and abs(np.linalg.slogdet(2.5 * S)[1] - (d * math.log(2.5) + np.linalg.slogdet(S)[1])) < 1e-9
    out.append(('scipy MVN logpdf = written-out density; slogdet(cA) = d log c + slogdet(A)', bool(ok)))
    try:
        np.linalg.slogdet(np.float64(2.0))
        ok = False
    except np.linalg.LinAlgError:
        ok = True
    out.append(('numpy slogdet raises LinAlgError below 2-D', ok))
    out.append(('scipy loggamma = lgamma on half-integers', all(abs(float(loggamma(0.5 * k)) - math.lgamma(0.5 * k)) < 1e-12 for k in range(1, 12))))
    u = np.random.RandomState(0).uniform(size=1000)
    out.append(('RandomState.uniform in [0, 1)', bool((u >= 0).all() and (u < 1).all())))
    X = rs.randn(5, 2)
    sx = c20_cas.sa(X.tolist())
    ok = np.allclose(np.asarray(sx.mean(0), dtype=float), X.mean(0)) and np.allclose(np.asarray(np.matmul(sx, np.transpose(sx)), dtype=float), X @ X.T) \
        and tuple(int(k) for k in sx.shape) == (5, 2) and np.asarray(np.squeeze(c20_cas.sa([[1.0]]))).shape == ()
    out.append(('object arrays with sympy-Integer shapes: mean / matmul / transpose / squeeze as numpy', bool(ok)))
    a = np.zeros(3)
    try:
        a[0] = np.array([1.0])
        ok = False
    except ValueError:
        ok = True
    a[1] = np.array(2.0)
    a[2] = np.squeeze(np.array([3.0]))
    out.append(('numpy: a[i] = <shape-(1,) array> raises ValueError, a 0-d array / np.squeeze of it is stored; bool(array([True])) is True',
                bool(ok and a[1] == 2.0 and a[2] == 3.0 and bool(np.array([True])) and not bool(np.isfinite(np.array([-np.inf]))))))
    from functools import partial
    from pyvc import native
    pm = native.import_module('elfi.methods.bsl.pdf_methods')
    X, y = rs.randn(12, 2), rs.randn(1, 2) * 0.1
    shp = (np.shape(pm.gaussian_syn_likelihood(X, y)), np.shape(pm.gaussian_syn_likelihood_ghurye_olkin(X, y)),
           np.shape(pm.syn_likelihood_misspec(X, y, np.array([0.1, 0.1]), 'mean')))
    out.append(('callee result shapes used by the sampler stubs: standard / unbiased likelihood (1,), misspec ()', shp == ((1,), (1,), ())))
    import sympy as sp
    x = sp.Symbol('x', real=True)
    got = c20_cas.run_paths(lambda: 1)          # no analysed frame: a relational outside analysed code must still raise
    try:
        bool(x > 0)
        ok = False
    except TypeError:
        ok = True
    out.append(('sympy relationals keep raising TypeError outside analysed code', ok and got == [([], ('return', 1))]))
    return out


# ------------------------------------------------------------------------------------------------ bounded stand-in, replay
_bounded_cache = {}


def bounded(tier, seed):
    from bounded import c20 as b
    key = (tier, seed)
    if key not in _bounded_cache:
        _bounded_cache[key] = b.run(tier, seed)
    return _bounded_cache[key]


SMT_KIND = {'BSL._init_state': 'sample', 'BSL._get_mh_ratio': 'mh_ratio', 'BSL._process_simulated': 'process', 'BSL._init_round': 'init_round', 'BSL._propagate_state': 'propagate'}


def replay_refuted(cname, rf):
    """a failing native input for a refuted obligation: the CAS counterexample point turned into float inputs of the real
    function, else a search over the bounded stand-in's cases of the same kind"""
    from bounded import c20 as b
    w = rf.get('witness') if isinstance(rf.get('witness'), dict) else {}
    case = w.get('case') if isinstance(w.get('case'), dict) else None
    tried = []
    if case and case.get('kind') not in (None, 'lemma'):
        inp = c20_cas.native_input(case, w.get('point') or {}, 0)
        if inp is not None:
            what = b.check(inp)
            if what:
                return dict(found=True, input=inp, observed=what)
            tried.append('the CAS point itself holds natively')
        kind, which = inp['kind'] if inp else case.get('kind'), case.get('which')
    else:
        fn = cname.split('[')[0]
        kind, which = SMT_KIND.get(fn), None
    want_exc = None
    k = rf.get('kind', '')
    if k.startswith('raises[') and 'not allowed' in k:
        want_exc = k[len('raises['):].split(' ')[0]
    best = None
    for name, inp, _ in b.gen_cases('thorough', 0):
        if inp['kind'] != kind or (which and inp.get('which') != which):
            continue
        if cname.startswith('BSL._init_state') and ((inp['runs'][0].get('params0') is None) != ('params0=None' in cname)
                                                    or inp.get('dim', 2) != (1 if 'p=1' in cname else 2)):
            continue
        if case and case.get('types') is not None and inp.get('types') is not None and sorted(set(inp['types'])) != sorted(set(case['types'])):
            continue
        what = b.check(inp)
        if what:
            if want_exc is None or want_exc in what:
                return dict(found=True, input=inp, observed=what)
            best = best or dict(found=True, input=inp, observed=what)
    if best and want_exc is None:
        return best
    if not case:
        # sampler functions: real end-to-end BSL.sample runs, incl. one-object histories (several sample() calls): the only
        # vehicle that can reach state left by earlier calls (refutations under an over-approximation taint, vc.taint)
        for name, inp, _ in b.gen_cases('thorough', 0):
            if inp['kind'] != 'sample':
                continue
            what = b.check(inp)
            if what and (want_exc is None or want_exc in what):
                return dict(found=True, input=inp, observed=what)
        tried.append('end-to-end BSL.sample runs and histories hold')
    return dict(found=False, searched='bounded cases of kind %s (thorough, seed 0)' % kind, tried=tried)


def replay_input(inp):
    """True iff the property holds on this input (a bounded-failure record {signature, what, input} is unwrapped)"""
    from bounded import c20 as b
    if 'kind' not in inp and isinstance(inp.get('input'), dict):
        inp = inp['input']
    return b.replay_input(inp)
