"""C20, CAS tier: the REAL function bodies (pyvc.cas.run_function: instrumented source of the tree under analysis)
executed over sympy terms at small CONCRETE shapes; every identity holds for ALL real values at the listed shapes.

Library models used here (each sanity-tested in contracts/c20.py::sanity):
  SA            object ndarray whose python-level .shape yields sympy Integers, so that `n, d = ssx.shape; 1/n` is exact
  np.cov        exact model of numpy.cov(m, rowvar=...) incl. its final squeeze (0-d result for one variable)
  np.eye        exact identity
  np.linalg     slogdet -> (SIGN_k, LOGDET_k) symbols with the matrix recorded; LinAlgError for < 2-D input (as numpy)
  ss.multivariate_normal.logpdf   recording stub: returns LOGPDF_k, arguments recorded (the MVN log density itself is scipy's)
  graphical_lasso / cov_warton (inside gaussian_syn_likelihood)   recording stubs returning fresh symbolic matrices
  loggamma      uninterpreted function LG
  math          exact logs (math.log(2) stays log(2))
Python float literals are read as the decimal number they denote (A-REAL): Floats left in an extracted expression are
converted through their shortest repr; an inexact intermediate float makes an identity undecided, never discharged."""
import random
import sys
import time

import numpy as np
import sympy as sp
import z3

from pyvc import cas
from pyvc.cas import CasContract, decide_identity
from pyvc.core import OutOfSubset, program_exception
from contracts import c20_formulas as F

BSL = 'elfi/methods/inference/bsl.py::BSL.'
PDF = 'elfi/methods/bsl/pdf_methods.py::'
COVW = 'elfi/methods/bsl/cov_warton.py::'
HALF = sp.Rational(1, 2)
LG = sp.Function('LG')
LG_NUM = {LG: lambda z: sp.loggamma(z)}


# ====================================================================================== exact array / library models
class SA(np.ndarray):
    @property
    def shape(self):
        return tuple(sp.Integer(k) for k in np.ndarray.shape.__get__(self))


def sa(x):
    return np.array(x, dtype=object).view(SA)


def raw(x):
    """plain ndarray view (python-int shape)"""
    return np.asarray(x)


def exactify(e):
    if isinstance(e, np.ndarray):
        out = np.empty(raw(e).shape, dtype=object)
        for idx in np.ndindex(out.shape):
            out[idx] = exactify(raw(e)[idx])
        return out
    e = sp.sympify(e)
    fl = e.atoms(sp.Float)
    if not fl:
        return e
    return e.xreplace({f: sp.Rational(repr(float(f))) for f in fl})


def np_cov(m, y=None, rowvar=True, bias=False, ddof=None, **kw):
    if y is not None or bias or ddof is not None or kw:
        raise OutOfSubset('np.cov with y / bias / ddof / weights')
    m = raw(m)
    if m.ndim > 2:
        raise program_exception(ValueError('m has more than 2 dimensions'))
    X = np.array(m, ndmin=2, dtype=object)
    if not rowvar and m.ndim != 1:
        X = X.T
    nv, no = X.shape
    if no < 2:
        raise OutOfSubset('np.cov with fewer than two observations')
    avg = [sum(X[i, j] for j in range(no)) / sp.Integer(no) for i in range(nv)]
    c = np.empty((nv, nv), dtype=object)
    for i in range(nv):
        for k in range(nv):
            c[i, k] = sum((X[i, j] - avg[i]) * (X[k, j] - avg[k]) for j in range(no)) * sp.Rational(1, no - 1)
    return c.squeeze().view(SA)


def np_eye(n, m=None, k=0, dtype=None):
    if m is not None or k:
        raise OutOfSubset('np.eye(n, m, k)')
    n = int(n)
    a = np.empty((n, n), dtype=object)
    for i in range(n):
        for j in range(n):
            a[i, j] = sp.Integer(1 if i == j else 0)
    return a.view(SA)


class Linalg:
    LinAlgError = np.linalg.LinAlgError

    def __init__(self, signs=None):
        self.calls = []
        self.signs = signs or {}

    def slogdet(self, a):
        a = raw(a)
        if a.ndim < 2:
            raise np.linalg.LinAlgError('%d-dimensional array given. Array must be at least two-dimensional' % a.ndim)
        if a.shape[-1] != a.shape[-2]:
            raise np.linalg.LinAlgError('Last 2 dimensions of the array must be square')
        k = len(self.calls)
        ld = sp.Symbol('LOGDET%d' % k, real=True)
        self.calls.append((ld, np.array(a, dtype=object)))
        return self.signs.get(k, sp.Symbol('SIGN%d' % k, real=True)), ld


class Mvn:
    def __init__(self):
        self.calls = []

    def logpdf(self, x, mean=None, cov=1, **kw):
        if kw:
            raise OutOfSubset('multivariate_normal.logpdf keyword %s' % sorted(kw))
        s = sp.Symbol('LOGPDF%d' % len(self.calls), real=True)
        self.calls.append(dict(x=x, mean=mean, cov=cov, sym=s))
        return s


class ExactMath(cas._MathCas):
    @staticmethod
    def log(x, *b):
        if b:
            raise OutOfSubset('math.log with a base')
        if isinstance(x, bool):
            raise OutOfSubset('log of a bool')
        if isinstance(x, int):
            return sp.log(sp.Integer(x))
        if isinstance(x, float):
            return sp.log(sp.Rational(repr(x)))
        return sp.log(x)


def loggamma_model(x):
    if isinstance(x, (list, tuple, np.ndarray)):
        out = np.empty(len(x), dtype=object)
        for i, v in enumerate(x):
            out[i] = LG(exactify(v))
        return out
    return LG(exactify(x))


def np_extra(linalg=None):
    return dict(cov=np_cov, eye=np_eye, identity=np_eye, linalg=linalg or Linalg())


def load(target, env=None, extra=None):
    """the instrumented real function as a python callable over CAS values"""
    loc, code, stats = cas.compile_function(target)
    g = cas.cas_globals(dict({'math': ExactMath}, **(env or {})), extra if extra is not None else np_extra())
    import builtins as _bi
    g['__builtins__']['__import__'] = _bi.__import__      # numpy's C code imports helper modules lazily through the calling frame's builtins
    exec(code, g)
    return g[loc.node.name]


# ====================================================================================== path forking for piecewise code
class _Patched:
    """bool() of an undecided sympy relational evaluated BY THE ANALYSED CODE forks the path (decision prefix);
    anywhere else it keeps raising TypeError, as sympy does"""

    def __init__(self, decide):
        self.decide = decide

    def __enter__(self):
        from sympy.core.relational import Relational
        self.cls = Relational
        self.old = Relational.__dict__.get('__bool__')
        decide = self.decide

        def __bool__(rel):
            fr = sys._getframe(1)
            if fr.f_code.co_filename.startswith('<pyvc:'):
                return decide(rel)
            raise TypeError('cannot determine truth value of Relational')
        Relational.__bool__ = __bool__

    def __exit__(self, *a):
        if self.old is None:
            del self.cls.__bool__
        else:
            self.cls.__bool__ = self.old
        return False


def run_paths(thunk, max_paths=24):
    """-> [(decisions [(relational, taken)], ('return', value) | ('raise', exc) | ('error', exc))]"""
    out, work = [], [[]]
    while work:
        prefix = work.pop()
        taken = []

        def decide(rel):
            k = len(taken)
            if k < len(prefix):
                d = prefix[k]
            else:
                d = True
                work.append([t[1] for t in taken] + [False])
            taken.append((rel, d))
            return d
        with _Patched(decide):
            try:
                outcome = ('return', thunk())
            except OutOfSubset:
                raise
            except Exception as e:
                outcome = ('raise', e) if getattr(e, '_vc_explicit', False) else ('error', e)
        out.append((taken, outcome))
        if len(out) > max_paths:
            raise OutOfSubset('more than %d CAS paths' % max_paths)
    return out


def to_z3(e, env):
    """polynomial sympy expression / relational over the symbols in env -> z3 (anything else: OutOfSubset)"""
    e = sp.sympify(e)
    if e in env:
        return env[e]
    if e.is_Integer:
        return z3.RealVal(int(e))
    if e.is_Rational:
        return z3.RealVal('%d/%d' % (e.p, e.q))
    if e.is_Add:
        r = to_z3(e.args[0], env)
        for a in e.args[1:]:
            r = r + to_z3(a, env)
        return r
    if e.is_Mul:
        r = to_z3(e.args[0], env)
        for a in e.args[1:]:
            r = r * to_z3(a, env)
        return r
    if e.is_Pow and e.exp.is_Integer and 0 < int(e.exp) <= 4:
        b = to_z3(e.base, env)
        r = b
        for _ in range(int(e.exp) - 1):
            r = r * b
        return r
    ops = {sp.StrictGreaterThan: lambda a, b: a > b, sp.StrictLessThan: lambda a, b: a < b, sp.GreaterThan: lambda a, b: a >= b,
           sp.LessThan: lambda a, b: a <= b, sp.Equality: lambda a, b: a == b, sp.Unequality: lambda a, b: a != b}
    for cls, f in ops.items():
        if isinstance(e, cls):
            return f(to_z3(e.lhs, env), to_z3(e.rhs, env))
    raise OutOfSubset('cannot translate %s to z3' % sp.srepr(e)[:80])


def z3_valid(fact):
    s = z3.Solver()
    s.set('timeout', 5000)
    s.add(z3.Not(fact))
    return s.check() == z3.unsat


# ====================================================================================== helpers for identities
def packed(got, want, tag):
    """entrywise equality of two arrays as ONE identity: sum_i c_i got_i = sum_i c_i want_i with fresh c_i"""
    g = raw(exactify(np.asarray(got, dtype=object))).reshape(-1)
    w = np.array(want, dtype=object).reshape(-1)
    if g.size != w.size:
        return None
    cs = [sp.Symbol('c_%s_%d' % (tag, i), real=True) for i in range(g.size)]
    return sum(c * a for c, a in zip(cs, g)), sum(c * b for c, b in zip(cs, w)), {c: (0.5, 1.5) for c in cs}


def merge(*ds):
    out = {}
    for d_ in ds:
        out.update(d_)
    return out


def _num(e, pt, funcs):
    e = sp.sympify(e).xreplace({k_: sp.Float(v_, 30) for k_, v_ in pt.items()})
    for f_, impl in (funcs or {}).items():
        e = e.replace(f_, impl)
    return complex(sp.N(e, 30))


def decide(lhs, rhs, dom, seed=0, budget_s=15.0, funcs=None):
    """cas.decide_identity with a numeric pre-screen: a residual that is clearly non-zero at a sampled point of the
    domain is refuted at once (that point is the counterexample); otherwise the symbolic strategies run"""
    try:
        res = sp.sympify(lhs) - sp.sympify(rhs)
        syms = sorted(res.free_symbols, key=lambda s_: s_.name)
        if res != 0 and all(s_ in dom for s_ in syms):
            rnd = random.Random(seed + 11)
            for _ in range(3):
                pt = {s_: rnd.uniform(*dom[s_]) for s_ in syms}
                v = abs(_num(res, pt, funcs))
                try:
                    scale = max(1.0, abs(_num(lhs, pt, funcs)))
                except Exception:
                    scale = 1.0
                if v == v and v != float('inf') and v > 1e-6 * scale:
                    return dict(verdict='refuted', point={str(s_): pt[s_] for s_ in syms}, residual_value=v, residual=str(res)[:300], seconds=0.0)
    except Exception:
        pass
    res0 = sp.sympify(lhs) - sp.sympify(rhs)
    if res0.has(sp.log):
        try:
            # sound under the declared symbol assumptions (no force): split logs of factored rational arguments
            t0 = time.time()
            r = cas._with_timeout(min(10.0, budget_s / 2), lambda e: sp.expand(_factor_logs(e)), res0)
            if r is not None and r == 0:
                return dict(verdict='discharged', how='factor-logs', seconds=round(time.time() - t0, 3))
        except Exception:
            pass
    if any(p_.exp.is_Rational and p_.exp.q == 2 for p_ in res0.atoms(sp.Pow)):
        try:
            t0 = time.time()
            # a packed identity sum_i c_i (g_i - w_i) is decided entry by entry (it is linear in the c_i)
            cs = sorted([s_ for s_ in res0.free_symbols if s_.name.startswith('c_')], key=lambda s_: s_.name)
            parts = [res0.xreplace({c_: sp.Integer(1 if c_ == ci else 0) for c_ in cs}) for ci in cs] if cs else [res0]
            r = cas._with_timeout(min(30.0, budget_s), lambda ps: all(p_ == 0 or _radicals_vanish(p_) for p_ in ps), parts)
            if r:
                return dict(verdict='discharged', how='radical-abstraction', seconds=round(time.time() - t0, 3))
        except Exception:
            pass
    return decide_identity(lhs, rhs, dom, seed=seed, budget_s=budget_s, funcs=funcs)


def _radicals_vanish(res):
    """sound strategy for identities with square roots of polynomials: every sqrt(A) (A expanded, so that equal
    radicands are recognised) becomes a fresh positive t with the relation t^2 = A; the numerator of the residual must
    reduce to 0 modulo these relations.  True = identity proved; None = does not apply / not proved."""
    pows = [p_ for p_ in res.atoms(sp.Pow) if p_.exp.is_Rational and p_.exp.q == 2]
    if not pows:
        return None
    rad, sub = {}, {}
    for p_ in pows:
        if p_.base.atoms(sp.Pow) and any(q_.exp.is_Rational and q_.exp.q == 2 for q_ in p_.base.atoms(sp.Pow)):
            return None                 # nested radicals: not handled
        key = sp.expand(p_.base)
        t = rad.setdefault(key, sp.Symbol('t_rad%d' % len(rad), positive=True))
        sub[p_] = t ** p_.exp.p
    num, _ = sp.fraction(sp.together(res.xreplace(sub)))
    num = sp.expand(num)
    for key, t in rad.items():
        if not num.has(t):
            continue
        new = 0
        for (k_,), coeff in sp.Poly(num, t).terms():
            new += coeff * key ** (k_ // 2) * t ** (k_ % 2)
        num = sp.expand(new)
    return True if num == 0 else None


def _factor_logs(e):
    return e.replace(lambda t: isinstance(t, sp.log), lambda t: sp.expand_log(sp.log(sp.factor(sp.together(t.args[0])))))


def predecided(name, verdict, why, case=None, point=None):
    return dict(name=name, verdict=verdict, reason=why, note=why[:160], case=case, point=point, residual=why[:300], seconds=0.0)


def real_symbols(prefix, shape):
    a = np.empty(shape, dtype=object)
    for idx in np.ndindex(*shape):
        a[idx] = sp.Symbol(prefix + ''.join('_%d' % i for i in idx), real=True, finite=True)
    return a


def box(arr, lo, hi):
    return {s: (lo, hi) for s in np.asarray(arr, dtype=object).reshape(-1)}



# ====================================================================================== base class: native confirmation
def native_input(case, point, seed=0):
    """JSON input for bounded.c20.check from a CAS case and a sampled point {symbol name: value}"""
    point = dict(point or {})
    kind = case.get('kind')
    INF = float('inf')
    if kind in ('roundtrip', 'jacobian'):
        b, x = native_bounds(case['types'], point)
        y = [float(point.get('y%d' % i, 0.3 * (i + 1))) for i in range(len(case['types']))]
        return dict(kind=kind, types=case['types'], bound=b, theta=x, y=y)
    if kind == 'mh_ratio':
        Ln, Lc = float(point.get('Lnew', -1.0)), float(point.get('Lcur', -2.0))
        if case.get('rho') is not None:
            Ln = Lc + float(case['rho'])
        if case.get('types') is None:
            return dict(kind='mh_ratio', bound=None, theta_new=[float(point.get('tn%d' % i, 0.3)) for i in range(2)],
                        theta_cur=[float(point.get('tc%d' % i, -0.2)) for i in range(2)], post_new=Ln, post_cur=Lc)
        b, x = native_bounds(case['types'], point, two_points=True)
        tc = []
        for i, t in enumerate(case['types']):
            a, p, q = (float(point.get('%s%d' % (s_, i), 0.5)) for s_ in 'apq')
            r = float(point.get('r%d' % i, 0.7))
            tc.append(a + p + q if t == 0 else (a - r if t == 1 else (a + r if t == 2 else a + r - 1)))
        return dict(kind='mh_ratio', types=case['types'], bound=b, theta_new=x, theta_cur=tc, post_new=Ln, post_cur=Lc)
    if kind == 'likelihood':
        n, d = case['n'], case['d']
        X, y = native_data(n, d, point, seed)
        rs = np.random.RandomState(seed + 17)
        out = dict(kind='likelihood', which=case['which'], X=X.tolist(), y=y.tolist())
        if case['which'] == 'gsl':
            if case.get('whiten'):
                out['W'] = [[float(point.get('w_%d_%d' % (i, j), rs.uniform(-1, 1) + (1.5 if i == j else 0))) for j in range(d)] for i in range(d)]
            if case.get('shrinkage'):
                out.update(shrinkage=case['shrinkage'], penalty=float(point.get('penalty', 0.4)))
                if case['shrinkage'] == 'glasso':
                    out.update(penalty=0.05, standardise=bool(case.get('standardise')))
        elif case['which'] == 'misspec':
            out.update(adjustment=case['adjustment'], gamma=[float(point.get('g_%d' % j, 0.3 + 0.1 * j)) for j in range(d)])
        else:
            sd = np.sqrt(np.diag(np.atleast_2d(np.cov(X, rowvar=False))))
            out['y'] = (X.mean(0) + (0.1 if case.get('psi_sign', 1) > 0 else 8.0) * sd).tolist()
        return out
    if kind == 'warton':
        d = case['d']
        S = [[float(point.get('s_%d_%d' % (min(i, j), max(i, j)), 1.5 if i == j else 0.2)) for j in range(d)] for i in range(d)]
        return dict(kind='warton', S=S, gamma=float(point.get('gamma', 0.3)))
    if kind == 'wcon':
        return dict(kind='wcon', k=case['k'], nu=case['k'] + 3)
    return None


class C20Cas(CasContract):
    """identities() = _idents() with (a) 'refuted-if-native' resolved by a native float run of the same case on the real
    code (a CAS-side exception out of real numpy is a violation only when the native run fails too) and (b) harness
    exceptions contained as `undecided`"""

    def identities(self, tier, seed):
        from bounded import c20 as bnd
        try:
            for ident in self._idents(tier, seed):
                if ident.get('verdict') == 'refuted-if-native':
                    inp = native_input(ident.get('case') or {}, {}, seed)
                    what = bnd.check(inp) if inp else None
                    if what:
                        ident = dict(ident, verdict='refuted', point={}, residual='%s | native: %s' % (ident.get('reason'), what), native_input=inp)
                    else:
                        ident = dict(ident, verdict='undecided', reason='%s (CAS run only; the native float run of this case holds)' % ident.get('reason'))
                elif 'verdict' not in ident:
                    d_ = decide(ident['lhs'], ident['rhs'], ident.get('domain', {}), seed=seed, budget_s=(20.0 if tier == 'quick' else 90.0), funcs=ident.get('funcs'))
                    ident = dict(ident, **{k_: v_ for k_, v_ in d_.items() if k_ not in ident})
                    if not ident.get('note'):
                        ident['note'] = d_.get('how', '') or ''
                yield ident
        except OutOfSubset:
            raise
        except Exception as e:
            import traceback
            yield predecided('harness', 'undecided', 'CAS harness exception %s: %s | %s' % (type(e).__name__, str(e)[:120], traceback.format_exc(limit=3)[-300:]))

# ====================================================================================== transforms
TYPE_NAME = {0: 'two-sided', 1: 'upper-only', 2: 'lower-only', 3: 'unbounded'}
TYPE_CASES = [(0,), (1,), (2,), (3,), (1, 0), (0, 1, 2), (3, 2, 0, 1)]
TYPE_CASES_THOROUGH = TYPE_CASES + [(0, 0), (1, 1, 2), (2, 1, 3, 0), (1, 3, 2, 0)]


def type_cases(tier):
    return TYPE_CASES if tier == 'quick' else TYPE_CASES_THOROUGH


def bound_symbols(types, two_points=False):
    """per parameter: (lo, hi, a point strictly inside) with the precondition lo < x < hi entered by re-parameterisation"""
    lo, hi, x, dom = [], [], [], {}
    for i, t in enumerate(types):
        a = sp.Symbol('a%d' % i, real=True, finite=True)
        p = sp.Symbol('p%d' % i, positive=True, finite=True)
        q = sp.Symbol('q%d' % i, positive=True, finite=True)
        dom.update({a: (-2, 2), p: (0.2, 2), q: (0.2, 2)})
        if two_points:
            r = sp.Symbol('r%d' % i, positive=True, finite=True)
            dom[r] = (0.2, 2)
        if t == 0:
            lo.append(a); hi.append(a + p + q + (r if two_points else 0)); x.append(a + p)
        elif t == 1:
            lo.append(-sp.oo); hi.append(a); x.append(a - q)
        elif t == 2:
            lo.append(a); hi.append(sp.oo); x.append(a + p)
        else:
            lo.append(-sp.oo); hi.append(sp.oo); x.append(a)
    bound = np.array([[l, h] for l, h in zip(lo, hi)], dtype=object)
    return bound, x, dom


def native_bounds(types, point, two_points=False):
    """the same bounds / inside point in floats from a sampled point {symbol name: value}"""
    b, x = [], []
    for i, t in enumerate(types):
        a, p, q = (float(point.get('%s%d' % (s, i), 0.5)) for s in 'apq')
        r = float(point.get('r%d' % i, 0.7)) if two_points else 0.0
        if t == 0:
            b.append([a, a + p + q + r]); x.append(a + p)
        elif t == 1:
            b.append([-float('inf'), a]); x.append(a - q)
        elif t == 2:
            b.append([a, float('inf')]); x.append(a + p)
        else:
            b.append([-float('inf'), float('inf')]); x.append(a)
    return b, x


def tname(types):
    return '+'.join(TYPE_NAME[t] for t in types)


class BackOfFwd(C20Cas):
    target = BSL + '_para_logit_transform'
    prop = 'C20'
    label = 'back.fwd=id'
    shapes = 'p = 1 for each of the four bound types; mixed vectors (upper,two), (two,upper,lower), (unb,lower,two,upper)'

    def _idents(self, tier, seed):
        fwd, back = load(BSL + '_para_logit_transform'), load(BSL + '_para_logit_back_transform')
        for types in type_cases(tier):
            bound, x, dom = bound_symbols(types)
            y = fwd(np.array(x, dtype=object), bound)
            xb = back(y, bound)
            case = dict(kind='roundtrip', types=list(types))
            if raw(xb).shape != (len(types),):
                yield predecided('shape[%s]' % tname(types), 'undecided', 'back-transform result has shape %s' % (raw(xb).shape,), case)
                continue
            for i, t in enumerate(types):
                yield dict(name='back(fwd(x))[%d] = x[%d], %s in (%s)' % (i, i, TYPE_NAME[t], tname(types)), lhs=xb[i], rhs=x[i], domain=dom, case=case)


class FwdOfBack(C20Cas):
    target = BSL + '_para_logit_back_transform'
    prop = 'C20'
    label = 'fwd.back=id'
    shapes = BackOfFwd.shapes

    def _idents(self, tier, seed):
        fwd, back = load(BSL + '_para_logit_transform'), load(BSL + '_para_logit_back_transform')
        for types in type_cases(tier):
            bound, _, dom = bound_symbols(types)
            ys = [sp.Symbol('y%d' % i, real=True, finite=True) for i in range(len(types))]
            dom = merge(dom, {s: (-3, 3) for s in ys})
            yb = fwd(back(np.array(ys, dtype=object), bound), bound)
            case = dict(kind='roundtrip', types=list(types))
            for i, t in enumerate(types):
                yield dict(name='fwd(back(y))[%d] = y[%d], %s in (%s)' % (i, i, TYPE_NAME[t], tname(types)), lhs=yb[i], rhs=ys[i], domain=dom, case=case)


def extracted_logjac(back, types, bound, ys):
    """log|det d back / d y| from the EXTRACTED back-transform: (sum_i log|d back_i/d y_i|, off-diagonal derivatives)"""
    xb = back(np.array(ys, dtype=object), bound)
    diag = sum(sp.log(sp.Abs(sp.diff(xb[i], ys[i]))) for i in range(len(types)))
    off = [sp.diff(xb[i], ys[j]) for i in range(len(types)) for j in range(len(types)) if i != j]
    return diag, off


class JacobianLogit(C20Cas):
    target = BSL + '_jacobian_logit_transform'
    prop = 'C20'
    label = 'logJ'
    shapes = BackOfFwd.shapes

    def _idents(self, tier, seed):
        back, jac = load(BSL + '_para_logit_back_transform'), load(BSL + '_jacobian_logit_transform')
        for types in type_cases(tier):
            bound, _, dom = bound_symbols(types)
            ys = [sp.Symbol('y%d' % i, real=True, finite=True) for i in range(len(types))]
            dom = merge(dom, {s: (-3, 3) for s in ys})
            want, off = extracted_logjac(back, types, bound, ys)
            got = jac(np.array(ys, dtype=object), bound)
            case = dict(kind='jacobian', types=list(types))
            yield dict(name='logJ(y) = sum_i log|d back_i/d y_i| for (%s)' % tname(types), lhs=got, rhs=want, domain=dom, case=case)
            if off:
                cs = [sp.Symbol('c%d' % k, real=True) for k in range(len(off))]
                yield dict(name='Jacobian of the back-transform is diagonal for (%s)' % tname(types), lhs=sum(c * o for c, o in zip(cs, off)), rhs=sp.Integer(0),
                           domain=merge(dom, {c: (0.5, 1.5) for c in cs}), case=case)


# ====================================================================================== _get_mh_ratio end to end
class MhRatioEndToEnd(C20Cas):
    """the real _get_mh_ratio over a constructed state with the REAL static helpers bound; the clip is handled by
    path forking + a one-variable z3 query in rho = the stated log-ratio"""
    target = BSL + '_get_mh_ratio'
    prop = 'C20'
    label = 'cas'
    shapes = 'p = 1 for each bound type, (two,upper,lower), no bounds (p = 2)'
    CASES = [(0,), (1,), (2,), (3,), (0, 1, 2), None]

    def _idents(self, tier, seed):
        fwd, back, jac = (load(BSL + n) for n in ('_para_logit_transform', '_para_logit_back_transform', '_jacobian_logit_transform'))
        ratio = load(BSL + '_get_mh_ratio')
        for types in self.CASES + ([] if tier == 'quick' else [(3, 2, 0, 1), (1, 0)]):
            nm = 'no-bounds' if types is None else tname(types)
            p = 2 if types is None else len(types)
            Ln, Lp = sp.Symbol('Lnew', real=True, finite=True), sp.Symbol('Lcur', real=True, finite=True)
            dom = {Ln: (-5, 5), Lp: (-5, 5)}
            if types is None:
                bound = None
                tn = [sp.Symbol('tn%d' % i, real=True, finite=True) for i in range(p)]
                tc = [sp.Symbol('tc%d' % i, real=True, finite=True) for i in range(p)]
                dom.update({s: (-2, 2) for s in tn + tc})
                rho = Ln - Lp
            else:
                bound, tn, dom1 = bound_symbols(types, two_points=True)
                # the current point: a second point inside the same bounds (two-sided: interval (a, a+p+q+r), points a+p and a+p+q)
                tc = []
                for i, t in enumerate(types):
                    a, p_, q_, r = (sp.Symbol('%s%d' % (s_, i), **(dict(real=True) if s_ == 'a' else dict(positive=True)), finite=True) for s_ in 'apqr')
                    tc.append(a + p_ + q_ if t == 0 else (a - r if t == 1 else (a + r if t == 2 else a + r - 1)))
                dom.update(dom1)
                ys = [sp.Symbol('y%d' % i, real=True, finite=True) for i in range(p)]
                lj, _ = extracted_logjac(back, types, bound, ys)
                yn, yc = fwd(np.array(tn, dtype=object), bound), fwd(np.array(tc, dtype=object), bound)
                rho = lj.subs(dict(zip(ys, yn)), simultaneous=True) - lj.subs(dict(zip(ys, yc)), simultaneous=True) + Ln - Lp
            me = type('SamplerStub', (), {})()
            me.state = dict(n_samples=1, params=np.array([tc, tn], dtype=object), logposterior=np.array([Lp, Ln], dtype=object))
            me.logit_transform_bound = bound
            me._para_logit_transform, me._para_logit_back_transform, me._jacobian_logit_transform = fwd, back, jac
            case = dict(kind='mh_ratio', types=None if types is None else list(types))
            paths = run_paths(lambda: ratio(me))
            rz = z3.Real('rho')
            EXPF = z3.Function('EXP', z3.RealSort(), z3.RealSort())
            clip = z3.If(rz > 700, z3.RealVal(700), z3.If(rz < -700, z3.RealVal(-700), rz))
            pt0 = {s: (lo + hi) / 2.0 + 0.137 * (hi - lo) for s, (lo, hi) in dom.items()}
            atoms = {}
            for k, (dec, outcome) in enumerate(paths):
                if outcome[0] != 'return':
                    yield predecided('path %d of %s' % (k, nm), 'undecided', 'exception %s: %s' % (type(outcome[1]).__name__, outcome[1]), case)
                    continue
                conds, ok = [], True
                for j, (rel, taken) in enumerate(dec):
                    key = sp.srepr(rel)
                    if key not in atoms:
                        g = rel.lhs - rel.rhs
                        found, first = None, None
                        for sgn in (1, -1):
                            kk = sp.nsimplify(sp.N((g - sgn * rho).subs(pt0), 30), rational=True, tolerance=1e-9)
                            d = decide(g - sgn * rho, kk, dom, seed=seed, budget_s=15.0)
                            if d['verdict'] == 'discharged':
                                found = (sgn, kk)
                                break
                            first = first or d
                        nmj = 'clip test #%d is on the stated log-ratio (%s)' % (len(atoms), nm)
                        if found is None:
                            atoms[key] = None
                            if not any(v_ is None for k_, v_ in atoms.items() if k_ != key):
                                yield dict(first, name=nmj, case=case, note='tested quantity minus stated log-ratio is not constant')
                        else:
                            atoms[key] = to_z3(type(rel)(found[0] * sp.Symbol('rho') + found[1], 0), {sp.Symbol('rho'): rz})
                            yield predecided(nmj, 'discharged', 'tested quantity = %+d * rho + (%s)' % found, case)
                    if atoms[key] is None:
                        ok = False
                    else:
                        conds.append(atoms[key] if taken else z3.Not(atoms[key]))
                E = outcome[1]
                nme = 'path %d result = exp(stated log-ratio) or clip constant (%s)' % (k, nm)
                if not sp.sympify(E).free_symbols:
                    m = sp.log(E)
                    if not (m.is_Rational or m.is_Integer):
                        yield predecided(nme, 'undecided', 'constant result %s' % E, case)
                        continue
                    res_z = EXPF(to_z3(m, {}))
                    yield predecided(nme, 'discharged', 'result = exp(%s)' % m, case)
                else:
                    m = sp.nsimplify(sp.N((sp.log(E) - rho).subs(pt0), 30), rational=True, tolerance=1e-9)
                    d = decide(sp.log(E), rho + m, dom, seed=seed, budget_s=15.0)
                    yield dict(d, name=nme, case=case, note='log(result) = stated log-ratio + (%s)' % m)
                    if d['verdict'] != 'discharged':
                        continue
                    res_z = EXPF(rz + to_z3(m, {}))
                if not ok:
                    continue
                claim = z3.Implies(z3.And(conds) if conds else z3.BoolVal(True), res_z == EXPF(clip))
                nmp = 'path %d: result = exp(clip(rho)) under its condition (%s)' % (k, nm)
                if z3_valid(claim):
                    yield predecided(nmp, 'discharged', 'z3 over rho with exp uninterpreted', case)
                else:
                    # a value of the log-ratio on which the piecewise claim fails: a violation only if the native run fails there
                    sol = z3.Solver()
                    sol.set('timeout', 5000)
                    sol.add(z3.Not(claim))
                    rho_v = None
                    if sol.check() == z3.sat:
                        v = sol.model().eval(rz, model_completion=True)
                        try:
                            rho_v = float(v.as_fraction())
                        except Exception:
                            rho_v = None
                    if rho_v is None:
                        yield predecided(nmp, 'undecided', 'z3 does not prove the piecewise claim', case)
                    else:
                        yield predecided(nmp, 'refuted-if-native', 'piecewise claim fails at log-ratio %.6g' % rho_v, dict(case, rho=rho_v))
            # the paths cover every rho (no value of the log-ratio is left without a result) - by construction of the forking


# ====================================================================================== likelihoods
def data_symbols(n, d):
    X = real_symbols('x', (n, d))
    y = real_symbols('y', (d,))
    return X, y, merge(box(X, -2, 2), box(y, -2, 2))


def native_data(n, d, point, seed=0):
    """float arrays for a sampled point; symbols that cancelled out of the residual get seeded random values"""
    rs = np.random.RandomState(seed)
    X = np.array([[float(point.get('x_%d_%d' % (i, j), rs.uniform(-2, 2))) for j in range(d)] for i in range(n)])
    y = np.array([float(point.get('y_%d' % j, rs.uniform(-2, 2))) for j in range(d)])
    return X, y


def explain_error(e):
    return '%s: %s' % (type(e).__name__, str(e)[:100])


class GaussianSynLikelihood(C20Cas):
    target = PDF + 'gaussian_syn_likelihood'
    prop = 'C20'
    label = 'args'
    shapes = '(n, d) = (4, 2), (5, 3), (4, 1) [thorough: + (7, 3), (6, 4)]; y given as (1, d); whitening none / W (d x d); shrinkage none / warton / glasso (+ standardise; sklearn graphical_lasso assumed, d >= 2) at (4, 2) [thorough: + (5, 3)]'
    SHAPES = [(4, 2), (5, 3), (4, 1)]

    def _idents(self, tier, seed):
        for n, d in self.SHAPES + ([] if tier == 'quick' else [(7, 3), (6, 4)]):
            for whiten in (False, True):
                for shrink in (None, 'warton'):
                    if (n, d) == (5, 3) and whiten and shrink and tier == 'quick':
                        continue
                    yield from self.one(n, d, whiten, shrink, seed)
        for n, d in ([(4, 2)] if tier == 'quick' else [(4, 2), (5, 3)]):       # sklearn's graphical_lasso needs d >= 2
            for whiten in (False, True):
                for standardise in (False, True):
                    yield from self.one(n, d, whiten, 'glasso', seed, standardise)

    def one(self, n, d, whiten, shrink, seed, standardise=False):
        X, y, dom = data_symbols(n, d)
        W = real_symbols('w', (d, d)) if whiten else None
        pen = sp.Symbol('penalty', real=True, finite=True)
        if whiten:
            dom.update(box(W, -1.5, 1.5))
        dom[pen] = (0.05, 0.95)
        tag = 'n=%d,d=%d,%s,%s%s' % (n, d, 'W' if whiten else 'no-W', shrink or 'no-shrink', ',standardise' if standardise else '')
        case = dict(kind='likelihood', which='gsl', n=n, d=d, whiten=whiten, shrinkage=shrink, standardise=standardise)
        gl_calls = []

        def graphical_lasso(emp_cov, alpha=None, max_iter=None, **kw):
            if kw:
                raise OutOfSubset('graphical_lasso keyword %s' % sorted(kw))
            if raw(emp_cov).shape[0] < 2:
                raise OutOfSubset('graphical_lasso on fewer than 2 features (sklearn refuses)')
            gm = real_symbols('gl', (d, d))
            gl_calls.append((emp_cov, alpha, gm))
            return gm.view(SA), real_symbols('glp', (d, d)).view(SA)
        mvn = Mvn()
        cw_calls = []

        def cov_warton(S, gamma):
            cw = real_symbols('cw', (d, d))
            cw_calls.append((S, gamma, cw))
            return cw.view(SA)
        env = dict(ss=type('ss', (), dict(multivariate_normal=mvn)), cov_warton=cov_warton, graphical_lasso=graphical_lasso)
        f = load(self.target, env)
        try:
            res = f(sa(X), sa(y.reshape(1, d)), shrinkage=shrink, penalty=(pen if shrink else None), whitening=(sa(W) if whiten else None),
                    **(dict(standardise=True) if standardise else {}))
        except OutOfSubset:
            raise
        except Exception as e:
            # an exception out of real numpy on these concrete shapes: a violation only if the native float run raises too
            yield predecided('no exception [%s]' % tag, 'refuted-if-native', explain_error(e), case)
            return
        if len(mvn.calls) != 1:
            yield predecided('one MVN evaluation [%s]' % tag, 'undecided', '%d calls of multivariate_normal.logpdf' % len(mvn.calls), case)
            return
        c = mvn.calls[0]
        # spec: sample moments of the (whitened) summaries, observed vector (whitened)
        Xl, yl = X.tolist(), y.tolist()
        if whiten:
            Xl, yl = F.whiten_rows(Xl, W.tolist()), F.matvec(W.tolist(), yl)
        m_spec, S_spec = F.sample_mean(Xl), F.sample_cov(Xl)
        r = raw(res)
        yield dict(name='result is [logpdf value] [%s]' % tag, lhs=(r.reshape(-1)[0] if r.size == 1 else sp.Symbol('wrong_size')), rhs=c['sym'], domain=dom, case=case)
        for what, got, want in (('x = (whitened) observed summaries', c['x'], yl), ('mean = sample mean of (whitened) summaries', c['mean'], m_spec)):
            pk = packed(got, want, 'v')
            if pk is None:
                yield predecided('%s [%s]' % (what, tag), 'undecided', 'size %s where %d entries are expected' % (raw(got).shape, d), case)
                continue
            yield dict(name='%s [%s]' % (what, tag), lhs=pk[0], rhs=pk[1], domain=merge(dom, pk[2]), case=case)
        if shrink == 'warton':
            if len(cw_calls) != 1:
                yield predecided('one cov_warton call [%s]' % tag, 'undecided', '%d calls' % len(cw_calls), case)
                return
            S_arg, g_arg, cwm = cw_calls[0]
            pk = packed(S_arg, S_spec, 'S')
            if pk is None:
                yield predecided('cov_warton gets the sample covariance [%s]' % tag, 'undecided', 'shape %s' % (raw(S_arg).shape,), case)
            else:
                yield dict(name='cov_warton gets sample cov of (whitened) summaries [%s]' % tag, lhs=pk[0], rhs=pk[1], domain=merge(dom, pk[2]), case=case)
            yield dict(name='cov_warton gets gamma = 1 - penalty [%s]' % tag, lhs=exactify(g_arg), rhs=1 - pen, domain=dom, case=case)
            pk = packed(c['cov'], cwm.tolist(), 'C')
            if pk is None:
                yield predecided('cov = ridge estimate [%s]' % tag, 'undecided', 'shape %s' % (raw(c['cov']).shape,), case)
            else:
                yield dict(name='cov = the ridge estimate returned by cov_warton [%s]' % tag, lhs=pk[0], rhs=pk[1], domain=merge(dom, pk[2], box(cwm, 0.5, 1.5)), case=case)
        elif shrink == 'glasso':
            # sklearn's graphical_lasso is an assumed library: its argument, its penalty and the use of its estimate are checked
            if len(gl_calls) != 1:
                yield predecided('one graphical_lasso call [%s]' % tag, 'undecided', '%d calls' % len(gl_calls), case)
                return
            E_arg, a_arg, gm = gl_calls[0]
            sd = [sp.sqrt(S_spec[j][j]) for j in range(d)]
            E_spec = [[S_spec[i][j] / (sd[i] * sd[j]) for j in range(d)] for i in range(d)] if standardise else S_spec
            pk = packed(E_arg, E_spec, 'E')
            nm = 'glasso gets the sample %s of (whitened) summaries [%s]' % ('correlation' if standardise else 'covariance', tag)
            if pk is None:
                yield predecided(nm, 'undecided', 'shape %s' % (raw(E_arg).shape,), case)
            else:
                yield dict(name=nm, lhs=pk[0], rhs=pk[1], domain=merge(dom, pk[2]), case=case)
            yield dict(name='glasso gets alpha = penalty [%s]' % tag, lhs=exactify(a_arg), rhs=pen, domain=dom, case=case)
            want = [[gm[i, j] * (sd[i] * sd[j] if standardise else 1) for j in range(d)] for i in range(d)]
            pk = packed(c['cov'], want, 'C')
            nm = 'cov = glasso estimate%s [%s]' % (' x sd_i sd_j' if standardise else '', tag)
            if pk is None:
                yield predecided(nm, 'undecided', 'shape %s' % (raw(c['cov']).shape,), case)
            else:
                yield dict(name=nm, lhs=pk[0], rhs=pk[1], domain=merge(dom, pk[2], box(gm, 0.5, 1.5)), case=case)
        else:
            pk = packed(c['cov'], S_spec, 'S')
            if pk is None:
                yield predecided('cov = sample covariance [%s]' % tag, 'undecided', 'shape %s' % (raw(c['cov']).shape,), case)
            else:
                yield dict(name='cov = sample covariance of (whitened) summaries [%s]' % tag, lhs=pk[0], rhs=pk[1], domain=merge(dom, pk[2]), case=case)


class SynLikelihoodMisspec(C20Cas):
    target = PDF + 'syn_likelihood_misspec'
    prop = 'C20'
    label = 'args'
    shapes = '(n, d) = (4, 2), (5, 3), (4, 1) [thorough: + (7, 3), (6, 4)]; adjustment mean / variance'
    SHAPES = [(4, 2), (5, 3), (4, 1)]

    def _idents(self, tier, seed):
        for n, d in self.SHAPES + ([] if tier == 'quick' else [(7, 3), (6, 4)]):
            for adj in ('mean', 'variance'):
                X, y, dom = data_symbols(n, d)
                gam = real_symbols('g', (d,))
                dom.update(box(gam, 0.1, 1.0))
                tag = 'n=%d,d=%d,%s' % (n, d, adj)
                case = dict(kind='likelihood', which='misspec', n=n, d=d, adjustment=adj)
                mvn = Mvn()
                f = load(self.target, dict(ss=type('ss', (), dict(multivariate_normal=mvn))))
                try:
                    res = f(sa(X), sa(y.reshape(1, d)), sa(gam), adj)
                except OutOfSubset:
                    raise
                except Exception as e:
                    yield predecided('no exception [%s]' % tag, 'refuted-if-native', explain_error(e), case)
                    continue
                if len(mvn.calls) != 1:
                    yield predecided('one MVN evaluation [%s]' % tag, 'undecided', '%d calls' % len(mvn.calls), case)
                    continue
                c = mvn.calls[0]
                m_spec, S_spec = F.misspec_moments(X.tolist(), gam.tolist(), adj, sp.sqrt)
                yield dict(name='result is the logpdf value [%s]' % tag, lhs=(res if not isinstance(res, np.ndarray) else raw(res).reshape(-1)[0]), rhs=c['sym'], domain=dom, case=case)
                for what, got, want in (('x = observed summaries', c['x'], y.tolist()),
                                        ('mean = sample mean%s' % (' + sd o gamma' if adj == 'mean' else ''), c['mean'], m_spec),
                                        ('cov = sample covariance%s' % (' + diag((sd o gamma)^2)' if adj == 'variance' else ''), c['cov'], S_spec)):
                    pk = packed(got, want, 'v')
                    if pk is None:
                        yield predecided('%s [%s]' % (what, tag), 'undecided', 'shape %s' % (raw(got).shape,), case)
                        continue
                    yield dict(name='%s [%s]' % (what, tag), lhs=pk[0], rhs=pk[1], domain=merge(dom, pk[2]), case=case)


class GhuryeOlkin(C20Cas):
    target = PDF + 'gaussian_syn_likelihood_ghurye_olkin'
    prop = 'C20'
    label = 'formula'
    shapes = '(n, d) = (6, 2), (8, 3), (6, 1) [thorough: + (7, 2), (9, 4)]; Psi positive definite / not positive definite'
    SHAPES = [(6, 2), (8, 3), (6, 1)]

    def _idents(self, tier, seed):
        wcon = load(PDF + 'wcon', dict(loggamma=loggamma_model))
        for n, d in self.SHAPES + ([] if tier == 'quick' else [(7, 2), (9, 4)]):
            for psi_sign in (1, -1):
                X, y, dom = data_symbols(n, d)
                tag = 'n=%d,d=%d,%s' % (n, d, 'Psi>0' if psi_sign > 0 else 'Psi not>0')
                case = dict(kind='likelihood', which='go', n=n, d=d, psi_sign=psi_sign)
                la = Linalg(signs={0: sp.Integer(1), 1: sp.Integer(psi_sign)})
                f = load(self.target, dict(wcon=wcon, loggamma=loggamma_model), np_extra(la))
                try:
                    res = f(sa(X), sa(y.reshape(1, d)))
                except OutOfSubset:
                    raise
                except Exception as e:
                    yield predecided('no exception [%s]' % tag, 'refuted-if-native', explain_error(e), case)
                    continue
                r = raw(res).reshape(-1)
                val = exactify(r[0]) if r.size == 1 else sp.Symbol('wrong_size')
                if psi_sign < 0:
                    if val == -sp.oo:
                        yield predecided('log = -inf when Psi not pos.def. [%s]' % tag, 'discharged', 'result is -inf', case)
                    elif not val.has(sp.oo, -sp.oo, sp.nan):
                        yield predecided('log = -inf when Psi not pos.def. [%s]' % tag, 'refuted-if-native',
                                         'the value does not depend on the sign of det Psi: finite where psi(.) = 0', case)
                    else:
                        yield predecided('log = -inf when Psi not pos.def. [%s]' % tag, 'undecided', 'result %s' % str(val)[:80], case)
                    continue
                if val.has(sp.oo, -sp.oo, sp.nan):
                    yield predecided('value = published formula [%s]' % tag, 'refuted-if-native', 'result %s where the formula is finite' % str(val)[:60], case)
                    continue
                # link every recorded log-determinant to M or Psi of the formula (lemma: logdet(c B) = d log c + logdet B, c > 0)
                M_spec, Psi_spec = F.go_M_psi(X.tolist(), y.tolist())
                LD = {'M': sp.Symbol('LOGDET_M', real=True), 'Psi': sp.Symbol('LOGDET_PSI', real=True)}
                sub, linked = {}, True
                rnd = random.Random(7)
                pt0 = {s_: rnd.uniform(lo, hi) for s_, (lo, hi) in sorted(dom.items(), key=lambda kv: kv[0].name)}
                for sym, A in la.calls:
                    A = exactify(A)
                    found = None
                    for key, Bm in (('M', M_spec), ('Psi', Psi_spec)):
                        if A.shape != (d, d):
                            break
                        b00 = sp.sympify(Bm[0][0]).subs(pt0)
                        if b00 == 0:
                            continue
                        cgs = sp.nsimplify(sp.N(sp.sympify(A[0, 0]).subs(pt0) / b00, 30), rational=True, tolerance=1e-12)
                        if not (cgs.is_Rational and cgs > 0):
                            continue
                        if all(sp.expand(sp.sympify(A[i, j]) - cgs * Bm[i][j]) == 0 for i in range(d) for j in range(d)):
                            found = (key, cgs)
                            break
                    nm = 'slogdet argument %s = c * (M or Psi) [%s]' % (sym, tag)
                    if found is None:
                        linked = False
                        yield predecided(nm, 'undecided', 'matrix of shape %s not recognised' % (A.shape,), case)
                    else:
                        sub[sym] = d * sp.log(found[1]) + LD[found[0]]
                        yield predecided(nm, 'discharged', '= %s * %s' % (found[1], found[0]), case)
                if not linked:
                    continue
                want = F.go_loglik(n, d, LD['M'], LD['Psi'], sp.log, LG, sp.pi, HALF, 1 - sp.Rational(1, n))
                yield dict(name='value = published formula [%s]' % tag, lhs=val.subs(sub), rhs=want, domain={LD['M']: (-3, 3), LD['Psi']: (-3, 3)}, funcs=LG_NUM, case=case)


class Wcon(C20Cas):
    target = PDF + 'wcon'
    prop = 'C20'
    label = 'formula'
    shapes = 'k = 1, 2, 3; nu symbolic'

    def _idents(self, tier, seed):
        f = load(self.target, dict(loggamma=loggamma_model))
        nu = sp.Symbol('nu', positive=True, finite=True)
        for k in (1, 2, 3):
            got = exactify(f(sp.Integer(k), nu))
            want = F.log_c(k, nu, sp.log, LG, sp.pi, HALF)
            yield dict(name='wcon(%d, nu) = log c(k, nu) of Ghurye & Olkin' % k, lhs=got, rhs=want, domain={nu: (k + 0.5, k + 9.0)}, funcs=LG_NUM,
                       case=dict(kind='wcon', k=k))


class CovWarton(C20Cas):
    target = COVW + 'cov_warton'
    prop = 'C20'
    label = 'ridge'
    shapes = 'd = 1, 2, 3 (symmetric S with positive diagonal); gamma symbolic'

    def _idents(self, tier, seed):
        f = load(self.target)
        g = sp.Symbol('gamma', real=True, finite=True)
        gz = z3.Real('gamma')
        for d in (1, 2, 3):
            S = np.empty((d, d), dtype=object)
            dom = {g: (0.0, 1.0)}
            for i in range(d):
                for j in range(i, d):
                    S[i, j] = S[j, i] = sp.Symbol('s_%d_%d' % (i, j), positive=(i == j), real=True, finite=True)
                    dom[S[i, j]] = (1.0, 2.0) if i == j else (-0.4, 0.4)
            case = dict(kind='warton', d=d)
            paths = run_paths(lambda: f(sa(S), g))
            n_ok = 0
            for k, (dec, outcome) in enumerate(paths):
                try:
                    pc = z3.And([to_z3(rel, {g: gz}) if taken else z3.Not(to_z3(rel, {g: gz})) for rel, taken in dec] or [z3.BoolVal(True)])
                except OutOfSubset as e:
                    yield predecided('path %d, d=%d' % (k, d), 'undecided', str(e), case)
                    continue
                inside = z3.And(gz >= 0, gz <= 1)
                if outcome[0] == 'raise' and isinstance(outcome[1], ValueError):
                    yield predecided('ValueError only for gamma outside [0, 1] (path %d, d=%d)' % (k, d),
                                     'discharged' if z3_valid(z3.Implies(pc, z3.Not(inside))) else 'undecided', 'z3 on the path condition', case)
                elif outcome[0] == 'return':
                    n_ok += 1
                    yield predecided('normal return only for gamma in [0, 1] (path %d, d=%d)' % (k, d),
                                     'discharged' if z3_valid(z3.Implies(pc, inside)) else 'undecided', 'z3 on the path condition', case)
                    want = F.warton(S.tolist(), g, sp.Rational(F.WARTON_EPS))
                    pk = packed(outcome[1], want, 'S')
                    if pk is None:
                        yield predecided('ridge formula, d=%d' % d, 'undecided', 'result shape %s' % (raw(outcome[1]).shape,), case)
                    else:
                        yield dict(name='cov_warton(S, gamma) = gamma S + (1 - gamma)(diag S + eps I), d=%d' % d, lhs=pk[0], rhs=pk[1], domain=merge(dom, pk[2]), case=case)
                else:
                    yield predecided('path %d, d=%d' % (k, d), 'undecided', explain_error(outcome[1]), case)
            if n_ok == 0:
                yield predecided('some gamma is accepted, d=%d' % d, 'undecided', 'no normally returning path', case)


class DetScaling(C20Cas):
    """lemma used to link slogdet arguments: det(c A) = c^d det(A)"""
    target = '@verif/lemmas/c20_lemmas.py::lemma_det_scaling'
    prop = 'C20'
    label = None
    shapes = 'd = 1, 2, 3 generic matrices'

    def _idents(self, tier, seed):
        f = load(self.target)
        c = sp.Symbol('c', positive=True, finite=True)
        for d in (1, 2, 3):
            A = real_symbols('m', (d, d))
            lhs, rhs = f(A.tolist(), c, lambda M: sp.Matrix(M).det())
            yield dict(name='det(c A) = c^d det(A), d=%d' % d, lhs=lhs, rhs=rhs, domain=merge(box(A, -2, 2), {c: (0.5, 2)}), case=dict(kind='lemma'))


def contracts():
    return [BackOfFwd(), FwdOfBack(), JacobianLogit(), MhRatioEndToEnd(), GaussianSynLikelihood(), SynLikelihoodMisspec(), GhuryeOlkin(), Wcon(),
            CovWarton(), DetScaling()]
