"""C20 - independent oracle: the formulas of the property statement, transcribed from the papers, NOT from the code.

Everything here is generic in the number type (python floats, sympy expressions): plain python lists and
+ - * /; the transcendental functions are passed in.  Used by the CAS tier (sympy) and by the bounded tier (floats).

  sample moments      mean_j = 1/n sum_i x_ij ;  S_jk = 1/(n-1) sum_i (x_ij - mean_j)(x_ik - mean_k)
  whitening           z_i = W x_i,  y' = W y                           (Priddle et al. 2022, whitening BSL)
  Warton ridge        S_gamma = D^1/2 (gamma R + (1-gamma) I) D^1/2,  R = D^-1/2 S D^-1/2,  D = diag(S) + eps I
                      = gamma S + (1-gamma)(diag(S) + eps I)           (Warton 2008; eps = 1e-5 is the code's documented
                                                                        division guard and part of this spec)
  Ghurye-Olkin        Price, Drovandi, Lee & Nott 2018, section 2.2 (unbiased estimator of N(y; mu, Sigma)), n > d + 3:
                      p(y) = (2 pi)^(-d/2) c(d, n-2) / ( c(d, n-1) (1 - 1/n)^(d/2) ) |M|^(-(n-d-2)/2) psi( M - (y-mu)(y-mu)'/(1-1/n) )^((n-d-3)/2)
                      M = (n-1) S,  psi(A) = |A| if A is positive definite and 0 otherwise,
                      c(k, v) = 2^(-k v/2) pi^(-k(k-1)/4) / prod_{i=1..k} Gamma((v - i + 1)/2)        (Ghurye & Olkin 1969)
  misspecification    Frazier & Drovandi 2021: R-BSL-M  mean + sd o gamma ;  R-BSL-V  S + diag((sd o gamma)^2),  sd = sqrt(diag S)
"""
WARTON_EPS = '1e-05'          # decimal text of the guard; converted with the number type in use


def sample_mean(X):
    n, d = len(X), len(X[0])
    return [sum(X[i][j] for i in range(n)) / n for j in range(d)]


def sample_cov(X):
    n, d = len(X), len(X[0])
    m = sample_mean(X)
    return [[sum((X[i][j] - m[j]) * (X[i][k] - m[k]) for i in range(n)) / (n - 1) for k in range(d)] for j in range(d)]


def matvec(W, v):
    return [sum(W[i][j] * v[j] for j in range(len(v))) for i in range(len(W))]


def whiten_rows(X, W):
    return [matvec(W, row) for row in X]


def warton(S, gamma, eps):
    d = len(S)
    return [[gamma * S[i][j] + ((1 - gamma) * (S[i][i] + eps) if i == j else 0) for j in range(d)] for i in range(d)]


def corr_ridge(Rm, gamma):
    d = len(Rm)
    return [[gamma * Rm[i][j] + ((1 - gamma) if i == j else 0) for j in range(d)] for i in range(d)]


def log_c(k, v, log, loggamma, pi, half):
    """log c(k, v) of Ghurye & Olkin (1969); `half` is the number 1/2 in the number type in use"""
    return -k * v * half * log(2) - k * (k - 1) * half * half * log(pi) - sum(loggamma((v - i + 1) * half) for i in range(1, k + 1))


def go_M_psi(X, y):
    """M = (n-1) S and Psi = M - (y-mu)(y-mu)'/(1-1/n) for an n x d matrix (lists)"""
    n, d = len(X), len(X[0])
    m, S = sample_mean(X), sample_cov(X)
    M = [[(n - 1) * S[j][k] for k in range(d)] for j in range(d)]
    Psi = [[M[j][k] - (y[j] - m[j]) * (y[k] - m[k]) * n / (n - 1) for k in range(d)] for j in range(d)]
    return M, Psi


def go_loglik(n, d, logdet_M, logdet_Psi, log, loggamma, pi, half, one_minus_inv_n):
    """log of the unbiased estimator when Psi is positive definite (otherwise the estimator is 0: log = -inf)"""
    return (-d * half * log(2 * pi) + log_c(d, n - 2, log, loggamma, pi, half) - log_c(d, n - 1, log, loggamma, pi, half)
            - d * half * log(one_minus_inv_n) - (n - d - 2) * half * logdet_M + (n - d - 3) * half * logdet_Psi)


def misspec_moments(X, gamma, adjustment, sqrt):
    m, S = sample_mean(X), sample_cov(X)
    d = len(m)
    sd = [sqrt(S[j][j]) for j in range(d)]
    if adjustment == 'mean':
        m = [m[j] + sd[j] * gamma[j] for j in range(d)]
    elif adjustment == 'variance':
        S = [[S[j][k] + ((sd[j] * gamma[j]) ** 2 if j == k else 0) for k in range(d)] for j in range(d)]
    else:
        raise ValueError(adjustment)
    return m, S


# ---------------------------------------------------------------- float instances (bounded tier)
def go_loglik_float(X, y):
    """-> float (or -inf when Psi is not positive definite); X (n, d) array, y (d,)"""
    import math
    import numpy as np
    X = np.asarray(X, dtype=float)
    y = np.asarray(y, dtype=float).reshape(-1)
    n, d = X.shape
    M, Psi = go_M_psi(X.tolist(), y.tolist())
    M, Psi = np.array(M, dtype=float).reshape(d, d), np.array(Psi, dtype=float).reshape(d, d)
    if np.any(np.linalg.eigvalsh((Psi + Psi.T) / 2) <= 0):
        return -math.inf
    return float(go_loglik(n, d, np.linalg.slogdet(M)[1], np.linalg.slogdet(Psi)[1], math.log, math.lgamma, math.pi, 0.5, 1 - 1 / n))


def mvn_logpdf_float(y, mean, cov):
    """multivariate normal log density written out (Cholesky-free: slogdet + solve)"""
    import math
    import numpy as np
    y, mean = np.asarray(y, dtype=float).reshape(-1), np.asarray(mean, dtype=float).reshape(-1)
    d = y.size
    cov = np.asarray(cov, dtype=float).reshape(d, d)
    r = y - mean
    return float(-0.5 * (d * math.log(2 * math.pi) + np.linalg.slogdet(cov)[1] + r @ np.linalg.solve(cov, r)))
