"""C20, SMT tier: the Metropolis-Hastings step of BSL on an abstract sampler state.

Abstraction (models of LIBRARY objects and of CALLEES UNDER THEIR OWN CONTRACT only):
  Vec                      uninterpreted sort: one parameter vector (a row of state['params'], a proposal)
  FWD, BACK : Vec -> Vec   the bounded-parameter transform / back-transform with the sampler's bounds
                           (callees BSL._para_logit_transform/_para_logit_back_transform; their own contracts
                           are in the CAS tier: back(fwd(x)) = x, fwd(back(y)) = y per bound type)
  LOGJ : Vec -> Real       log|det d back / d y| at a TRANSFORMED point (callee BSL._jacobian_logit_transform; CAS tier)
  MVN : Vec x Int -> Vec   k-th Gaussian draw of the sampler's RandomState around a mean (proposal covariance fixed)
  state arrays             numpy arrays as z3 arrays  Int -> Vec / Int -> Real  with their length
Top-level spec (from the property text):
  RATIO(p_new, p_cur, post_new, post_cur) = exp(clip(LOGJ(FWD(p_new)) - LOGJ(FWD(p_cur)) + post_new - post_cur, -700, 700))
  (posterior ratio times the ratio of the transform's Jacobians at the proposed and current points; without bounds the
  Jacobian term is absent), accept  <=>  u < min(1, RATIO)."""
import z3

from pyvc import npspec
from pyvc.core import cur, forall_range, OutOfSubset, program_exception
from pyvc.engine import Contract, Loop, NS, Stub, make_object
from pyvc.values import SInt, SReal, SBool, SKey, Sym, lift, term as T
from pyvc.sarray import SArr, Cell

I, R, B = z3.IntSort(), z3.RealSort(), z3.BoolSort()
Vec = z3.DeclareSort('Vec')
Opq = z3.DeclareSort('Opaque')
FWD = z3.Function('FWD', Vec, Vec)
BACK = z3.Function('BACK', Vec, Vec)
LOGJ = z3.Function('LOGJ', Vec, R)
MVN = z3.Function('MVN', Vec, I, Vec)
EXP = npspec._exp
ZEROV = z3.Const('zero_vector', Vec)
LOGPRIOR = z3.Function('LOGPRIOR', Vec, R)
INF = npspec.INF


def clip700(r):
    return z3.If(r > 700, z3.RealVal(700), z3.If(r < -700, z3.RealVal(-700), r))


def ratio_spec(bounded, p_new, p_cur, post_new, post_cur):
    """the property's acceptance ratio (independent of the code)"""
    jac = (LOGJ(FWD(p_new)) - LOGJ(FWD(p_cur))) if bounded else z3.RealVal(0)
    return EXP(clip700(jac + post_new - post_cur))


def arr1(t):
    """a shape-(1,) float array holding the real term t: what ModelPrior.logpdf returns for a (1, d) point and what the
    standard / unbiased likelihoods return (np.array([loglik])) - the callees' real result shapes (C20 CAS contracts, C08)"""
    return SArr(Cell(lambda i: t, (z3.IntVal(1),), 'real'))


def finite(t):
    return z3.And(t != INF, t != -INF)


# ---------------------------------------------------------------- proxies of numpy arrays held in the sampler state
def _idx(i):
    if isinstance(i, bool):
        raise OutOfSubset('bool index')
    if isinstance(i, int):
        return z3.IntVal(i)
    if isinstance(i, SInt):
        return i.t
    if isinstance(i, z3.ArithRef) and i.sort() == I:
        return i
    raise OutOfSubset('index of type %s into a sampler-state array' % type(i).__name__)


class ZArr(Sym):
    """1-D float array (or 2-D array seen as a column of row vectors): z3 array + length.
    Only integer indexing with 0 <= i < len is modelled (call-pre obligation: numpy would wrap a negative index)."""

    def __init__(self, name, sort, n):
        self.name, self.sort, self.n = name, sort, n
        self.a = z3.Const(name, z3.ArraySort(I, sort))
        self.t = None

    @classmethod
    def zeros(cls, name, sort, n):
        z = cls(name, sort, n)
        z.a = z3.K(I, ZEROV if sort == Vec else z3.RealVal(0))
        return z

    def _check(self, i):
        cur().oblige('call-pre[index into state[%s] within 0..len-1]' % self.name.split('!')[0], z3.And(i >= 0, i < self.n))

    def __getitem__(self, i):
        i = _idx(i)
        self._check(i)
        v = z3.Select(self.a, i)
        return SReal(v) if self.sort == R else (Opaque(v) if self.sort == Opq else SKey(v))

    def __setitem__(self, i, v):
        i = _idx(i)
        self._check(i)
        if self.sort != R:
            if not (isinstance(v, SKey) and v.t.sort() == self.sort):
                raise OutOfSubset('row assignment of a value of another kind')
            t = v.t
        else:
            if isinstance(v, SArr):
                # numpy 2: a[i] = <array with ndim >= 1> raises even for one element; a 0-d array is converted (sanity-tested)
                if v.ndim > 0:
                    raise program_exception(ValueError('setting an array element with a sequence.'))
                v = SReal(npspec._to_real(v.at(), v.kind))
            t = npspec._real(v)
        self.a = z3.Store(self.a, i, t)

    def at(self, i):
        return z3.Select(self.a, _idx(i))

    def _vc_len(self):
        return SInt(self.n)

    def _vc_havoc(self, name='hv'):
        self.a = cur().fresh(self.name + '_' + name, z3.ArraySort(I, self.sort))


class StateDict(dict):
    """the dict `self.state` / `self.objective` (a python dict of proxies); havoc = havoc of the listed entries"""
    havoc_keys = ()

    def _vc_havoc(self, name='hv'):
        vc = cur()
        for k in self.havoc_keys:
            v = self[k]
            if isinstance(v, ZArr):
                v._vc_havoc(name)
            elif isinstance(v, SInt):
                dict.__setitem__(self, k, SInt(vc.fresh_int(k + '_' + name)))
            elif isinstance(v, SReal):
                dict.__setitem__(self, k, SReal(vc.fresh(k + '_' + name, R)))
            else:
                dict.__setitem__(self, k, Opaque(vc.fresh(k + '_' + name, Opq)))


class Opaque(SKey):
    """a library value nothing is known about (simulated data, gamma vectors, sample moments)"""
    __slots__ = ()


class Bounds:
    """self.logit_transform_bound when it is set (an ndarray; only its identity matters here)"""
    _vc_is_none = None


class UsedBeforeOpt(SKey):
    """an attribute that the tree's BSL.__init__ sets to None and that this module does not model (an edit introduced it: a
    cached transformed state, a memo).  The sampler object may have been USED BEFORE (an earlier sample() call), so it is
    None or an arbitrary parameter vector; reading it taints the path (pyvc/README: over-approximated state) - a refutation
    is a violation only if a one-object history of the bounded stand-in (several sample() calls) fails natively."""
    __slots__ = ('name', '_term')

    def __init__(self, name):
        self.name, self._term = name, None

    def _taint(self):
        cur().taint('arbitrary content of self.%s left by earlier sample() calls' % self.name)

    @property
    def t(self):
        self._taint()
        if self._term is None:
            self._term = z3.Const('used_before_' + self.name, Vec)
        return self._term

    def _vc_is_none(self):
        self._taint()
        return SBool(z3.Bool('used_before_%s_is_none' % self.name))


class UsedBeforeOpaque:
    """any other attribute of BSL.__init__ without a model here: every use leaves the subset (fail closed)"""

    def __init__(self, name):
        self.__dict__['_name'] = name

    def _no(self, *a, **kw):
        cur().taint('content of self.%s is not modelled' % self._name)
        raise OutOfSubset('use of self.%s, an attribute of BSL.__init__ that the C20 contracts do not model' % self._name)
    __getattr__ = __call__ = __getitem__ = __len__ = __iter__ = __bool__ = __add__ = __radd__ = __sub__ = __eq__ = _no
    __hash__ = None


def init_attributes(vc):
    """[(name, rhs AST)] of the `self.name = ...` statements of BSL.__init__ in the tree under analysis"""
    import ast
    from pyvc import instrument
    loc = instrument.locate('elfi/methods/inference/bsl.py::BSL.__init__', getattr(vc, 'repo', None))
    out = []
    for n in ast.walk(loc.node):
        if isinstance(n, ast.Assign):
            for t in n.targets:
                if isinstance(t, ast.Attribute) and isinstance(t.value, ast.Name) and t.value.id == 'self':
                    out.append((t.attr, n.value))
    return out


def make_sampler(vc, s, bounded, misspec, n_name='n_samples'):
    N = z3.Int('chain_len')
    n = z3.Int(n_name)
    vc.fin_bounds.extend([N, n])
    st = StateDict()
    st['n_samples'] = SInt(n)
    st['params'] = ZArr('params', Vec, N)
    st['logprior'] = ZArr('logprior', R, N)
    st['logposterior'] = ZArr('logposterior', R, N)
    st['n_sim_round'] = SInt(z3.Int('n_sim_round'))
    st['n_sim'] = SInt(z3.Int('n_sim'))
    st['n_batches'] = SInt(z3.Int('n_batches'))
    st['round'] = SInt(z3.Int('round'))
    if misspec:
        st['gamma'] = ZArr('gamma', Opq, N)
    obj = StateDict()
    obj['round'] = SInt(z3.Int('objective_round'))
    obj['n_batches'] = SInt(z3.Int('objective_n_batches'))
    # stub `self` (engine.make_object: members the contract does not give it - helper methods, class constants an edit adds -
    # are resolved from the REAL class in the tree).  Only what the functions under contract may touch exists: batches, model,
    # pool ... raise AttributeError -> undecided, which is how 'nothing is submitted' fails closed.
    me = make_object('BSLStub')
    import ast
    for name_, rhs in init_attributes(vc):
        setattr(me, name_, UsedBeforeOpt(name_) if (isinstance(rhs, ast.Constant) and rhs.value is None) else UsedBeforeOpaque(name_))
    me.param_names = None
    me.state, me.objective = st, obj
    me.is_misspec = misspec
    me.logit_transform_bound = Bounds() if bounded else None
    me.sigma_proposals = Opaque(z3.Const('sigma_proposals', Opq))
    me.burn_in = SInt(z3.Int('burn_in'))
    me.num_accepted = SInt(z3.Int('num_accepted'))
    me.observed = Opaque(z3.Const('observed', Opq))
    me.simulated = Opaque(z3.Const('simulated', Opq))
    if misspec:
        me.gamma_sampler_state = StateDict(gamma=Opaque(z3.Const('gs_gamma', Opq)), loglik=SReal(z3.Real('gs_loglik')),
                                           sample_mean=Opaque(z3.Const('gs_mean', Opq)), sample_cov=Opaque(z3.Const('gs_cov', Opq)))
    s.me, s.N, s.n0 = me, N, n
    s.bounded, s.misspec = bounded, misspec
    s.calls = []
    return me


def _vec_arg(v, what):
    if isinstance(v, SKey) and v.t.sort() == Vec:
        return v.t
    raise OutOfSubset('%s: argument is not a parameter vector' % what)


def bind_transform_stubs(s):
    me = s.me

    def pre_bound(vc, bound, what):
        vc.oblige('call-pre[%s is called with the sampler\'s logit_transform_bound]' % what, z3.BoolVal(bound is me.logit_transform_bound and bound is not None))

    def fwd(vc, theta, bound):
        pre_bound(vc, bound, '_para_logit_transform')
        return SKey(FWD(_vec_arg(theta, '_para_logit_transform')))

    def back(vc, theta, bound):
        pre_bound(vc, bound, '_para_logit_back_transform')
        return SKey(BACK(_vec_arg(theta, '_para_logit_back_transform')))

    def jac(vc, theta, bound):
        pre_bound(vc, bound, '_jacobian_logit_transform')
        return SReal(LOGJ(_vec_arg(theta, '_jacobian_logit_transform')))
    me._para_logit_transform = Stub('BSL._para_logit_transform', fwd, checked_by='C20/BSL._para_logit_transform (CAS)')
    me._para_logit_back_transform = Stub('BSL._para_logit_back_transform', back, checked_by='C20/BSL._para_logit_back_transform (CAS)')
    me._jacobian_logit_transform = Stub('BSL._jacobian_logit_transform', jac, checked_by='C20/BSL._jacobian_logit_transform (CAS)')


class RandomStateSpec(Sym):
    """numpy RandomState: uniform() in [0, 1); multivariate_normal(mean, cov) = next Gaussian draw around `mean`"""

    def __init__(self, s):
        self.s, self.k, self.t = s, 0, None
        self.us = []

    def uniform(self, *a, **kw):
        if a or kw:
            raise OutOfSubset('uniform with arguments')
        vc = cur()
        u = z3.Real('u_draw%d' % len(self.us))
        vc.assume(u >= 0, u < 1)
        self.us.append(u)
        return SReal(u)

    def multivariate_normal(self, mean, cov, *a, **kw):
        if a or kw:
            raise OutOfSubset('multivariate_normal with extra arguments')
        vc = cur()
        vc.oblige('call-pre[proposal covariance is sigma_proposals]', z3.BoolVal(cov is self.s.me.sigma_proposals))
        r = MVN(_vec_arg(mean, 'multivariate_normal'), z3.IntVal(self.k))
        self.k += 1
        self.s.calls.append(('mvn', mean.t))
        return SKey(r)


class Point(SKey):
    """a parameter point together with the rank of the array that holds it (ModelPrior.logpdf's result shape depends on it)"""
    __slots__ = ('ndim',)

    def __init__(self, t, ndim):
        self.t, self.ndim = t, ndim


def np_module(s):
    """numpy as the sampler code sees it: the engine's table plus the opaque library values of this abstraction"""
    def isfinite(x):
        if isinstance(x, Opaque):
            return ('finite-mask', x)
        return npspec.isfinite(x)

    def all_(x, *a, **kw):
        if isinstance(x, tuple) and x and x[0] == 'finite-mask':
            return SBool(z3.Function('all_finite', Opq, B)(x[1].t))
        return npspec.all(x, *a, **kw)

    def atleast_2d(x):
        if isinstance(x, SKey) and x.t.sort() == Vec:
            return x            # a (1, p) view of the same vector
        return npspec.atleast_2d(x)

    def mean(x, axis=None):
        if isinstance(x, Opaque):
            return Opaque(z3.Function('np_mean', Opq, Opq)(x.t))
        return npspec.mean(x, axis)

    def cov(x, rowvar=True):
        if isinstance(x, Opaque):
            return Opaque(z3.Function('np_cov', Opq, Opq)(x.t))
        raise OutOfSubset('np.cov')
    def array(x, *a, **kw):
        if isinstance(x, Point) and not a and not kw:
            return x
        return npspec.array(x, *a, **kw)

    def zeros(shape, dtype=None):
        if dtype is None and isinstance(shape, tuple) and len(shape) == 2:
            return ZArr.zeros('new_rows', Vec, T(shape[0]))          # rows of a fresh (n, p) array: zero vectors
        if dtype is None and not isinstance(shape, tuple):
            return ZArr.zeros('new_reals', R, T(shape))
        raise OutOfSubset('np.zeros of this shape')
    extra = dict(isfinite=isfinite, all=all_, atleast_2d=atleast_2d, mean=mean, cov=cov, array=array)
    if s is not None and getattr(s, 'fresh_state_arrays', False):
        extra['zeros'] = zeros
    return npspec.module(extra=extra)


# =============================================================================================== _get_mh_ratio
class GetMhRatio(Contract):
    target = 'elfi/methods/inference/bsl.py::BSL._get_mh_ratio'
    prop = 'C20'
    fin = 4

    def __init__(self, bounded):
        self.bounded = bounded
        self.label = 'bounds' if bounded else 'no-bounds'

    def env(self, vc):
        return {'np': np_module(None)}

    def setup(self, vc):
        s = NS()
        me = make_sampler(vc, s, self.bounded, False)
        bind_transform_stubs(s)
        return s, (me,), {}

    def requires(self, s):
        # call site (_process_simulated): only for n >= 1, inside the chain
        return [s.n0 >= 1, s.n0 < s.N]

    def snapshot(self, s):
        st = s.me.state
        return dict(pn=st['params'].at(s.n0), pp=st['params'].at(s.n0 - 1), ln=st['logposterior'].at(s.n0), lp=st['logposterior'].at(s.n0 - 1),
                    arrays=(st['params'].a, st['logprior'].a, st['logposterior'].a))

    def ensures(self, s, result):
        o, st = s.old, s.me.state
        return [('ratio = exp(clip(logJ(fwd(th_n)) - logJ(fwd(th_n-1)) + post_n - post_n-1))',
                 T(result) == ratio_spec(self.bounded, o.pn, o.pp, o.ln, o.lp)),
                ('the sampler state is not modified', z3.And(st['params'].a == o.arrays[0], st['logprior'].a == o.arrays[1],
                                                             st['logposterior'].a == o.arrays[2], T(st['n_samples']) == s.n0))]

    def witness(self, vc, model, ob):
        return dict(case=self.label, note='uninterpreted FWD/LOGJ: any model with LOGJ(FWD(x)) != LOGJ(x) refutes; see replay for a native input')


# =============================================================================================== _propagate_state
class PropagateState(Contract):
    target = 'elfi/methods/inference/bsl.py::BSL._propagate_state'
    prop = 'C20'
    fin = 4

    def __init__(self, bounded):
        self.bounded = bounded
        self.label = 'bounds' if bounded else 'no-bounds'

    def env(self, vc):
        return {'np': np_module(None)}

    def setup(self, vc):
        s = NS()
        me = make_sampler(vc, s, self.bounded, False)
        bind_transform_stubs(s)
        me.random_state = RandomStateSpec(s)
        return s, (me,), {}

    def requires(self, s):
        return [s.n0 >= 1, s.n0 <= s.N]

    def snapshot(self, s):
        return dict(cur=s.me.state['params'].at(s.n0 - 1))

    def ensures(self, s, result):
        c = s.old.cur
        want = BACK(MVN(FWD(c), z3.IntVal(0))) if self.bounded else MVN(c, z3.IntVal(0))
        return [('proposal = back(Gaussian step around fwd(current))' if self.bounded else 'proposal = Gaussian step around current', T(result) == want),
                ('exactly one Gaussian draw is consumed', z3.BoolVal(s.me.random_state.k == 1))]


# =============================================================================================== _process_simulated
class ProcessSimulated(Contract):
    target = 'elfi/methods/inference/bsl.py::BSL._process_simulated'
    prop = 'C20'
    fin = 4

    def __init__(self, bounded, misspec):
        self.bounded, self.misspec = bounded, misspec
        self.label = ('bounds' if bounded else 'no-bounds') + (',misspec' if misspec else '')

    def env(self, vc):
        return {'np': np_module(None)}

    def setup(self, vc):
        s = NS()
        me = make_sampler(vc, s, self.bounded, self.misspec)
        me.random_state = RandomStateSpec(s)
        s.ll = z3.Real('loglik')
        s.lik_calls = []

        def likelihood(vc_, sim, obs, **kw):
            ok = sim is me.simulated and obs is me.observed
            if self.misspec:
                ok = ok and set(kw) == {'gamma'} and kw['gamma'] is s.gamma_at_entry
            else:
                ok = ok and not kw
            vc_.oblige('call-pre[likelihood(self.simulated, self.observed%s)]' % (', gamma=current gamma' if self.misspec else ''), z3.BoolVal(bool(ok)))
            s.lik_calls.append(1)
            # gaussian_syn_likelihood / ..._ghurye_olkin return np.array([loglik]); syn_likelihood_misspec returns loglik itself
            return SReal(s.ll) if self.misspec else arr1(s.ll)
        me.likelihood = Stub('likelihood', likelihood, checked_by='C20 likelihood contracts (CAS)')
        if self.misspec:
            s.gamma_at_entry = me.gamma_sampler_state['gamma']

        def get_mh_ratio(vc_):
            st = me.state
            n = T(st['n_samples'])
            vc_.oblige('call-pre[_get_mh_ratio: 1 <= n_samples < len(chain)]', z3.And(n >= 1, n < s.N))
            r = ratio_spec(self.bounded, st['params'].at(n), st['params'].at(n - 1), st['logposterior'].at(n), st['logposterior'].at(n - 1))
            vc_.assume(r > 0)
            s.ratio_terms.append(r)
            return SReal(r)
        s.ratio_terms = []
        me._get_mh_ratio = Stub('BSL._get_mh_ratio', get_mh_ratio, checked_by='C20/BSL._get_mh_ratio')
        return s, (me,), {}

    def requires(self, s):
        return [s.n0 >= 0, s.n0 < s.N, T(s.me.burn_in) >= 0, T(s.me.num_accepted) >= 0]

    def snapshot(self, s):
        st = s.me.state
        return dict(P=st['params'].a, LP=st['logprior'].a, LQ=st['logposterior'].a, acc=T(s.me.num_accepted),
                    sim_ok=z3.Function('all_finite', Opq, B)(s.me.simulated.t))

    def _ll(self, s):
        """log-likelihood value the round produced: the likelihood's value, or -inf when a simulated summary is not finite"""
        return z3.If(s.old.sim_ok, s.ll, -INF)

    def raises(self, s):
        return {'RuntimeError': z3.And(s.n0 == 0, z3.Not(finite(self._ll(s))))}

    def iff_raises(self, s):
        return [('no error unless the likelihood is not finite on the initialisation round', z3.Not(z3.And(s.n0 == 0, z3.Not(finite(self._ll(s))))))]

    def ensures(self, s, result):
        o, st, n = s.old, s.me.state, s.n0
        ll = self._ll(s)
        P1, LP1, LQ1 = st['params'].a, st['logprior'].a, st['logposterior'].a
        post_new = ll + o.LP[n]
        u = s.me.random_state.us[0] if s.me.random_state.us else z3.Real('u_draw0')
        ratio = ratio_spec(self.bounded, o.P[n], o.P[n - 1], post_new, o.LQ[n - 1])
        accept = z3.Or(n == 0, u < z3.If(ratio >= 1, z3.RealVal(1), ratio))
        kept = z3.And(P1[n] == o.P[n], LP1[n] == o.LP[n], LQ1[n] == post_new)
        restored = z3.And(P1[n] == o.P[n - 1], LP1[n] == o.LP[n - 1], LQ1[n] == o.LQ[n - 1])
        out = [('accept iff u < min(1, ratio): row n kept (post = loglik + prior) / restored to row n-1',
                z3.If(accept, kept, restored)),
               ('n_samples advances by one', T(st['n_samples']) == n + 1),
               ('no other row of the chain is touched',
                forall_range(0, s.N, lambda k: z3.Implies(k != n, z3.And(P1[k] == o.P[k], LP1[k] == o.LP[k], LQ1[k] == o.LQ[k])), 'k')),
               ('acceptance counter counts accepted candidates after burn-in',
                T(s.me.num_accepted) == o.acc + z3.If(z3.And(accept, n >= T(s.me.burn_in)), 1, 0)),
               ('at most one uniform draw, none on the initialisation round', z3.BoolVal(len(s.me.random_state.us) <= 1))]
        return out


# =============================================================================================== _init_round
class InitRound(Contract):
    target = 'elfi/methods/inference/bsl.py::BSL._init_round'
    prop = 'C20'
    fin = 4

    def __init__(self, misspec):
        self.misspec = misspec
        self.label = 'misspec' if misspec else 'plain'

    def env(self, vc):
        return {'np': np_module(None)}

    def setup(self, vc):
        s = NS()
        me = make_sampler(vc, s, True, self.misspec)
        me.state.havoc_keys = ('n_samples', 'params', 'logprior', 'logposterior', 'n_sim_round') + (('gamma',) if self.misspec else ())
        me.objective.havoc_keys = ('round', 'n_batches')
        s.BPR = z3.Int('batches_per_round')
        s.props, s.lps = [], []

        def propagate(vc_):
            k = len(s.props)
            p = vc_.fresh('proposal%d' % k, Vec)
            s.props.append(p)
            return SKey(p)
        me._propagate_state = Stub('BSL._propagate_state', propagate, checked_by='C20/BSL._propagate_state')

        class Prior:
            def logpdf(self_, x):
                vc_ = cur()
                vc_.oblige('call-pre[prior.logpdf is evaluated at the proposal]', z3.BoolVal(bool(s.props) and isinstance(x, SKey) and x.t is s.props[-1]))
                lp = vc_.fresh('logprior_of_proposal%d' % len(s.lps), R)
                s.lps.append(lp)
                return arr1(lp)         # ModelPrior.logpdf of a 2-D (1, d) point: one value per row
        me.prior = Prior()

        def set_objective(vc_, rounds):
            me.objective['round'] = SInt(T(rounds))
            me.objective['n_batches'] = SInt(T(rounds) * s.BPR)
        me.set_objective = Stub('ModelBased.set_objective', set_objective)
        if self.misspec:
            me.gamma_sampler_state.havoc_keys = ('gamma', 'loglik')

            def gamma_sampler(vc_, observed, **kw):
                vc_.oblige('call-pre[gamma sampler gets the observed data and the current gamma-sampler state]',
                           z3.BoolVal(observed is me.observed and set(kw) == set(me.gamma_sampler_state)))
                return Opaque(vc_.fresh('gamma_draw', Opq)), SReal(vc_.fresh('gamma_ll', R))
            me.gamma_sampler = Stub('gamma_sampler', gamma_sampler)
        return s, (me,), {}

    def requires(self, s):
        o = s.me.objective
        return [s.n0 >= 1, s.n0 <= s.N, T(o['n_batches']) == T(o['round']) * s.BPR]

    def snapshot(self, s):
        st, o = s.me.state, s.me.objective
        return dict(P=st['params'].a, LP=st['logprior'].a, LQ=st['logposterior'].a, R=T(o['round']), nsr=T(st['n_sim_round']),
                    n_sim=st['n_sim'], n_batches=st['n_batches'], G=(st['gamma'].a if self.misspec else None))

    # loop 0: while self.state['n_samples'] < len(self.state['params'])
    def _rows(self, s, P1, LP1, LQ1, n):
        """rows n0..n-1 repeat the current state (row n0-1); every other row below n0 / from n on is as at entry"""
        o, n0 = s.old, s.n0
        facts = [('n0 <= n_samples <= len(chain)', z3.And(n0 <= n, n <= s.N)),
                 ('rows n0..n-1 (rejected, not simulated) repeat params / log-prior of the current state',
                  forall_range(n0, n, lambda k: z3.And(P1[k] == o.P[n0 - 1], LP1[k] == o.LP[n0 - 1]), 'k')),
                 ('parameters / log-prior outside n0..n-1 are as at entry',
                  forall_range(0, s.N, lambda k: z3.Implies(z3.Or(k < n0, k >= n), z3.And(P1[k] == o.P[k], LP1[k] == o.LP[k])), 'k'))]
        if not self.misspec:
            facts += [('rows n0..n-1 repeat the log-posterior of the current state', forall_range(n0, n, lambda k: LQ1[k] == o.LQ[n0 - 1], 'k')),
                      ('log-posterior outside n0..n-1 is as at entry', forall_range(0, s.N, lambda k: z3.Implies(z3.Or(k < n0, k >= n), LQ1[k] == o.LQ[k]), 'k'))]
        else:
            # the gamma update re-evaluates the current state's log-posterior (ll + logprior) before each proposal
            facts += [('log-posterior below n0-1 / from n on is as at entry', forall_range(0, s.N, lambda k: z3.Implies(z3.Or(k < n0 - 1, k >= n), LQ1[k] == o.LQ[k]), 'k'))]
        return facts

    def _inv(self, s, l):
        st, ob = s.me.state, s.me.objective
        n = T(st['n_samples'])
        return self._rows(s, st['params'].a, st['logprior'].a, st['logposterior'].a, n) + [
            ('each rejection lowers the round objective by one', z3.And(T(ob['round']) == s.old.R - (n - s.n0), T(ob['n_batches']) == T(ob['round']) * s.BPR)),
            ('n_sim_round untouched while rejecting', T(st['n_sim_round']) == s.old.nsr)]

    @property
    def loops(self):
        def mods(s, l):
            m = [s.me.state, s.me.objective]
            if self.misspec:
                m.append(s.me.gamma_sampler_state)
            return m
        return {0: Loop(inv=self._inv, modifies=mods)}

    def ensures(self, s, result):
        st, ob, o = s.me.state, s.me.objective, s.old
        n = T(st['n_samples'])
        P1, LP1, LQ1 = st['params'].a, st['logprior'].a, st['logposterior'].a
        rows = self._rows(s, P1, LP1, LQ1, n)
        # rows n0..n-1 and frame: at exit row n may additionally hold the accepted proposal
        out = [rows[0], rows[1]]
        if s.props and s.lps:
            prop, lp = s.props[-1], s.lps[-1]
            started = z3.And(n < s.N, finite(lp), P1[n] == prop, LP1[n] == lp, T(st['n_sim_round']) == 0)
        else:
            started = z3.BoolVal(False)
        out.append(('exit: chain complete, or row n = proposal with finite log-prior and n_sim_round = 0', z3.Or(n == s.N, started)))
        out.append(('params / log-prior of all rows but n0..n as at entry',
                    forall_range(0, s.N, lambda k: z3.Implies(z3.Or(k < s.n0, k > n), z3.And(P1[k] == o.P[k], LP1[k] == o.LP[k])), 'k')))
        if not self.misspec:
            out.append(rows[3])
            out.append(('log-posterior outside n0..n-1 as at entry (row n is filled only after simulating)', rows[4][1]))
        else:
            out.append(rows[3])
        out.append(('the round objective drops by the number of rejected proposals', T(ob['round']) == o.R - (n - s.n0)))
        out.append(('no simulation counted: n_sim, n_batches untouched; n_sim_round only reset at a round start',
                    z3.And(z3.BoolVal(st['n_sim'] is o.n_sim and st['n_batches'] is o.n_batches),
                           z3.Or(T(st['n_sim_round']) == o.nsr, T(st['n_sim_round']) == 0))))
        return out


# =============================================================================================== _init_state
class InitState(Contract):
    """start of the chain (caller side of the chain state: the anchored functions assume row 0 holds the start point)"""
    target = 'elfi/methods/inference/bsl.py::BSL._init_state'
    prop = 'C20'
    fin = 4

    def __init__(self, given, dim):
        self.given, self.dim = given, dim
        self.label = ('params0 given' if given else 'params0=None') + ',p=%d' % dim

    def env(self, vc):
        s = vc._s

        def batch_to_arr2d(batch, names):
            vc.oblige('call-pre[batch_to_arr2d gets the generated batch and the parameter names]',
                      z3.BoolVal(batch is s.batch and list(names) == s.me.param_names))
            return Point(z3.Const('generated_start', Vec), 2)
        return {'np': np_module(s), 'batch_to_arr2d': batch_to_arr2d}

    def setup(self, vc):
        s = NS()
        s.fresh_state_arrays = True
        me = make_sampler(vc, s, False, False)
        me.param_names = ['p%d' % i for i in range(self.dim)]
        me.seed = SInt(z3.Int('seed'))
        s.batch = Opaque(z3.Const('generated_batch', Opq))
        s.p0 = Point(z3.Const('params0', Vec), 1)
        s.n_arg = z3.Int('n_samples_arg')
        vc.fin_bounds.append(s.n_arg)
        dim = self.dim

        class Model:
            parameter_names = me.param_names

            def generate(self_, n, names, seed=None):
                vc.oblige('call-pre[model.generate(1, parameter names, seed=self.seed)]',
                          z3.BoolVal(n == 1 and list(names) == me.param_names and seed is me.seed))
                return s.batch
        me.model = Model()

        class Prior:
            def logpdf(self_, x):
                if not isinstance(x, Point):
                    raise OutOfSubset('prior.logpdf of a non-point')
                v = LOGPRIOR(x.t)
                # ModelPrior._evaluate_pdf: one value per row, unwrapped only for a 0-d point or a 1-D point of a multi-parameter prior
                return SReal(v) if (x.ndim == 0 or (x.ndim == 1 and dim > 1)) else arr1(v)
        me.prior = Prior()

        def base_init_state():
            for k in ('n_batches', 'n_sim', 'round', 'n_sim_round'):
                me.state[k] = SInt(z3.IntVal(0))
        me._vc_super = lambda: make_object('ModelBasedStub', methods=dict(_init_state=lambda self_: base_init_state()))
        return s, (me, SInt(s.n_arg)), dict(params0=(s.p0 if self.given else None))

    def requires(self, s):
        return [s.n_arg >= 1]

    def _start(self, s):
        return s.p0.t if self.given else z3.Const('generated_start', Vec)

    def raises(self, s):
        return {'ValueError': z3.And(z3.BoolVal(self.given), z3.Not(finite(LOGPRIOR(s.p0.t))))}

    def iff_raises(self, s):
        return [('a given start point has a finite log-prior', z3.Or(z3.BoolVal(not self.given), finite(LOGPRIOR(s.p0.t))))]

    def ensures(self, s, result):
        st = s.me.state
        P, LP, LQ = st['params'], st['logprior'], st['logposterior']
        ok = all(isinstance(x, ZArr) for x in (P, LP, LQ))
        if not ok:
            return [('chain arrays are fresh arrays', z3.BoolVal(False))]
        return [('row 0 holds the start point and its log-prior', z3.And(P.at(0) == self._start(s), LP.at(0) == LOGPRIOR(self._start(s)))),
                ('the chain has the requested length', z3.And(P.n == s.n_arg, LP.n == s.n_arg, LQ.n == s.n_arg)),
                ('counters start at zero', z3.And(T(st['n_samples']) == 0, T(s.me.num_accepted) == 0, T(st['round']) == 0, T(st['n_sim_round']) == 0))]


def contracts():
    return [GetMhRatio(True), GetMhRatio(False), PropagateState(True), PropagateState(False),
            ProcessSimulated(True, False), ProcessSimulated(False, False), ProcessSimulated(True, True),
            InitRound(False), InitRound(True),
            InitState(True, 2), InitState(True, 1), InitState(False, 2), InitState(False, 1)]
