import numpy as np; np.Inf=np.inf
import logging; logging.disable(logging.CRITICAL)
import elfi, elfi.client
from elfi.model.elfi_model import ComputationContext
def build(order):
    m=elfi.ElfiModel()
    defs={'a':lambda: elfi.Prior('uniform',0,1,model=m,name='a'),
          'b':lambda: elfi.Prior('norm',0,1,model=m,name='b'),
          'c':lambda: elfi.Prior('uniform',-1,2,model=m,name='c')}
    for k in order: defs[k]()
    S=elfi.Simulator(lambda a,b,c,batch_size=1,random_state=None: a+b+c+random_state.randn(batch_size),m['a'],m['b'],m['c'],model=m,name='S',observed=np.array([0.]))
    Z=elfi.Simulator(lambda c,batch_size=1,random_state=None: c*random_state.rand(batch_size),m['c'],model=m,name='Z',observed=np.array([0.]))
    s=elfi.Summary(lambda x,z:x+z,S,Z,model=m,name='s'); d=elfi.Distance('euclidean',s,model=m,name='d')
    return m
ref=build('abc').generate(4,seed=11)
ok=True
for order in ['abc','cba','bca']:
    np.random.seed(np.random.randint(1000)); np.random.rand(7)
    m=build(order); m.generate(3,seed=5); m.generate(2)          # unrelated history
    out=m.generate(4,seed=11)
    ok&=all(np.array_equal(out[k],ref[k]) for k in ref if not k.startswith('_'))
print('C02 generate independent of insertion order / np.random / history:',ok)
# batch handler: arbitrary index order, shared caches, subsets of outputs
m=build('abc'); ctx=ComputationContext(batch_size=4,seed=11)
bh=elfi.client.BatchHandler(m,ctx,['d','a'],client=elfi.client.get_client())
first={i:bh.compute(i) for i in [5,0,3,0,7,2,5]}
ctx2=ComputationContext(batch_size=4,seed=11); bh2=elfi.client.BatchHandler(m,ctx2,['d','a'],client=elfi.client.get_client())
ok2=all(np.array_equal(bh2.compute(i)['d'],first[i]['d']) for i in [0,2,3,5,7])
print('C02 compute(i) independent of request order with shared caches:',ok2, ' batch0 equals generate:', np.array_equal(first[0]['d'],ref['d']))
