import numpy as np, logging; logging.disable(logging.CRITICAL)
import elfi
from elfi.executor import nx_constant_topological_sort
def build():
    m=elfi.ElfiModel()
    a=elfi.Prior('uniform',0,1,model=m,name='a')
    ab=elfi.Prior('uniform',0,1,model=m,name='a_b')
    S=elfi.Simulator(lambda a,ab,batch_size=1,random_state=None: a+ab,a,ab,model=m,name='S',observed=np.array([0.]))
    return m
outs=set(); orders=set()
for _ in range(40):
    m=build(); o=m.generate(2,outputs=['a','a_b'],seed=1)
    outs.add((tuple(o['a']),tuple(o['a_b'])))
    comp=elfi.client.get_client().compile(m.source_net,['a','a_b'])
    orders.add(tuple(n for n in nx_constant_topological_sort(comp) if n in ('a','a_b')))
print('distinct seeded outputs over 40 rebuilds of the same model code:',len(outs)); print('orders of the two priors seen:',orders)
for x in list(outs)[:2]: print(x)
