import numpy as np, logging, itertools, collections; logging.disable(logging.CRITICAL)
import elfi
from elfi.utils import observed_name
rs=np.random.RandomState(0)
class T(tuple): pass                      # symbolic term
class Dist:
    def __init__(self,name,calls): self.name_=name; self.calls=calls
    def rvs(self,*params,size=None,random_state=None):
        self.calls[self.name_]+=1; return T(('rvs',self.name_,params,size,id(random_state)!=0))
def mkop(name,calls,kwnames=()):
    def op(*args,**kw):
        calls[name]+=1
        return T(('op',name,args,tuple(sorted((k,v) for k,v in kw.items() if k not in ('random_state','meta'))), 'random_state' in kw, 'meta' in kw))
    return op
def gen_graph():
    n=rs.randint(3,7); spec=[]; 
    for i in range(n):
        cands=[j for j in range(i)]
        kind=rs.choice(['prior','op','sim','summ','disc','const'],p=[.2,.15,.25,.2,.1,.1]) if i>0 else rs.choice(['prior','const'])
        npar=rs.randint(0 if kind in('prior','op','sim') else 1, 3)
        if kind in('summ','disc'):
            cands=[j for j in cands if spec[j]['kind'] in ('sim','summ')] if kind=='disc' else cands
            if not cands: kind='op'; cands=list(range(i))
        par=[int(x) for x in rs.choice(cands,size=min(npar,len(cands)),replace=False)] if cands and npar else []
        if kind in('summ','disc') and not par: par=[cands[0]]
        if kind=='const': par=[]
        lits=[('lit',i,k) for k in range(rs.randint(0,2))] if kind in ('prior','op','sim') else []
        obs=('obs',i) if kind in('sim','summ') and rs.rand()<.5 else None
        spec.append(dict(kind=kind,par=par,lits=lits,obs=obs,name='n%d'%i))
    return spec
def build(spec,calls):
    m=elfi.ElfiModel(); refs=[]
    for s in spec:
        args=[refs[j] for j in s['par']]+list(s['lits']); nm=s['name']; kw=dict(model=m,name=nm)
        if s['kind']=='const': r=elfi.Constant(('const',nm),**kw)
        elif s['kind']=='prior': r=elfi.Prior(Dist(nm,calls),*args,**kw)
        elif s['kind']=='op': r=elfi.Operation(mkop(nm,calls),*args,**kw)
        elif s['kind']=='sim': r=elfi.Simulator(mkop(nm,calls),*args,observed=s['obs'],**kw)
        elif s['kind']=='summ': r=elfi.Summary(mkop(nm,calls),*args,observed=s['obs'],**kw)
        else: r=elfi.Discrepancy(mkop(nm,calls),*args,**kw)
        refs.append(r)
    return m
def expected(spec,i,B,given):
    s=spec[i]
    if s['name'] in given: return given[s['name']]
    args=tuple(expected(spec,j,B,given) for j in s['par'])+tuple(s['lits'])
    if s['kind']=='const': return ('const',s['name'])
    if s['kind']=='prior': return T(('rvs',s['name'],args,(B,),True))
    kw=[]
    if s['kind']=='sim': kw.append(('batch_size',B))
    if s['kind']=='disc': kw.append(('observed',tuple(exp_obs(spec,j) for j in s['par'])))
    return T(('op',s['name'],args,tuple(sorted(kw)),s['kind']=='sim',False))
class Undefined(Exception): pass
def exp_obs(spec,i):
    s=spec[i]
    if s['obs'] is not None: return s['obs']
    if s['kind']=='sim': raise Undefined()
    if s['kind']=='summ':
        args=tuple(exp_obs(spec,j) if spec[j]['kind'] in('sim','summ') else expected(spec,j,0,{}) for j in s['par'])
        return T(('op',s['name'],args,(),False,False))
    raise Undefined()
def stochastic_dep(spec,i):   # does observed twin of i depend on a stochastic node
    s=spec[i]
    if s['obs'] is not None: return False
    return any((spec[j]['kind'] in('prior',)) or (spec[j]['kind']=='sim' and spec[j]['obs'] is None) or (spec[j]['kind'] in ('summ',) and stochastic_dep(spec,j)) or (spec[j]['kind']=='op' and anc_stoch(spec,j)) for j in s['par'])
def anc_stoch(spec,i): return spec[i]['kind'] in('prior','sim') or any(anc_stoch(spec,j) for j in spec[i]['par'])
def needed(spec,outs,given):
    need=set()
    def go(i):
        if spec[i]['name'] in given or i in need: return
        need.add(i); [go(j) for j in spec[i]['par']]
    [go(i) for i in outs]; return need
stats=collections.Counter(); fails=[]
for g in range(400):
    spec=gen_graph(); n=len(spec)
    for trial in range(3):
        outs=sorted(set(int(x) for x in rs.choice(n,size=rs.randint(1,n+1),replace=False)))
        giv=[int(x) for x in rs.choice(n,size=rs.randint(0,2),replace=False)]
        given={spec[i]['name']:('given',i) for i in giv if spec[i]['kind']!='const'}
        calls=collections.Counter(); m=build(spec,calls); B=3
        has_disc=[i for i in needed(spec,outs,given) if spec[i]['kind']=='disc']
        try:
            exp={spec[i]['name']:expected(spec,i,B,given) for i in outs}
        except Undefined:
            stats['obs-undefined']+=1; continue
        if any(stochastic_dep(spec,j) for i in has_disc for j in spec[i]['par']): stats['stoch-obs(F10)']+=1; continue
        try:
            out=m.generate(B,[spec[i]['name'] for i in outs],with_values=given or None,seed=1)
        except Exception as e:
            if 'is not in the' in repr(e): stats['isolated-node(F15)']+=1; continue
            fails.append(('exc',spec,outs,given,repr(e)[:100])); continue
        stats['run']+=1
        for k,v in exp.items():
            if out[k]!=v: fails.append(('value',k,out[k],v,spec)); break
        need=needed(spec,outs,given)
        for i,s in enumerate(spec):
            if s['kind']=='const': continue
            want=1 if i in need else 0
            # summaries also run once more for the observed twin when a discrepancy needs it
            if calls[s['name']] not in ((want,) if s['kind'] not in('summ',) else (want,want+1)): fails.append(('calls',s['name'],calls[s['name']],want,spec,outs,given)); break
print(dict(stats),'failures',len(fails))
print(collections.Counter(f[0] for f in fails))
for f in fails[:3]: print(f)
