import numpy as np; np.Inf=np.inf
import itertools, logging; logging.disable(logging.CRITICAL)
import elfi, elfi.client
from elfi.examples import ma2
class SchedClient(elfi.client.ClientBase):
    def __init__(self, bits, cores=3):
        self.tasks={}; self._ids=itertools.count(); self.bits=bits; self.k=0; self.cores=cores; self.log=[]; self.maxout=0
    def apply(self, f,*a,**kw):
        i=next(self._ids); self.tasks[i]=(f,a,kw); self.log.append(('submit',i)); self.maxout=max(self.maxout,len(self.tasks)); return i
    def apply_sync(self,f,*a,**kw): return f(*a,**kw)
    def get_result(self,i):
        f,a,kw=self.tasks.pop(i); self.log.append(('get',i)); return f(*a,**kw)
    def is_ready(self,i):
        b=self.bits[self.k%len(self.bits)]; self.k+=1; return bool(b)
    def remove_task(self,i):
        self.log.append(('rm',i)); self.tasks.pop(i,None)
    def reset(self): self.tasks.clear()
    @property
    def num_cores(self): return self.cores
def run(kind,bits,mp):
    c=SchedClient(bits); elfi.client.set_client(c)
    m=ma2.get_model(seed_obs=1)
    if kind=='thr':  r=elfi.Rejection(m['d'],batch_size=20,seed=3,max_parallel_batches=mp).sample(15,threshold=.8,bar=False)
    elif kind=='q':  r=elfi.Rejection(m['d'],batch_size=20,seed=3,max_parallel_batches=mp).sample(7,quantile=.1,bar=False)
    else:            r=elfi.SMC(m['d'],batch_size=20,seed=3,max_parallel_batches=mp).sample(15,thresholds=[1.,.6,.4],bar=False)
    key=(tuple(np.round(r.outputs['t1'],12)),tuple(np.round(r.outputs['d'],12)),r.n_sim,float(r.threshold), tuple(np.round(r.weights,12)) if r.weights is not None else None)
    return key,len(c.tasks),c.maxout
rs=np.random.RandomState(0)
for kind in ['thr','q','smc']:
    ref=None; diffs=0; left=0; over=0; n=0
    for mp in (1,2,3,5):
        for t in range(12):
            bits=list(rs.randint(0,2,size=rs.randint(1,9))) if t>1 else ([1] if t==0 else [0])
            key,nleft,maxout=run(kind,bits,mp); n+=1
            if ref is None: ref=key
            diffs+= key!=ref; left+= nleft>0; over+= maxout>mp
    print(kind,'runs',n,'result differs from first:',diffs,'tasks left in client:',left,'exceeded max_parallel:',over,'n_sim',ref[2])
