import numpy as np, warnings, logging, os, tempfile; warnings.filterwarnings('ignore'); logging.disable(logging.CRITICAL)
np.Inf=np.inf
import elfi
from elfi.examples import ma2
os.chdir(tempfile.mkdtemp(dir='/var/tmp'))
same=lambda a,b: all(np.array_equal(a.outputs[k],b.outputs[k]) for k in a.outputs)
def run(pool,n_sim): return elfi.Rejection(ma2.get_model(seed_obs=1)['d'],batch_size=25,seed=9,pool=pool).sample(5,n_sim=n_sim,bar=False)
ref100=run(None,100); ref200=run(None,200)
pool=elfi.ArrayPool(['MA2','t1','t2','d'],name='p1'); r1=run(pool,100); ok1=same(r1,ref100); pool.close()
p2=elfi.ArrayPool.open('p1'); r2=run(p2,100); r3=run(p2,200); print('C05/C06 ArrayPool fill, close, open, reuse, extend equal pool-free:',ok1,same(r2,ref100),same(r3,ref200),'| batches',len(p2),'| seed/batch_size kept',p2.seed,p2.batch_size)
a=np.load('pools/p1/MA2.npy'); p2.flush(); a=np.load('pools/p1/MA2.npy'); print('C06 numpy.load of the store file after flush:',a.shape, np.array_equal(a[:25],p2.get_batch(0)['MA2']))
try: elfi.Rejection(ma2.get_model(seed_obs=1)['d'],batch_size=5,seed=9,pool=p2); print('C05 reopened pool: different batch_size NOT refused')
except ValueError: print('C05 reopened pool: different batch_size refused')
p2.delete()
