import numpy as np, warnings, logging, builtins; warnings.filterwarnings('ignore'); logging.disable(logging.CRITICAL)
np.Inf=np.inf
import elfi, scipy.stats as ss
import elfi.methods.posteriors as P
P.float = lambda x: builtins.float(np.ravel(x)[0])          # emulate an F6 repair inside the module namespace only
from elfi.methods.posteriors import RomcPosterior
from elfi.methods.inference.romc import NDimBoundingBox
from elfi.model.extensions import ModelPrior
rs=np.random.RandomState(0)
m=elfi.ElfiModel(); elfi.Prior('norm',0,1,model=m,name='a'); elfi.Prior('uniform',-2,4,model=m,name='b'); prior=ModelPrior(m)
regs=[];fs=[]
for k in range(4):
    Q,_=np.linalg.qr(rs.randn(2,2)); c=rs.randn(2)*.5; regs.append(NDimBoundingBox(Q,c,np.array([[-.8,.6],[-.5,.9]]))); fs.append(lambda t,c=c: float(np.sum((t-c)**2)))
bad=0
for surrogate in (False,True):
    post=RomcPosterior(regs,fs,[None]*4,[None]*4,[None]*4,list(range(4)),surrogate,prior,np.array([-2,-2.]),np.array([2,2.]),1,1,0.3)
    for _ in range(200):
        t=rs.randn(2)
        cnt=sum((f(t)<=0.3) and (r.contains(t) if surrogate else True) for f,r in zip(fs,regs))
        bad+= not np.isclose(post._pdf_unnorm_single_point(t), ss.norm.pdf(t[0])*ss.uniform.pdf(t[1],-2,4)*cnt)
    th,w,dist=post.sample(5)
    for i in range(4):
        for j in range(5):
            t=th[i,j]; e=(fs[i](t)<0.3)*ss.norm.pdf(t[0])*ss.uniform.pdf(t[1],-2,4)/(1/regs[i].volume); bad+= not np.isclose(w[i,j],e); bad+= not regs[i].contains(t)
print('C19 RomcPosterior pdf / weights mismatches (F6 patched):',bad)
# ---------------- C05 histories
from elfi.examples import ma2
calls={'sim':0}
def build():
    m=ma2.get_model(seed_obs=1); f=m['MA2']['attr_dict']['_operation']
    def counted(*a,**k): calls['sim']+=1; return f(*a,**k)
    m['MA2']['attr_dict']['_operation']=counted; return m
def run(m,pool,n_sim,bs=25): return elfi.Rejection(m['d'],batch_size=bs,seed=9,pool=pool,output_names=['S1']).sample(5,n_sim=n_sim,bar=False)
same=lambda a,b: all(np.array_equal(a.outputs[k],b.outputs[k]) for k in a.outputs)
ref100=run(build(),None,100); ref200=run(build(),None,200)
for stores in (['MA2'],['MA2','t1','t2'],['S1','S2'],['MA2','S1','d','t1','t2']):
    pool=elfi.OutputPool(stores); calls['sim']=0
    r1=run(build(),pool,100); c1=calls['sim']; r2=run(build(),pool,100); c2=calls['sim']-c1; r3=run(build(),pool,200); c3=calls['sim']-c1-c2
    expect_resim = 'MA2' not in stores and not ({'S1','S2'}<=set(stores))
    ok=same(r1,ref100) and same(r2,ref100) and same(r3,ref200) and len(pool)==8
    print('C05 stores',stores,'results equal pool-free:',ok,'simulator calls fill/reuse/extend:',c1,c2,c3)
# edited downstream node on reuse
pool=elfi.OutputPool(['MA2','t1','t2']); run(build(),pool,100); m=build(); calls['sim']=0
m['d'].become(elfi.Distance('cityblock',m['S1'],m['S2'],model=m)); r=run(m,pool,100); m2=build(); m2['d'].become(elfi.Distance('cityblock',m2['S1'],m2['S2'],model=m2)); r0=run(m2,None,100)
print('C05 reuse after replacing the distance: equal to pool-free run of edited model:',same(r,r0),'simulator calls on reuse:',calls['sim']-0 if False else None)
try: elfi.Rejection(build()['d'],batch_size=25,seed=10,pool=pool); print('C05 different seed NOT refused')
except ValueError as e: print('C05 different seed refused')
