import numpy as np, os, pickle, itertools, sys, logging; logging.disable(logging.CRITICAL)
sys.path.insert(0,'/repo')
from elfi.store import NpyStore
import tempfile; os.chdir(tempfile.mkdtemp(dir='/var/tmp'))
ops=['app','ovw','del','clr','fl','reopen','pkl']
bad=[];n=0
rs=np.random.RandomState(0)
def mk(v,bs,shape): return (np.full((bs,)+shape,float(v)))
for L in (4,5):
  for seq in itertools.product(ops,repeat=L):
    if seq.count('app')<1: continue
    if rs.rand()>0.12: continue
    for bs,shape in ((2,()),(1,(2,))):
        fn='t%d.npy'%n; n+=1
        if os.path.exists(fn): os.remove(fn)
        st=NpyStore(fn[:-4],bs); ref=[]; v=0
        try:
            for op in seq:
                v+=1
                if op=='app': st[len(ref)]=mk(v,bs,shape); ref.append(mk(v,bs,shape))
                elif op=='ovw' and ref: st[0]=mk(v,bs,shape); ref[0]=mk(v,bs,shape)
                elif op=='del' and ref: del st[len(ref)-1]; ref.pop()
                elif op=='clr' and st.array.initialized: st.clear(); ref=[]
                elif op=='fl': st.flush()
                elif op=='reopen' and st.array.initialized: st.close(); st=NpyStore(fn[:-4],bs)
                elif op=='pkl' and st.array.initialized: st=pickle.loads(pickle.dumps(st))
                assert len(st)==len(ref),('len',len(st),len(ref))
                for i,r in enumerate(ref): assert np.array_equal(st[i],r),('content',i)
                assert (len(ref) in st)==False and all(i in st for i in range(len(ref)))
                if op in ('fl','reopen','pkl') and st.array.initialized:
                    a=np.load(fn); exp=np.concatenate(ref) if ref else np.zeros((0,)+shape)
                    assert a.shape==exp.shape and np.array_equal(a,exp),('npload',a.shape,exp.shape)
            st.close()
        except Exception as e:
            bad.append((seq,bs,shape,repr(e)[:120]))
        try: os.remove(fn)
        except OSError: pass
print('sequences run',n,'failures',len(bad))
for b in bad[:6]: print(b)
