import numpy as np, warnings, logging; warnings.filterwarnings('ignore'); logging.disable(logging.CRITICAL)
np.Inf=np.inf
import elfi, scipy.stats as ss
from elfi.methods.utils import weighted_var, weighted_sample_quantile
# ---- C07 continued sampling on an existing sampler
m=elfi.ElfiModel(); t1=elfi.Prior('uniform',0,2,model=m,name='t1'); t2=elfi.Prior('norm',0,1,model=m,name='t2')
S=elfi.Simulator(lambda a,b,batch_size=1,random_state=None: np.column_stack([a,b])+0.3*random_state.randn(batch_size,2),t1,t2,model=m,name='S',observed=np.array([[1.,.5]]))
d=elfi.Distance('euclidean',S,model=m,name='d'); pri=lambda x: ss.uniform.pdf(x[:,0],0,2)*ss.norm.pdf(x[:,1],0,1)
for mode in ('thr','q'):
    smc=elfi.SMC(d,batch_size=30,seed=4); N=40
    r1=smc.sample(N,thresholds=[1.5,.9],bar=False) if mode=='thr' else smc.sample(N,quantiles=[.5,.5],bar=False)
    r2=smc.sample(N,thresholds=[.7,.5],bar=False) if mode=='thr' else smc.sample(N,quantiles=[.5,.5],bar=False)
    ok=len(r2.populations)==4; tot=0
    for i,p in enumerate(r2.populations):
        X=np.column_stack([p.outputs['t1'],p.outputs['t2']]); tot+=p.n_sim
        ok&= len(p.outputs['d'])==N and np.all(p.outputs['d']<=p.threshold) and np.all(pri(X)>0)
        if i>0:
            q=r2.populations[i-1]; Xq=np.column_stack([q.outputs['t1'],q.outputs['t2']]); wq=q.weights/q.weights.sum()
            dens=sum(w*ss.multivariate_normal.pdf(X,mean=mu,cov=q.cov) for w,mu in zip(wq,Xq)); ok&=np.allclose(p.weights,pri(X)/dens)
        ok&=np.allclose(p.cov,2*np.diag(weighted_var(X,p.weights)))
    print('C07 continued',mode,'4 populations, all clauses ok:',bool(ok),'| n_sim reported',r2.n_sim,'sum over populations',tot, '| thresholds',[round(float(p.threshold),3) for p in r2.populations])
# ---- C12 adaptive distance inside Rejection: newest distance column = euclid(summaries/scale); earlier columns unchanged
m2=elfi.ElfiModel(); a=elfi.Prior('uniform',0,2,model=m2,name='a')
S2=elfi.Simulator(lambda a,batch_size=1,random_state=None: np.column_stack([a+random_state.randn(batch_size),10*a+5*random_state.randn(batch_size)]),a,model=m2,name='S',observed=np.array([[1.,10.]]))
s1=elfi.Summary(lambda y:y[:,0],S2,model=m2,name='s1'); s2=elfi.Summary(lambda y:y[:,1],S2,model=m2,name='s2'); ad=elfi.AdaptiveDistance(s1,s2,model=m2,name='ad')
pool=elfi.OutputPool(['s1','s2','a'])
r=elfi.Rejection(ad,batch_size=20,seed=2,pool=pool,output_names=['s1','s2']).sample(10,n_sim=100,bar=False)
allS=np.column_stack([np.concatenate([pool.get_batch(i)[k] for i in range(5)]) for k in ('s1','s2')]); scale=allS.std(0)
dd=np.sqrt((((allS-np.array([1.,10.]))/scale)**2).sum(1)); best=np.sort(dd)[:10]
print('C12 adaptive rejection: returned distances == 10 smallest scaled distances over all draws:',np.allclose(np.sort(np.ravel(r.outputs['ad'])),best), '| rows consistent:', np.allclose(np.sqrt((((np.column_stack([r.outputs['s1'],r.outputs['s2']])-np.array([1.,10.]))/scale)**2).sum(1)), np.ravel(r.outputs['ad'])))
rows=np.column_stack([r.outputs['s1'],r.outputs['s2']]); mine=np.sqrt((((rows-np.array([1.,10.]))/scale)**2).sum(1)); adv=np.ravel(r.outputs['ad'])
print('C12/C01 adaptive: returned ad     ',np.round(adv,3)); print('C12/C01 adaptive: recomputed rows ',np.round(mine,3))
print('C12/C01 adaptive: same multiset:',np.allclose(np.sort(adv),np.sort(mine)),'| ad ascending:',bool(np.all(np.diff(adv)>=0)),'| recomputed ascending (rows were sorted):',bool(np.all(np.diff(mine)>=0)),'| reported threshold',float(r.threshold),'max returned',float(adv.max()))
