import numpy as np; np.Inf=np.inf
import logging; logging.disable(logging.CRITICAL)
import elfi, scipy.stats as ss
from elfi.methods.utils import weighted_var, weighted_sample_quantile
def model(kind):
    m=elfi.ElfiModel()
    if kind=='bounded': t1=elfi.Prior('uniform',0,2,model=m,name='t1'); t2=elfi.Prior('uniform',-1,2,model=m,name='t2'); pri=lambda x: ss.uniform.pdf(x[:,0],0,2)*ss.uniform.pdf(x[:,1],-1,2)
    elif kind=='unbounded': t1=elfi.Prior('norm',1,1,model=m,name='t1'); t2=elfi.Prior('norm',0,2,model=m,name='t2'); pri=lambda x: ss.norm.pdf(x[:,0],1,1)*ss.norm.pdf(x[:,1],0,2)
    else: t1=elfi.Prior('uniform',0,2,model=m,name='t1'); t2=elfi.Prior('uniform',0,t1,model=m,name='t2'); pri=lambda x: ss.uniform.pdf(x[:,0],0,2)*ss.uniform.pdf(x[:,1],0,x[:,0])
    S=elfi.Simulator(lambda a,b,batch_size=1,random_state=None: np.column_stack([a,b])+0.3*random_state.randn(batch_size,2),t1,t2,model=m,name='S',observed=np.array([[1.,.5]]))
    s=elfi.Summary(lambda y:y,S,model=m,name='s'); d=elfi.Distance('euclidean',s,model=m,name='d')
    return m,pri
for kind in ['bounded','unbounded','hier']:
  for mode in ['thr','q']:
    m,pri=model(kind); N=40
    smc=elfi.SMC(m['d'],batch_size=30,seed=4)
    r=smc.sample(N,thresholds=[1.5,.9,.6],bar=False) if mode=='thr' else smc.sample(N,quantiles=[.5,.5,.5],bar=False)
    ok=True; msgs=[]
    tot=0
    for i,p in enumerate(r.populations):
        X=np.column_stack([p.outputs['t1'],p.outputs['t2']]); tot+=p.n_sim
        ok&= len(p.outputs['d'])==N and np.all(p.outputs['d']<=p.threshold+1e-15) and np.all(pri(X)>0)
        if mode=='thr': ok&= np.isclose(smc.objective['thresholds'][i],[1.5,.9,.6][i])
        if i==0: ok&=np.all(p.weights==1)
        else:
            q=r.populations[i-1]; Xq=np.column_stack([q.outputs['t1'],q.outputs['t2']]); wq=q.weights/q.weights.sum()
            dens=sum(w*ss.multivariate_normal.pdf(X,mean=mu,cov=q.cov) for w,mu in zip(wq,Xq))
            ok&=np.allclose(p.weights,pri(X)/dens)
            if mode=='q': ok&=np.isclose(smc.objective['thresholds'][i], weighted_sample_quantile(q.outputs['d'],.5,q.weights))
        ok&=np.allclose(p.cov,2*np.diag(weighted_var(X,p.weights)))
    ok&= r.n_sim==tot
    print(kind,mode,'populations',len(r.populations),'all clauses ok:',bool(ok),'n_sim',r.n_sim)
