import numpy as np, warnings, logging, itertools; warnings.filterwarnings('ignore'); logging.disable(logging.CRITICAL)
np.Inf=np.inf
import elfi, networkx as nx
rs=np.random.RandomState(3)
# ---------------- C09 NUTS never outputs a state with -inf / nan target
from elfi.methods.mcmc import nuts, metropolis
def tgt(x): 
    if x[0]<-1 or x[0]>1.5: return -np.inf
    if x.shape[0]>1 and x[1]>2: return np.nan
    return -0.5*float(np.sum(x**2))
def grad(x): return -x
bad=0
for seed in range(12):
    for dim in (1,2):
        S=nuts(150,np.zeros(dim),tgt,grad,seed=seed); v=np.array([tgt(s) for s in S]); bad+= not (S.shape==(150,dim) and np.all(np.isfinite(v)))
        S2=nuts(150,np.zeros(dim),tgt,grad,seed=seed); bad+= not np.array_equal(S,S2)
        Sm=metropolis(150,np.zeros(dim),tgt,np.ones(dim)*1.5,warmup=20,seed=seed); v=np.array([tgt(s) for s in Sm]); bad+= not (Sm.shape==(150,dim) and np.all(np.isfinite(v)))
print('C09 support / determinism / length failures:',bad)
# ---------------- C14 random edit sequences
def consistent(m):
    G=m.source_net; ok=nx.is_directed_acyclic_graph(G)
    for c in G.nodes:
        pos=sorted(d['param'] for _,_,d in G.in_edges(c,data=True) if isinstance(d['param'],int)); ok&= len(set(pos))==len(pos)
    ok&= set(m.observed)<=set(G.nodes); ok&= m.parameter_names==sorted(n for n in G.nodes if '_parameter' in G.nodes[n]['attr_dict'])
    # no orphan private constants
    ok&= all(G.degree(n)>0 for n in G.nodes if n.startswith('_'))
    return ok
fails=[]
for trial in range(150):
    m=elfi.ElfiModel(); cnt=itertools.count(); names=[]
    def new_prior():
        nm='p%d'%next(cnt); par=[m[x] for x in names if x.startswith('p') and x in m.source_net and rs.rand()<.3][:1]
        elfi.Prior('uniform',*(par+[1.0]) if par else (0.0,1.0),model=m,name=nm); names.append(nm); return nm
    def new_sim():
        ps=[x for x in names if x.startswith('p') and x in m.source_net]; 
        if not ps: return None
        nm='s%d'%next(cnt); k=min(len(ps),rs.randint(1,3)); par=[m[x] for x in rs.choice(ps,size=k,replace=False)]
        elfi.Simulator((lambda *a,batch_size=1,random_state=None: sum(a[:-1])+a[-1]+random_state.rand(batch_size)),*par,2.5,model=m,name=nm,observed=np.array([float(rs.rand())])); names.append(nm); return nm
    for _ in range(3): new_prior()
    new_sim()
    hist=[]
    try:
        for step in range(6):
            live=[x for x in names if x in m.source_net]; op=rs.choice(['add_p','add_s','become','remove','copy'])
            if op=='add_p': new_prior()
            elif op=='add_s': new_sim()
            elif op=='become':
                sims=[x for x in live if x.startswith('s')]
                if sims:
                    tgt_=rs.choice(sims); kids=sorted(m.source_net.successors(tgt_)); rep=new_sim()
                    if rep:
                        repstate=m.source_net.nodes[rep]['attr_dict']; reppar=m.get_parents(rep); repobs=m.observed[rep]
                        m[tgt_].become(m[rep]); hist.append(('become',tgt_,rep))
                        assert rep not in m.source_net and sorted(m.source_net.successors(tgt_))==kids and m.source_net.nodes[tgt_]['attr_dict'] is repstate and m.get_parents(tgt_)[:len(reppar)-0]==reppar[:len(reppar)] and m.observed[tgt_] is repobs, 'become post'
            elif op=='remove' and live:
                x=rs.choice(live); priv=[p for p in m.get_parents(x) if p.startswith('_')]; m.remove_node(x); hist.append(('remove',x))
                assert x not in m.source_net and x not in m.observed and all((p not in m.source_net) for p in priv if True), 'remove post'
            elif op=='copy':
                k=m.copy(); a=k.generate(2,seed=1); b=m.generate(2,seed=1); hist.append(('copy',))
                assert all(np.array_equal(a[n],b[n]) for n in a if not n.startswith('_')), 'copy generates same'
            assert consistent(m), 'model_ok'
    except AssertionError as e: fails.append((str(e),hist[-3:]))
    except Exception as e: fails.append((type(e).__name__+': '+str(e)[:80],hist[-3:]))
import collections; print('C14 edit-sequence trials 150, failures:',len(fails),collections.Counter(f[0] for f in fails).most_common(5)); print(fails[:2])
