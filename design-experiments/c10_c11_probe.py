import numpy as np, warnings, logging; warnings.filterwarnings('ignore'); logging.disable(logging.CRITICAL)
np.Inf=np.inf
import scipy.stats as ss, elfi
from elfi.methods.bo.gpy_regression import GPyRegression
from elfi.methods.posteriors import BolfiPosterior
from elfi.model.extensions import ModelPrior
def fixed_cache(self):
    self._rbf_var = float(np.ravel(self._gp.kern.rbf.variance)[0]); self._rbf_factor = -0.5 / float(np.ravel(self._gp.kern.rbf.lengthscale)[0])**2
    self._rbf_bias = float(self._gp.kern.bias.K(self._gp.X)[0, 0]); self._rbf_noisevar = float(self._gp.likelihood.variance[0])
    self._rbf_woodbury = self._gp.posterior.woodbury_vector; self._rbf_woodbury_inv = self._gp.posterior.woodbury_inv; self._rbf_woodbury_chol = self._gp.posterior.woodbury_chol
    self._rbf_x2sum = np.sum(self._gp.X**2., 1)[None, :]; self._rbf_is_cached = True
GPyRegression._cache_RBF_kernel = fixed_cache
rs=np.random.RandomState(0)
m=elfi.ElfiModel(); elfi.Prior('norm',0,1,model=m,name='a'); elfi.Prior('uniform',-2,4,model=m,name='b'); prior=ModelPrior(m)
gp=GPyRegression(['a','b'],bounds={'a':(-1,1),'b':(-1.5,1.5)}); X=rs.rand(12,2)*2-1; gp.update(X,(X**2).sum(1,keepdims=True)+.1*rs.randn(12,1),optimize=True)
post=BolfiPosterior(gp,threshold=.4,prior=prior)
bad=0
for mode in (False,True):
    gp.is_sampling=mode
    for _ in range(30):
        x=rs.rand(2)*2.4-1.2; inside=abs(x[0])<=1 and abs(x[1])<=1.5
        lp=post.logpdf(x)
        if not inside: bad+= not (np.isneginf(lp)); continue
        gp.is_sampling=False; mu,v=gp._gp.predict(x[None,:]); gp.is_sampling=mode
        e=ss.norm.logcdf((.4-mu[0,0])/np.sqrt(v[0,0]))+prior.logpdf(x); bad+= not np.isclose(lp,e)
        g=post.gradient_logpdf(x); h=1e-5; num=np.array([(post.logpdf(x+h*np.eye(2)[i])-post.logpdf(x-h*np.eye(2)[i]))/(2*h) for i in range(2)])
        bad+= not np.allclose(np.ravel(g),np.ravel(num),rtol=1e-3,atol=1e-4)
print('C10 posterior logpdf/gradient mismatches (fast and slow path, F12 patched):',bad)
print('C10 shapes: scalar-dim point',np.shape(post.logpdf(np.array([.1,.2]))),'2-D',np.shape(post.logpdf(np.array([[.1,.2],[3,3]]))), post.logpdf(np.array([[.1,.2],[3,3]])))
# evidence order preserved
X0=gp.X.copy(); gp.is_sampling=False; gp.update(np.array([[.5,.5]]),np.array([[.7]])); print('C10 update keeps earlier evidence in order:',np.array_equal(gp.X[:-1],X0),gp.X.shape)
# ---- C11 / F8 : RandMaxVar with prior support wider than the bounds
from elfi.methods.bo.acquisition import RandMaxVar, MaxVar, UniformAcquisition, LCBSC
for cls,kw in [(MaxVar,{}),(UniformAcquisition,{}),(LCBSC,dict(noise_var=.3)),(RandMaxVar,dict(sampler='metropolis',n_samples=60,sigma_proposals={'a':.8,'b':.8}))]:
    try:
        acq=cls(gp,prior=prior,seed=1,**kw) if cls is not UniformAcquisition else cls(gp,seed=1)
        pts=np.vstack([acq.acquire(5,t=t) for t in range(3)])
        inb=np.all((np.abs(pts[:,0])<=1)&(np.abs(pts[:,1])<=1.5)); print('C11',cls.__name__,'shape',pts.shape,'all inside bounds:',bool(inb), '' if inb else pts[(np.abs(pts[:,0])>1)|(np.abs(pts[:,1])>1.5)][:2])
    except Exception as e: print('C11',cls.__name__,'fails:',type(e).__name__,str(e)[:80])
