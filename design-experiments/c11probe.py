import numpy as np; np.Inf=np.inf
import logging, itertools; logging.disable(logging.CRITICAL)
import elfi, elfi.client
exec(open(__import__('os').path.join(__import__('os').path.dirname(__import__('os').path.abspath(__file__)),'c04probe.py')).read().split("def run(")[0].split("from elfi.examples import ma2")[1])   # SchedClient
seen=[]
def sim(t1,t2,batch_size=1,random_state=None):
    seen.append(np.column_stack([t1,t2]).copy()); return (t1-.3)**2+(t2+.2)**2+0.05*random_state.randn(batch_size)
def build():
    m=elfi.ElfiModel(); t1=elfi.Prior('uniform',-1,2,model=m,name='t1'); t2=elfi.Prior('uniform',-1,2,model=m,name='t2')
    S=elfi.Simulator(sim,t1,t2,model=m,name='S',observed=np.array([0.])); d=elfi.Distance('euclidean',S,model=m,name='d'); return m
bounds={'t1':(-.5,.5),'t2':(-.4,.1)}
res={}
for bits,mp,bs in [([1],3,1),([0],3,1),([0,1,1,0],3,1),([1,1,0],3,1),([1,0],2,2),([0],2,2),([0,0,1],2,2)]:
    seen.clear(); c=SchedClient(bits,cores=mp); elfi.client.set_client(c)
    m=build(); bo=elfi.BayesianOptimization(m['d'],bounds=bounds,initial_evidence=4,update_interval=4,acq_noise_var={'t1':.05,'t2':0.},batch_size=bs,max_parallel_batches=mp,seed=2)
    bo.infer(12,bar=False)
    P=np.vstack(seen); acq=P[4:]
    inb=np.all((acq[:,0]>=-.5)&(acq[:,0]<=.5)&(acq[:,1]>=-.4)&(acq[:,1]<=.1))
    X=bo.target_model.X; ev_ok=np.allclose(X,P[:len(X)]) and bo.target_model.n_evidence==bo.state['n_evidence']==len(X)
    res.setdefault(bs,[]).append(np.round(X,10).tobytes())
    print('bits',bits,'mp',mp,'bs',bs,'acquired in bounds:',bool(inb),'evidence==simulated points in order:',bool(ev_ok),'n',len(X),'left',len(c.tasks))
for bs,v in res.items(): print('batch_size',bs,'same evidence for every schedule:',len(set(v))==1)
