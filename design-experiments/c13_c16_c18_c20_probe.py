import numpy as np; np.Inf=np.inf; np.NINF=-np.inf
import logging, warnings; logging.disable(logging.CRITICAL); warnings.filterwarnings('ignore')
import elfi, scipy.stats as ss, math
rs=np.random.RandomState(0)
# ---------- C20 likelihood formulas
from elfi.methods.bsl.pdf_methods import gaussian_syn_likelihood as gsl, gaussian_syn_likelihood_ghurye_olkin as ugo, syn_likelihood_misspec as mis
from elfi.methods.bsl.cov_warton import cov_warton
from scipy.special import loggamma, multigammaln
bad=0
for _ in range(30):
    n=rs.randint(8,30); d=rs.randint(1,4); A=rs.randn(d,d); X=rs.randn(n,d)@A+rs.randn(d); y=rs.randn(d)
    mu=X.mean(0); S=np.atleast_2d(np.cov(X,rowvar=False))
    e=ss.multivariate_normal.logpdf(y,mu,S); bad+= not np.isclose(gsl(X,y)[0],e)
    if d>1:
        W=rs.randn(d,d); Xw=X@W.T; e=ss.multivariate_normal.logpdf(W@y,Xw.mean(0),np.atleast_2d(np.cov(Xw,rowvar=False))); bad+= not np.isclose(gsl(X,y,whitening=W)[0],e)
    g=.3; D1=np.diag(1/np.sqrt(np.diag(S+1e-5))); D2=np.diag(np.sqrt(np.diag(S+1e-5))); R=D1@S@D1; Sw=D2@(g*R+(1-g)*np.eye(d))@D2
    bad+= not np.isclose(gsl(X,y,shrinkage='warton',penalty=1-g)[0], ss.multivariate_normal.logpdf(y,mu,Sw))
    # Ghurye-Olkin unbiased estimator of N(y; mu, Sigma) (Price et al. 2018, eq. 6):  c(d,n-2)/c(d,n-1) (1-1/n)^(-d/2) |M|^{-(n-d-2)/2} psi(M - (y-mu)(y-mu)^T/(1-1/n))^{(n-d-3)/2}, M=(n-1)S
    if n>d+3:
        M=(n-1)*S; Psi=M-np.outer(y-mu,y-mu)/(1-1/n)
        lc=lambda k,v: -k*v/2*math.log(2)-k*(k-1)/4*math.log(math.pi)-sum(loggamma(0.5*(v-i)) for i in range(k))
        sgn,ldp=np.linalg.slogdet(Psi)
        if sgn>0:
            e=-d/2*math.log(2*math.pi)+lc(d,n-2)-lc(d,n-1)-d/2*math.log(1-1/n)-(n-d-2)/2*np.linalg.slogdet(M)[1]+(n-d-3)/2*ldp
            bad+= not np.isclose(ugo(X,y)[0],e)
    if d==1: continue
    gam=rs.rand(d); sd=np.sqrt(np.diag(S))
    bad+= not np.isclose(mis(X,y,gam,'mean'), ss.multivariate_normal.logpdf(y,mu+sd*gam,S)); bad+= not np.isclose(mis(X,y,gam,'variance'), ss.multivariate_normal.logpdf(y,mu,S+np.diag((sd*gam)**2)))
print('C20 likelihood formula mismatches:',bad)
# transforms inverse
from elfi.methods.inference.bsl import BSL
bad=0
for b in [np.array([[0.,1.]]),np.array([[-np.inf,2.]]),np.array([[1.,np.inf]]),np.array([[-np.inf,np.inf]]),np.array([[-3.,5.],[0,np.inf]])]:
    for _ in range(20):
        lo=np.where(np.isinf(b[:,0]),-5,b[:,0]); hi=np.where(np.isinf(b[:,1]),5,b[:,1]); x=lo+(hi-lo)*rs.rand(len(b))*.98+.01*(hi-lo)
        bad+= not np.allclose(BSL._para_logit_back_transform(BSL._para_logit_transform(x,b),b),x)
print('C20 transform round-trip failures:',bad)
# ---------- C13 GM
from elfi.methods.utils import GMDistribution as GM
bad=0
for d in (1,2,3):
    m=rs.randn(4,d) if d>1 else rs.randn(4); w=rs.rand(4); cov=np.diag(rs.rand(d)+.2) if d>1 else .7; x=rs.randn(5,d) if d>1 else rs.randn(5)
    e=sum(wi/w.sum()*ss.multivariate_normal.pdf(x,mean=mi,cov=cov) for wi,mi in zip(w,m)); bad+= not np.allclose(GM.pdf(x,m,cov,w),e); bad+= not np.allclose(GM.logpdf(x,m,cov,w),np.log(e))
    r=GM.rvs(m,cov,w,size=50,prior_logpdf=(lambda z: np.where((z[:,0] if z.ndim>1 else z)>0,0.,-np.inf)),random_state=np.random.RandomState(1)); bad+= not (len(r)==50 and np.all((r[:,0] if r.ndim>1 else r)>0))
print('C13 GM failures:',bad)
# ---------- C16 save / load
from elfi.methods.results import Sample
import json, csv, pickle, os, tempfile
os.chdir(tempfile.mkdtemp(dir='/var/tmp'))
s=Sample('m',{'a':rs.randn(6),'b':rs.randn(6),'d':np.sort(rs.rand(6))},['a','b'],discrepancy_name='d',n_sim=60,threshold=np.float64(.7),weights=None,seed=np.int64(4))
s.save('s.json'); s.save('s.csv'); s.save('s.pkl')
j=json.load(open('s.json')); rows=list(csv.reader(open('s.csv'))); p=pickle.load(open('s.pkl','rb'))
okj=all(np.array_equal(np.array(j['samples'][k]),s.samples[k]) for k in s.samples) and np.array_equal(j['discrepancies'],s.discrepancies)
okc=rows[0]==['a','b'] and np.array_equal(np.array(rows[1:],dtype=float),s.samples_array)
okp=all(np.array_equal(p.outputs[k],s.outputs[k]) for k in s.outputs) and p.n_sim==60
print('C16 round trip json/csv/pkl:',okj,okc,okp)
# ---------- C18 external operation seeds
from elfi.model import tools
op=tools.external_operation('echo {0} {seed}',process_result='float64')
vop=tools.vectorize(op)
m=elfi.ElfiModel(); c=elfi.Constant(7,model=m,name='c'); S=elfi.Simulator(vop,c,model=m,name='S'); S.uses_meta=True
o1=m.generate(3,['S'],seed=5)['S']; o2=m.generate(3,['S'],seed=5)['S']; o3=m.generate(3,['S'],seed=6)['S']
print('C18 external: first col == input',np.all(o1[:,0]==7),'seeds differ within batch',len(set(o1[:,1]))==3,'deterministic',np.array_equal(o1,o2),'depends on seed',not np.array_equal(o1,o3))
