import numpy as np, math, warnings, logging; warnings.filterwarnings('ignore'); logging.disable(logging.CRITICAL)
import scipy.stats as ss
from scipy.special import loggamma
from elfi.methods.bsl.pdf_methods import gaussian_syn_likelihood_ghurye_olkin as ugo
rs=np.random.RandomState(1); d=2; n=10; y=np.array([0.4,-0.7]); true=ss.multivariate_normal.pdf(y,np.zeros(d),np.eye(d))
lc=lambda k,v: -k*v/2*math.log(2)-k*(k-1)/4*math.log(math.pi)-sum(loggamma(0.5*(v-i)) for i in range(k))
acc_code=[];acc_mine=[]
for _ in range(40000):
    X=rs.randn(n,d); mu=X.mean(0); S=np.cov(X,rowvar=False); M=(n-1)*S; Psi=M-np.outer(y-mu,y-mu)/(1-1/n); sgn,ldp=np.linalg.slogdet(Psi)
    if sgn<=0 or np.any(np.linalg.eigvalsh(Psi)<=0): acc_code.append(0.); acc_mine.append(0.); continue      # psi(A)=|A| if A>0 else 0
    e=-d/2*math.log(2*math.pi)+lc(d,n-2)-lc(d,n-1)-d/2*math.log(1-1/n)-(n-d-2)/2*np.linalg.slogdet(M)[1]+(n-d-3)/2*ldp
    acc_mine.append(math.exp(e)); acc_code.append(math.exp(float(ugo(X,y)[0])))
print('true density',true,' mean of published-formula estimator',np.mean(acc_mine),'+-',np.std(acc_mine)/200,' mean of code estimator',np.mean(acc_code))
