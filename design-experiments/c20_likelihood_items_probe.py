import numpy as np, math, warnings, logging; warnings.filterwarnings('ignore'); logging.disable(logging.CRITICAL)
import scipy.stats as ss
from scipy.special import loggamma
from elfi.methods.bsl.pdf_methods import gaussian_syn_likelihood as gsl, gaussian_syn_likelihood_ghurye_olkin as ugo, syn_likelihood_misspec as mis
rs=np.random.RandomState(0); c={}
for _ in range(40):
    n=rs.randint(8,30); d=rs.randint(2,4); A=rs.randn(d,d); X=rs.randn(n,d)@A+rs.randn(d); y=X.mean(0)+0.3*rs.randn(d)
    mu=X.mean(0); S=np.cov(X,rowvar=False)
    def rec(k,ok): c.setdefault(k,[0,0]); c[k][0]+=1; c[k][1]+= (not ok)
    rec('std',np.isclose(gsl(X,y)[0],ss.multivariate_normal.logpdf(y,mu,S)))
    W=rs.randn(d,d); Xw=X@W.T; rec('whiten',np.isclose(gsl(X,y,whitening=W)[0],ss.multivariate_normal.logpdf(W@y,Xw.mean(0),np.cov(Xw,rowvar=False))))
    g=.3; D1=np.diag(1/np.sqrt(np.diag(S+1e-5))); D2=np.diag(np.sqrt(np.diag(S+1e-5))); R=D1@S@D1; Sw=D2@(g*R+(1-g)*np.eye(d))@D2
    rec('warton',np.isclose(gsl(X,y,shrinkage='warton',penalty=1-g)[0], ss.multivariate_normal.logpdf(y,mu,Sw)))
    M=(n-1)*S; Psi=M-np.outer(y-mu,y-mu)/(1-1/n); sgn,ldp=np.linalg.slogdet(Psi)
    lc=lambda k,v: -k*v/2*math.log(2)-k*(k-1)/4*math.log(math.pi)-sum(loggamma(0.5*(v-i)) for i in range(k))
    if sgn>0 and n>d+3:
        e=-d/2*math.log(2*math.pi)+lc(d,n-2)-lc(d,n-1)-d/2*math.log(1-1/n)-(n-d-2)/2*np.linalg.slogdet(M)[1]+(n-d-3)/2*ldp
        rec('ghurye-olkin',np.isclose(ugo(X,y)[0],e))
        if not np.isclose(ugo(X,y)[0],e) and 'ex' not in c: c['ex']=(n,d,float(ugo(X,y)[0]),float(e), float(ss.multivariate_normal.logpdf(y,mu,S)))
    gam=rs.rand(d); sd=np.sqrt(np.diag(S))
    rec('misspec-mean',np.isclose(mis(X,y,gam,'mean'), ss.multivariate_normal.logpdf(y,mu+sd*gam,S))); rec('misspec-var',np.isclose(mis(X,y,gam,'variance'), ss.multivariate_normal.logpdf(y,mu,S+np.diag((sd*gam)**2))))
print(c)
