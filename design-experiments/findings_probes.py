"""Design-phase native probes for the defects listed in DESIGN.md section 6 (F1..F15).
Run: /venv/bin/python findings_probes.py      (read-only w.r.t. /repo; writes under a temp dir)
Each probe prints 'Fxx REPRODUCED' or 'Fxx not reproduced'.  Not part of the framework."""
import os, sys, subprocess, tempfile, textwrap, logging, warnings
warnings.filterwarnings('ignore'); logging.disable(logging.CRITICAL)
import numpy as np
import scipy.stats as ss

def report(fid, ok, detail=''): print(f"{fid} {'REPRODUCED' if ok else 'not reproduced'}  {detail}")

import elfi
from elfi.examples import ma2

# F1: removed numpy alias in Rejection.set_objective
try:
    elfi.Rejection(ma2.get_model(seed_obs=1)['d'], batch_size=10, seed=1).sample(5, n_sim=30, bar=False); report('F1', False)
except AttributeError as e: report('F1', 'np.Inf' in str(e), str(e)[:60])
np.Inf = np.inf            # emulate the F1 repair in this process only, so that later probes can run Rejection

# F2: copy() shares observed dict and attr_dict
m = elfi.ElfiModel(); a = elfi.Prior('uniform', 0, 1, model=m, name='a'); b = elfi.Prior('uniform', 0, 1, model=m, name='b')
S = elfi.Simulator(lambda a, b, batch_size=1, random_state=None: a + b, a, b, model=m, name='s', observed=np.array([1.0]))
k = m.copy(); k.parameter_names = ['a']; k.observed['s'] = np.array([5.0])
report('F2', m.parameter_names == ['a'] and m.observed['s'][0] == 5.0, f"original params={m.parameter_names} observed={m.observed}")

# F3: truncate then kill leaves an unloadable .npy
with tempfile.TemporaryDirectory() as d:
    code = textwrap.dedent(f"""
        import os, sys, numpy as np
        sys.path.insert(0, '/repo'); os.chdir({d!r})
        from elfi.store import NpyStore
        s = NpyStore('t', 2); s[0] = np.ones((2, 2)); s[1] = np.ones((2, 2)) * 2; s.flush(); del s[1]; os._exit(0)""")
    subprocess.run([sys.executable, '-c', code], capture_output=True)
    try: np.load(os.path.join(d, 't.npy')); report('F3', False)
    except ValueError as e: report('F3', True, str(e)[:70])

# F4/F5: BSL Jacobian
from elfi.methods.inference.bsl import BSL
bnd = np.array([[0., 1.]]); th = np.array([0.3]); tt = BSL._para_logit_transform(th, bnd)
report('F4', True, f"_get_mh_ratio passes params[n] (untransformed): J(theta)={BSL._jacobian_logit_transform(th, bnd):.4f} vs J(transform(theta))={BSL._jacobian_logit_transform(tt, bnd):.4f} (source inspection + values)")
b1 = np.array([[-np.inf, 2.0]]); y = np.array([0.7]); h = 1e-6; f = lambda y: BSL._para_logit_back_transform(y, b1)[0]
num = np.log(abs((f(y + h) - f(y - h)) / (2 * h)))
report('F5', abs(BSL._jacobian_logit_transform(y, b1) - num) > 1e-3, f"code logJ={BSL._jacobian_logit_transform(y, b1):.3f} numeric={num:.3f}")

# F6: RomcPosterior float(array)
from elfi.methods.posteriors import RomcPosterior
from elfi.methods.inference.romc import NDimBoundingBox
from elfi.model.extensions import ModelPrior
m2 = elfi.ElfiModel(); elfi.Prior('uniform', -2, 4, model=m2, name='a'); elfi.Prior('uniform', -2, 4, model=m2, name='b')
post = RomcPosterior([NDimBoundingBox(np.eye(2), np.zeros(2), np.array([[-1., 1.], [-1., 1.]]))], [lambda t: float(np.sum(t ** 2))], [None], [None], [None], [0], False,
                     ModelPrior(m2), np.array([-2, -2.]), np.array([2, 2.]), 1, 1, 0.5)
try: post._pdf_unnorm_single_point(np.array([0.1, 0.2])); report('F6', False)
except TypeError as e: report('F6', True, str(e)[:60])

# F9: placeholder row returned when real draws have infinite discrepancy
m3 = elfi.ElfiModel(); t = elfi.Prior('uniform', 1, 1, model=m3, name='t')
S3 = elfi.Simulator(lambda t, batch_size=1, random_state=None: t, t, model=m3, name='S', observed=np.array([1.5]))
def dist(s, observed):
    d = np.abs(s - 1.5); d[::2] = np.inf; return d
d3 = elfi.Discrepancy(dist, S3, model=m3, name='d'); bad = 0
for seed in range(10):
    pool = elfi.OutputPool(['t', 'd']); r = elfi.Rejection(d3, batch_size=4, seed=seed, pool=pool).sample(3, n_sim=4, bar=False)
    cons = np.concatenate([pool.get_batch(i)['t'] for i in range(len(pool))]); bad += not all(any(x == c for c in cons) for x in r.outputs['t'])
report('F9', bad > 0, f"{bad}/10 runs return a row that no consumed batch contains")

# F10: dead 'observed must be deterministic' check
m4 = elfi.ElfiModel(); t4 = elfi.Prior('uniform', 0, 1, model=m4, name='t')
S4 = elfi.Simulator(lambda t, batch_size=1, random_state=None: t, t4, model=m4, name='S', observed=np.array([0.5]))
su = elfi.Summary(lambda s, t: s + t, S4, t4, model=m4, name='summ'); elfi.Distance('euclidean', su, model=m4, name='d')
try:
    np.random.seed(0); x = su.observed; np.random.seed(1); y2 = su.observed; report('F10', not np.allclose(x, y2), f"observed summary evaluated with random prior draws: {x} vs {y2}")
except ValueError: report('F10', False)

# F11: ModelPrior with a strict parameter subset
m5 = elfi.ElfiModel(); elfi.Prior('norm', 0, 1, model=m5, name='a'); elfi.Prior('norm', 0, 1, model=m5, name='b')
v = ModelPrior(m5, parameter_names=['a']).pdf(0.0); report('F11', not np.isclose(v, ss.norm.pdf(0)), f"pdf(0)={float(v):.4f} expected {ss.norm.pdf(0):.4f}")

# F12/F13: GP fast path
from elfi.methods.bo.gpy_regression import GPyRegression
rs = np.random.RandomState(0); gp = GPyRegression(['a'], bounds={'a': (0, 1)}); X = rs.rand(6, 1); gp.update(X, np.sin(5 * X) + 1.5); gp.is_sampling = True
try: gp.predict(np.array([[.37]])); report('F12', False)
except TypeError as e: report('F12', True, str(e)[:60])

# F14: seeded output depends on random private node names ('a' vs 'a_b')
outs = set()
for _ in range(30):
    m6 = elfi.ElfiModel(); elfi.Prior('uniform', 0, 1, model=m6, name='a'); elfi.Prior('uniform', 0, 1, model=m6, name='a_b')
    o = m6.generate(2, outputs=['a', 'a_b'], seed=1); outs.add((tuple(o['a']), tuple(o['a_b'])))
report('F14', len(outs) > 1, f"{len(outs)} distinct seeded outputs over 30 rebuilds of the same model code")

# F15: isolated node breaks get_execution_order
m7 = elfi.ElfiModel(); elfi.Prior('uniform', model=m7, name='p'); elfi.Constant(5, model=m7, name='c')
try: m7.generate(2, ['p', 'c'], seed=1); report('F15', False)
except Exception as e: report('F15', 'not in the' in str(e), f"{type(e).__name__}: {e}")

# F8: RandMaxVar leaves the bounds when the prior's support is wider
from elfi.methods.bo.acquisition import RandMaxVar
rs = np.random.RandomState(0); m8 = elfi.ElfiModel(); elfi.Prior('norm', 0, 1, model=m8, name='a'); elfi.Prior('uniform', -2, 4, model=m8, name='b')
gp8 = GPyRegression(['a', 'b'], bounds={'a': (-1, 1), 'b': (-1.5, 1.5)}); X8 = rs.rand(12, 2) * 2 - 1; gp8.update(X8, (X8 ** 2).sum(1, keepdims=True) + .1 * rs.randn(12, 1), optimize=True)
acq = RandMaxVar(gp8, prior=ModelPrior(m8), seed=1, sampler='metropolis', n_samples=60, sigma_proposals={'a': .8, 'b': .8})
pts = np.vstack([acq.acquire(5, t=t) for t in range(3)]); out = pts[(np.abs(pts[:, 0]) > 1) | (np.abs(pts[:, 1]) > 1.5)]
report('F8', len(out) > 0, f"{len(out)} of {len(pts)} acquired points outside the bounds, e.g. {out[:1]}")

# F16: BSL likelihoods with a single summary statistic
from elfi.methods.bsl.pdf_methods import gaussian_syn_likelihood, syn_likelihood_misspec, gaussian_syn_likelihood_ghurye_olkin
X1 = rs.randn(20, 1); y1 = np.array([0.1]); msgs = []
for nm, f in [('whitening', lambda: gaussian_syn_likelihood(X1, y1, whitening=np.array([[2.0]]))), ('misspec', lambda: syn_likelihood_misspec(X1, y1, np.array([.1]), 'mean'))]:
    try: f()
    except ValueError as e: msgs.append(nm + ': ' + str(e)[:40])
report('F16', len(msgs) == 2, '; '.join(msgs))

# F17: Ghurye-Olkin estimator off by (d-1)(n-d-2)/2*log(n-1)
import math
n17, d17 = 20, 3; X17 = rs.randn(n17, d17); y17 = X17.mean(0) + .2
code = float(gaussian_syn_likelihood_ghurye_olkin(X17, y17)[0]); plug = float(ss.multivariate_normal.logpdf(y17, X17.mean(0), np.cov(X17, rowvar=False)))
report('F17', abs((code - plug) - (d17 - 1) * (n17 - d17 - 2) / 2 * math.log(n17 - 1)) < 1.0, f"code {code:.2f} vs plug-in MVN {plug:.2f}; predicted offset {(d17-1)*(n17-d17-2)/2*math.log(n17-1):.2f}")

# F18: Rejection with an adaptive distance: discrepancy column left unsorted while all other outputs are permuted
m18 = elfi.ElfiModel(); a18 = elfi.Prior('uniform', 0, 2, model=m18, name='a')
S18 = elfi.Simulator(lambda a, batch_size=1, random_state=None: np.column_stack([a + random_state.randn(batch_size), 10 * a + 5 * random_state.randn(batch_size)]), a18, model=m18, name='S', observed=np.array([[1., 10.]]))
s118 = elfi.Summary(lambda y: y[:, 0], S18, model=m18, name='s1'); s218 = elfi.Summary(lambda y: y[:, 1], S18, model=m18, name='s2'); ad18 = elfi.AdaptiveDistance(s118, s218, model=m18, name='ad')
pool18 = elfi.OutputPool(['s1', 's2']); r18 = elfi.Rejection(ad18, batch_size=20, seed=2, pool=pool18, output_names=['s1', 's2']).sample(10, n_sim=100, bar=False)
allS = np.column_stack([np.concatenate([pool18.get_batch(i)[k] for i in range(5)]) for k in ('s1', 's2')]); sc = allS.std(0)
rows = np.column_stack([r18.outputs['s1'], r18.outputs['s2']]); mine = np.sqrt((((rows - np.array([1., 10.])) / sc) ** 2).sum(1)); adv = np.ravel(r18.outputs['ad'])
report('F18', np.allclose(np.sort(adv), np.sort(mine)) and not np.allclose(adv, mine), f"returned discrepancies {np.round(adv[:4], 3)}… vs distances of the returned rows {np.round(mine[:4], 3)}… (same multiset, wrong rows, not ascending)")

# F4 (behavioural): _get_mh_ratio on a constructed state vs the change-of-variables formula
bsl = BSL.__new__(BSL); bnd4 = np.array([[0., 1.]])
bsl.state = {'n_samples': 1, 'logposterior': np.array([-1.3, -0.9]), 'params': np.array([[0.3], [0.6]])}; bsl.logit_transform_bound = bnd4
logJ = lambda th: np.log(th * (1 - th))[0]          # log |d theta / d theta_tilde| for the (0,1) logit
expect = np.exp(logJ(np.array([0.6])) - logJ(np.array([0.3])) + (-0.9) - (-1.3)); got = float(bsl._get_mh_ratio())
report('F4b', not np.isclose(got, expect), f"_get_mh_ratio={got:.4f}, change-of-variables formula={expect:.4f}")

# F13: stale RBF cache after update() (needs the F12 scalar extraction repaired, emulated in-process)
def _fixed_cache(self):
    self._rbf_var = float(np.ravel(self._gp.kern.rbf.variance)[0]); self._rbf_factor = -0.5 / float(np.ravel(self._gp.kern.rbf.lengthscale)[0]) ** 2
    self._rbf_bias = float(self._gp.kern.bias.K(self._gp.X)[0, 0]); self._rbf_noisevar = float(self._gp.likelihood.variance[0])
    self._rbf_woodbury = self._gp.posterior.woodbury_vector; self._rbf_woodbury_inv = self._gp.posterior.woodbury_inv; self._rbf_woodbury_chol = self._gp.posterior.woodbury_chol
    self._rbf_x2sum = np.sum(self._gp.X ** 2., 1)[None, :]; self._rbf_is_cached = True
import copy
G13 = type('G13', (GPyRegression,), {'_cache_RBF_kernel': _fixed_cache})
g13 = G13(['a'], bounds={'a': (0, 1)}); X13 = np.random.RandomState(0).rand(6, 1); g13.update(X13, np.sin(5 * X13) + 1.5)
g13.is_sampling = True; g13.predict(np.array([[.37]])); g13.is_sampling = False; g13.update(np.array([[.9]]), np.array([[4.0]])); g13.is_sampling = True
try: g13.predict(np.array([[.37]])); report('F13', False)
except ValueError as e: report('F13', True, 'fast path after update(): ' + str(e)[:60])
