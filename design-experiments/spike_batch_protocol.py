"""Design-phase spike 4 (NOT the framework): modular verification with callee contracts and a
nondeterministic oracle.  (1) BatchHandler.wait_next / submit / cancel_pending / has_ready of the REAL
elfi/client.py are checked against an abstract view (pending = contiguous index range [lo, nxt));
(2) the REAL ParameterInference.iterate / _allow_submit / _has_batches_to_submit are checked using ONLY
those contracts, with client.is_ready as an unconstrained oracle (= every schedule)."""
import ast, sys, time, itertools
from z3 import *
REPO = sys.argv[1] if len(sys.argv) > 1 else '/repo'
cnt = itertools.count()
def fresh(n, sort=IntSort()): return Const(f'{n}!{next(cnt)}', sort)
def cls_of(path, cname):
    tree = ast.parse(open(path).read()); return next(n for n in tree.body if isinstance(n, ast.ClassDef) and n.name == cname)
def method(c, name): return next(n for n in c.body if isinstance(n, ast.FunctionDef) and n.name == name)
BH = cls_of(f'{REPO}/elfi/client.py', 'BatchHandler'); PI = cls_of(f'{REPO}/elfi/methods/inference/parameter_inference.py', 'ParameterInference')
OBL = []
def oblige(name, pc, goal): OBL.append((name, list(pc), goal))
class Ret(Exception):
    def __init__(s, v): s.v = v
# ---------------------------------------------------------------- abstract state
# BatchHandler view: lo, nxt (pending keys are exactly lo..nxt-1 in order), tid(i) task id of batch i, nsub (context.num_submissions)
# log: ghost event counters  removed(i), got(i)
class St(dict):
    def copy(s): return St(s)
tid = Function('tid', IntSort(), IntSort()); R = Function('R', IntSort(), IntSort())      # R(i): result of batch i (pure)

# ================================================================ part 1: BatchHandler methods against the view
def ev_bh(e, st, pc):
    """expression evaluation for BatchHandler bodies over the abstract view"""
    u = ast.unparse(e)
    if isinstance(e, ast.Constant): return BoolVal(e.value) if isinstance(e.value, bool) else (IntVal(e.value) if isinstance(e.value, int) else e.value)
    if u == 'len(self._pending_batches)': return st['nxt'] - st['lo']                      # libspec+view: size of the range
    if u == 'self._next_batch_index': return st['nxt']
    if isinstance(e, ast.Name): return st[e.id]
    if isinstance(e, ast.Compare):
        a, b = ev_bh(e.left, st, pc), ev_bh(e.comparators[0], st, pc)
        return {ast.Eq: a == b, ast.NotEq: a != b}[type(e.ops[0])]
    if isinstance(e, ast.BinOp): a, b = ev_bh(e.left, st, pc), ev_bh(e.right, st, pc); return a - b if isinstance(e.op, ast.Sub) else a + b
    if isinstance(e, ast.UnaryOp) and isinstance(e.op, ast.Not): return Not(ev_bh(e.operand, st, pc))
    if u == 'self.client.is_ready(id)': return fresh('oracle', BoolSort())                 # ORACLE: unconstrained answer per call
    if u == 'self.client.get_result(task_id)':
        oblige('BatchHandler/call-pre[get_result on a live task, once]', pc, st['task_id'] == tid(st['batch_index'])); return R(st['batch_index'])
    raise NotImplementedError(u)
def run_bh(stmts, st, pc):
    out = [(st, pc)]
    for s in stmts:
        nxt = []
        for st, pc in out: nxt += stmt_bh(s, st, pc)
        out = nxt
    return out
RETS = []
def stmt_bh(s, st, pc):
    u = ast.unparse(s)
    if isinstance(s, ast.Expr) and isinstance(s.value, ast.Constant): return [(st, pc)]
    if isinstance(s, ast.Expr) and u.startswith('logger.'): return [(st, pc)]               # dropped: logging
    if isinstance(s, ast.If):
        c = ev_bh(s.test, st, pc); return run_bh(s.body, st.copy(), pc + [c]) + run_bh(s.orelse, st.copy(), pc + [Not(c)])
    if isinstance(s, ast.Raise): RETS.append(('raise', s.exc.func.id, st, pc)); return []
    if isinstance(s, ast.Return): RETS.append(('return', s.value, st, pc)); return []
    if u == 'batch_index, task_id = self._pending_batches.popitem(last=False)':           # libspec: pops the FIRST key of the ordered map = lo
        oblige('BatchHandler/call-pre[popitem on non-empty map]', pc, st['lo'] < st['nxt'])
        st = st.copy(); st['batch_index'] = st['lo']; st['task_id'] = tid(st['lo']); st['lo'] = st['lo'] + 1; return [(st, pc)]
    if u == 'batch = self.client.get_result(task_id)': st = st.copy(); st['batch'] = ev_bh(s.value, st, pc); return [(st, pc)]
    if u == 'self.context.callback(batch, batch_index)': st = st.copy(); st['cb'] = st['cb'] + [(st['batch'], st['batch_index'])]; return [(st, pc)]
    if isinstance(s, ast.Assign) and isinstance(s.targets[0], ast.Name) and u in ('batch = batch or {}',): return [(st, pc)]
    if u == 'batch_index = self._next_batch_index': st = st.copy(); st['batch_index'] = st['nxt']; return [(st, pc)]
    if u.startswith('loaded_net = self.client.load_data('): return [(st, pc)]
    if isinstance(s, ast.For) and u.startswith('for k, v in batch.items()'): return [(st, pc)]            # overrides: net content, abstracted in R
    if u == 'task_id = self.client.submit(loaded_net)': st = st.copy(); st['task_id'] = fresh('newid'); return [(st, pc)]
    if u == 'self._pending_batches[batch_index] = task_id':                                # libspec: new key is appended at the END -> view stays a range iff key == nxt
        oblige('BatchHandler/view[append keeps the key range contiguous]', pc, st['batch_index'] == st['nxt']); st = st.copy(); st['newtid'] = st['task_id']; st['appended'] = True; return [(st, pc)]
    if u == 'self._next_batch_index += 1': st = st.copy(); st['nxt'] = st['nxt'] + 1; return [(st, pc)]
    if u == 'self.context.num_submissions += 1': st = st.copy(); st['nsub'] = st['nsub'] + 1; return [(st, pc)]
    raise NotImplementedError(u)

lo, nxt, nsub = Ints('lo nxt nsub'); HOK = [0 <= lo, lo <= nxt]
def S0(): return St(lo=lo, nxt=nxt, nsub=nsub, cb=[], appended=False)
# wait_next
RETS.clear(); run_bh(method(BH, 'wait_next').body, S0(), list(HOK))
for kind, v, st, pc in RETS:
    if kind == 'raise': oblige('BatchHandler.wait_next/raises[ValueError iff nothing pending]', pc, lo == nxt)
    else:
        oblige('BatchHandler.wait_next/post[pops the OLDEST index, returns (R(lo), lo), view stays a range]', pc,
               And(st['lo'] == lo + 1, st['nxt'] == nxt, st['batch'] == R(lo), st['batch_index'] == lo, lo < nxt))
        oblige('BatchHandler.wait_next/post[callback exactly once with (R(lo), lo)]', pc, And(len(st['cb']) == 1, st['cb'][0][0] == R(lo), st['cb'][0][1] == lo))
# submit
RETS.clear(); outs = run_bh(method(BH, 'submit').body, St(S0(), batch=None), list(HOK))
for st, pc in outs:
    oblige('BatchHandler.submit/post[appends index nxt, nxt+1, one submission counted]', pc, And(st['nxt'] == nxt + 1, st['lo'] == lo, st['nsub'] == nsub + 1, st['appended']))
# has_ready(any=False): result is False when nothing is pending, otherwise the oracle's answer about the OLDEST task only
f = method(BH, 'has_ready'); RETS.clear()
st = St(S0(), any=BoolVal(False)); pc = list(HOK)
c0 = ev_bh(f.body[1].test, st, pc); oblige('BatchHandler.has_ready/post[False when nothing pending]', pc + [c0], lo == nxt)
loop = f.body[2]; assert isinstance(loop, ast.For) and ast.unparse(loop.iter) == 'self._pending_batches.items()'
# first (and only, because of `break`) iteration is on the first key = lo
st1 = St(st, bi=lo, id=tid(lo)); ans = ev_bh(loop.body[0].test, st1, pc)
brk = isinstance(loop.body[1], ast.If) and ast.unparse(loop.body[1].test) == 'not any' and isinstance(loop.body[1].body[0], ast.Break)
oblige('BatchHandler.has_ready/post[asks the oracle about the oldest task only]', pc + [Not(c0)], BoolVal(brk))
# cancel_pending: loop over reversed items; invariant: remaining range [lo, j), nxt == j, removed exactly the ids j..nxt0-1
f = method(BH, 'cancel_pending'); loop = f.body[1]; assert ast.unparse(loop.iter) == 'reversed(list(self._pending_batches.items()))'
j = Int('j'); stc = St(lo=lo, nxt=j, nsub=nsub); pcj = HOK + [lo < j, j <= nxt]                # loop head: keys lo..j-1 remain, next index == j
stc['batch_index'] = j - 1; stc['id'] = tid(j - 1)                                        # reversed order: the LAST remaining key
cond = ev_bh(loop.body[0].test, stc, pcj); oblige('BatchHandler.cancel_pending/unreachable[ValueError branch under handler_ok]', pcj, Not(cond))
body = [ast.unparse(s) for s in loop.body[1:]]
oblige('BatchHandler.cancel_pending/inv-step[removes the task of index j-1 once, pops that key, rewinds next index to j-1]', pcj,
       BoolVal(body == ["logger.debug('Cancelling batch {}'.format(batch_index))", 'self.client.remove_task(id)', 'self._pending_batches.pop(batch_index)', 'self._next_batch_index = batch_index']))

# ================================================================ part 2: iterate, using ONLY the contracts above
M, N, nb = Ints('max_parallel_batches objective_n_batches n_batches')
def prop(cname, name): return method(cname, name).body[-1].value                              # single-return getter, inlined from the real source
def ev_pi(e, st, pc):
    u = ast.unparse(e)
    if u == 'self.max_parallel_batches': return M
    if u == 'self.batches.num_pending': return st['nxt'] - st['lo']                         # inline: len(self.pending_indices) over the view
    if u == 'self.batches.next_index': return st['nxt']
    if u == 'self._objective_n_batches': return N                                         # contract: objective defines n_batches
    if u == "self.state['n_batches']": return st['nb']
    if u == 'self._has_batches_to_submit': return ev_pi(prop(PI, '_has_batches_to_submit'), st, pc)
    if u == 'self.batches.has_ready()':                                                   # CONTRACT of has_ready: False if nothing pending, else oracle
        return And(st['lo'] < st['nxt'], fresh('oracle', BoolSort()))
    if isinstance(e, ast.BoolOp) and isinstance(e.op, ast.And): return And([ev_pi(v, st, pc) for v in e.values])
    if isinstance(e, ast.UnaryOp) and isinstance(e.op, ast.Not): return Not(ev_pi(e.operand, st, pc))
    if isinstance(e, ast.Compare):
        a, b = ev_pi(e.left, st, pc), ev_pi(e.comparators[0], st, pc)
        return {ast.Gt: a > b, ast.GtE: a >= b, ast.Lt: a < b, ast.LtE: a <= b}[type(e.ops[0])]      # (first version returned a > b for every operator and let a `>=` mutant through)
    if isinstance(e, ast.BinOp): return ev_pi(e.left, st, pc) + ev_pi(e.right, st, pc)
    if u.startswith('self._allow_submit('): return ev_pi(prop(PI, '_allow_submit'), st, pc)
    raise NotImplementedError(u)
it = method(PI, 'iterate'); wl = next(s for s in it.body if isinstance(s, ast.While))
lo0, nxt0 = Ints('lo0 nxt0'); PRE = [0 <= lo0, lo0 <= nxt0, nxt0 - lo0 <= M, M >= 1, nb == lo0, N > nb]       # handler_ok, bound, consumed == lo, not finished
INV = lambda st: And(st['lo'] == lo0, st['nxt'] >= nxt0, st['nxt'] - st['lo'] <= M, st['nb'] == nb)
oblige('ParameterInference.iterate/inv-init[submit loop]', PRE, INV(St(lo=lo0, nxt=nxt0, nb=nb)))
h = St(lo=lo0, nxt=fresh('nxt'), nb=nb); g = ev_pi(wl.test, h, PRE)
body = [ast.unparse(s) for s in wl.body if not ast.unparse(s).startswith('logger.')]
assert body == ['next_batch = self.prepare_new_batch(self.batches.next_index)', 'self.batches.submit(next_batch)'], body
h2 = St(h); h2['nxt'] = h['nxt'] + 1                                                      # CONTRACT of submit (prepare_new_batch: frame = no handler field)
oblige('ParameterInference.iterate/inv-step[submit loop: never more than max_parallel outstanding, for every oracle answer]', PRE + [INV(h), g], INV(h2))
after = PRE + [INV(h), Not(g)]
oblige('ParameterInference.iterate/call-pre[wait_next: something is pending]', after, h['lo'] < h['nxt'])
rest = [ast.unparse(s) for s in it.body[it.body.index(wl) + 1:] if not ast.unparse(s).startswith('logger.')]
assert rest == ['batch, batch_index = self.batches.wait_next()', 'self.update(batch, batch_index)'], rest
oblige('ParameterInference.iterate/post[exactly one update, with index == number of batches consumed so far and batch == R(index)]', after + [h['lo'] < h['nxt']],
       And(h['lo'] == nb, R(h['lo']) == R(nb), h['nxt'] - (h['lo'] + 1) <= M))

bad = 0; t0 = time.time()
for name, pc, goal in OBL:
    s = Solver(); s.set('timeout', 10000); s.add(*pc); s.add(Not(goal)); r = s.check(); bad += r != unsat
    print(f"  {'discharged' if r == unsat else ('REFUTED' if r == sat else 'undecided'):10s} {name}")
print('ALL DISCHARGED' if not bad else f'{bad} NOT DISCHARGED', f'{len(OBL)} obligations, {time.time()-t0:.2f}s'); sys.exit(1 if bad else 0)
