"""Design-phase spike 3 (NOT the framework): CAS back end.  Expressions are extracted from the REAL
source by executing the statements of the function body over sympy terms; obligations are identities
(simplify(residual) == 0), refuted by a numeric witness when the residual is non-zero.
Targets: BSL logit transform / back-transform / Jacobian (C20) and BolfiPosterior gradient (C10)."""
import ast, sys, sympy as sp, random
REPO = sys.argv[1] if len(sys.argv) > 1 else '/repo'
def locate(path, cls, name):
    tree = ast.parse(open(path).read()); c = next(n for n in tree.body if isinstance(n, ast.ClassDef) and n.name == cls)
    return next(n for n in c.body if isinstance(n, ast.FunctionDef) and n.name == name)
Phi = sp.Function('Phi'); phi = sp.Function('phi')      # standard normal cdf / pdf as symbols with the one law we need: Phi' = phi
class PhiF(sp.Function):
    @classmethod
    def eval(cls, z): return None
    def fdiff(self, argindex=1): return phiF(self.args[0])
class phiF(sp.Function): pass
LIB = {'np.log': sp.log, 'np.exp': sp.exp, 'np.sqrt': sp.sqrt,
       'ss.norm.pdf': lambda z: phiF(z), 'ss.norm.cdf': lambda z: PhiF(z),
       'ss.norm.logcdf': lambda x, loc, scale: sp.log(PhiF((x - loc) / scale))}
class Sym:
    def __init__(self, env): self.env = dict(env)
    def ev(self, e):
        if isinstance(e, ast.Constant): return sp.nsimplify(e.value) if isinstance(e.value, (int, float)) else e.value
        if isinstance(e, ast.Name):
            if e.id in self.env and self.env[e.id] is not None: return self.env[e.id]
            raise NotImplementedError(e.id)
        if isinstance(e, ast.BinOp):
            a, b = self.ev(e.left), self.ev(e.right)
            return {ast.Add: a + b, ast.Sub: a - b, ast.Mult: a * b, ast.Div: a / b}[type(e.op)] if type(e.op) in (ast.Add, ast.Sub, ast.Mult, ast.Div) else a ** b
        if isinstance(e, ast.UnaryOp): return -self.ev(e.operand)
        if isinstance(e, ast.Compare): return self.ev(e.left) == self.ev(e.comparators[0])
        if isinstance(e, ast.Attribute):
            if ast.unparse(e) in self.env: return self.env[ast.unparse(e)]
            raise NotImplementedError(ast.unparse(e))
        if isinstance(e, ast.Subscript):
            k = ast.unparse(e)
            if k in self.env: return self.env[k]
            base = self.ev(e.value); return base                     # x[logi, :] etc: elementwise view -> same symbol (libspec: row selection)
        if isinstance(e, ast.Call):
            f = ast.unparse(e.func)
            if f in LIB: return LIB[f](*[self.ev(a) for a in e.args])
            if f.endswith('.squeeze') or f.endswith('.flatten'): return self.ev(e.func.value)
            if f in self.env: return self.env[f](*[self.ev(a) for a in e.args])
        raise NotImplementedError(ast.unparse(e))
    def run(self, stmts):
        for s in stmts:
            if isinstance(s, ast.Assign):
                t = s.targets[0]
                key = t.id if isinstance(t, ast.Name) else ast.unparse(t)
                try: self.env[key] = self.ev(s.value)
                except NotImplementedError: self.env[key] = None     # not an arithmetic statement for this extraction (recorded as skipped)
            elif isinstance(s, ast.If):
                try: c = self.ev(s.test)
                except NotImplementedError: continue              # shape / emptiness branch: not part of the arithmetic core (handled by the SMT tier)
                if c is True: self.run(s.body)
                elif c is False: self.run(s.orelse)
                else: continue
            elif isinstance(s, ast.For): self.run(s.body)            # one generic iteration: body is elementwise in i
            elif isinstance(s, (ast.Expr, ast.Return)): pass
        return self.env
def check(name, residual, syms, assumptions_ok=lambda v: True):
    r = sp.simplify(residual)
    if r == 0: print(f'  discharged  {name}'); return True
    for _ in range(200):                                            # numeric witness under the preconditions
        v = {s: random.uniform(-2, 2) for s in syms}
        if not assumptions_ok(v): continue
        try: val = complex(r.subs(v).evalf())
        except Exception: continue
        if abs(val) > 1e-6: print(f'  REFUTED     {name}   residual={sp.simplify(r)}   witness={ {str(k): round(x, 3) for k, x in v.items()} } value={val.real:.4f}'); return False
    print(f'  undecided   {name}   residual={r}'); return False

F = f'{REPO}/elfi/methods/inference/bsl.py'
x, y, a, b = sp.symbols('x y a b', real=True)
fwd, back, jac = locate(F, 'BSL', '_para_logit_transform'), locate(F, 'BSL', '_para_logit_back_transform'), locate(F, 'BSL', '_jacobian_logit_transform')
print('C20 logit transform helpers (expressions extracted per bound type from the real loop bodies)'); ok = True
for t, name, dom in [('0', 'two-sided', lambda v: v[a] + .1 < v[x] < v[b] - .1 and v[a] < v[b]), ('1', 'upper bound only', lambda v: v[x] < v[b] - .1), ('2', 'lower bound only', lambda v: v[x] > v[a] + .1), ('3', 'unbounded', lambda v: True)]:
    common = {'bound[i, 0]': a, 'bound[i, 1]': b, 'type_str[i]': t, 'p': 1}
    e1 = Sym({**common, 'theta[i]': x, 'theta_tilde[i]': None}).run([s for s in fwd.body if isinstance(s, ast.For)])['theta_tilde[i]']
    e2 = Sym({**common, 'theta_tilde[i]': y}).run([s for s in back.body if isinstance(s, ast.For)])['theta[i]']
    e3 = Sym({**common, 'theta_tilde[i]': y}).run([s for s in jac.body if isinstance(s, ast.For)])['logJ[i]']
    ok &= check(f'back(fwd(x)) == x            [{name}]', e2.subs(y, e1) - x, [x, a, b], dom)
    w = sp.Symbol('w', positive=True)                               # precondition a < b encoded as b = a + w, w > 0
    ok &= check(f'logJ(y) == log|d back/dy|     [{name}]', (e3 - sp.log(sp.Abs(sp.diff(e2, y)))).subs(b, a + w), [y, a, w], lambda v: v[w] > 0.05)
# C10: gradient of the unnormalised log-likelihood
print('C10 BolfiPosterior._gradient_unnormalized_loglikelihood vs derivative of _unnormalized_loglikelihood')
G = f'{REPO}/elfi/methods/posteriors.py'; t = sp.Symbol('t', real=True); h = sp.Symbol('h', real=True)
mu = sp.Function('mu')(t); v = sp.Function('v', positive=True)(t)
env = {'self.threshold': h, 'mean': mu, 'var': v, 'grad_mean': sp.diff(mu, t), 'grad_var': sp.diff(v, t)}
g = locate(G, 'BolfiPosterior', '_gradient_unnormalized_loglikelihood'); l = locate(G, 'BolfiPosterior', '_unnormalized_loglikelihood')
eg = Sym(env).run(g.body)['grad[logi, :]']; el = Sym(env).run(l.body)['logpdf[logi]']
res = sp.simplify(eg - sp.diff(el, t)); print('  discharged  grad == d/dt log Phi((h-mu)/sqrt(v))' if res == 0 else f'  NOT discharged, residual {res}'); ok &= res == 0
sys.exit(0 if ok else 1)
