"""Design-phase spike 5 (NOT the framework): crash obligations (crash-Hoare-logic reading of C06) on the REAL
NpyArray.append / truncate / flush / _write_header_data of elfi/store.py.  Ghost disk = (hdr_rows, data_rows);
after EVERY file operation the obligation `hdr_rows <= data_rows` (numpy.load can read the file) and
`disk content is a logical state seen since the last flush` must hold.  Statements are recognised by text here."""
import ast, sys
from z3 import *
REPO = sys.argv[1] if len(sys.argv) > 1 else '/repo'
tree = ast.parse(open(f'{REPO}/elfi/store.py').read()); C = next(n for n in tree.body if isinstance(n, ast.ClassDef) and n.name == 'NpyArray')
def body(name): return next(n for n in C.body if isinstance(n, ast.FunctionDef) and n.name == name).body
OBL = []
def oblige(n, pc, g): OBL.append((n, list(pc), g))
H, Rb = Ints('header_length row_bytes')
def crash_ok(st): return st['hdr_rows'] <= st['data_rows']
def in_history(st):   # the rows visible on disk (header count) equal some logical length recorded since the last flush
    return Or([st['hdr_rows'] == h for h in st['hist']])
def fileop(st, pc, where):
    oblige(f'C06/NpyArray.{where}/crash[file loads: header rows <= data rows]', pc, crash_ok(st))
    oblige(f'C06/NpyArray.{where}/crash[visible content is a logical state since the last flush]', pc, in_history(st))
def run(fname, st, pc, depth=0):
    for s in body(fname):
        u = ast.unparse(s)
        if isinstance(s, ast.Expr) and isinstance(s.value, ast.Constant): continue
        if isinstance(s, ast.If):                               # guards: modelled by the precondition (open, initialised, same shape/dtype)
            t = ast.unparse(s.test)
            if t == 'not self._header_bytes_to_write':          # _write_header_data: nothing pending -> return
                if is_true(simplify(st['pending'])) is False and is_false(simplify(st['pending'])): return st
                continue
            continue
        if u == 'self.shape = (self.shape[0] + len(array),) + self.shape[1:]': st = dict(st, rows=st['rows'] + st['k'], hist=st['hist'] + [st['rows'] + st['k']]); continue
        if u == 'self.shape = (length,) + self.shape[1:]': st = dict(st, rows=st['length'], hist=st['hist'] + [st['length']]); continue
        if u == 'self._prepare_header_data()': st = dict(st, pending=BoolVal(True), pend_rows=st['rows']); continue
        if u == 'pos = self.header_length + self.size * self.itemsize': st = dict(st, pos=H + st['rows'] * Rb); continue           # libspec: prod(shape)*itemsize = rows*row_bytes
        if u == 'self.fs.seek(pos)': st = dict(st, cur=st['pos']); continue
        if u == 'self.fs.seek(self.header_length + self.size * self.itemsize)': st = dict(st, cur=H + st['rows'] * Rb); continue
        if u == "self.fs.write(array.tobytes('C'))":            # data write of k rows at the cursor
            oblige(f'C06/NpyArray.{fname}/call-pre[data write is row aligned and not inside the header]', pc, And(st['cur'] >= H, (st['cur'] - H) == st['rows_before'] * Rb))
            st = dict(st, data_rows=If(st['rows_before'] + st['k'] > st['data_rows'], st['rows_before'] + st['k'], st['data_rows'])); fileop(st, pc, f'{fname}#after fs.write(data)'); continue
        if u == 'self.fs.truncate()':
            st = dict(st, data_rows=st['rows']); fileop(st, pc, f'{fname}#after fs.truncate()'); continue
        if u == 'self._write_header_data()': st = run('_write_header_data', st, pc, depth + 1); continue
        if u == 'self.fs.seek(self.HEADER_DATA_OFFSET)': st = dict(st, cur=IntVal(12)); continue
        if u == 'h_bytes = self._header_bytes_to_write[self.HEADER_DATA_OFFSET:]': continue
        if u == 'self.fs.write(h_bytes)':                       # header rewrite in place (fixed length): the on-disk row count becomes the prepared one
            st = dict(st, hdr_rows=If(st['pending'], st['pend_rows'], st['hdr_rows'])); fileop(st, pc, f'{fname}#after fs.write(header)'); continue
        if u == 'self._header_bytes_to_write = None': st = dict(st, pending=BoolVal(False)); continue
        if u == 'self.fs.flush()': st = dict(st, hist=[st['rows']]); continue
        if u == 'self._memmap = None': continue
        raise NotImplementedError(u)
    return st
rows, hdr, data, k, length = Ints('rows hdr_rows data_rows k length'); pend = Bool('pending'); pend_rows = Int('pend_rows')
# npy_ok: data on disk covers the logical rows; a pending header describes the logical rows; without a pending header the disk header equals the logical rows;
#         the disk header never exceeds the data on disk
NPY_OK = [H >= 12, Rb >= 1, rows >= 0, hdr >= 0, data >= rows, hdr <= data, Implies(pend, pend_rows == rows), Implies(Not(pend), hdr == rows)]
def S0(): return dict(rows=rows, hdr_rows=hdr, data_rows=data, pending=pend, pend_rows=pend_rows, hist=[rows, hdr], rows_before=rows, k=k, length=length)
for fn, extra in [('append', [k >= 1]), ('truncate', [0 <= length, length <= rows]), ('flush', [])]:
    st = run(fn, S0(), NPY_OK + extra); pc = NPY_OK + extra
    oblige(f'C06/NpyArray.{fn}/post[npy_ok re-established]', pc, And(st['data_rows'] >= st['rows'], st['hdr_rows'] <= st['data_rows'],
           Implies(st['pending'], st['pend_rows'] == st['rows']), Implies(Not(st['pending']), st['hdr_rows'] == st['rows'])))
    if fn == 'flush': oblige('C06/NpyArray.flush/post[disk header == logical rows, nothing pending]', pc, And(st['hdr_rows'] == st['rows'], Not(st['pending'])))
bad = 0
for n, pc, g in OBL:
    s = Solver(); s.set('timeout', 10000); s.add(*pc); s.add(Not(g)); r = s.check(); bad += r != unsat
    line = f"  {'discharged' if r == unsat else ('REFUTED' if r == sat else 'undecided'):10s} {n}"
    if r == sat: m = s.model(); line += '   counter-model: ' + ', '.join(f'{d}={m[d]}' for d in sorted(m.decls(), key=str) if str(d) in ('rows', 'hdr_rows', 'data_rows', 'length', 'pending', 'k'))
    print(line)
print('ALL DISCHARGED' if not bad else f'{bad} NOT DISCHARGED', len(OBL), 'obligations'); sys.exit(1 if bad else 0)
