"""Design-phase spike 6 (NOT the framework): K3 code (networkx graph programs).  Symbolic execution of the REAL
Executor._run (elfi/executor.py): loop over the predecessor SET of a node (visited-set invariant => independent of
iteration order), edge/node attribute reads through a graph model, list append, dict store, sorted(key=itemgetter(0)),
list comprehension, call of the node operation.  Post: positional arguments are the parents' outputs ordered by their
integer `param`, keyword arguments are {param: output} of the named edges, nothing else is passed, fn called once."""
import ast, sys, itertools, hashlib
from z3 import *
REPO = sys.argv[1] if len(sys.argv) > 1 else '/repo'
Node = DeclareSort('Node'); Val = DeclareSort('Val'); Str = DeclareSort('Str')
cnt = itertools.count()
def FN(n, *s): return Function(f'{n}!{next(cnt)}', *s)
# ---- graph model (libspec for the networkx accessors used here)
pred = Function('pred', Node, BoolSort())            # p in G.predecessors(node)
isint = Function('param_is_int', Node, BoolSort())   # isinstance(G[p][node]['param'], int)
pint = Function('param_int', Node, IntSort()); pname = Function('param_name', Node, Str)
has_out = Function('has_output', Node, BoolSort()); out = Function('output', Node, Val)
OBL = []
def oblige(n, pc, g): OBL.append((n, list(pc), g))
# ---- values
class VNode:
    def __init__(s, t): s.t = t
class VParam:
    def __init__(s, p): s.p = p                      # the 'param' attribute of edge (p -> node)
class VVal:
    def __init__(s, t): s.t = t
class VList:                                         # list of (int key, value) pairs with ghost owner(i) = producing parent
    def __init__(s, n, key, val, owner): s.n, s.key, s.val, s.owner = n, key, val, owner
class VDict:                                         # dict Str -> Val
    def __init__(s, dom, val): s.dom, s.val = dom, val
class VTuple:
    def __init__(s, a, b): s.a, s.b = a, b
def ev(e, st, pc):
    u = ast.unparse(e)
    if isinstance(e, ast.Name): return st[e.id]
    if isinstance(e, ast.List) and not e.elts: return VList(IntVal(0), lambda i: IntVal(0), lambda i: Const('nil_val', Val), lambda i: Const('nil_node', Node))
    if isinstance(e, ast.Dict) and not e.keys: return VDict(lambda k: BoolVal(False), lambda k: Const('nil_val', Val))
    if u == "G[parent_name][node]['param']": return VParam(st['parent_name'].t)                                   # libspec: edge attribute
    if u == "G.nodes[parent_name]['output']":
        oblige("Executor._run/call-pre[parent has an 'output' (KeyError otherwise)]", pc, has_out(st['parent_name'].t)); return VVal(out(st['parent_name'].t))
    if isinstance(e, ast.Call) and u.startswith('isinstance(') and ast.unparse(e.args[1]) == 'int': return isint(ev(e.args[0], st, pc).p)
    if isinstance(e, ast.Tuple): return VTuple(*[ev(x, st, pc) for x in e.elts])
    raise NotImplementedError(u)
def run(stmts, st, pc):
    out_ = [(st, pc)]
    for s in stmts:
        nxt = []
        for st, pc in out_: nxt += stmt(s, st, pc)
        out_ = nxt
    return out_
RESULT = []
def stmt(s, st, pc):
    u = ast.unparse(s); st = dict(st)
    if isinstance(s, ast.Assign) and isinstance(s.targets[0], ast.Name) and not u.startswith('args = [a[1]') and not u.startswith('output_dict'):
        st[s.targets[0].id] = ev(s.value, st, pc); return [(st, pc)]
    if isinstance(s, ast.If):
        c = ev(s.test, st, pc); return run(s.body, st, pc + [c]) + run(s.orelse, st, pc + [Not(c)])
    if isinstance(s, ast.Expr) and u.startswith('args.append('):                                # libspec: list.append
        t = ev(s.value.args[0], st, pc); L = st['args']; assert isinstance(t.a, VParam)
        st['args'] = VList(L.n + 1, lambda i, L=L, p=t.a.p: If(i == L.n, pint(p), L.key(i)), lambda i, L=L, v=t.b.t: If(i == L.n, v, L.val(i)),
                           lambda i, L=L, p=t.a.p: If(i == L.n, p, L.owner(i))); return [(st, pc)]
    if isinstance(s, ast.Assign) and u.startswith('kwargs[param] ='):                           # libspec: dict store
        D = st['kwargs']; p = st['param'].p; v = ev(s.value, st, pc).t
        st['kwargs'] = VDict(lambda k, D=D, p=p: Or(k == pname(p), D.dom(k)), lambda k, D=D, p=p, v=v: If(k == pname(p), v, D.val(k))); return [(st, pc)]
    if isinstance(s, ast.For) and ast.unparse(s.iter) == 'G.predecessors(node)':                # loop over a SET: visited-set invariant
        vis = FN('visited', Node, BoolSort()); n = Const(f'n!{next(cnt)}', IntSort())
        key, val, owner, idx = FN('key', IntSort(), IntSort()), FN('val', IntSort(), Val), FN('owner', IntSort(), Node), FN('idx', Node, IntSort())
        kdom, kval = FN('kdom', Str, BoolSort()), FN('kval', Str, Val)
        def INV(L, D, vis, idx):
            i = Int('i'); p = Const('p', Node); k = Const('k', Str)
            return And(L.n >= 0,
                ForAll([i], Implies(And(0 <= i, i < L.n), And(vis(L.owner(i)), pred(L.owner(i)), isint(L.owner(i)), L.key(i) == pint(L.owner(i)), L.val(i) == out(L.owner(i)), idx(L.owner(i)) == i))),
                ForAll([p], Implies(And(vis(p), isint(p)), And(0 <= idx(p), idx(p) < L.n, L.owner(idx(p)) == p))),                       # every visited positional parent is in the list exactly once
                ForAll([k], D.dom(k) == Exists([p], And(vis(p), Not(isint(p)), pname(p) == k))),                                          # kwargs keys = names of visited named edges
                ForAll([p], Implies(And(vis(p), Not(isint(p))), D.val(pname(p)) == out(p))))
        L0, D0 = st['args'], st['kwargs']; p = Const('p', Node)
        oblige('Executor._run/inv-init[parents loop]', pc, INV(L0, D0, lambda q: BoolVal(False), lambda q: IntVal(0)))
        Lh = VList(n, lambda i: key(i), lambda i: val(i), lambda i: owner(i)); Dh = VDict(lambda k: kdom(k), lambda k: kval(k))
        cur = Const(f'parent!{next(cnt)}', Node); sth = dict(st, args=Lh, kwargs=Dh, parent_name=VNode(cur))
        # named edges of one node carry distinct names (graph well-formedness, part of the precondition)
        for st2, pc2 in run(s.body, sth, pc + [INV(Lh, Dh, vis, idx), ForAll([p], Implies(vis(p), pred(p))), pred(cur), Not(vis(cur))]):
            vis2 = lambda q, cur=cur: Or(vis(q), q == cur); L2 = st2['args']; idx2 = lambda q, cur=cur, L2=L2: If(And(q == cur, isint(cur)), L2.n - 1, idx(q))
            oblige('Executor._run/inv-step[parents loop, any iteration order]', pc2, INV(L2, st2['kwargs'], vis2, idx2))
        done = ForAll([p], vis(p) == pred(p)); st = dict(st, args=Lh, kwargs=Dh); st['$idx'] = idx
        return [(st, pc + [INV(Lh, Dh, vis, idx), done])]
    if u == 'args = [a[1] for a in sorted(args, key=itemgetter(0))]':                           # libspec: sorted = permutation with non-decreasing keys; comprehension maps the 2nd component
        L = st['args']; pi, pinv = FN('pi', IntSort(), IntSort()), FN('pinv', IntSort(), IntSort()); i, j = Ints('i j')
        pc = pc + [ForAll([i], Implies(And(0 <= i, i < L.n), And(0 <= pi(i), pi(i) < L.n, pinv(pi(i)) == i, 0 <= pinv(i), pinv(i) < L.n, pi(pinv(i)) == i))),
                   ForAll([i, j], Implies(And(0 <= i, i <= j, j < L.n), L.key(pi(i)) <= L.key(pi(j))))]
        st['args'] = VList(L.n, lambda i, L=L: L.key(pi(i)), lambda i, L=L: L.val(pi(i)), lambda i, L=L: L.owner(pi(i))); st['$pinv'] = pinv; return [(st, pc)]
    if u == 'args = [a[1] for a in args]':                                                      # (mutant support) no sort: identity permutation
        ident = lambda i: i; st['$pinv'] = ident; return [(st, pc)]
    if u == "output_dict = {'output': fn(*args, **kwargs)}": st['$called'] = st.get('$called', 0) + 1; st['$call'] = (st['args'], st['kwargs']); return [(st, pc)]
    if isinstance(s, ast.Return): RESULT.append((st, pc)); return []
    raise NotImplementedError(u)
tree = ast.parse(open(f'{REPO}/elfi/executor.py').read()); cls = next(n for n in tree.body if isinstance(n, ast.ClassDef) and n.name == 'Executor')
fn = next(n for n in cls.body if isinstance(n, ast.FunctionDef) and n.name == '_run')
p, q = Consts('p q', Node); k = Const('k', Str)
PRE = [ForAll([p], Implies(pred(p), has_out(p))),                                                                    # every parent already has an output (established by Executor.execute's loop invariant)
       ForAll([p, q], Implies(And(pred(p), pred(q), isint(p), isint(q), p != q), pint(p) != pint(q))),              # positional params pairwise distinct (model_ok)
       ForAll([p, q], Implies(And(pred(p), pred(q), Not(isint(p)), Not(isint(q)), p != q), pname(p) != pname(q)))]  # names distinct
run(fn.body, {}, PRE)
for st, pc in RESULT:
    L, D = st['$call']; idx = st['$idx']; pinv = st['$pinv']; pos = lambda x: pinv(idx(x)); i = Int('i')
    oblige('Executor._run/post[fn called exactly once]', pc, BoolVal(st['$called'] == 1))
    oblige('Executor._run/post[every positional parent passed exactly once, nothing else positional]', pc,
           And(ForAll([p], Implies(And(pred(p), isint(p)), And(0 <= pos(p), pos(p) < L.n, L.val(pos(p)) == out(p)))),
               ForAll([i], Implies(And(0 <= i, i < L.n), And(pred(L.owner(i)), isint(L.owner(i)), L.val(i) == out(L.owner(i)))))))
    oblige('Executor._run/post[positional order = order of the integer params]', pc,
           ForAll([p, q], Implies(And(pred(p), pred(q), isint(p), isint(q), pint(p) < pint(q)), pos(p) < pos(q))))
    oblige('Executor._run/post[kwargs = {param name: parent output} of the named edges, nothing else]', pc,
           And(ForAll([p], Implies(And(pred(p), Not(isint(p))), And(D.dom(pname(p)), D.val(pname(p)) == out(p)))),
               ForAll([k], Implies(D.dom(k), Exists([p], And(pred(p), Not(isint(p)), pname(p) == k))))))
bad = 0
for n, pc, g in OBL:
    s = Solver(); s.set('timeout', 30000); s.add(*pc); s.add(Not(g)); r = s.check(); bad += r != unsat
    print(f"  {'discharged' if r == unsat else ('REFUTED' if r == sat else 'undecided'):10s} {n}")
print('ALL DISCHARGED' if not bad else f'{bad} NOT DISCHARGED', len(OBL), 'obligations'); sys.exit(1 if bad else 0)
