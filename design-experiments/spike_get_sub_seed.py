"""Design-phase spike (NOT the framework): AST -> z3 symbolic execution of the REAL source of
elfi.utils.get_sub_seed with a sidecar contract, loop invariant keyed by loop ordinal, ghost lemma
instances, named obligations.  Usage: spike.py [/path/to/repo]"""
import ast, sys, time, hashlib
from z3 import *
REPO = sys.argv[1] if len(sys.argv) > 1 else '/repo'

# ---------------- spec functions (independent of the code) ----------------
draw = Function('draw', IntSort(), IntSort())      # stream of RandomState(seed).randint(high,...) (seed, high fixed per VC)
D = Function('D', IntSort(), IntSort())            # number of distinct values in draw[0:p]
FIN = [None]                                            # None = proof mode (unbounded); N = finitised mode for counter-models / covers
q = Int('q')
def forall_range(lo, hi, body, name):
    if FIN[0] is None:
        v = Int(name); return ForAll([v], Implies(And(lo <= v, v < hi), body(v)))
    return And([Implies(And(lo <= j, j < hi), body(IntVal(j))) for j in range(FIN[0])])
def isnew(p): return forall_range(0, p, lambda v: draw(v) != draw(p), 'q')
def allnew(lo, hi): return forall_range(lo, hi, isnew, 'k')
def axioms():
    if FIN[0] is None:
        p_ = Int('p_'); return [D(0) == 0, ForAll([p_], Implies(p_ >= 0, D(p_ + 1) == D(p_) + If(isnew(p_), 1, 0)), patterns=[D(p_ + 1)])]
    return [D(0) == 0] + [D(j + 1) == D(j) + If(isnew(IntVal(j)), 1, 0) for j in range(FIN[0])]
def lemma_G1(p, c): return Implies(And(p >= 0, c >= 0), And(D(p + c) <= D(p) + c, D(p + c) >= D(p)))
def lemma_G2(p, c): return Implies(And(p >= 0, c >= 0, D(p + c) == D(p) + c), allnew(p, p + c))

# ---------------- symbolic values ----------------
class V: pass
class VInt(V):
    def __init__(s, t): s.t = t
class VBool(V):
    def __init__(s, t): s.t = t
class VNone(V): pass
class VRS(V):                      # RandomState on the stream of `seed`, ghost position
    def __init__(s, pos): s.pos = pos
class VSet(V):                     # set == values(draw[0:p])   (prefix abstraction)
    def __init__(s, p): s.p = p
class VChunk(V):                   # ndarray draw[start:start+n]
    def __init__(s, start, n): s.start, s.n = start, n
class VOptChunk(V):                # None | chunk  (needed after loop havoc)
    def __init__(s, isnone, start, n): s.isnone, s.start, s.n = isnone, start, n
class VCache(V):                   # None | {} | {'random_state': rs, 'seen': set}
    def __init__(s, isnone, nonempty, rs_pos, seen_p): s.isnone, s.nonempty, s.rs_pos, s.seen_p = isnone, nonempty, rs_pos, seen_p

class Exit(Exception): pass
class Engine:
    def __init__(self, fn, contract):
        self.fn, self.c = fn, contract; self.obls = []; self.stepped = set()
        self.loop_ord = {id(n): i for i, n in enumerate(n for n in ast.walk(fn) if isinstance(n, (ast.While, ast.For)))}   # static source-order ordinals
    def oblige(self, kind, pc, goal, note=''):
        self.obls.append((f"{self.c['name']}/{kind}#{len(self.obls)}", list(pc), goal, note))
    # ---- expressions
    def truth(self, v, pc):
        if isinstance(v, VBool): return v.t
        if isinstance(v, VCache): return And(Not(v.isnone), v.nonempty)
        if isinstance(v, VNone): return BoolVal(False)
        raise NotImplementedError(('truth', v))
    def ev(self, e, st, pc):
        if isinstance(e, ast.Constant):
            if e.value is None: return VNone()
            if isinstance(e.value, bool): return VBool(BoolVal(e.value))
            if isinstance(e.value, int): return VInt(IntVal(e.value))
            return e.value                                   # string literal (dict key / dtype)
        if isinstance(e, ast.Name): return st[e.id]
        if isinstance(e, ast.BinOp):
            a, b = self.ev(e.left, st, pc), self.ev(e.right, st, pc)
            op = {ast.Add: lambda x, y: x + y, ast.Sub: lambda x, y: x - y}[type(e.op)]
            return VInt(op(a.t, b.t))
        if isinstance(e, ast.UnaryOp) and isinstance(e.op, ast.USub): return VInt(-self.ev(e.operand, st, pc).t)
        if isinstance(e, ast.Compare):
            a, b = self.ev(e.left, st, pc), self.ev(e.comparators[0], st, pc); o = e.ops[0]
            if isinstance(o, (ast.Is, ast.IsNot)):
                assert isinstance(b, VNone)
                isn = a.isnone if isinstance(a, (VCache, VOptChunk)) else BoolVal(isinstance(a, VNone))
                return VBool(isn if isinstance(o, ast.Is) else Not(isn))
            f = {ast.Lt: lambda x, y: x < y, ast.GtE: lambda x, y: x >= y, ast.NotEq: lambda x, y: x != y,
                 ast.Eq: lambda x, y: x == y, ast.LtE: lambda x, y: x <= y, ast.Gt: lambda x, y: x > y}[type(o)]
            return VBool(f(a.t, b.t))
        if isinstance(e, ast.BoolOp) and isinstance(e.op, ast.And):      # short circuit: later operands evaluated under earlier truth
            acc = BoolVal(True)
            for sub in e.values:
                v = self.ev(sub, st, pc + [acc]); acc = And(acc, self.truth(v, pc))
            return VBool(acc)
        if isinstance(e, ast.Subscript):
            base = self.ev(e.value, st, pc); idx = self.ev(e.slice, st, pc)
            if isinstance(base, VCache):
                self.oblige('call-pre[dict key present]', pc, And(Not(base.isnone), base.nonempty), ast.unparse(e))
                return VRS(base.rs_pos) if idx == 'random_state' else VSet(base.seen_p)
            if isinstance(base, (VOptChunk, VChunk)) and isinstance(idx, VInt):   # sub_seeds[-1]
                isn = base.isnone if isinstance(base, VOptChunk) else BoolVal(False)
                self.oblige('call-pre[subscript: not None, non-empty]', pc, And(Not(isn), base.n >= 1), ast.unparse(e))
                i = simplify(idx.t).as_long(); assert i in (0, -1)
                return VInt(draw(base.start + base.n - 1) if i == -1 else draw(base.start))
        if isinstance(e, ast.Attribute): return ('attr', ast.unparse(e))
        if isinstance(e, ast.Call): return self.call(e, st, pc)
        raise NotImplementedError(ast.dump(e))
    def call(self, e, st, pc):
        f = ast.unparse(e.func)
        if f == 'isinstance': return VBool(BoolVal(False))      # seed: Int by the contract's param types
        if f == 'len':
            a = self.ev(e.args[0], st, pc); assert isinstance(a, VSet); return VInt(D(a.p))        # libspec: |values(draw[0:p])| = D(p)
        if f == 'np.random.RandomState': return VRS(IntVal(0))   # libspec: fresh generator at stream position 0
        if f == 'set' and not e.args: return VSet(IntVal(0))
        if isinstance(e.func, ast.Attribute):
            obj = self.ev(e.func.value, st, pc); m = e.func.attr
            if isinstance(obj, VRS) and m == 'randint':          # libspec: chunk-invariant uint32 stream
                kw = {k.arg: self.ev(k.value, st, pc) for k in e.keywords}; n = kw['size']
                self.oblige('call-pre[randint size >= 0]', pc, n.t >= 0, ast.unparse(e))
                ch = VChunk(obj.pos, n.t); obj.pos = obj.pos + n.t; return ch
            if isinstance(obj, VSet) and m == 'update':
                ch = self.ev(e.args[0], st, pc)
                self.oblige('call-pre[prefix-set update aligned]', pc, ch.start == obj.p, ast.unparse(e))
                obj.p = obj.p + ch.n; return VNone()
        raise NotImplementedError(('call', f))
    # ---- statements
    def run(self, stmts, st, pc):
        """returns list of (state, pc) that fall through; Exit raised via recorded returns"""
        frontier = [(st, pc)]
        for s in stmts:
            nxt = []
            for st, pc in frontier: nxt += self.stmt(s, st, pc)
            frontier = nxt
        return frontier
    def stmt(self, s, st, pc):
        if isinstance(s, ast.Pass): return [(st, pc)]
        if isinstance(s, ast.Expr) and isinstance(s.value, ast.Constant): return [(st, pc)]       # docstring: dropped
        if isinstance(s, ast.Expr): self.ev(s.value, st, pc); return [(st, pc)]
        if isinstance(s, ast.Assign):
            v = self.ev(s.value, st, pc); t = s.targets[0]
            if isinstance(t, ast.Name): st = dict(st); st[t.id] = v
            elif isinstance(t, ast.Subscript):                   # cache['k'] = v  (heap write on the cache object)
                base = st[t.value.id]; key = self.ev(t.slice, st, pc); st = dict(st)
                nb = VCache(base.isnone, BoolVal(True), v.pos if key == 'random_state' else base.rs_pos, v.p if key == 'seen' else base.seen_p)
                st[t.value.id] = nb
            return [(st, pc)]
        if isinstance(s, ast.Raise):
            exc = s.exc.func.id; cond = self.c['raises'].get(exc)
            self.oblige(f'raises[{exc}]', pc, cond(st) if cond else BoolVal(False), 'exception only under the stated condition'); return []
        if isinstance(s, ast.Return):
            r = self.ev(s.value, st, pc)
            for nm, g in self.c['ensures']: self.oblige(f'post[{nm}]', pc, g(st, r))
            return []
        if isinstance(s, ast.If):
            c = self.truth(self.ev(s.test, st, pc), pc)
            a = self.run(s.body, self.clone(st), pc + [c]); b = self.run(s.orelse, self.clone(st), pc + [Not(c)]) if s.orelse else [(st, pc + [Not(c)])]
            return a + b
        if isinstance(s, ast.While):
            k = self.loop_ord[id(s)]; L = self.c['loops'][k]
            self.oblige(f'inv-init[loop{k}]', pc, L['inv'](st))
            h = self.havoc(s, st, L.get('types', {}))            # fresh symbols for everything the body may change (computed syntactically)
            pc2 = pc + [L['inv'](h)]
            g = self.truth(self.ev(s.test, h, pc2), pc2)
            if k not in self.stepped:                            # the step does not depend on how the loop was reached: once per loop
                self.stepped.add(k); base = self.c['pre']
                for st2, pc3 in self.run(s.body, self.clone(h), base + [L['inv'](h), g]):
                    pc4 = pc3 + [lem(st2, h) for lem in L.get('lemmas', [])]      # explicit ghost lemma instances
                    self.oblige(f'inv-step[loop{k}]', pc4, L['inv'](st2))
            return [(h, pc2 + [Not(g)])]
        raise NotImplementedError(ast.dump(s))
    def havoc(self, loop, st, types):
        self.hv = getattr(self, 'hv', 0) + 1; n = self.hv
        names = set()
        for node in ast.walk(loop):
            if isinstance(node, ast.Assign):
                names |= {t.id for t in node.targets if isinstance(t, ast.Name)}
            if isinstance(node, ast.Call) and isinstance(node.func, ast.Attribute) and isinstance(node.func.value, ast.Name):
                names.add(node.func.value.id)                  # receiver may be mutated
        h = dict(st)
        for nm in sorted(names):
            kind = types.get(nm) or (type(st[nm]).__name__ if nm in st else None)
            if kind is None: continue                          # first assigned inside the body before any use
            f = lambda suffix: Int(f'{nm}.{suffix}!{n}')
            h[nm] = {'VInt': lambda: VInt(f('v')), 'VRS': lambda: VRS(f('pos')), 'VSet': lambda: VSet(f('p')),
                     'VOptChunk': lambda: VOptChunk(Bool(f'{nm}.none!{n}'), f('start'), f('n'))}[kind]()
        return h
    def clone(self, st):
        import copy; return {k: copy.copy(v) for k, v in st.items()}

def locate(path, name):
    src = open(path).read(); tree = ast.parse(src)
    fn = next(n for n in ast.walk(tree) if isinstance(n, ast.FunctionDef) and n.name == name)
    return fn, hashlib.sha256(ast.get_source_segment(src, fn).encode()).hexdigest()[:12]

# ---------------- sidecar contract for elfi/utils.py::get_sub_seed ----------------
seed, idx, high = Ints('seed sub_seed_index high')
c_none, c_nonempty = Bools('cache_is_none cache_nonempty'); c_pos = Int('cache_pos')
cache_ok = lambda c: Or(c.isnone, Not(c.nonempty), And(c.rs_pos == c.seen_p, c.seen_p >= 0))
init = dict(seed=VInt(seed), sub_seed_index=VInt(idx), high=VInt(high), cache=VCache(c_none, c_nonempty, c_pos, c_pos))
PRE = [idx >= 0, high >= 1, c_pos >= 0]
def inv(st):
    rs, sn, ss, nu, req = st['random_state'], st['seen'], st['sub_seeds'], st['n_unique'].t, st['n_unique_required'].t
    return And(rs.pos == sn.p, sn.p >= 0, nu == D(sn.p), nu <= req, req == idx + 1,
               Implies(ss.isnone, nu < req),
               Implies(Not(ss.isnone), And(ss.n >= 1, ss.start + ss.n == rs.pos, Implies(nu == req, D(rs.pos - 1) == req - 1))))
_n = [0]
def havoc(st):
    _n[0] += 1; f = lambda s: Int(f'{s}!{_n[0]}')
    h = dict(st); p = f('pos'); h['random_state'] = VRS(p); h['seen'] = VSet(f('seenp'))
    h['sub_seeds'] = VOptChunk(Bool(f'ss_none!{_n[0]}'), f('ss_start'), f('ss_n')); h['n_unique'] = VInt(f('n_unique')); h['n_draws'] = VInt(f('n_draws'))
    return h
def as_opt(st):                      # normalise sub_seeds to the option view used by the invariant
    ss = st['sub_seeds']
    if isinstance(ss, VNone): st = dict(st); st['sub_seeds'] = VOptChunk(BoolVal(True), IntVal(0), IntVal(0))
    elif isinstance(ss, VChunk): st = dict(st); st['sub_seeds'] = VOptChunk(BoolVal(False), ss.start, ss.n)
    return st
CONTRACT = dict(
    pre=PRE,
    name='C15/elfi/utils.py::get_sub_seed',
    raises={'ValueError': lambda st: idx >= high},
    ensures=[('result is the (i+1)-th distinct stream value', lambda st, r: And(r.t == draw(st['random_state'].pos - 1), D(st['random_state'].pos) == idx + 1, D(st['random_state'].pos - 1) == idx)),
             ('cache_ok re-established', lambda st, r: cache_ok(st['cache'])),
             ('normal return only if index < high (raises iff)', lambda st, r: idx < high),
             ('MUST-FAIL vacuity probe', lambda st, r: BoolVal(False))],
    loops={0: dict(inv=lambda st: inv(as_opt(st)), types={'sub_seeds': 'VOptChunk'},
                   lemmas=[lambda st2, h: lemma_G1(h['random_state'].pos, h['n_unique_required'].t - h['n_unique'].t),
                           lambda st2, h: lemma_G2(h['random_state'].pos, h['n_unique_required'].t - h['n_unique'].t)])})

def generate(repo):
    fn, sha = locate(f'{repo}/elfi/utils.py', 'get_sub_seed')
    eng = Engine(fn, CONTRACT); eng.run(fn.body, init, PRE + [cache_ok(init['cache'])]); return fn, sha, eng
def check(pc, goal, timeout):
    s = Solver(); s.set('timeout', timeout); s.add(*axioms()); s.add(*pc); s.add(Not(goal)); t = time.time(); r = s.check(); return r, time.time() - t, s
def bounds(fml_vars, N):      # finitised mode: every Int symbol of the query ranges over 0..N-2 (positions, counts, indices alike)
    return [And(v >= 0, v <= N - 2) for v in fml_vars]
def int_consts(es):
    seen, out = set(), []
    def go(e):
        if e.get_id() in seen: return
        seen.add(e.get_id())
        if is_const(e) and e.decl().kind() == Z3_OP_UNINTERPRETED and e.sort() == IntSort(): out.append(e)
        for c in e.children(): go(c)
    for e in es: go(e)
    return out
if __name__ == '__main__':
    t0 = time.time(); fn, sha, eng = generate(REPO)
    print(f'function sha256[:12]={sha}  statements={len(fn.body)}  obligations={len(eng.obls)}')
    bad = 0; feasible_exits = 0
    for k, (name, pc, goal, note) in enumerate(eng.obls):
        if 'MUST-FAIL' in name: continue
        r, dt, _ = check(pc, goal, 5000)
        if r == unsat: print(f'  discharged {dt:5.2f}s  {name}  {note}'); continue
        # not discharged in proof mode: regenerate the same obligation in finitised mode and look for a counter-model
        FIN[0] = 8; _, _, eng2 = generate(REPO); name2, pc2, goal2, _ = eng2.obls[k]
        r2, dt2, sol = check(pc2 + bounds(int_consts(pc2 + [goal2]), 8), goal2, 20000); FIN[0] = None
        if r2 == sat:
            m = sol.model(); vals = {str(d): m[d] for d in m.decls() if d.arity() == 0}
            stream = [m.eval(draw(IntVal(j)), model_completion=True) for j in range(6)]
            print(f'  REFUTED    {dt+dt2:5.2f}s  {name}\n             counter-model: index={vals.get("sub_seed_index")} high={vals.get("high")} cache_none={vals.get("cache_is_none")} cache_nonempty={vals.get("cache_nonempty")} cache_pos={vals.get("cache_pos")} stream={stream}')
        else: print(f'  undecided  {dt+dt2:5.2f}s  {name}')
        bad += 1
    # vacuity: the precondition is satisfiable and at least one normal exit is feasible (finitised cover)
    FIN[0] = 8; _, _, eng2 = generate(REPO)
    for name, pc, goal, note in eng2.obls:
        if 'MUST-FAIL' in name:
            r, dt, _ = check(pc + bounds(int_consts(pc), 8), goal, 10000); feasible_exits += (r == sat)
    FIN[0] = None
    print(f'vacuity: feasible normal exits = {feasible_exits}'); bad += feasible_exits == 0
    print('ALL DISCHARGED' if not bad else f'{bad} NOT DISCHARGED', f'total {time.time()-t0:.2f}s'); sys.exit(1 if bad else 0)
