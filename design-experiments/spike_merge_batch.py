"""Design-phase spike 2 (NOT the framework): symbolic execution of the REAL source of
Rejection._merge_batch (elfi/methods/inference/samplers.py) with a sidecar contract:
dict-of-arrays heap object, loops over dict.items() cut by 'visited-set' invariants, numpy libspec
(mask compare, popcount, boolean-mask select, negative-slice assign, argsort, fancy index), ghost
provenance column `src`, pigeonhole lemma instance.  Usage: spike2.py [/path/to/repo]"""
import ast, sys, time, hashlib, itertools
from z3 import *
REPO = sys.argv[1] if len(sys.argv) > 1 else '/repo'
Key = DeclareSort('Key')
fresh = itertools.count()
def F(name, *sorts): return Function(f'{name}!{next(fresh)}', *sorts)
def C(name, sort): return Const(f'{name}!{next(fresh)}', sort)
def forall(vars_, body): return ForAll(vars_, body)

# ------------- symbolic values (closures over z3 terms; objects are immutable values, the heap maps names to the current value)
class VInt:
    def __init__(s, t): s.t = t
class VBool:
    def __init__(s, t): s.t = t
class VKey:
    def __init__(s, t): s.t = t
class VOptReal:
    def __init__(s, isnone, val): s.isnone, s.val = isnone, val
class VSliceAll: pass
class VArr:                                   # 1-D array: elt(i)->term, length term; mask arrays carry their select data
    def __init__(s, elt, n, kind='real', sel=None, k=None): s.elt, s.n, s.kind, s.sel, s.k = elt, n, kind, sel, k
class V2D1:                                   # shape (1, n) view of a 1-D array
    def __init__(s, row): s.row = row
class VPerm:                                  # result of argsort: permutation pi with inverse pinv
    def __init__(s, pi, pinv, n): s.pi, s.pinv, s.n = pi, pinv, n
class VDictArr:                               # dict: Key -> 1-D array, all of one length
    def __init__(s, dom, elt, n): s.dom, s.elt, s.n = dom, elt, n
class VRef:                                   # reference to a heap object (aliasing!)
    def __init__(s, name): s.name = name
class VArrRef:                                # reference to the array stored under `key` in heap dict `name`  (loop variable v)
    def __init__(s, name, key): s.name, s.key = name, key
class VSelf:
    def __init__(s, **f): s.f = f

class Engine:
    def __init__(self, fn, contract):
        self.fn, self.c, self.obls, self.stepped = fn, contract, [], set()
        self.loop_ord = {id(n): i for i, n in enumerate(sorted((n for n in ast.walk(fn) if isinstance(n, (ast.While, ast.For))), key=lambda n: (n.lineno, n.col_offset)))}   # SOURCE order (ast.walk is breadth-first)
        self.dropped = 0
    def oblige(self, kind, pc, goal, note=''): self.obls.append((f"{self.c['name']}/{kind}#{len(self.obls)}", list(pc), goal, note))
    def arr_of(self, v, st):                  # resolve references to a 1-D array value
        if isinstance(v, VArrRef):
            d = st['$heap'][v.name]; key = v.key; return VArr(lambda i, d=d, key=key: d.elt(key, i), d.n)
        return v
    # ---------------- expressions
    def ev(self, e, st, pc):
        if isinstance(e, ast.Constant):
            if e.value is None: return None
            if isinstance(e.value, int): return VInt(IntVal(e.value))
            return e.value
        if isinstance(e, ast.Name): return st[e.id]
        if isinstance(e, ast.Attribute):
            base = self.ev(e.value, st, pc)
            if isinstance(base, VSelf): return base.f[e.attr]
            raise NotImplementedError(ast.unparse(e))
        if isinstance(e, ast.UnaryOp) and isinstance(e.op, ast.USub): return VInt(-self.ev(e.operand, st, pc).t)
        if isinstance(e, ast.Compare):
            a, b, o = self.ev(e.left, st, pc), self.ev(e.comparators[0], st, pc), e.ops[0]
            if isinstance(o, ast.Is) and b is None: return VBool(a.isnone if isinstance(a, VOptReal) else BoolVal(a is None))
            a = self.arr_of(a, st)
            if isinstance(a, VArr) and isinstance(o, ast.LtE) and isinstance(b, VOptReal):      # libspec: array <= scalar, elementwise
                self.oblige('call-pre[compare with non-None scalar]', pc, Not(b.isnone), ast.unparse(e))
                return VArr(lambda i, a=a, b=b: a.elt(i) <= b.val, a.n, 'bool')
            if isinstance(a, VInt) and isinstance(o, ast.Gt): return VBool(a.t > b.t)
            if isinstance(a, VInt) and isinstance(o, ast.GtE): return VBool(a.t >= b.t)
            if isinstance(a, VKey) and isinstance(o, ast.Eq): return VBool(a.t == b.t)
            raise NotImplementedError(ast.unparse(e))
        if isinstance(e, ast.Subscript):
            base = self.ev(e.value, st, pc)
            if isinstance(base, dict): return base[self.ev(e.slice, st, pc)]                  # self.state['samples']
            idx = self.ev(e.slice, st, pc)
            if isinstance(base, VRef) and isinstance(idx, VKey):                               # samples[name] -> reference into the heap dict
                self.oblige('call-pre[key in dict]', pc, st['$heap'][base.name].dom(idx.t), ast.unparse(e)); return VArrRef(base.name, idx.t)
            if isinstance(base, VDictArr) and isinstance(idx, VKey):                           # batch[name]
                self.oblige('call-pre[key in dict]', pc, base.dom(idx.t), ast.unparse(e)); return VArr(lambda i, b=base, k=idx.t: b.elt(k, i), base.n)
            if isinstance(base, V2D1) and isinstance(idx, VInt): return base.row               # (1,n)[-1]
            arr = self.arr_of(base, st)
            if isinstance(arr, VArr) and isinstance(idx, VSliceAll): return arr                # a[slice(None, None)]
            if isinstance(arr, VArr) and isinstance(idx, VArr) and idx.kind == 'bool':         # libspec: boolean-mask select
                self.oblige('call-pre[mask length]', pc, idx.n == arr.n, ast.unparse(e))
                return VArr(lambda j, a=arr, m=idx: a.elt(m.sel(j)), idx.k)
            if isinstance(arr, VArr) and isinstance(idx, VPerm):                               # libspec: integer fancy index
                self.oblige('call-pre[index array in range]', pc, idx.n == arr.n, ast.unparse(e))
                return VArr(lambda i, a=arr, p=idx: a.elt(p.pi(i)), idx.n)
            raise NotImplementedError(ast.unparse(e))
        if isinstance(e, ast.Call): return self.call(e, st, pc)
        raise NotImplementedError(ast.dump(e))
    def call(self, e, st, pc):
        f = ast.unparse(e.func); args = [self.ev(a, st, pc) for a in e.args]
        if f.endswith('.get') and isinstance(args[0], str): return self.ev(e.func.value, st, pc)[args[0]]       # dict.get(const key) on a modelled record
        if f == 'slice' and args == [None, None]: st['$lib']['mask'] = VSliceAll(); return VSliceAll()
        if f == 'np.transpose': return self.arr_of(args[0], st)                               # libspec: identity on 1-D
        if f == 'np.atleast_2d': return V2D1(self.arr_of(args[0], st))                        # libspec: (n,) -> (1,n)
        if f == 'np.all':                                                                     # libspec: all over axis 0 of a (1,n) array = the row
            assert isinstance(args[0], V2D1) and e.keywords[0].arg == 'axis'; return args[0].row
        if f == 'np.sum':                                                                     # libspec: popcount of a mask, with the select bijection
            m = args[0]; k = C('k', IntSort()); sel = F('sel', IntSort(), IntSort()); rank = F('rank', IntSort(), IntSort()); i, j = Ints('i j')
            pc += [k >= 0, k <= m.n,
                   forall([j], Implies(And(0 <= j, j < k), And(0 <= sel(j), sel(j) < m.n, m.elt(sel(j)), rank(sel(j)) == j))),
                   forall([i], Implies(And(0 <= i, i < m.n, m.elt(i)), And(0 <= rank(i), rank(i) < k, sel(rank(i)) == i))),
                   forall([i, j], Implies(And(0 <= i, i < j, j < k), sel(i) < sel(j)))]
            m.sel, m.k = sel, k; st['$lib']['mask'] = m; return VInt(k)
        if f == 'np.argsort':                                                                 # libspec: a permutation that sorts (nothing about ties)
            a = self.arr_of(args[0], st); pi = F('pi', IntSort(), IntSort()); pinv = F('pinv', IntSort(), IntSort()); i, j = Ints('i j')
            pc += [forall([i], Implies(And(0 <= i, i < a.n), And(0 <= pi(i), pi(i) < a.n, pinv(pi(i)) == i, 0 <= pinv(i), pinv(i) < a.n, pi(pinv(i)) == i))),
                   forall([i, j], Implies(And(0 <= i, i <= j, j < a.n), a.elt(pi(i)) <= a.elt(pi(j))))]
            p = VPerm(pi, pinv, a.n); st['$lib']['argsort'] = p; return p
        if f.endswith('.items'): return ('items', self.ev(e.func.value, st, pc))
        raise NotImplementedError(('call', f))
    def truth(self, v):
        if isinstance(v, VBool): return v.t
        raise NotImplementedError(v)
    # ---------------- statements
    def run(self, stmts, st, pc):
        frontier = [(st, pc)]
        for s in stmts:
            nxt = []
            for st, pc in frontier:
                if self.feasible(pc): nxt += self.stmt(s, st, pc)
            frontier = nxt
        return frontier
    def feasible(self, pc):
        s = Solver(); s.set('timeout', 500); s.add(*[p for p in pc if not is_quantifier(p)]); return s.check() != unsat   # cheap pruning on the ground part
    def stmt(self, s, st, pc):
        pc = list(pc); st = dict(st); st['$lib'] = dict(st['$lib'])
        if isinstance(s, ast.Expr) and isinstance(s.value, ast.Constant): self.dropped += 1; return [(st, pc)]
        if isinstance(s, ast.Assign):
            t = s.targets[0]; v = self.ev(s.value, st, pc)
            if isinstance(t, ast.Name):
                if isinstance(v, VDictArr) and False: pass
                st = dict(st); st[t.id] = v; return [(st, pc)]
            if isinstance(t, ast.Subscript):                                                   # v[slice] = rhs  : in-place write through a reference
                ref = st[t.value.id]; assert isinstance(ref, VArrRef); d = st['$heap'][ref.name]; rhs = self.arr_of(v, st); sl = t.slice
                assert isinstance(sl, ast.Slice) and sl.step is None
                if sl.lower is None and sl.upper is not None:                                  # v[:k] = rhs
                    k = self.ev(sl.upper, st, pc).t
                    self.oblige('call-pre[head slice: 0 <= k <= len, len(rhs) == k]', pc, And(k >= 0, k <= d.n, rhs.n == k), ast.unparse(s))
                    new = lambda key, i, d=d, ref=ref, rhs=rhs, k=k: If(And(key == ref.key, i < k), rhs.elt(i), d.elt(key, i))
                elif sl.lower is None:                                                           # v[:] = rhs
                    self.oblige('call-pre[assign: same length]', pc, rhs.n == d.n, ast.unparse(s))
                    new = lambda key, i, d=d, ref=ref, rhs=rhs: If(key == ref.key, rhs.elt(i), d.elt(key, i))
                else:                                                                          # v[-k:] = rhs   (k > 0 required: v[-0:] is the whole array)
                    k = -self.ev(sl.lower, st, pc).t
                    self.oblige('call-pre[negative slice: 0 < k <= len, len(rhs) == k]', pc, And(k > 0, k <= d.n, rhs.n == k), ast.unparse(s))
                    new = lambda key, i, d=d, ref=ref, rhs=rhs, k=k: If(And(key == ref.key, i >= d.n - k), rhs.elt(i - (d.n - k)), d.elt(key, i))
                st = dict(st); st['$heap'] = dict(st['$heap']); st['$heap'][ref.name] = VDictArr(d.dom, new, d.n); return [(st, pc)]
        if isinstance(s, ast.If):
            c = self.truth(self.ev(s.test, st, pc))
            return self.run(s.body, st, pc + [c]) + (self.run(s.orelse, st, pc + [Not(c)]) if s.orelse else [(st, pc + [Not(c)])])
        if isinstance(s, ast.For):
            k = self.loop_ord[id(s)]; L = self.c['loops'][k]; it = self.ev(s.iter, st, pc); assert it[0] == 'items'; name = it[1].name
            pre = st['$heap'][name]
            visited = F('visited', Key, BoolSort()); hel = F('buf', Key, IntSort(), RealSort())
            def with_heap(st, d): st = dict(st); st['$heap'] = dict(st['$heap']); st['$heap'][name] = d; return st
            self.oblige(f'inv-init[loop{k}]', pc, L['inv'](st, pre, pre, lambda key: BoolVal(False)))
            h = VDictArr(pre.dom, lambda key, i: hel(key, i), pre.n); sth = with_heap(st, h)
            inv_h = L['inv'](st, pre, h, lambda key: visited(key))
            subset = forall([Const('kk', Key)], Implies(visited(Const('kk', Key)), pre.dom(Const('kk', Key))))
            if (k, len(pc)) not in self.stepped:
                self.stepped.add((k, len(pc)))
                node = C('node', Key); stb = dict(sth); stb[s.target.elts[0].id] = VKey(node); stb[s.target.elts[1].id] = VArrRef(name, node)
                for st2, pc2 in self.run(s.body, stb, pc + [inv_h, subset, pre.dom(node), Not(visited(node))]):
                    self.oblige(f'inv-step[loop{k}]', pc2, L['inv'](st, pre, st2['$heap'][name], lambda key: Or(visited(key), key == node)))
            done = forall([Const('kk', Key)], visited(Const('kk', Key)) == pre.dom(Const('kk', Key)))
            out = with_heap(st, h); pc_out = pc + [inv_h, done]
            for g in L.get('ghost_after', []): out = g(out)                                    # ghost statements anchored 'after loop k'
            return [(out, pc_out)]
        raise NotImplementedError(ast.dump(s))

def locate(path, cls, name):
    src = open(path).read(); tree = ast.parse(src)
    c = next(n for n in tree.body if isinstance(n, ast.ClassDef) and n.name == cls); fn = next(n for n in c.body if isinstance(n, ast.FunctionDef) and n.name == name)
    return fn, hashlib.sha256(ast.get_source_segment(src, fn).encode()).hexdigest()[:12]

# ======================= sidecar contract: Rejection._merge_batch (1-D discrepancy, not adaptive) =======================
n, b, base = Ints('n_samples batch_size base'); Lh = n + b
dkey = Const('discrepancy_name', Key); thr_none = Bool('threshold_is_none'); thr = Real('threshold')
dom = Function('dom', Key, BoolSort()); buf0 = Function('buf0', Key, IntSort(), RealSort()); bat = Function('bat', Key, IntSort(), RealSort())
src0 = Function('src0', IntSort(), IntSort())                      # ghost provenance: consumed-draw id or -1
val = Function('val', Key, IntSort(), RealSort())                  # spec: value of output `key` of consumed draw `id`
i, j = Ints('i j'); kk = Const('kk', Key)
samples0 = VDictArr(lambda key: dom(key), lambda key, i: buf0(key, i), Lh)
batchv = VDictArr(lambda key: dom(key), lambda key, i: bat(key, i), b)
selfv = VSelf(state={'samples': VRef('samples')}, adaptive=VBool(BoolVal(False)), objective={'threshold': VOptReal(thr_none, thr)},
              batch_size=VInt(b), discrepancy_name=VKey(dkey))
def src_ok(src, buf, L):        # I1 injective on non-bottom, I2 row consistency
    return And(forall([i, j], Implies(And(0 <= i, i < L, 0 <= j, j < L, i != j, src(i) >= 0), src(i) != src(j))),
               forall([kk, i], Implies(And(dom(kk), 0 <= i, i < L, src(i) >= 0), buf(kk, i) == val(kk, src(i)))))
def sorted_by(buf, L): return forall([i, j], Implies(And(0 <= i, i <= j, j < L), buf(dkey, i) <= buf(dkey, j)))
PRE = [n >= 1, b >= 1, base >= 0, dom(dkey), src_ok(src0, buf0, Lh), sorted_by(buf0, Lh),
       forall([i], Implies(And(0 <= i, i < Lh), And(src0(i) >= -1, src0(i) < base))),                       # ids of earlier draws are < base
       forall([kk, j], Implies(And(dom(kk), 0 <= j, j < b), bat(kk, j) == val(kk, base + j)))]            # the new batch holds draws base .. base+b-1
init = {'self': selfv, 'batch': batchv, '$heap': {'samples': samples0}, '$src': (lambda i: src0(i)), '$lib': {}}
def acc_data(st):              # (k, sel) of the acceptance step, whichever branch was taken
    a = st['$lib'].get('mask')
    if isinstance(a, VSliceAll): return b, (lambda j: j)
    return a.k, a.sel
def inv0(st, pre, cur, visited):   # loop 0: tail write done for visited keys, others untouched
    k, sel = acc_data(st)
    return forall([kk, i], Implies(And(dom(kk), 0 <= i, i < Lh),
                  cur.elt(kk, i) == If(And(visited(kk), i >= Lh - k), bat(kk, sel(i - (Lh - k))), pre.elt(kk, i))))
def ghost_after0(st):              # ghost: src follows the tail write
    k, sel = acc_data(st); s0 = st['$src']; st = dict(st); st['$src'] = lambda i, s0=s0, k=k, sel=sel: If(i >= Lh - k, base + sel(i - (Lh - k)), s0(i)); st['$k'] = k; return st
def inv1(st, pre, cur, visited):   # loop 1: visited keys permuted by sort_mask, others untouched
    p = st['$lib']['argsort']
    return forall([kk, i], Implies(And(dom(kk), 0 <= i, i < Lh), cur.elt(kk, i) == If(visited(kk), pre.elt(kk, p.pi(i)), pre.elt(kk, i))))
def ghost_after1(st):              # ghost: src permuted like every column
    p = st['$lib']['argsort']; s1 = st['$src']; st = dict(st); st['$src'] = lambda i, s1=s1, p=p: s1(p.pi(i)); return st
def posts(st):
    cur = st['$heap']['samples']; src = st['$src']; p = st['$lib']['argsort']
    bufN = lambda key, i: cur.elt(key, i)
    pigeon = And(forall([i], Implies(And(0 <= i, i < n), And(0 <= p.pinv(i), p.pinv(i) < n - 1))),
                 forall([i, j], Implies(And(0 <= i, i < n, 0 <= j, j < n, i != j), p.pinv(i) != p.pinv(j))))
    return [('I1+I2 provenance injective and every column row-consistent', src_ok(src, bufN, Lh), []),
            ('I4 buffer sorted by the discrepancy column', sorted_by(bufN, Lh), []),
            ('I6-step n-th smallest does not increase', bufN(dkey, n - 1) <= buf0(dkey, n - 1), [Implies(pigeon, n <= n - 1)]),       # lemma L1 instance
            ('frame: no key added or removed, lengths unchanged', And(cur.n == Lh), [])]
CONTRACT = dict(name='C01/samplers.py::Rejection._merge_batch',
                loops={0: dict(inv=inv0, ghost_after=[ghost_after0]), 1: dict(inv=inv1, ghost_after=[ghost_after1])})

if __name__ == '__main__':
    t0 = time.time(); fn, sha = locate(f'{REPO}/elfi/methods/inference/samplers.py', 'Rejection', '_merge_batch')
    eng = Engine(fn, CONTRACT); exits = eng.run(fn.body, init, list(PRE))
    for st, pc in exits:
        if '$k' not in st: st = ghost_after0(st) if False else dict(st, **{'$k': IntVal(0)})
        for nm, goal, lemmas in posts(st): eng.oblige(f'post[{nm}]', pc + lemmas, goal)
    print(f'function sha256[:12]={sha}  statements lowered; docstrings dropped={eng.dropped}; exit paths={len(exits)}; obligations={len(eng.obls)}')
    bad = 0
    for name, pc, goal, note in eng.obls:
        s = Solver(); s.set('timeout', 30000); s.add(*pc); s.add(Not(goal)); t = time.time(); r = s.check(); bad += r != unsat
        print(f"  {'discharged' if r == unsat else ('REFUTED' if r == sat else 'undecided'):10s} {time.time()-t:6.2f}s  {name}  {note}")
    print('ALL DISCHARGED' if not bad else f'{bad} NOT DISCHARGED', f'total {time.time()-t0:.2f}s'); sys.exit(1 if bad else 0)
