"""Design-phase spike 7 (NOT the framework): the 'moment normaliser' for K2 code with reductions.
The REAL AdaptiveDistance.add_data (elfi/model/elfi_model.py) is executed symbolically; an array expression is a
polynomial in the generic element x with scalar z3 coefficients; np.sum(., axis=0) turns x^p into the batch moment
M_p (M_0 = k rows, M_1 = s1, M_2 = s2).  Obligation: the store invariant [N, S1/N, S2 - S1^2/N] over ALL rows added
in the round is preserved by one call with an arbitrary batch, i.e. the scale cannot depend on the batching."""
import ast, sys
from z3 import *
REPO = sys.argv[1] if len(sys.argv) > 1 else '/repo'
tree = ast.parse(open(f'{REPO}/elfi/model/elfi_model.py').read()); cls = next(n for n in tree.body if isinstance(n, ast.ClassDef) and n.name == 'AdaptiveDistance')
fn = next(n for n in cls.body if isinstance(n, ast.FunctionDef) and n.name == 'add_data')
class Poly:                                     # array expression: sum_p coeff[p] * x^p  (one generic column, element-wise)
    def __init__(s, c): s.c = {p: v for p, v in c.items()}
    def __add__(s, o): o = lift(o); return Poly({p: s.c.get(p, 0) + o.c.get(p, 0) for p in set(s.c) | set(o.c)})
    def __sub__(s, o): o = lift(o); return Poly({p: s.c.get(p, 0) - o.c.get(p, 0) for p in set(s.c) | set(o.c)})
    def __mul__(s, o):
        o = lift(o); r = {}
        for p, a in s.c.items():
            for q, b in o.c.items(): r[p + q] = r.get(p + q, 0) + a * b
        return Poly(r)
def lift(v): return v if isinstance(v, Poly) else Poly({0: v})
k, s1, s2 = Reals('k s1 s2'); MOM = {0: k, 1: s1, 2: s2}          # moments of the new batch (k rows)
N, S1, S2 = Reals('N S1 S2')                                       # ghost: cumulative moments of all rows added before this call
st0, st1, st2 = Reals('store0 store1 store2')
env = {'data': Poly({1: RealVal(1)}), "self.state['store'][0]": st0, "self.state['store'][1]": st1, "self.state['store'][2]": st2}
def ev(e):
    u = ast.unparse(e)
    if u in env: return env[u]
    if isinstance(e, ast.Name): return env[e.id]
    if isinstance(e, ast.BinOp):
        a, b = ev(e.left), ev(e.right)
        if isinstance(e.op, ast.Sub): return (lift(a) - b) if isinstance(a, Poly) or isinstance(b, Poly) else a - b
        if isinstance(e.op, ast.Add): return (lift(a) + b) if isinstance(a, Poly) or isinstance(b, Poly) else a + b
        if isinstance(e.op, ast.Mult): return (lift(a) * b) if isinstance(a, Poly) or isinstance(b, Poly) else a * b
        if isinstance(e.op, ast.Div): assert not isinstance(b, Poly); return Poly({p: c / b for p, c in a.c.items()}) if isinstance(a, Poly) else a / b
    if isinstance(e, ast.Call):
        f = ast.unparse(e.func)
        if f == 'np.column_stack': return env['data']                                            # libspec: columns side by side; the analysis is per generic column
        if f == 'len': assert isinstance(ev(e.args[0]), Poly); return k                          # libspec: number of rows of the batch
        if f == 'np.sum':                                                                        # libspec: sum over rows; x^p -> M_p  (the normaliser)
            a = ev(e.args[0]); assert e.keywords and e.keywords[0].arg == 'axis'
            assert all(p in MOM for p in a.c), 'moment above order 2 needed'; return sum((c * MOM[p] for p, c in a.c.items()), RealVal(0))
        if f == 'np.sqrt': return ('sqrt', ev(e.args[0]))
    raise NotImplementedError(u)
lowered = dropped = 0
for s in fn.body:
    if isinstance(s, ast.Expr) and isinstance(s.value, ast.Constant): dropped += 1; continue
    lowered += 1
    if isinstance(s, ast.Assign): tgt = ast.unparse(s.targets[0]); env[tgt] = ev(s.value)
    elif isinstance(s, ast.AugAssign) and isinstance(s.op, ast.Add): tgt = ast.unparse(s.target); env[tgt] = env[tgt] + ev(s.value)
    else: raise NotImplementedError(ast.unparse(s))
n1, m1, M21 = env["self.state['store'][0]"], env["self.state['store'][1]"], env["self.state['store'][2]"]; tag, scale_arg = env["self.state['scale']"]
PRE = [k >= 1, N >= 0, st0 == N, If(N > 0, And(st1 * N == S1, st2 * N == S2 * N - S1 * S1), And(st1 == 0, st2 == 0, S1 == 0, S2 == 0))]
OBL = [('C12/AdaptiveDistance.add_data/post[store[0] = number of rows added so far]', n1 == N + k),
       ('C12/AdaptiveDistance.add_data/post[store[1] = mean of ALL rows added so far]', m1 * (N + k) == S1 + s1),
       ('C12/AdaptiveDistance.add_data/post[store[2] = sum of squared deviations of ALL rows from that mean]', M21 * (N + k) == (S2 + s2) * (N + k) - (S1 + s1) * (S1 + s1)),
       ('C12/AdaptiveDistance.add_data/post[scale^2 = population variance of ALL rows: independent of the batching]', scale_arg * (N + k) * (N + k) == (S2 + s2) * (N + k) - (S1 + s1) * (S1 + s1))]
print(f'statements lowered={lowered} dropped(docstring)={dropped}'); bad = 0
for n, g in OBL:
    s = Solver(); s.set('timeout', 20000); s.add(*PRE); s.add(Not(g)); r = s.check(); bad += r != unsat
    print(f"  {'discharged' if r == unsat else ('REFUTED' if r == sat else 'undecided'):10s} {n}")
sys.exit(1 if bad else 0)
