"""Design-phase hand-written VC prototypes backing the 'measured' numbers in DESIGN.md (not the framework).
Run with an interpreter that has z3:  <overlay-venv>/bin/python vc_prototypes.py"""
from z3 import *
import time
def prove(name, hyps, goal, expect):
    s = Solver(); s.set('timeout', 30000); s.add(*hyps); s.add(Not(goal)); t = time.time(); r = s.check()
    print(f"{name:58s} {str(r):8s} {time.time()-t:5.2f}s  {'as expected' if str(r) == expect else 'UNEXPECTED'}")

# --- C01: n-th smallest does not increase when accepted rows are written into the tail and all buffers are argsorted
def topn(mutant):
    n, b, k, L = Ints('n b k L'); i, j = Ints('i j')
    old, acc, mid, new = [Function(x, IntSort(), RealSort()) for x in ('old', 'acc', 'mid', 'new')]
    pi, pinv = Function('pi', IntSort(), IntSort()), Function('pinv', IntSort(), IntSort())
    H = [n >= 1, b >= 1, L == n + b, k >= 0, k <= b,
         ForAll([i, j], Implies(And(0 <= i, i <= j, j < L), old(i) <= old(j)))]
    if not mutant:   # v[-k:] = batch[accepted]
        H += [ForAll([i], Implies(And(0 <= i, i < L - k), mid(i) == old(i))), ForAll([i], Implies(And(L - k <= i, i < L), mid(i) == acc(i - (L - k))))]
    else:            # v[:k] = batch[accepted]
        H += [ForAll([i], Implies(And(k <= i, i < L), mid(i) == old(i))), ForAll([i], Implies(And(0 <= i, i < k), mid(i) == acc(i)))]
    H += [ForAll([i], Implies(And(0 <= i, i < L), And(0 <= pi(i), pi(i) < L, pinv(pi(i)) == i))),
          ForAll([i], Implies(And(0 <= i, i < L), And(0 <= pinv(i), pinv(i) < L, pi(pinv(i)) == i))),
          ForAll([i], Implies(And(0 <= i, i < L), new(i) == mid(pi(i)))),
          ForAll([i, j], Implies(And(0 <= i, i <= j, j < L), new(i) <= new(j)))]
    pigeon = And(ForAll([i], Implies(And(0 <= i, i < n), And(0 <= pinv(i), pinv(i) < n - 1))),
                 ForAll([i, j], Implies(And(0 <= i, i < n, 0 <= j, j < n, i != j), pinv(i) != pinv(j))))
    H += [Implies(pigeon, n <= n - 1)]          # lemma L1 instantiated with f = pinv, domain [0,n), codomain [0,n-1)
    return H, new(n - 1) <= old(n - 1)
prove('C01 merge step: new[n-1] <= old[n-1]', *topn(False), 'unsat')
prove('C01 mutant, proof mode (quantified: sat is not reliable)', *topn(True), 'unknown')
def topn_fin(mutant, n, b, k):      # finitised mode: concrete sizes, quantifiers expanded
    L = n + b; R = range(L)
    old, acc, mid, new = [Function(x, IntSort(), RealSort()) for x in ('old', 'acc', 'mid', 'new')]; pi = Function('pi', IntSort(), IntSort())
    H = [old(i) <= old(i + 1) for i in range(L - 1)] + [new(i) <= new(i + 1) for i in range(L - 1)]
    H += [(mid(i) == old(i)) if (i < L - k if not mutant else i >= k) else (mid(i) == acc(i - (L - k) if not mutant else i)) for i in R]
    H += [And(0 <= pi(i), pi(i) < L) for i in R] + [Distinct(*[pi(i) for i in R])] + [Or([And(pi(i) == j, new(i) == mid(j)) for j in R]) for i in R]
    return H, new(n - 1) <= old(n - 1)
prove('C01 mutant, finitised n=1 b=2 k=1 (counter-model)', *topn_fin(True, 1, 2, 1), 'sat')
prove('C01 original, finitised n=2 b=2 k=2', *topn_fin(False, 2, 2, 2), 'unsat')

# --- C12: batched Welford keeps  mean = S1/N,  M2 = S2 - S1^2/N   (moments of the new batch: k, s1, s2)
n, k, S1, S2, s1, s2, m, M2, m2 = Reals('n k S1 S2 s1 s2 m M2 m2')
H = [n >= 0, k >= 1, If(n > 0, And(m * n == S1, M2 * n == S2 * n - S1 * S1), And(m == 0, M2 == 0, S1 == 0, S2 == 0)), m2 * (n + k) == m * (n + k) + (s1 - k * m)]
M22 = M2 + (s2 - (m + m2) * s1 + k * m * m2)
prove('C12 Welford batch step', H, And(m2 * (n + k) == S1 + s1, M22 * (n + k) == (S2 + s2) * (n + k) - (S1 + s1) ** 2), 'unsat')
M22bad = M2 + (s2 - 2 * m * s1 + k * m * m)   # mutant: delta_1 * delta_1
prove('C12 mutant (delta_1*delta_1)', H, M22bad * (n + k) == (S2 + s2) * (n + k) - (S1 + s1) ** 2, 'sat')

# --- C13: weighted quantile.  sx sorted, sw >= 0, cum prefix sums, k with cum(k) < alpha <= cum(k+1), q = sx(k).
#     Wle / Wlt are the total weights of {x <= q} / {x < q}; lemma L2 (Lean) enters as two explicit instances.
sx, sw, cum = [Function(x, IntSort(), RealSort()) for x in ('sx', 'sw', 'cum')]
m_, k_, t_, u_ = Ints('m k t u'); alpha, Wle, Wlt = Reals('alpha Wle Wlt'); q_ = sx(k_)
H = [m_ >= 1, 0 <= k_, k_ < m_, ForAll([t_, u_], Implies(And(0 <= t_, t_ <= u_, u_ < m_), sx(t_) <= sx(u_))),
     Implies(ForAll([t_], Implies(And(0 <= t_, t_ < k_ + 1), sx(t_) <= q_)), Wle >= cum(k_ + 1)),          # L2a: prefix [0,k] inside {x <= q}
     Implies(ForAll([t_], Implies(And(0 <= t_, t_ < m_, sx(t_) < q_), t_ < k_)), Wlt <= cum(k_))]          # L2b: {x < q} inside prefix [0,k)
prove('C13 quantile: W(x<=q) >= alpha and W(x<q) <= alpha', H + [cum(k_) < alpha, alpha <= cum(k_ + 1)], And(Wle >= alpha, Wlt <= alpha), 'unsat')
prove('C13 quantile, edit `cum[:-1] <= alpha` (equivalent: still holds)', H + [cum(k_) <= alpha, alpha <= cum(k_ + 1)], And(Wle >= alpha, Wlt <= alpha), 'unsat')
c0, c1, c2 = Reals('c0 c1 c2')        # finitised m = 2: the index search `[0][0]` needs some k with cum(k) < alpha OP cum(k+1)
prove('C13 quantile, original `<=`: an index always exists (L3, m=2)', [c0 == 0, c0 <= c1, c1 <= c2, c2 == 1, 0 < alpha, alpha <= 1], Or(And(c0 < alpha, alpha <= c1), And(c1 < alpha, alpha <= c2)), 'unsat')
prove('C13 quantile, mutant `alpha < cum[1:]`: no index for alpha on a boundary', [c0 == 0, c0 <= c1, c1 <= c2, c2 == 1, 0 < alpha, alpha <= 1], Or(And(c0 < alpha, alpha < c1), And(c1 < alpha, alpha < c2)), 'sat')
