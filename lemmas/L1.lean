import Mathlib

/-- L1 (pigeonhole on initial segments): an injection of `[0,n)` into `[0,m)` forces `n ≤ m`. -/
theorem pigeonhole_range (n m : ℕ) (f : ℕ → ℕ) (hmap : ∀ i, i < n → f i < m)
    (hinj : ∀ i j, i < n → j < n → f i = f j → i = j) : n ≤ m := by
  have h := Finset.card_le_card_of_injOn (s := Finset.range n) (t := Finset.range m) f
    (by intro i hi; simp at hi ⊢; exact hmap i hi)
    (by intro i hi j hj hij; simp at hi hj; exact hinj i j hi hj hij)
  simpa using h

/-- L3 (discrete intermediate value): `c 0 < α ≤ c m` gives a first index `k < m` with `c k < α ≤ c (k+1)`. -/
theorem discrete_ivt (c : ℕ → ℝ) (α : ℝ) (m : ℕ) (h0 : c 0 < α) (hm : α ≤ c m) :
    ∃ k, k < m ∧ c k < α ∧ α ≤ c (k + 1) ∧ ∀ j, j ≤ k → c j < α := by
  classical
  have hex : ∃ j, α ≤ c j := ⟨m, hm⟩
  let j0 := Nat.find hex
  have hj0 : α ≤ c j0 := Nat.find_spec hex
  have hpos : j0 ≠ 0 := by
    intro h; rw [h] at hj0; exact absurd hj0 (not_le.mpr h0)
  obtain ⟨k, hk⟩ := Nat.exists_eq_succ_of_ne_zero hpos
  refine ⟨k, ?_, ?_, ?_, ?_⟩
  · have : j0 ≤ m := Nat.find_min' hex hm
    omega
  · have := Nat.find_min hex (m := k) (by omega)
    exact not_le.mp this
  · rw [← Nat.succ_eq_add_one, ← hk]; exact hj0
  · intro j hj
    have := Nat.find_min hex (m := j) (by omega)
    exact not_le.mp this
