import Mathlib
open Finset

/-- L2a: with non-negative weights, a sum over any finite index set that contains the prefix `[0,a)` is at least the prefix sum. -/
theorem prefix_le_sum (w : ℕ → ℝ) (hw : ∀ i, 0 ≤ w i) (S : Finset ℕ) (a : ℕ) (h : range a ⊆ S) :
    ∑ i ∈ range a, w i ≤ ∑ i ∈ S, w i :=
  sum_le_sum_of_subset_of_nonneg h (fun i _ _ => hw i)

/-- L2b: a sum over any finite index set inside the prefix `[0,a)` is at most the prefix sum. -/
theorem sum_le_prefix (w : ℕ → ℝ) (hw : ∀ i, 0 ≤ w i) (S : Finset ℕ) (a : ℕ) (h : S ⊆ range a) :
    ∑ i ∈ S, w i ≤ ∑ i ∈ range a, w i :=
  sum_le_sum_of_subset_of_nonneg h (fun i _ _ => hw i)

/-- L2c: sums are invariant under a permutation of the index range (sorted order vs original order). -/
theorem sum_perm (w : ℕ → ℝ) (m : ℕ) (σ : Equiv.Perm (Fin m)) :
    ∑ i : Fin m, w (σ i) = ∑ i : Fin m, w i :=
  Equiv.sum_comp σ (fun i => w i)
