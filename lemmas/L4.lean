import Mathlib

/-!
L4 - the induction over operation sequences that the per-operation contracts leave as a "paper step".

The contracts of C05 / C06 / C12 / C14 prove, per public operation, (a) preservation of a representation invariant
and (b) a refinement post `view (op s) = aop (view s)`.  The properties quantify over *every sequence* of operations.
The step from (a)/(b) to sequences is the following three statements; nothing in them depends on ELFI.
-/

/-- L4a: an invariant preserved by every step of a (possibly nondeterministic, partial) transition relation holds in every
state reachable by any finite sequence of steps. `R s t` = "some public operation, called in state `s` within its
precondition, can end in state `t`" (normal or exceptional exit). -/
theorem inv_after_any_sequence {S : Type} (R : S → S → Prop) (ok : S → Prop)
    (hstep : ∀ s t, ok s → R s t → ok t) :
    ∀ s t, ok s → Relation.ReflTransGen R s t → ok t := by
  intro s t hs hst
  induction hst with
  | refl => exact hs
  | tail _ hbc ih => exact hstep _ _ ih hbc

/-- L4b: per-operation refinement lifts to sequences.  `f` = the concrete operation, `g` = the abstract (in-memory) operation,
`view` = the abstraction function, `ok` = the representation invariant, `pre` = the operation's precondition on the ABSTRACT
state (e.g. "delete only when non-empty").  If every single operation preserves `ok` and commutes with `view`, then after any
sequence of operations whose preconditions hold along the abstract run, the concrete state is `ok` and its view is the result
of the abstract run. -/
theorem refinement_after_any_sequence {S A Op : Type} (f : S → Op → S) (g : A → Op → A) (view : S → A)
    (ok : S → Prop) (pre : A → Op → Prop)
    (hstep : ∀ s o, ok s → pre (view s) o → ok (f s o) ∧ view (f s o) = g (view s) o) :
    ∀ (ops : List Op) (s : S), ok s →
      (∀ k (hk : k < ops.length), pre ((ops.take k).foldl g (view s)) (ops.get ⟨k, hk⟩)) →
      ok (ops.foldl f s) ∧ view (ops.foldl f s) = ops.foldl g (view s) := by
  intro ops
  induction ops with
  | nil => intro s hs _; exact ⟨hs, rfl⟩
  | cons o rest ih =>
    intro s hs hpre
    have h0 : pre (view s) o := by
      have := hpre 0 (by simp)
      simpa using this
    obtain ⟨hok, hview⟩ := hstep s o hs h0
    have hrest : ∀ k (hk : k < rest.length), pre ((rest.take k).foldl g (view (f s o))) (rest.get ⟨k, hk⟩) := by
      intro k hk
      have := hpre (k + 1) (by simp; omega)
      simpa [List.take, List.foldl, hview] using this
    have := ih (f s o) hok hrest
    simpa [List.foldl, hview] using this

/-- L4c: two systems started in related states and driven by the same operations stay related (used for "a copy behaves like the
original": `sim` = equal views). -/
theorem simulation_after_any_sequence {S T Op : Type} (f : S → Op → S) (g : T → Op → T) (sim : S → T → Prop)
    (hstep : ∀ s t o, sim s t → sim (f s o) (g t o)) :
    ∀ (ops : List Op) (s : S) (t : T), sim s t → sim (ops.foldl f s) (ops.foldl g t) := by
  intro ops
  induction ops with
  | nil => intro s t h; exact h
  | cons o rest ih => intro s t h; exact ih _ _ (hstep s t o h)

#print axioms inv_after_any_sequence
#print axioms refinement_after_any_sequence
#print axioms simulation_after_any_sequence
