import Mathlib

open MeasureTheory

theorem volume_box {n : ℕ} (a b : Fin n → ℝ) :
    volume (Set.pi Set.univ fun i => Set.Icc (a i) (b i)) = ∏ i, ENNReal.ofReal (b i - a i) := by
  rw [Set.pi_univ_Icc, Real.volume_Icc_pi]

/-- L5 (C19): the Lebesgue volume of the image of a box `∏ [a i, b i]` under `x ↦ f x + c`, `f` linear with `|det f| = 1`,
is the product of the widths; hence the density `1[x ∈ region] / ∏ widths` of a rotated bounding box integrates to one
exactly when the "rotation" has `|det| = 1`. -/
theorem volume_rotated_box {n : ℕ} (f : (Fin n → ℝ) →ₗ[ℝ] (Fin n → ℝ)) (c a b : Fin n → ℝ)
    (hdet : |LinearMap.det f| = 1) :
    volume ((fun x => f x + c) '' (Set.pi Set.univ fun i => Set.Icc (a i) (b i)))
      = ∏ i, ENNReal.ofReal (b i - a i) := by
  have h1 : (fun x => f x + c) '' (Set.pi Set.univ fun i => Set.Icc (a i) (b i))
      = (fun y => y + c) '' (f '' (Set.pi Set.univ fun i => Set.Icc (a i) (b i))) := by
    rw [Set.image_image]
  rw [h1, Set.image_add_right, measure_preimage_add_right, Measure.addHaar_image_linearMap, hdet,
    ENNReal.ofReal_one, one_mul, volume_box]

/-- the general factor: without `|det f| = 1` the volume is `|det f| * ∏ widths` (so the density integrates to `|det f|`). -/
theorem volume_linear_image_box {n : ℕ} (f : (Fin n → ℝ) →ₗ[ℝ] (Fin n → ℝ)) (a b : Fin n → ℝ) :
    volume (f '' (Set.pi Set.univ fun i => Set.Icc (a i) (b i)))
      = ENNReal.ofReal |LinearMap.det f| * ∏ i, ENNReal.ofReal (b i - a i) := by
  rw [Measure.addHaar_image_linearMap, volume_box]

#print axioms volume_box
#print axioms volume_rotated_box
#print axioms volume_linear_image_box
