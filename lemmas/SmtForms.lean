import Mathlib

/-!
# The three mathematics lemmas in the form in which the SMT obligations use them

`pyvc` adds three pure-mathematics facts to SMT obligations as axiom *instances* (DESIGN.md §0.1
"Lemmas", §2.4 LEAN).  `L1.lean` / `L2.lean` prove them in Mathlib's idiom (`Finset.range`,
`Equiv.Perm (Fin m)`).  This file proves them in the shape of the z3 formulas that the python
formula builders emit, so that the remaining trusted step (Lean statement ↔ z3 AST, by inspection)
is a symbol-by-symbol comparison:

| Lean theorem here                  | python formula builder                                       |
|------------------------------------|--------------------------------------------------------------|
| `SmtForms.perm_sum_prefix`         | `contracts/c13.py: L2a_perm_sum(n, pi, pinv, f, A, Bp)`      |
| `SmtForms.discrete_ivt_smt`        | `contracts/c13.py: L3_ivt(n, f, alpha, k0)`                  |
| `SmtForms.pigeonhole_smt_general`  | `contracts/c17.py: pigeonhole(n, m, f)`                      |
| `SmtForms.pigeonhole_c01_instance` | `contracts/c01.py: MergeBatch.ensures`, `Implies(pigeon, n <= n - 1)` |
| `SmtForms.pigeonhole_smt`          | the same instance read as `¬ pigeon`                         |

## Reading conventions

* **Indices are `ℤ`**, because the z3 index sort is `IntSort()` and the uninterpreted symbols are
  `Function(name, IntSort(), RealSort())` / `Function(name, IntSort(), IntSort())`, i.e. total
  functions `ℤ → ℝ` / `ℤ → ℤ`.  Nothing would change with `ℕ`: every hypothesis and every conclusion
  mentions the functions only at arguments that the hypotheses themselves confine to `[0, n]`
  (`i`, `i + 1`, `pi i`, `pinv i` with `0 ≤ i < n`), so the values at negative arguments are
  irrelevant, and `k ↦ (k : ℤ)`, `i ↦ i.toNat` translate one reading into the other.  The proofs below do
  exactly that: they restrict to `ℕ` and call the `ℕ`-indexed cores (verbatim copies of the proofs in
  `L1.lean`; `Finset.sum_nbij'` for the permutation, which is `Equiv.sum_comp` of `L2.lean` without the
  packaging into `Equiv.Perm (Fin m)`).
* **Values are `ℝ`** (z3 `RealSort()`); only `0`, `+`, `<`, `≤`, `=` on reals occur.
* `forall_range(lo, hi, body, name)` (pyvc/core.py, proof mode) is
  `ForAll([v], Implies(And(lo <= v, v < hi), body(v)))`       ↦  `∀ v : ℤ, lo ≤ v ∧ v < hi → body v`.
* `forall2_range(lo, hi, body)` is
  `ForAll([a, b], Implies(And(lo <= a, a < hi, lo <= b, b < hi), body(a, b)))`
                                                               ↦  `∀ a b : ℤ, lo ≤ a ∧ a < hi ∧ lo ≤ b ∧ b < hi → body a b`.
* `prefix_def(P, n, summand)` (contracts/c13.py) is
  `And(P(0) == 0, forall_range(0, n, lambda i: P(i + 1) == P(i) + summand(i)))`
                                                               ↦  `P 0 = 0 ∧ ∀ i : ℤ, 0 ≤ i ∧ i < n → P (i + 1) = P i + summand i`.
* z3's n-ary `And(a, b, c)` is the right-nested `a ∧ b ∧ c`; `x != y` is `x ≠ y`; `n >= 0` is `n ≥ 0`.
* The fresh constant `k0` of `L3_ivt` is a Skolem witness, so the Lean statement is the `∃ k0`.
* Free z3 constants (`n`, `alpha`, the function symbols) are the universally quantified variables
  of the theorem: an instance is the theorem applied to particular terms.
-/

namespace SmtForms

/-! ## `ℕ`-indexed cores -/

/-- L1 core, verbatim from `L1.lean` (`pigeonhole_range`). -/
theorem pigeonhole_range (n m : ℕ) (f : ℕ → ℕ) (hmap : ∀ i, i < n → f i < m)
    (hinj : ∀ i j, i < n → j < n → f i = f j → i = j) : n ≤ m := by
  have h := Finset.card_le_card_of_injOn (s := Finset.range n) (t := Finset.range m) f
    (by intro i hi; simp at hi ⊢; exact hmap i hi)
    (by intro i hi j hj hij; simp at hi hj; exact hinj i j hi hj hij)
  simpa using h

/-- L3 core, verbatim from `L1.lean` (`discrete_ivt`). -/
theorem discrete_ivt (c : ℕ → ℝ) (α : ℝ) (m : ℕ) (h0 : c 0 < α) (hm : α ≤ c m) :
    ∃ k, k < m ∧ c k < α ∧ α ≤ c (k + 1) ∧ ∀ j, j ≤ k → c j < α := by
  classical
  have hex : ∃ j, α ≤ c j := ⟨m, hm⟩
  let j0 := Nat.find hex
  have hj0 : α ≤ c j0 := Nat.find_spec hex
  have hpos : j0 ≠ 0 := by
    intro h; rw [h] at hj0; exact absurd hj0 (not_le.mpr h0)
  obtain ⟨k, hk⟩ := Nat.exists_eq_succ_of_ne_zero hpos
  refine ⟨k, ?_, ?_, ?_, ?_⟩
  · have : j0 ≤ m := Nat.find_min' hex hm
    omega
  · have := Nat.find_min hex (m := k) (by omega)
    exact not_le.mp this
  · rw [← Nat.succ_eq_add_one, ← hk]; exact hj0
  · intro j hj
    have := Nat.find_min hex (m := j) (by omega)
    exact not_le.mp this

/-- A function that satisfies the defining equations `prefix_def(P, n, g)` is the prefix sum:
`P k = ∑_{i<k} g i` for every `k ≤ n` (induction on `k`; this is the step an SMT solver cannot do). -/
theorem prefix_eq_sum (n : ℤ) (g P : ℤ → ℝ) (h0 : P 0 = 0)
    (hs : ∀ i : ℤ, 0 ≤ i ∧ i < n → P (i + 1) = P i + g i) :
    ∀ k : ℕ, (k : ℤ) ≤ n → P (k : ℤ) = ∑ i ∈ Finset.range k, g (i : ℤ) := by
  intro k
  induction k with
  | zero =>
    intro _
    simpa using h0
  | succ k ih =>
    intro hk
    have ihk := ih (by omega)
    have step := hs (k : ℤ) ⟨by omega, by omega⟩
    have e : ((k + 1 : ℕ) : ℤ) = (k : ℤ) + 1 := by omega
    rw [Finset.sum_range_succ, ← ihk, e]
    exact step

/-! ## (1) L2a — permutation invariance of a finite sum, prefix-sum form

python (`contracts/c13.py`):
```
def L2a_perm_sum(n, pi, pinv, f, A, Bp):
    hyp = z3.And(n >= 0,
                 forall_range(0, n, lambda i: z3.And(0 <= pi(i), pi(i) < n, pinv(pi(i)) == i,
                                                     0 <= pinv(i), pinv(i) < n, pi(pinv(i)) == i), 'i'),
                 prefix_def(A, n, f), prefix_def(Bp, n, lambda j: f(pi(j))))
    return z3.Implies(hyp, A(n) == Bp(n))
```
-/
theorem perm_sum_prefix (n : ℤ) (pi pinv : ℤ → ℤ) (f A B : ℤ → ℝ) :
    (n ≥ 0 ∧
     (∀ i : ℤ, 0 ≤ i ∧ i < n →
        0 ≤ pi i ∧ pi i < n ∧ pinv (pi i) = i ∧ 0 ≤ pinv i ∧ pinv i < n ∧ pi (pinv i) = i) ∧
     (A 0 = 0 ∧ ∀ i : ℤ, 0 ≤ i ∧ i < n → A (i + 1) = A i + f i) ∧
     (B 0 = 0 ∧ ∀ j : ℤ, 0 ≤ j ∧ j < n → B (j + 1) = B j + f (pi j))) →
    A n = B n := by
  rintro ⟨hn, hperm, ⟨hA0, hA⟩, ⟨hB0, hB⟩⟩
  have hN : ((n.toNat : ℕ) : ℤ) = n := Int.toNat_of_nonneg hn
  have hAs := prefix_eq_sum n f A hA0 hA n.toNat (le_of_eq hN)
  have hBs := prefix_eq_sum n (fun j => f (pi j)) B hB0 hB n.toNat (le_of_eq hN)
  rw [hN] at hAs hBs
  rw [hAs, hBs]
  show ∑ i ∈ Finset.range n.toNat, f (i : ℤ) = ∑ j ∈ Finset.range n.toNat, f (pi (j : ℤ))
  symm
  -- the facts of `hperm` at a natural index below `n`
  have key : ∀ a : ℕ, a ∈ Finset.range n.toNat →
      0 ≤ pi (a : ℤ) ∧ pi (a : ℤ) < n ∧ pinv (pi (a : ℤ)) = (a : ℤ) ∧
      0 ≤ pinv (a : ℤ) ∧ pinv (a : ℤ) < n ∧ pi (pinv (a : ℤ)) = (a : ℤ) := by
    intro a ha
    rw [Finset.mem_range] at ha
    exact hperm (a : ℤ) ⟨by omega, by omega⟩
  have cast_toNat : ∀ a : ℕ, ((a : ℤ)).toNat = a := by
    intro a; omega
  refine Finset.sum_nbij' (fun j : ℕ => (pi (j : ℤ)).toNat) (fun i : ℕ => (pinv (i : ℤ)).toNat)
    ?_ ?_ ?_ ?_ ?_
  · intro a ha
    obtain ⟨h1, h2, -, -, -, -⟩ := key a ha
    have e := Int.toNat_of_nonneg h1
    show (pi (a : ℤ)).toNat ∈ Finset.range n.toNat
    rw [Finset.mem_range]
    omega
  · intro a ha
    obtain ⟨-, -, -, h4, h5, -⟩ := key a ha
    have e := Int.toNat_of_nonneg h4
    show (pinv (a : ℤ)).toNat ∈ Finset.range n.toNat
    rw [Finset.mem_range]
    omega
  · intro a ha
    obtain ⟨h1, -, h3, -, -, -⟩ := key a ha
    show (pinv (((pi (a : ℤ)).toNat : ℕ) : ℤ)).toNat = a
    rw [Int.toNat_of_nonneg h1, h3, cast_toNat]
  · intro a ha
    obtain ⟨-, -, -, h4, -, h6⟩ := key a ha
    show (pi (((pinv (a : ℤ)).toNat : ℕ) : ℤ)).toNat = a
    rw [Int.toNat_of_nonneg h4, h6, cast_toNat]
  · intro a ha
    obtain ⟨h1, -, -, -, -, -⟩ := key a ha
    show f (pi (a : ℤ)) = f (((pi (a : ℤ)).toNat : ℕ) : ℤ)
    rw [Int.toNat_of_nonneg h1]

/-! ## (2) L3 — discrete intermediate value

python (`contracts/c13.py`):
```
def L3_ivt(n, f, alpha, k0):
    return z3.Implies(z3.And(n >= 1, f(0) < alpha, alpha <= f(n)),
                      z3.And(0 <= k0, k0 < n, f(k0) < alpha, alpha <= f(k0 + 1)))
```
`k0` is a fresh constant at every use, i.e. an existential witness. -/
theorem discrete_ivt_smt (n : ℤ) (f : ℤ → ℝ) (α : ℝ) :
    (n ≥ 1 ∧ f 0 < α ∧ α ≤ f n) →
    ∃ k0 : ℤ, 0 ≤ k0 ∧ k0 < n ∧ f k0 < α ∧ α ≤ f (k0 + 1) := by
  rintro ⟨hn, h0, hm⟩
  have hN : ((n.toNat : ℕ) : ℤ) = n := Int.toNat_of_nonneg (by omega)
  have h0' : (fun i : ℕ => f (i : ℤ)) 0 < α := by
    show f ((0 : ℕ) : ℤ) < α
    simpa using h0
  have hm' : α ≤ (fun i : ℕ => f (i : ℤ)) n.toNat := by
    show α ≤ f ((n.toNat : ℕ) : ℤ)
    rw [hN]
    exact hm
  obtain ⟨k, hk, h1, h2, -⟩ := discrete_ivt (fun i : ℕ => f (i : ℤ)) α n.toNat h0' hm'
  have e : ((k + 1 : ℕ) : ℤ) = (k : ℤ) + 1 := by omega
  refine ⟨(k : ℤ), by omega, by omega, h1, ?_⟩
  rw [← e]
  exact h2

/-! ## (3) L1 — pigeonhole

python (`contracts/c17.py`, the general builder):
```
def pigeonhole(n, m, f):
    return z3.Implies(z3.And(n >= 0, m >= 0,
                             forall_range(0, n, lambda i: z3.And(0 <= f(i), f(i) < m), 'i'),
                             forall2_range(0, n, lambda i, j: z3.Implies(i != j, f(i) != f(j)))),
                      n <= m)
```
-/
theorem pigeonhole_smt_general (n m : ℤ) (f : ℤ → ℤ) :
    (n ≥ 0 ∧ m ≥ 0 ∧
     (∀ i : ℤ, 0 ≤ i ∧ i < n → 0 ≤ f i ∧ f i < m) ∧
     (∀ i j : ℤ, 0 ≤ i ∧ i < n ∧ 0 ≤ j ∧ j < n → i ≠ j → f i ≠ f j)) →
    n ≤ m := by
  rintro ⟨hn, hm, hmap, hinj⟩
  have hN : ((n.toNat : ℕ) : ℤ) = n := Int.toNat_of_nonneg hn
  have hM : ((m.toNat : ℕ) : ℤ) = m := Int.toNat_of_nonneg hm
  have key : n.toNat ≤ m.toNat := by
    apply pigeonhole_range n.toNat m.toNat (fun i : ℕ => (f (i : ℤ)).toNat)
    · intro i hi
      have hf := hmap (i : ℤ) ⟨by omega, by omega⟩
      have e := Int.toNat_of_nonneg hf.1
      show (f (i : ℤ)).toNat < m.toNat
      omega
    · intro i j hi hj hij
      have hfi := hmap (i : ℤ) ⟨by omega, by omega⟩
      have hfj := hmap (j : ℤ) ⟨by omega, by omega⟩
      have ei := Int.toNat_of_nonneg hfi.1
      have ej := Int.toNat_of_nonneg hfj.1
      have hij' : (f (i : ℤ)).toNat = (f (j : ℤ)).toNat := hij
      by_contra hne
      have hne' : (i : ℤ) ≠ (j : ℤ) := by omega
      exact hinj (i : ℤ) (j : ℤ) ⟨by omega, by omega, by omega, by omega⟩ hne' (by omega)
  omega

/-! python (`contracts/c01.py`, `MergeBatch.ensures`; `n >= 1` is a `requires` clause of the contract,
so it is on the path condition of every obligation that receives the instance):
```
pigeon = z3.And(forall_range(0, n, lambda i: z3.And(0 <= p.pinv(i), p.pinv(i) < n - 1), 'i'),
                forall2_range(0, n, lambda i, j: z3.Implies(i != j, p.pinv(i) != p.pinv(j))))
vc.assume(z3.Implies(pigeon, n <= n - 1))
```
This is `pigeonhole(n, n - 1, pinv)` with the guards `n >= 0`, `n - 1 >= 0` discharged by `n >= 1`.
WITHOUT `n ≥ 1` the instance is false: for `n ≤ 0` both quantifiers are vacuous, `pigeon` holds, and
`n ≤ n - 1` does not. -/
theorem pigeonhole_c01_instance (n : ℤ) (pinv : ℤ → ℤ) (hn : n ≥ 1) :
    ((∀ i : ℤ, 0 ≤ i ∧ i < n → 0 ≤ pinv i ∧ pinv i < n - 1) ∧
     (∀ i j : ℤ, 0 ≤ i ∧ i < n ∧ 0 ≤ j ∧ j < n → i ≠ j → pinv i ≠ pinv j)) →
    n ≤ n - 1 := by
  rintro ⟨hmap, hinj⟩
  exact pigeonhole_smt_general n (n - 1) pinv ⟨by omega, by omega, hmap, hinj⟩

/-- The same instance read as "the hypothesis `pigeon` is contradictory" (`n ≤ n - 1` is `False`). -/
theorem pigeonhole_smt (n : ℤ) (pinv : ℤ → ℤ) (hn : n ≥ 1) :
    ¬ ((∀ i : ℤ, 0 ≤ i ∧ i < n → 0 ≤ pinv i ∧ pinv i < n - 1) ∧
       (∀ i j : ℤ, 0 ≤ i ∧ i < n ∧ 0 ≤ j ∧ j < n → i ≠ j → pinv i ≠ pinv j)) := by
  intro h
  have := pigeonhole_c01_instance n pinv hn h
  omega

end SmtForms

#print axioms SmtForms.perm_sum_prefix
#print axioms SmtForms.discrete_ivt_smt
#print axioms SmtForms.pigeonhole_smt_general
#print axioms SmtForms.pigeonhole_c01_instance
#print axioms SmtForms.pigeonhole_smt
