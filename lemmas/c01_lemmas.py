"""Ghost lemma functions for C01 (NOT repository code)."""


def lemma_extraction():
    """pure logic over buffer_ok: the property clauses at extraction (stated in the contract's ensures)"""
    return 0


def lemma_sel_dominates(k):
    """a strictly increasing sequence of non-negative integers satisfies sel(j) >= j"""
    j = 0
    while j < k:
        inst(j)
        j = j + 1
    return j
