"""Ghost lemma functions for C03 (NOT repository code).  Each is verified by pyvc like any other function; the loop invariant is the
induction hypothesis, the `use_*` / `unfold_*` calls are ghost statements supplied by the contract (contracts/c03.py)."""


def lemma_pack_unique(n1):
    """Two call packs pk1, pk2 that BOTH satisfy args_of(g, out, x, .) (with their own position witnesses) have the same content.
    requires  args_of(g, out, x, pk1, pos1, own1), args_of(g, out, x, pk2, pos2, own2), n1 = plen(pk1),
              the positional params on the in-edges of x are pairwise distinct (model_ok)
    ensures   plen(pk1) = plen(pk2), parg equal on [0, plen), kdom equal, kval equal on the domain
    Induction on the position k: the parent at position k of pk1 is at position k of pk2 (both witnesses are the order isomorphism of the
    positional parents, ordered by their integer param, onto an initial segment of the naturals)."""
    k = 0
    while k < n1:
        k = k + 1
    return k


def lemma_exec_sem_step():
    """One step of the induction 'output = sem' along the execution order.
    requires  IH: out(p) = sem(p) for every parent p of x;  out_x = apply(op, pk_code) with args_of(g, out, x, pk_code);
              defining equation of the spec: sem(x) = apply(op, pk_spec) with args_of(g, sem, x, pk_spec)
    ensures   out_x = sem(x)"""
    use_pack_unique()
    use_pack_extensionality()
    return 0


def two_loads(context1, net1, batch_index1, context2, net2, batch_index2):
    """Driver (not repository code): the REAL AdditionalNodesLoader.load (bound to `load` by the contract, inlined from the tree) is called for two
    loaded nets / batches in a row, as BatchHandler.submit does when several batches are pending.  ensures: afterwards EACH net carries the run
    metadata and batch size of its own batch."""
    load(context1, net1, batch_index1)
    load(context2, net2, batch_index2)
    return 0
