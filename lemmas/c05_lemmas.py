"""Ghost lemma functions for C05 (NOT repository code).  Verified by pyvc like any other function; the facts they combine are the
postconditions of the contracts in contracts/c05.py (stated there as requires / ghost statements)."""


def lemma_no_resimulation():
    """PoolLoader.load post + Executor.execute contract (C03)  =>  calls[node] = 0 for a held (node, batch)   (pure logic)"""
    return 0


def lemma_pool_content(n):
    """induction over the consumed batches 0 .. n-1; consume(t) = load, execute, callback -> add_batch for batch t (their contracts)"""
    t = 0
    while t < n:
        consume(t)
        t = t + 1
    return t


def lemma_generator_position(j):
    """walk the stochastic nodes before node j in execution order; unfold(k) instantiates the two position recurrences at k"""
    k = 0
    while k < j:
        unfold(k)
        k = k + 1
    return k


def lemma_stated_form_admissible():
    """stated form + (parameters stored => simulator stored)  =>  the skipped stochastic nodes form a suffix   (pure logic)"""
    return 0


def lemma_same_values(n):
    """induction over the needed nodes 0 .. n-1 in execution order: every node's value with the pool equals its pool-free value;
    step(k) instantiates determinism of node k (equal inputs and equal generator position give an equal output)"""
    k = 0
    while k < n:
        step(k)
        k = k + 1
    return k
