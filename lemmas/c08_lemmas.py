"""Ghost lemma functions for C08 (NOT repository code).  Each is verified by pyvc like any other function over the extended
reals of pyvc.extreal (IEEE tags finite / +inf / -inf / nan); the loop invariant is the induction hypothesis.

d(i)            the i-th conditional density at the point (an extended real; the lemma REQUIRES it finite and >= 0)
xlog(v)         numpy's log on [0, +inf): log 0 = -inf, otherwise the real logarithm
use_log_mul     ghost statement: the functional equation log(a b) = log a + log b for positive reals a, b (one instance)
The folds below are the left folds functools.reduce(mul / add, ...) performs in the joint node."""


def lemma_product(k):
    """requires k >= 1 and d(i) finite, >= 0 for i < k
    ensures the product is finite, >= 0, equals PROD(k), and is ZERO exactly when some d(i) is zero"""
    acc = d(0)
    i = 1
    while i < k:
        acc = acc * d(i)
        i = i + 1
    return acc


def lemma_log_sum(k):
    """requires k >= 1 and d(i) finite, >= 0 for i < k
    ensures sum_i log d(i) = log prod_i d(i) over the extended reals: it is -inf exactly when some d(i) is zero and the
    real logarithm of the (positive) product otherwise; it is never nan or +inf"""
    p = d(0)
    acc = xlog(d(0))
    i = 1
    while i < k:
        use_log_mul(p, d(i))
        p = p * d(i)
        acc = acc + xlog(d(i))
        i = i + 1
    return acc
