"""Ghost lemma functions for C12 (NOT repository code); verified by pyvc (loop invariant = induction
hypothesis).  `inst(j)` is a ghost statement that instantiates, at index j, the quantified hypotheses
of the lemma under proof (recursion equations of the definitional sums, per-index side conditions)."""


def lemma_induction(n):
    """induction over j = 0 .. n with the hypotheses instantiated at each index (the statement and the
    invariant are supplied by the lemma contract in contracts/c12.py)"""
    j = 0
    while j < n:
        inst(j)
        j = j + 1
    return j


def lemma_algebra():
    """a lemma of real arithmetic: the statement (requires => ensures over free real constants) is supplied by the lemma contract; no proof steps"""
    return 0
