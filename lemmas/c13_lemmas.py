"""Ghost lemma functions for C13 (NOT repository code); verified by pyvc (loop invariant = induction
hypothesis).  `inst(j)` is a ghost statement that instantiates, at index j, the quantified
hypotheses of the lemma (recursion equations of the prefix sums, sortedness against k, v >= 0)."""


def lemma_le_prefix(n, k):
    """sorted y, v >= 0, cum/LE prefix sums (LE counts v[t] when y[t] <= y[k]):  LE(n) >= cum(k+1)"""
    j = 0
    while j < k + 1:
        inst(j)
        j = j + 1
    while j < n:
        inst(j)
        j = j + 1
    return j


def lemma_lt_prefix(n, k):
    """sorted y, v >= 0, LT counts v[t] when y[t] < y[k]:  LT(n) <= cum(k)"""
    j = 0
    while j < k:
        inst(j)
        j = j + 1
    while j < n:
        inst(j)
        j = j + 1
    return j


def lemma_scale_sum(n):
    """A(i+1)=A(i)+a(i), B(i+1)=B(i)+a(i)*c  =>  B(n) = c*A(n)   (linearity of a finite sum)"""
    j = 0
    while j < n:
        inst(j)
        j = j + 1
    return j


def lemma_monotone_cum(n, a, b):
    """v >= 0, cum prefix sums, 0 <= a <= b <= n  =>  cum(a) <= cum(b)"""
    j = a
    while j < b:
        inst(j)
        j = j + 1
    return j


def lemma_sum_ext(n):
    """A(i+1)=A(i)+a(i), B(i+1)=B(i)+b(i), a(i)=b(i) on [0,n), A(0)=B(0)  =>  A(n) = B(n)"""
    j = 0
    while j < n:
        inst(j)
        j = j + 1
    return j


def lemma_quantile_monotone(n, k1, k2):
    """two crossing indices k1 (for alpha1) and k2 (for alpha2 >= alpha1) over the same sorted sample satisfy y[k1] <= y[k2]"""
    use_monotone(k2 + 1, k1)
    use_sorted(k1, k2)
    return 0


def lemma_scale_invariance(n, i):
    """normalised weights are invariant under w -> c*w, c > 0"""
    use_scale()
    return 0


def lemma_sum_sign(n):
    """A(i+1)=A(i)+a(i) with a(i) >= 0 (resp. == 0) on [0,n)  =>  A(n) >= 0 (resp. == 0)"""
    j = 0
    while j < n:
        inst(j)
        j = j + 1
    return j
