"""Ghost lemma of C14 (not repository code): the composition step of the copy-independence argument.

copy() establishes  sep(K, M): owned(K) and owned(M) are disjoint sets of dict objects  (contract Copy, clause `independence`);
every mutator contract (remove_node, update_node, parameter_names setter; `observed[...] = v` writes owned(K) by definition)
has a frame clause: it writes only dicts in owned(K) or dicts allocated during the call, and owned(K') is contained in
owned(K) + newly allocated dicts.  The lemma: one such step leaves every slot of every dict in owned(M) unchanged and
re-establishes sep(K', M) - so by induction no sequence of mutators applied to the copy alters the original's view."""


def lemma_independence_step():
    return None
