"""Ghost lemma functions for C15 (NOT repository code).  Each is verified by pyvc like any other
function: the loop invariant is the induction hypothesis, `unfold_D(q)` is a ghost statement that
instantiates the defining equation of the distinct-count D at q (D(q+1) = D(q) + [draw(q) is new])."""


def lemma_G1(p, c):
    """requires p >= 0, c >= 0;  ensures D(p) <= D(p+c) <= D(p) + c"""
    k = 0
    while k < c:
        unfold_D(p + k)
        k = k + 1
    return k


def lemma_G2(p, c):
    """requires p >= 0, c >= 0, D(p+c) == D(p) + c;  ensures every draw in [p, p+c) is new
    (proved contrapositively: walking up, if some step is not new the count falls short by one and,
    by G1 on the remainder, can never catch up)."""
    k = 0
    while k < c:
        unfold_D(p + k)
        use_G1(p + k + 1, c - k - 1)
        k = k + 1
    return k


def lemma_unique_position(i, p1, p2):
    """requires D(p1)=i+1, D(p1-1)=i, D(p2)=i+1, D(p2-1)=i, p1,p2 >= 1;  ensures p1 == p2
    (the position of the (i+1)-th distinct value is a function of the stream alone)"""
    use_G1(p1, p2 - 1 - p1)
    use_G1(p2, p1 - 1 - p2)
    return 0


def lemma_distinct(i, j, pi, pj):
    """requires i < j and (pi, pj) are the positions of the (i+1)-th and (j+1)-th distinct values;
    ensures draw(pi-1) != draw(pj-1)   (two different indices never receive the same sub-seed)"""
    use_G1(pj, pi - pj)
    unfold_D(pj - 1)
    instantiate_new(pj - 1, pi - 1)
    return 0
