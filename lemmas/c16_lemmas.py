"""Ghost lemma functions for C16 (NOT repository code); verified by pyvc like any other function (loop invariant =
induction hypothesis).  `inst(j)` instantiates, at index j, the recursion equations of the prefix sums that the lemma is
about; `use_*()` are ghost statements that bring in an instance of an already proved (or Lean-certified) lemma."""


def lemma_affine_sum(n):
    """S(i+1) = S(i) + x(i), S2(i+1) = S2(i) + (a x(i) + b)   =>   S2(n) = a S(n) + b n      (mean(ax+b) = a mean(x) + b)"""
    j = 0
    while j < n:
        inst(j)
        j = j + 1
    return j


def lemma_affine_ss(n):
    """Q(i+1) = Q(i) + (x(i) - mu)^2, Q2(i+1) = Q2(i) + (a x(i) + b - (a mu + b))^2   =>   Q2(n) = a^2 Q(n)
    (var(ax+b) = a^2 var(x))"""
    j = 0
    while j < n:
        inst(j)
        j = j + 1
    return j


def lemma_rhat_affine():
    """sequence means a mu_r + b and sequence variances a^2 s2_r (the two moment lemmas, per half chain) give
    grand mean a G + b, B' = a^2 B, W' = a^2 W and therefore the same split R-hat, for every a != 0"""
    use_affine_grand_mean()
    use_affine_between()
    use_affine_within()
    return 0


def lemma_rhat_permutation():
    """reordering the chains permutes the 2C half chains; W and B are sums over the half chains of terms that depend on the
    half chain only through its own moments (and the grand mean), hence unchanged (permutation invariance of a finite sum)"""
    use_perm_grand_mean()
    use_perm_between()
    use_perm_within()
    return 0


def lemma_affine_lag(n, t):
    """Q(k+1) = Q(k) + (x(k) - mu)(x(k+t) - mu), Q2(k+1) = Q2(k) + (a x(k) + b - (a mu + b))(a x(k+t) + b - (a mu + b)), k < n - t
    =>   Q2(n - t) = a^2 Q(n - t)      (the lag-t autocovariance of a x + b is a^2 times that of x)"""
    j = 0
    while j < n - t:
        inst(j)
        j = j + 1
    return j


def lemma_ess_affine():
    """chain means a mu_c + b, chain variances a^2 s2_c and lag-t autocovariances a^2 acov_c(t) (the three moment lemmas, per
    chain) give B' = a^2 B, W' = a^2 W, var+' = a^2 var+, mean_c acov'_c(t) = a^2 mean_c acov_c(t) and therefore the same
    rho_t, for every a != 0 and every lag t"""
    use_affine_grand_mean()
    use_affine_between()
    use_affine_within()
    use_affine_autocov()
    return 0


def lemma_ess_permutation():
    """reordering the chains permutes the per-chain moments; B, W and mean_c acov_c(t) are sums over the chains of terms that
    depend on the chain only through its own moments (and the grand mean), hence unchanged - and so is every rho_t"""
    use_perm_grand_mean()
    use_perm_between()
    use_perm_within()
    use_perm_autocov()
    return 0


def lemma_ess_same_rho(T):
    """rho'_t = rho_t for every lag  =>  the running sums and the 'all non-negative so far' flags agree up to every T, the
    exit lag is the same and ESS' = ESS"""
    j = 1
    while j < T:
        inst(j)
        j = j + 1
    inst(j)
    return j


def lemma_ess_exit_unique(T1, T2):
    """the exit lag of the ESS definition is unique: T1 < T2 cannot both be 'the first lag with a negative rho (or n)'"""
    inst(T1)
    j = T1 + 1
    while j < T2:
        inst(j)
        j = j + 1
    return j
