"""Ghost lemma functions for C16 (NOT repository code); verified by pyvc like any other function (loop invariant =
induction hypothesis).  `inst(j)` instantiates, at index j, the recursion equations of the prefix sums that the lemma is
about; `use_*()` are ghost statements that bring in an instance of an already proved (or Lean-certified) lemma."""


def lemma_affine_sum(n):
    """S(i+1) = S(i) + x(i), S2(i+1) = S2(i) + (a x(i) + b)   =>   S2(n) = a S(n) + b n      (mean(ax+b) = a mean(x) + b)"""
    j = 0
    while j < n:
        inst(j)
        j = j + 1
    return j


def lemma_affine_ss(n):
    """Q(i+1) = Q(i) + (x(i) - mu)^2, Q2(i+1) = Q2(i) + (a x(i) + b - (a mu + b))^2   =>   Q2(n) = a^2 Q(n)
    (var(ax+b) = a^2 var(x))"""
    j = 0
    while j < n:
        inst(j)
        j = j + 1
    return j


def lemma_rhat_affine():
    """sequence means a mu_r + b and sequence variances a^2 s2_r (the two moment lemmas, per half chain) give
    grand mean a G + b, B' = a^2 B, W' = a^2 W and therefore the same split R-hat, for every a != 0"""
    use_affine_grand_mean()
    use_affine_between()
    use_affine_within()
    return 0


def lemma_rhat_permutation():
    """reordering the chains permutes the 2C half chains; W and B are sums over the half chains of terms that depend on the
    half chain only through its own moments (and the grand mean), hence unchanged (permutation invariance of a finite sum)"""
    use_perm_grand_mean()
    use_perm_between()
    use_perm_within()
    return 0
