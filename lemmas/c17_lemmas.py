"""Ghost lemma functions for C17 (NOT repository code); verified by pyvc like any other function (the loop invariant is the
induction hypothesis).  `inst(j)` instantiates, at index j, the quantified hypotheses of the lemma; `use_*` applies an already
proved lemma (its hypotheses are call-pre obligations)."""


def lemma_sum_ext(m):
    """A(i+1)=A(i)+a(i), B(i+1)=B(i)+b(i), a(i)=b(i) on [0,n), A(0)=B(0)=0, 0 <= m <= n  =>  A(m) = B(m)"""
    j = 0
    while j < m:
        inst(j)
        j = j + 1
    return j


def lemma_sign_cancels(m):
    """P = prefix sums of x(c)*b(c), Pn = prefix sums of (-x(c))*(-b(c))  =>  theta - Pn(m) = theta - P(m)"""
    use_sum_ext(m)
    return 0


def lemma_counts_agree():
    """two orderings of one joint sample, no tie at the cut of the first: a model's draws among the n_min smallest are counted equally
    (Claims A and B: chosen in one ordering <=> chosen in the other; then two injections between the counted sets)"""
    chosen_stays_chosen(True)
    chosen_stays_chosen(False)
    count_le(True)
    count_le(False)
    return 0


def lemma_permuted_models(models, priors, permuted, permuted_priors):
    """two calls of the real compare_models (bound in the environment to the instrumented function read from the tree);
    `reindexing()` is a ghost statement: facts about the block re-indexing between the two concatenations (sizes only)"""
    reindexing()
    r1 = compare_models(models, priors)
    r2 = compare_models(permuted, permuted_priors)
    return (r1, r2)


def lemma_scale_sum(n):
    """A(i+1)=A(i)+a(i), B(i+1)=B(i)+a(i)/c, c != 0  =>  B(n) = A(n)/c   (linearity of a finite sum)"""
    j = 0
    while j < n:
        inst(j)
        j = j + 1
    return j


def lemma_monotone_cum(a, b):
    """v >= 0, cum prefix sums, 0 <= a <= b <= n  =>  cum(a) <= cum(b)"""
    j = a
    while j < b:
        inst(j)
        j = j + 1
    return j
