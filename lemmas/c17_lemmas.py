"""Ghost lemma functions for C17 (NOT repository code); verified by pyvc like any other function (the loop invariant is the
induction hypothesis).  `inst(j)` instantiates, at index j, the quantified hypotheses of the lemma; `use_*` applies an already
proved lemma (its hypotheses are call-pre obligations)."""


def lemma_sum_ext(m):
    """A(i+1)=A(i)+a(i), B(i+1)=B(i)+b(i), a(i)=b(i) on [0,n), A(0)=B(0)=0, 0 <= m <= n  =>  A(m) = B(m)"""
    j = 0
    while j < m:
        inst(j)
        j = j + 1
    return j


def lemma_sign_cancels(m):
    """P = prefix sums of x(c)*b(c), Pn = prefix sums of (-x(c))*(-b(c))  =>  theta - Pn(m) = theta - P(m)"""
    use_sum_ext(m)
    return 0


def lemma_chosen_stays_chosen(first_to_second):
    """two sorted orderings of one joint sample, no tie at the cut of the first: a draw is among the n_min smallest of one ordering iff it is
    among those of the other (one direction per call: a Skolem-named counterexample and a pigeonhole instance)"""
    chosen_stays_chosen(first_to_second)
    return 0


def lemma_counts_agree():
    """the same draws are chosen in both orderings: a model's chosen draws are counted equally (two injections between the counted sets)"""
    count_le(True)
    count_le(False)
    return 0


def lemma_permuted_models(models, priors, permuted, permuted_priors):
    """two calls of the real compare_models (bound in the environment to the instrumented function read from the tree)"""
    r1 = compare_models(models, priors)
    r2 = compare_models(permuted, permuted_priors)
    return (r1, r2)


def lemma_scale_sum(n):
    """A(i+1)=A(i)+a(i), B(i+1)=B(i)+a(i)/c, c != 0  =>  B(n) = A(n)/c   (linearity of a finite sum)"""
    j = 0
    while j < n:
        inst(j)
        j = j + 1
    return j


def lemma_monotone_cum(a, b):
    """v >= 0, cum prefix sums, 0 <= a <= b <= n  =>  cum(a) <= cum(b)"""
    j = a
    while j < b:
        inst(j)
        j = j + 1
    return j


def lemma_weight_sign():
    """k >= 0, n_sim >= 1, prior > 0, w = k / n_sim * prior  =>  w >= 0 and (k >= 1 => w > 0): pure field arithmetic, no ghost steps needed"""
    return 0


def lemma_normalise():
    """S = sum w_i, q_i = w_i / S:  S != 0 => sum q_i = 1;  w_i >= 0, S > 0 => 0 <= q_i <= 1: pure field arithmetic"""
    return 0


def lemma_reindexing():
    """the block re-indexing phi / psi between the concatenation of a model list and of the permuted list (sizes only);
    `blocks()` is a ghost statement: the facts block by block"""
    blocks()
    return 0


def lemma_zero_row(m):
    """D(c+1) = D(c) + x(c)*b(c), D(0) = 0, x(c) = 0 on [0,m)  =>  D(m) = 0"""
    j = 0
    while j < m:
        inst(j)
        j = j + 1
    return j


def lemma_field():
    """one-line facts of real arithmetic (congruence of division / of the weight formula): requires => ensures, no ghost steps"""
    return 0


def lemma_gram_transform(k):
    """rows of [1, X'] = rows of [1, X] times T = diag(1, A)  =>  Gram sums G' = T^T G T, Y' = T^T Y   (induction over the rows)"""
    j = 0
    while j < k:
        inst(j)
        j = j + 1
    return j


def lemma_select_unique(k1):
    """two masks with the same contents: their order-preserving enumerations of the True entries agree (induction over the selected rows;
    the last instance, at j = k1, excludes a longer second enumeration)"""
    j = 0
    while j < k1:
        inst(j)
        j = j + 1
    inst(j)
    return j


def lemma_affine_reexpression(sample, model, sample2, model2, summary_names, parameter_names):
    """two calls of the real adjust_posterior (bound in the environment to the instrumented function read from the tree): on the summaries as
    given and on an invertible affine re-expression of them (simulated and observed alike)"""
    r1 = adjust_posterior(sample, model, summary_names, parameter_names)
    r2 = adjust_posterior(sample2, model2, summary_names, parameter_names)
    return (r1, r2)
