"""Ghost lemma functions for C18 (NOT repository code); verified by pyvc like any other function.
`prepare_seed` is bound to the REAL body of elfi/model/tools.py::prepare_seed (inlined), `get_sub_seed`
inside it to the C15 contract stub."""


def lemma_rows_get_distinct_seeds(random_state, i, j):
    """requires 0 <= i, j < 2**31;  ensures i != j  =>  the two rows receive different seeds, and each
    seed is sub_seed(state word of random_state, row index)."""
    a = prepare_seed(random_state=random_state, index_in_batch=i)
    b = prepare_seed(random_state=random_state, index_in_batch=j)
    return a[1]['seed'], b[1]['seed']
