"""Ghost lemma functions for C18 (NOT repository code); verified by pyvc like any other function.
`prepare_seed` is bound to the REAL body of elfi/model/tools.py::prepare_seed (inlined), `get_sub_seed`
inside it to the C15 contract stub."""


def lemma_rows_get_distinct_seeds(random_state, i, j, meta_entries):
    """requires 0 <= i, j < 2**31;  ensures i != j  =>  the two rows receive different seeds, and each
    seed is sub_seed(state word of random_state, row index); meta_entries = the other run-metadata entries of the batch
    (batch_index, submission_index, master_seed, model_name), the same for both rows."""
    a = prepare_seed(random_state=random_state, index_in_batch=i, **meta_entries)
    b = prepare_seed(random_state=random_state, index_in_batch=j, **meta_entries)
    return a[1]['seed'], b[1]['seed']


def lemma_seed_follows_generator_state(random_state, i, meta_entries):
    """the same generator OBJECT is used twice; between the calls its state changes (ghost statement: re-seeded or
    advanced).  ensures: each seed is sub_seed(state word AT THAT CALL, row index) - a function of the generator's
    state, not of the identity of the generator object."""
    a = prepare_seed(random_state=random_state, index_in_batch=i, **meta_entries)
    generator_changes_state(random_state)
    b = prepare_seed(random_state=random_state, index_in_batch=i, **meta_entries)
    return a[1]['seed'], b[1]['seed']
