"""Ghost lemma functions for C19 (NOT repository code).  Each is verified by pyvc like any other function:
the loop invariant is the induction hypothesis; `unfold_*` are ghost statements that instantiate a defining
equation at one index; `box.sample` / `box.contains` are callees under their own contracts."""


def lemma_prod_positive(n):
    """requires n >= 0, PP(0) = 1, PP(i+1) = PP(i) * A(i) and A(i) > 0 for i < n;  ensures PP(n) > 0"""
    k = 0
    while k < n:
        unfold_prod(k)
        k = k + 1
    return k


def lemma_sample_inside(box, n2, seed, r):
    """requires 0 <= r < n2;  ensures box.contains(box.sample(n2, seed)[r]) is True
    (sample's contract: row r = R theta_r + c with lo <= theta_r <= hi;  contains' contract: every such point is inside)"""
    pts = box.sample(n2, seed)
    return box.contains(pts[r])


def lemma_count_bounds(n):
    """requires n >= 0, CNT(0) = 0, CNT(i+1) = CNT(i) + [pred(i)];  ensures 0 <= CNT(n) <= n"""
    k = 0
    while k < n:
        unfold_count(k)
        k = k + 1
    return k
