"""Ghost lemma functions of C20 (not repository code).  They are run by the CAS tier over sympy values."""


def lemma_det_scaling(A, c, det):
    """det(c A) = c^d det(A) for a d x d matrix given as nested lists; returns both sides"""
    d = len(A)
    scaled = [[c * A[i][j] for j in range(d)] for i in range(d)]
    return det(scaled), c ** d * det(A)
