"""Computer-algebra tier: the same instrumented real function body, executed by CPython over sympy
terms (numpy object arrays of sympy expressions for small CONCRETE shapes), for obligations of the
form "the expression the code computes equals <formula>" / "equals the derivative of <expression>".

Verdicts:  discharged  sympy reduces lhs - rhs to exactly 0 (under the declared symbol assumptions)
           refuted     the residual is non-zero at a random point satisfying the preconditions
                       (the point is the counterexample; it is then replayed in floats on the real code)
           undecided   residual not reduced to 0 and numerically ~0 everywhere tried  (fail closed)
Shapes are concrete in this tier: an identity is proved for ALL real values at the listed shapes only;
the evidence says so (coverage.cas_shapes)."""
import builtins
import math as _math
import random
import signal
import time

import numpy as _np
import sympy as sp

from . import instrument
from .core import OutOfSubset


class _SymRuntime:
    """__vc__ for CAS runs: no loop cutting, python `is`, explicit raises marked"""

    def is_(self, a, b):
        return a is b

    def is_not(self, a, b):
        return a is not b

    def raised(self, exc):
        if isinstance(exc, type):
            exc = exc()
        try:
            exc._vc_explicit = True
        except Exception:
            pass
        return exc

    def super_(self, obj):
        raise OutOfSubset('super() in CAS tier')


def _is_sym(x):
    return isinstance(x, sp.Basic)


def _vec(f):
    def g(x, *a, **k):
        if isinstance(x, _np.ndarray):
            out = _np.empty(x.shape, dtype=object)
            for idx in _np.ndindex(x.shape):
                out[idx] = f(x[idx])
            return out
        if isinstance(x, (list, tuple)):
            return g(_np.array(x, dtype=object))
        return f(x)
    return g


def _sym_exp(x):
    return sp.exp(x)


def _sym_log(x):
    return sp.log(x)


def _sym_sqrt(x):
    return sp.sqrt(x)


def _sym_abs(x):
    return sp.Abs(x)


def _isinf(x):
    if _is_sym(x):
        if x in (sp.oo, -sp.oo):
            return True
        if x.is_finite:
            return False
        if x.is_infinite:
            return True
        raise OutOfSubset('isinf of an unconstrained symbol %s' % x)
    return _math.isinf(x)


def _isnan(x):
    if _is_sym(x):
        return x is sp.nan
    return _math.isnan(x)


def _isfinite(x):
    if _is_sym(x):
        return not _isinf(x) and not _isnan(x)
    return _math.isfinite(x)


class _NpCas:
    """what the analysed code sees as `np` in the CAS tier: real numpy for structure, sympy for functions"""

    def __init__(self, extra=None):
        self.__dict__['_extra'] = dict(extra or {})

    exp = staticmethod(_vec(_sym_exp))
    log = staticmethod(_vec(_sym_log))
    sqrt = staticmethod(_vec(_sym_sqrt))
    abs = staticmethod(_vec(_sym_abs))
    absolute = abs
    isinf = staticmethod(_vec(_isinf))
    isnan = staticmethod(_vec(_isnan))
    isfinite = staticmethod(_vec(_isfinite))
    inf = sp.oo
    pi = sp.pi

    @staticmethod
    def zeros(shape, dtype=None):
        a = _np.empty(shape, dtype=object)
        a.fill(sp.Integer(0))
        return a

    @staticmethod
    def ones(shape, dtype=None):
        a = _np.empty(shape, dtype=object)
        a.fill(sp.Integer(1))
        return a

    @staticmethod
    def empty(shape, dtype=None):
        a = _np.empty(shape, dtype=object)
        a.fill(sp.Symbol('uninitialised'))
        return a

    @staticmethod
    def zeros_like(a, dtype=None):
        return _NpCas.zeros(_np.shape(a))

    @staticmethod
    def asarray(x, dtype=None):
        return x if isinstance(x, _np.ndarray) else _np.array(x, dtype=object)

    asanyarray = asarray

    @staticmethod
    def array(x, dtype=None, copy=True):
        return _np.array(x, dtype=object)

    @staticmethod
    def power(x, p):
        return x ** p

    @staticmethod
    def clip(x, lo, hi):
        raise OutOfSubset('clip in CAS tier (piecewise); put the clip outside the identity')

    def __getattr__(self, name):
        if name in self._extra:
            return self._extra[name]
        if name in ('sum', 'dot', 'matmul', 'transpose', 'squeeze', 'atleast_1d', 'atleast_2d', 'column_stack', 'concatenate', 'vstack', 'hstack',
                    'reshape', 'expand_dims', 'diag', 'trace', 'eye', 'outer', 'prod', 'cumsum', 'ndim', 'shape', 'newaxis', 'ndarray', 'tile',
                    'repeat', 'mean', 'arange', 'stack', 'isscalar', 'size', 'ndindex', 'float64', 'int64', 'identity', 'triu', 'tril', 'fill_diagonal',
                    'cov', 'var', 'subtract', 'add', 'multiply', 'divide', 'inner', 'einsum', 'kron', 'r_', 'c_', 'insert', 'delete', 'append',
                    'all', 'any', 'copy', 'ravel', 'flatnonzero', 'nonzero', 'linspace'):
            return getattr(_np, name)
        if not hasattr(_np, name):
            from .core import program_exception
            raise program_exception(AttributeError("module 'numpy' has no attribute %r (installed numpy %s)" % (name, _np.__version__)))
        raise OutOfSubset('numpy.%s is not in the CAS spec table' % name)


class _MathCas:
    pi = sp.pi
    e = sp.E
    inf = sp.oo
    exp = staticmethod(lambda x: sp.exp(x) if _is_sym(x) else _math.exp(x))
    log = staticmethod(lambda x, *b: (sp.log(x, *b) if (_is_sym(x) or any(_is_sym(i) for i in b)) else _math.log(x, *b)))
    sqrt = staticmethod(lambda x: sp.sqrt(x) if _is_sym(x) else _math.sqrt(x))
    lgamma = staticmethod(lambda x: sp.loggamma(x))
    gamma = staticmethod(lambda x: sp.gamma(x))
    isinf = staticmethod(_isinf)
    isnan = staticmethod(_isnan)
    isfinite = staticmethod(_isfinite)
    ceil = staticmethod(lambda x: sp.ceiling(x) if _is_sym(x) else _math.ceil(x))
    floor = staticmethod(lambda x: sp.floor(x) if _is_sym(x) else _math.floor(x))
    fabs = staticmethod(lambda x: sp.Abs(x) if _is_sym(x) else _math.fabs(x))


def cas_globals(extra=None, np_extra=None):
    b = {k: getattr(builtins, k) for k in dir(builtins) if not k.startswith('_') and k not in ('open', 'exec', 'eval', 'input', 'exit', 'quit', 'compile', 'breakpoint')}
    b['float'] = lambda x=0.0: x if _is_sym(x) else (_cas_float_arr(x) if isinstance(x, _np.ndarray) else builtins.float(x))
    b['int'] = lambda x=0, *a: x if _is_sym(x) else builtins.int(x, *a)
    b['__build_class__'] = builtins.__build_class__
    b['__name__'] = 'pyvc_cas'
    g = {'__builtins__': b, 'np': _NpCas(np_extra), 'math': _MathCas, '__vc__': _SymRuntime(), '__vc_locals__': builtins.locals}
    g.update(extra or {})
    return g


def _cas_float_arr(x):
    from .core import program_exception
    if x.ndim == 0:
        return x.item()
    raise program_exception(TypeError('only 0-dimensional arrays can be converted to Python scalars'))


def compile_function(target, repo=None):
    loc = instrument.locate(target, repo)
    code, stats, text = instrument.instrument(loc, ())
    return loc, code, stats


_RUN_CTX = []      # (target, env, np_extra, repo) of the run_function calls in progress: lets a stub `self` resolve members from the tree


class Obj:
    """stub `self` for the CAS tier.  A member the contract did not give it is looked up in the REAL class of the analysed method
    *in the tree* (same-file class, its same-file bases): a method is compiled with the same mechanical instrumentation and the same
    CAS globals and bound to the stub (so helpers an edit extracts are executed as real code), an immutable literal class constant is
    its value; anything else is OutOfSubset (undecided, fail closed) - never a checker crash."""

    def __init__(self, **kw):
        self.__dict__.update(kw)

    def __getattr__(self, k):
        if k.startswith('__') or not _RUN_CTX:
            raise AttributeError(k)
        import ast as _ast
        import types as _types
        target, env, np_extra, repo = _RUN_CTX[-1]
        if '::' not in target or '.' not in target.split('::')[1]:
            raise OutOfSubset('stub self has no member %r and the target %s is not a method' % (k, target))
        path, qual = target.split('::')
        clsname = qual.split('.')[-2].split('#')[0]
        try:
            from .engine import _class_chain
            chain, _shared = _class_chain(path, repo, clsname)
        except Exception as e:
            raise OutOfSubset('stub self has no member %r (class %s not resolvable in the tree: %s)' % (k, clsname, e))
        for cd in chain:
            hit = None
            for st in cd.body:
                if isinstance(st, _ast.FunctionDef) and st.name == k:
                    hit = st
                elif isinstance(st, _ast.Assign) and len(st.targets) == 1 and isinstance(st.targets[0], _ast.Name) and st.targets[0].id == k:
                    hit = st
            if hit is None:
                continue
            if isinstance(hit, _ast.Assign):
                try:
                    return _ast.literal_eval(hit.value)
                except Exception:
                    raise OutOfSubset('class attribute %s.%s is not an immutable literal' % (cd.name, k))
            decos = [d.id if isinstance(d, _ast.Name) else getattr(d, 'attr', '?') for d in hit.decorator_list]
            loc, code, stats = compile_function('%s::%s.%s' % (path, cd.name, k), repo)
            g = cas_globals(env, np_extra)
            exec(code, g)
            fn = g[loc.node.name]
            if 'staticmethod' in decos:
                return fn
            if 'property' in decos:
                return fn(self)
            if decos:
                raise OutOfSubset('decorated member %s.%s (%s)' % (cd.name, k, decos))
            return _types.MethodType(fn, self)
        raise OutOfSubset('stub self has no member %r and the real class %s (and its same-file bases) has none either' % (k, clsname))


def run_function(target, args=(), kwargs=None, env=None, np_extra=None, repo=None):
    """-> (result, loc, stats); program exceptions propagate with ._vc_explicit"""
    loc, code, stats = compile_function(target, repo)
    g = cas_globals(env, np_extra)
    exec(code, g)
    fn = g[loc.node.name]
    _RUN_CTX.append((target, env, np_extra, repo))
    try:
        return fn(*args, **(kwargs or {})), loc, stats
    finally:
        _RUN_CTX.pop()


# ---------------------------------------------------------------------- deciding identities
class _Timeout(BaseException):
    # BaseException: sympy has `except Exception` blocks that would swallow the alarm and let a strategy run on unbounded
    pass


def _with_timeout(seconds, f, *a):
    def h(signum, frame):
        raise _Timeout()
    old = signal.signal(signal.SIGALRM, h)
    signal.setitimer(signal.ITIMER_REAL, seconds)
    try:
        return f(*a)
    except _Timeout:
        return None
    finally:
        signal.setitimer(signal.ITIMER_REAL, 0)
        signal.signal(signal.SIGALRM, old)


STRATEGIES = [
    ('expand', lambda e: sp.expand(e)),
    ('simplify', lambda e: sp.simplify(e)),
    ('expand_log+simplify', lambda e: sp.simplify(sp.expand_log(sp.expand(e), force=True))),
    ('logcombine', lambda e: sp.simplify(sp.logcombine(sp.expand_log(e, force=True), force=True))),
    ('together+cancel', lambda e: sp.cancel(sp.together(e))),
    ('powsimp+radsimp', lambda e: sp.simplify(sp.radsimp(sp.powsimp(sp.expand(e), force=True)))),
    ('rewrite-exp', lambda e: sp.simplify(e.rewrite(sp.exp))),
    ('doit', lambda e: sp.simplify(e.doit())),
]


def decide_identity(lhs, rhs, domain, seed=0, budget_s=20.0, n_points=24, tol=1e-7, funcs=None):
    """domain: {symbol: (lo, hi)} sampling box satisfying the preconditions (after re-parameterisation).
    funcs: {undefined sympy Function: python callable} used for numeric evaluation of the residual."""
    t0 = time.time()
    try:
        res = sp.sympify(lhs) - sp.sympify(rhs)
    except Exception as e:
        return dict(verdict='undecided', reason='cannot form residual: %s' % e, seconds=0.0)
    if res == 0:
        return dict(verdict='discharged', how='structural', seconds=round(time.time() - t0, 4))
    for name, strat in STRATEGIES:
        left = budget_s - (time.time() - t0)
        if left <= 0.5:
            break
        try:
            r = _with_timeout(min(left, budget_s / 2), strat, res)
        except Exception:
            r = None
        if r is not None and r == 0:
            return dict(verdict='discharged', how=name, seconds=round(time.time() - t0, 4))
    # numeric: refute or stay undecided
    rnd = random.Random(seed)
    syms = sorted(res.free_symbols, key=lambda s: s.name)
    missing = [s for s in syms if s not in domain]
    if missing:
        return dict(verdict='undecided', reason='no sampling domain for %s' % missing, seconds=round(time.time() - t0, 3), residual=str(res)[:300])
    worst = 0.0
    for k in range(n_points):
        pt = {s: rnd.uniform(*domain[s]) for s in syms}
        try:
            e = res.subs(pt)
            if funcs:
                for f, impl in funcs.items():
                    e = e.replace(f, impl)
            v = complex(sp.N(e, 30))
        except Exception as ex:
            continue
        mag = abs(v)
        scale = 1.0
        try:
            scale = max(1.0, abs(complex(sp.N(sp.sympify(lhs).subs(pt), 30))))
        except Exception:
            pass
        if mag > tol * scale and mag == mag:
            return dict(verdict='refuted', point={str(s): pt[s] for s in syms}, residual_value=mag, residual=str(res)[:300],
                        seconds=round(time.time() - t0, 3))
        worst = max(worst, mag)
    return dict(verdict='undecided', reason='residual not reduced to 0 symbolically; numerically <= %.2e at %d points' % (worst, n_points),
                residual=str(res)[:300], seconds=round(time.time() - t0, 3))


class CasContract:
    """A contract discharged in the CAS tier.  Subclasses implement identities(tier, seed) yielding
    dict(name, lhs, rhs, domain[, funcs, note]) after running the REAL function via run_function."""
    target = None
    prop = None
    label = None
    kind = 'cas'
    cover = False
    loops = {}
    shapes = ''

    @property
    def cname(self):
        q = self.target.split('::')[1]
        return q + ('[%s]' % self.label if self.label else '')

    def identities(self, tier, seed):
        raise NotImplementedError

    def run_custom(self, tier, seed, repo):
        out = dict(results=[], error=None, covers=0, covers_sat=0, stats={}, sha256=None, target=self.target, cname=self.cname,
                   label=self.label, refuted=[], fin_error=None, n_paths=0, samples=[])
        t0 = time.time()
        try:
            loc, code, stats = compile_function(self.target, repo)
            out['stats'], out['sha256'], out['lineno'] = stats, loc.sha256, loc.lineno
            n = 0
            for ident in self.identities(tier, seed):
                nm = '%s/%s/cas[%s]#%d' % (self.prop, self.cname, ident['name'], n)
                n += 1
                if 'verdict' in ident:       # pre-decided (e.g. a program exception where none is allowed)
                    d = ident
                else:
                    d = decide_identity(ident['lhs'], ident['rhs'], ident.get('domain', {}), seed=seed, funcs=ident.get('funcs'),
                                        budget_s=(20.0 if tier == 'quick' else 90.0))
                verdict = d['verdict']
                out['results'].append(dict(name=nm, kind='cas[%s]' % ident['name'], verdict=verdict, backend='sympy-%s' % sp.__version__,
                                           seconds=d.get('seconds', 0.0), note=ident.get('note', '') or d.get('how', ''), reason=d.get('reason'),
                                           expect='unsat', func='%s/%s' % (self.prop, self.cname)))
                if verdict == 'refuted':
                    out['refuted'].append(dict(name=nm, kind='cas[%s]' % ident['name'], note=ident.get('note', ''),
                                               witness=dict(point=d.get('point'), residual=d.get('residual'), residual_value=d.get('residual_value'),
                                                            case=ident.get('case')),
                                               model={}, fin=0, seconds=d.get('seconds', 0.0)))
                if len(out['samples']) < 1:
                    out['samples'].append(dict(name=nm, note='lhs = %s ; rhs = %s' % (str(ident.get('lhs'))[:200], str(ident.get('rhs'))[:200])))
            out['n_paths'] = n
        except OutOfSubset as e:
            out['error'] = 'out of subset: %s' % e
        out['wall_s'] = round(time.time() - t0, 3)
        return out
