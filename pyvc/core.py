"""pyvc core: verification-condition context.

One `VC` object drives the analysis of ONE function under contract.  The real function body
(mechanically instrumented by pyvc.instrument) is executed by CPython over symbolic proxy
values (pyvc.values); every symbolic branch forks the path (decision-prefix re-execution),
every loop that has a loop contract is cut at its invariant, every call of a function under
contract is replaced by that contract, every library call goes through the spec tables.
The run produces named obligations (pc => goal) that pyvc.smt discharges.
"""
import itertools
import time
import z3

_CUR = [None]
_DEPTH = [0]


def cur():
    vc = _CUR[0]
    if vc is None:
        raise RuntimeError('no active VC context')
    return vc


class PathEnd(Exception):
    """The engine ended this path (loop step checked, infeasible branch, assume False)."""


class Infeasible(PathEnd):
    pass


class OutOfSubset(Exception):
    """The analysed code (or a contract) used something the engine does not model.
    Always mapped to 'undecided' (exit 2) - never to discharged and never to a violation."""


class Obligation:
    __slots__ = ('name', 'kind', 'pc', 'goal', 'note', 'path', 'func', 'expect', 'tags', 'sig')

    def __init__(self, func, kind, pc, goal, note, path, expect='unsat', tags=()):
        self.func, self.kind, self.pc, self.goal, self.note, self.path = func, kind, pc, goal, note, path
        self.name = None
        self.expect = expect      # 'unsat' (normal obligation) or 'sat' (cover / must-fail probe)
        self.tags = tuple(tags)


class VC:
    def __init__(self, func_name, fin=None, options=None, fin_range=None):
        self.func = func_name
        self.fin = fin
        # finitised mode: sizes registered in fin_bounds are < fin; quantifiers are expanded over [-1, fin_range).
        # fin_range must cover every index expression of the contract (e.g. n + b) or finitised `sat` answers are spurious.
        self.fin_range = fin_range if fin_range is not None else ((fin + 1) if fin is not None else None)                      # None = proof mode; int N = finitised mode (sizes < N, quantifiers expanded)
        self.options = dict(div_check=True)
        self.options.update(options or {})
        self.obligations = []
        self.taints = []
        self.max_decisions = int((options or {}).get('max_decisions', 150))
        self.gen_budget_s = int((options or {}).get('gen_budget_s', 1500))
        self._deadline = None
        self.deepest = 0
        self.path_errors = []
        self.max_decisions_after_deep = int((options or {}).get('max_decisions_after_deep', 45))
        self.max_path_errors = int((options or {}).get('max_path_errors', 40))
        self.exits = []                     # (kind, value, path_id) for every completed path
        self.worklist = []
        self.n_paths = 0
        self.n_pruned = 0
        self._counter = itertools.count()
        self.axioms = []                    # global axioms (spec function definitions), added to every query
        self.fin_bounds = []                # z3 Int constants to be bounded in finitised mode
        self.dropped = {}
        self._sigs = set()
        self.hooks = {}
        self.reset_path([])
        self.out_of_subset = []
        self.loop_seen_step = set()

    # ------------------------------------------------------------------ path state
    def reset_path(self, prefix):
        self.prefix = list(prefix)
        self.taken = []
        self.pc = []
        self.ghost = {}
        self.libcalls = {}
        self.loops = {}
        self.path_id = self.n_paths
        self.snap = {}
        self._kind_count = {}
        self.taints = []

    def fresh(self, name, sort):
        return z3.Const('%s!%d' % (name, next(self._counter)), sort)

    def fresh_int(self, name, nonneg=False, size=False):
        c = self.fresh(name, z3.IntSort())
        if nonneg:
            self.pc.append(c >= 0)
        if size:
            self.fin_bounds.append(c)
        return c

    def fresh_fn(self, name, *sorts):
        return z3.Function('%s!%d' % (name, next(self._counter)), *sorts)

    def assume(self, *facts):
        for f in facts:
            f = _z(f)
            if z3.is_false(f):
                raise Infeasible()
            if not z3.is_true(f):
                self.pc.append(f)

    def oblige(self, kind, goal, note='', expect='unsat', tags=()):
        goal = _z(goal)
        if expect == 'unsat' and z3.is_true(goal) and not kind.startswith(('post', 'raises')):
            return
        if self.taints:
            tags = tuple(tags) + tuple('overapprox:' + w for w in self.taints)
        o = Obligation(self.func, kind, list(self.pc), goal, note, self.path_id, expect, tags)
        n = self._kind_count.get(kind, 0)
        self._kind_count[kind] = n + 1
        o.sig = (kind, tuple(self.taken), n)      # stable across proof / finitised generation
        if o.sig in self._sigs:                   # re-execution of a shared path prefix emits the same obligation again
            return
        self._sigs.add(o.sig)
        self.obligations.append(o)

    def taint(self, why):
        """the rest of this path relies on an OVER-APPROXIMATION of reachable state (e.g. arbitrary content of a memo an
        edit introduced, for which no representation invariant is known): an obligation that fails from here on is
        undecided, not refuted, unless the bounded stand-in replays a failing input on the real code"""
        if why not in self.taints:
            self.taints.append(why)

    def cut(self, name, fact):
        """ghost assertion: prove `fact` here (obligation lemma-step[name]), then use it"""
        fact = _z(fact)
        self.oblige('lemma-step[%s]' % name, fact)
        self.assume(fact)

    def libcall(self, name, value):
        lst = self.libcalls.setdefault(name, [])
        lst.append(value)
        h = self.hooks.get((name, len(lst) - 1))       # ghost statement anchored at the k-th call of a library function
        if h is not None:
            h(self, value)
        return value

    # ------------------------------------------------------------------ forking
    def feasible(self, extra=None):
        s = z3.Solver()
        s.set('timeout', 400)
        hq = self.__dict__.setdefault('_hq_cache', {})     # per path: pc element (kept alive by self.pc) -> has a quantifier
        if hq.get('path') != self.path_id:
            hq.clear()
            hq['path'] = self.path_id
        for p in self.pc:
            k = id(p)
            q = hq.get(k)
            if q is None:
                q = hq[k] = (p, _has_quantifier(p))
            if not q[1]:
                s.add(p)
        if extra is not None:
            s.add(extra)
        return s.check() != z3.unsat

    def branch(self, cond):
        """Decide a symbolic condition on this path, forking if both outcomes are feasible."""
        if isinstance(cond, bool):
            return cond
        cond = z3.simplify(_z(cond))
        if z3.is_true(cond):
            return True
        if z3.is_false(cond):
            return False
        k = len(self.taken)
        # a loop WITHOUT a loop contract whose condition is symbolic would fork forever on one path (found on a seeded
        # change that added `while self.batches.has_ready():` to a function under contract): bound the depth of a path
        # and the wall time of the generation; both end in `undecided`, never in a hang
        if k >= self.max_decisions:
            raise OutOfSubset('more than %d symbolic decisions on one path (a loop without a loop contract over a symbolic condition?)' % self.max_decisions)
        if self._deadline is not None and time.time() > self._deadline:
            raise OutOfSubset('generation of the obligations exceeded its wall-time budget (%d s)' % self.gen_budget_s)
        if k < len(self.prefix):
            d = self.prefix[k]
        else:
            ft = self.feasible(cond)
            ff = self.feasible(z3.Not(cond))
            if ft and ff:
                self.worklist.append(self.taken + [False])
                d = True
            elif ft:
                d = True
            elif ff:
                d = False
            else:
                self.n_pruned += 1
                raise Infeasible()
        self.taken.append(d)
        if len(self.taken) > self.deepest:
            self.deepest = len(self.taken)
        self.pc.append(cond if d else z3.Not(cond))
        return d

    def fork_values(self, name, values):
        """Case split over a finite list of python values (e.g. None vs given)."""
        values = list(values)
        for i, v in enumerate(values[:-1]):
            b = self.fresh('case_%s_%d' % (name, i), z3.BoolSort())
            if self.branch(b):
                return v
        return values[-1]

    # ------------------------------------------------------------------ exploring all paths
    def explore(self, run_once, max_paths=4000):
        """run_once(): executes the instrumented function once on the current decision prefix and
        returns ('return', value) / raises.  Engine exceptions end the path."""
        self.worklist = [[]]
        t0 = time.time()
        self._deadline = t0 + self.gen_budget_s
        while self.worklist:
            if time.time() > self._deadline:
                raise OutOfSubset('generation of the obligations exceeded its wall-time budget (%d s)' % self.gen_budget_s)
            prefix = self.worklist.pop()
            self.reset_path(prefix)
            self.n_paths += 1
            if self.n_paths > max_paths:
                raise OutOfSubset('more than %d paths in %s' % (max_paths, self.func))
            _CUR[0] = self
            try:
                run_once()
            except PathEnd:
                pass
            except OutOfSubset as e:
                # this PATH left the subset; the other paths are still explored: an obligation of a completed path is a
                # real obligation (it can be refuted and replayed), while the function as a whole stays undecided
                self.path_errors.append(str(e))
                if 'symbolic decisions on one path' in str(e) and self.max_decisions > self.max_decisions_after_deep:
                    # an unbounded symbolic loop: look at the SHALLOW alternatives only (first iterations), shortest first
                    self.max_decisions = self.max_decisions_after_deep
                    dropped = [w for w in self.worklist if len(w) > self.max_decisions]
                    self.worklist = sorted((w for w in self.worklist if len(w) <= self.max_decisions), key=len, reverse=True)
                    if dropped:
                        self.path_errors.append('%d deeper alternatives of the same loop not explored' % len(dropped))
                if len(self.path_errors) > self.max_path_errors:
                    self.gen_s = time.time() - t0
                    raise OutOfSubset('%d paths left the subset; first: %s' % (len(self.path_errors), self.path_errors[0]))
            finally:
                _CUR[0] = None
        self.gen_s = time.time() - t0
        if self.path_errors:
            raise OutOfSubset('%s%s' % (self.path_errors[0], '' if len(self.path_errors) == 1 else ' [and %d more paths]' % (len(self.path_errors) - 1)))


def _z(x):
    if isinstance(x, bool):
        return z3.BoolVal(x)
    if isinstance(x, z3.ExprRef):
        return x
    t = getattr(x, 't', None)
    if t is not None:
        return t
    raise OutOfSubset('not a formula: %r' % (x,))


def _has_quantifier(e, _cache={}):
    seen = set()
    stack = [e]
    while stack:
        x = stack.pop()
        i = x.get_id()
        if i in seen:
            continue
        seen.add(i)
        if z3.is_quantifier(x):
            return True
        stack.extend(x.children())
    return False


# ---------------------------------------------------------------------- quantifier combinator
def forall_range(lo, hi, body, name='q', vc=None):
    """forall q. lo <= q < hi => body(q).  Proof mode: a z3 ForAll.  Finitised mode: the finite
    conjunction over q in [0, fin) guarded by the range (all sizes are < fin there)."""
    vc = vc or cur()
    lo, hi = _zi(lo), _zi(hi)
    if vc.fin is None:
        # bound-variable names depend on the nesting depth only, so building the same formula twice gives
        # the SAME z3 AST (a lemma hypothesis then matches the fact on the path condition as one atom)
        v = z3.Int('%s@%d' % (name, _DEPTH[0]))
        _DEPTH[0] += 1
        try:
            b = _z(body(v))
        finally:
            _DEPTH[0] -= 1
        return z3.ForAll([v], z3.Implies(z3.And(lo <= v, v < hi), b))
    return z3.And([z3.Implies(z3.And(lo <= j, j < hi), _z(body(z3.IntVal(j)))) for j in range(-1, vc.fin_range)])


def forall2_range(lo, hi, body, name='q', vc=None):
    """forall i, j in [lo, hi). body(i, j)  as ONE two-variable quantifier (better triggers than nesting)"""
    vc = vc or cur()
    lo, hi = _zi(lo), _zi(hi)
    if vc.fin is None:
        a = z3.Int('%sa@%d' % (name, _DEPTH[0]))
        b = z3.Int('%sb@%d' % (name, _DEPTH[0]))
        _DEPTH[0] += 1
        try:
            bd = _z(body(a, b))
        finally:
            _DEPTH[0] -= 1
        return z3.ForAll([a, b], z3.Implies(z3.And(lo <= a, a < hi, lo <= b, b < hi), bd))
    rng = range(-1, vc.fin_range)
    return z3.And([z3.Implies(z3.And(lo <= i, i < hi, lo <= j, j < hi), _z(body(z3.IntVal(i), z3.IntVal(j)))) for i in rng for j in rng])


def exists_range(lo, hi, body, name='e', vc=None):
    vc = vc or cur()
    lo, hi = _zi(lo), _zi(hi)
    if vc.fin is None:
        v = z3.Int('%s@%d' % (name, _DEPTH[0]))
        _DEPTH[0] += 1
        try:
            b = _z(body(v))
        finally:
            _DEPTH[0] -= 1
        return z3.Exists([v], z3.And(lo <= v, v < hi, b))
    return z3.Or([z3.And(lo <= j, j < hi, _z(body(z3.IntVal(j)))) for j in range(-1, vc.fin_range)])


def forall_sort(sort, body, name='k', vc=None, universe=None):
    """forall k:sort. body(k).  In finitised mode `universe` (a list of constants of the sort)
    must be given by the contract; the quantifier then ranges over it (the sort is closed by a
    domain axiom that the contract adds)."""
    vc = vc or cur()
    if vc.fin is None or universe is None:
        v = z3.Const('%s@%d' % (name, _DEPTH[0]), sort)
        _DEPTH[0] += 1
        try:
            b = _z(body(v))
        finally:
            _DEPTH[0] -= 1
        return z3.ForAll([v], b)
    return z3.And([_z(body(u)) for u in universe])


def _zi(x):
    if isinstance(x, int):
        return z3.IntVal(x)
    if isinstance(x, z3.ExprRef):
        return x
    return x.t


def program_exception(exc):
    """mark an exception that a spec function raises deliberately on behalf of the analysed code"""
    exc._vc_explicit = True
    return exc
