"""./check Cxx [--tier quick|thorough] [--replay FILE]

Runs every contract of the property module contracts/cxx.py against /repo's CURRENT working tree:
generate obligations from the real source, discharge (z3 -> cvc5), re-generate what is left in
finitised mode for counter-models, replay them on the real code, run the bounded stand-ins,
apply KNOWN_FINDINGS.jsonl, write evidence/Cxx.json, print the verdict lines.

Exit: 0 held (or only known findings) / 1 VIOLATION / 3 checker error.  Undecided obligations
degrade the run to its bounded stand-in (DEGRADED line, evidence level 'other'), exit 0 unless the
stand-in finds a failing input."""
import argparse
import hashlib
import importlib
import json
import multiprocessing as mp
import os
import sys
import time
import traceback

ROOT = os.path.dirname(os.path.dirname(os.path.abspath(__file__)))
sys.path.insert(0, ROOT)

BUDGET = {'quick': dict(z3_ms=8000, cvc5_ms=15000, fin_ms=20000), 'thorough': dict(z3_ms=40000, cvc5_ms=60000, fin_ms=90000)}


GEN_LIMIT_S = 1200
CONTRACT_SOLVER_S = {'quick': 400, 'thorough': 2400}


def _contract_job(args):
    """worker: one contract -> plain-data result"""
    modname, idx, tier, seed, repo = args
    import z3
    from pyvc import smt
    from pyvc.engine import FunctionRun
    from pyvc.core import OutOfSubset
    if repo:
        os.environ['PYVC_REPO'] = repo
        from pyvc import instrument
        instrument.REPO = repo
    t0 = time.time()
    out = dict(idx=idx, results=[], error=None, covers=0, covers_sat=0, stats={}, sha256=None, target=None, cname=None,
               refuted=[], fin_error=None, n_paths=0)
    try:
        mod = importlib.import_module(modname)
        c = mod.CONTRACTS[idx]
        out['target'], out['cname'], out['label'] = c.target, c.cname, c.label
        if hasattr(c, 'run_custom'):
            o2 = c.run_custom(tier, seed, repo)
            o2['idx'] = idx
            o2.setdefault('wall_s', round(time.time() - t0, 3))
            return o2
        budget = BUDGET[tier]
        from pyvc import native
        try:
            with native.time_limit(GEN_LIMIT_S):       # edited code may contain a concrete non-terminating loop: undecided, never a hang
                run = FunctionRun(c).generate()
        except native.NativeTimeout:
            out['error'] = 'out of subset: generating the obligations did not finish within %d s' % GEN_LIMIT_S
            out['wall_s'] = round(time.time() - t0, 3)
            return out
        out['stats'] = run.stats
        out['sha256'] = run.loc.sha256 if run.loc else None
        out['lineno'] = run.loc.lineno if run.loc else None
        out['gen_s'] = round(getattr(run, 'gen_s', 0.0), 3)
        if run.vc is not None:
            out['n_paths'] = run.vc.n_paths
            out['deepest_path'] = getattr(run.vc, 'deepest', 0)
            if os.environ.get('PYVC_DEPTHLOG'):
                open(os.environ['PYVC_DEPTHLOG'], 'a').write('%s %d %d %d\n' % (run.vc.func, run.vc.deepest, run.vc.n_paths, len(run.vc.obligations)))
            out['inlined'] = [list(x) for x in getattr(run.vc, 'inlined', [])]
        if run.error:
            out['error'] = run.error
        obs = [o for o in (run.vc.obligations if run.vc else []) if o.expect == 'unsat']
        open_ = []
        samples = []
        t_dis = time.time()
        # obligations whose goal is literally False (a contract clause the executed path contradicts outright) first: they are
        # decided by path feasibility alone and must not be starved by the solver budget of the contract
        obs = sorted(obs, key=lambda o: 0 if z3.is_false(o.goal) else 1)
        for o in obs:
            if time.time() - t_dis > CONTRACT_SOLVER_S[tier]:
                # an edited body can generate thousands of hard obligations: bound the solver time per contract; the rest is undecided
                r = smt.Result(name=o.name, kind=o.kind, verdict='undecided', backend=None, seconds=0.0, note=o.note, expect=o.expect, func=o.func,
                               reason='solver budget of this contract (%d s) exhausted' % CONTRACT_SOLVER_S[tier])
            else:
                r = smt.discharge(o, run.vc.axioms, budget, seed=seed, both=(tier == 'thorough'))
            r.key = _key(o)
            if len(samples) < 2 and o.kind.startswith(('post', 'inv-step')):
                samples.append(dict(name=o.name, note=o.note, smt2_head=smt.smt2_head(o, run.vc.axioms, 500)))
            out['results'].append(r.as_dict())
            if r.verdict != 'discharged':
                open_.append((o, r))
        out['samples'] = samples
        # finitised mode: vacuity covers always; counter-models for what is still open
        need_fin = bool(open_) or c.cover
        if need_fin and (not run.error or (run.vc is not None and run.vc.obligations)):     # a partially explored function still has real per-path obligations
            try:
                with native.time_limit(GEN_LIMIT_S):
                    frun = FunctionRun(c, fin=c.fin).generate()
            except native.NativeTimeout:
                frun = FunctionRun(c, fin=c.fin)
                frun.error = 'finitised generation did not finish within %d s' % GEN_LIMIT_S
            if frun.error:
                out['fin_error'] = frun.error
            fobs = frun.vc.obligations if frun.vc else []
            bounds = [z3.And(b >= 0, b < c.fin) for b in (frun.vc.fin_bounds if frun.vc else [])]
            for o in fobs:
                if o.expect == 'sat':
                    out['covers'] += 1
                    rr, dt, model = smt.refute_finite(_as_goal_false(o), frun.vc.axioms, bounds, budget['fin_ms'], seed)
                    if rr not in ('sat', 'unsat'):       # timeout under machine load: one retry with a larger budget and another seed
                        rr, dt, model = smt.refute_finite(_as_goal_false(o), frun.vc.axioms, bounds, 4 * budget['fin_ms'], seed + 7919)
                    if rr == 'sat':
                        out['covers_sat'] += 1
                    elif rr != 'unsat':
                        out['covers_unknown'] = out.get('covers_unknown', 0) + 1
            bykey = {}
            second_budget = [90.0]
            for o in fobs:
                bykey.setdefault(_key(o), []).append(o)
            t_fin = time.time()
            for o, r in open_:
                cands = bykey.get(_key(o), [])
                verdict = 'undecided'
                if time.time() - t_fin > CONTRACT_SOLVER_S[tier]:
                    cands = []          # counter-model search budget of this contract exhausted: the rest stays undecided
                for fo in cands:
                    rr, dt, model = smt.refute_finite(fo, frun.vc.axioms, bounds, budget['fin_ms'], seed)
                    if rr == 'sat':
                        # second opinion before an alarm: quantified proofs are seed/time sensitive, and an obligation that is
                        # merely slow must not become a violation.  Bounded extra effort per contract (cap 90 s).
                        if second_budget[0] > 0 and r.verdict != 'sat?':
                            t2 = time.time()
                            r2 = smt.discharge(o, run.vc.axioms, dict(z3_ms=min(30000, int(second_budget[0] * 400)), cvc5_ms=min(30000, int(second_budget[0] * 300))),
                                               seed=seed + 104729)
                            second_budget[0] -= time.time() - t2
                            if r2.verdict == 'discharged':
                                verdict = 'discharged'
                                for rd in out['results']:
                                    if rd['name'] == o.name:
                                        rd['backend'] = r2.backend + ' (second attempt)'
                                        rd['seconds'] = (rd['seconds'] or 0) + r2.seconds
                                break
                        verdict = 'refuted'
                        wit = None
                        try:
                            wit = c.witness(frun.vc, model, fo) if hasattr(c, 'witness') else None
                        except Exception as e:   # witness extraction is best effort
                            wit = dict(witness_error='%s: %s' % (type(e).__name__, e))
                        out['refuted'].append(dict(name=o.name, kind=o.kind, note=o.note, witness=wit, tags=list(o.tags) + list(fo.tags),
                                                   model=_model_text(model), fin=c.fin, seconds=round(dt, 3)))
                        break
                for rd in out['results']:
                    if rd['name'] == o.name:
                        rd['verdict'] = verdict
                        if verdict == 'undecided' and not cands:
                            rd['reason'] = (rd.get('reason') or '') + ' [no finitised twin]'
    except OutOfSubset as e:
        out['error'] = 'out of subset: %s' % e
    except Exception as e:
        out['error'] = 'CHECKER-ERROR %s: %s\n%s' % (type(e).__name__, e, traceback.format_exc())
        out['crash'] = True
    out['wall_s'] = round(time.time() - t0, 3)
    return out


def _key(o):
    return o.sig


def _as_goal_false(o):
    return o


def _model_text(model, limit=60):
    out = {}
    for d in model.decls()[:400]:
        try:
            out[d.name()] = str(model[d])[:200]
        except Exception:
            pass
        if len(out) >= limit:
            break
    return out


def load_known(prop):
    import glob
    paths = [os.path.join(ROOT, 'KNOWN_FINDINGS.jsonl')] + sorted(glob.glob(os.path.join(ROOT, 'known.d', '*.jsonl')))
    known, fixed = [], []
    for path in paths:
        if not os.path.exists(path):
            continue
        for line in open(path):
            line = line.strip()
            if not line or line.startswith('#'):
                continue
            if line.startswith('fixed:'):
                fixed.append(line)
                continue
            e = json.loads(line)
            if e.get('property') == prop:
                known.append(e)
    return known, fixed


def match_known(known, cname, kind, bounded_sig=None):
    for e in known:
        if e.get('contract') and e['contract'] != cname:
            continue
        if e.get('kind_prefix') and not kind.startswith(e['kind_prefix']):
            continue
        if bounded_sig is not None and e.get('bounded_signature') != bounded_sig:
            continue
        if bounded_sig is None and e.get('bounded_signature') and not e.get('contract'):
            continue
        return e
    return None


def main(argv=None):
    ap = argparse.ArgumentParser()
    ap.add_argument('prop')
    ap.add_argument('--tier', default=os.environ.get('VERIF_TIER', 'quick'), choices=['quick', 'thorough'])
    ap.add_argument('--replay')
    ap.add_argument('--repo', default=os.environ.get('PYVC_REPO', '/repo'))
    ap.add_argument('--jobs', type=int, default=min(16, os.cpu_count() or 4))
    ap.add_argument('--no-evidence', action='store_true')
    ap.add_argument('--only', help='substring filter on contract names (debugging; evidence is not written)')
    ap.add_argument('-v', '--verbose', action='store_true')
    a = ap.parse_args(argv)
    prop = a.prop.upper()
    seed = int(os.environ.get('VERIF_SEED', '0') or 0)
    os.environ['PYVC_REPO'] = a.repo
    t0 = time.time()
    modname = 'contracts.%s' % prop.lower()
    try:
        mod = importlib.import_module(modname)
    except Exception as e:
        print('CHECKER-ERROR cannot import %s: %s' % (modname, e))
        traceback.print_exc()
        return 3
    if a.replay:
        return mod.replay_file(a.replay) if hasattr(mod, 'replay_file') else _generic_replay(mod, a.replay)

    # 1. assumed-contract sanity tests on the installed libraries
    sanity = []
    if hasattr(mod, 'sanity'):
        try:
            sanity = list(mod.sanity())
        except Exception as e:
            print('CHECKER-ERROR sanity tests crashed: %s' % e)
            traceback.print_exc()
            return 3
        bad = [n for n, ok in sanity if not ok]
        if bad:
            print('CHECKER-ERROR assumed-contract sanity tests failed: %s' % bad)
            return 3

    # 1b. engine self-check (thorough tier): differential test of the numpy spec table / array proxies against the installed numpy
    selfcheck = None
    if a.tier == 'thorough' and not a.only:
        import subprocess
        r = subprocess.run([sys.executable, os.path.join(ROOT, 'selftest', 'spec_diff.py')], capture_output=True, text=True, timeout=600)
        selfcheck = (r.stdout.strip().splitlines() or ['no output'])[-1]
        if r.returncode != 0:
            print('CHECKER-ERROR engine self-check failed: %s' % selfcheck)
            print(r.stdout[-2000:])
            return 3

    # 1c. Lean re-check of the mathematics lemmas this property instantiates (thorough tier; quick trusts the committed text)
    lean = None
    if a.tier == 'thorough' and not a.only and getattr(mod, 'USES_LEAN_LEMMAS', None):
        import subprocess
        try:
            r = subprocess.run(['bash', os.path.join(ROOT, 'selftest', 'lean_check.sh')], capture_output=True, text=True, timeout=5400)
            lean = dict(lemmas=list(mod.USES_LEAN_LEMMAS), exit=r.returncode, output=r.stdout.strip().splitlines()[-6:])
            if r.returncode != 0:
                print('CHECKER-ERROR lean re-check of the lemma files failed: %s' % r.stdout[-800:])
                return 3
        except subprocess.TimeoutExpired:
            lean = dict(lemmas=list(mod.USES_LEAN_LEMMAS), exit=None, output=['lean_check.sh did not finish within 90 min (machine load); committed text trusted in this run'])

    # 1d. mechanical scan of the contract sources for assumption sites (vc.assume / assumed lemma instances), reported, not judged
    import glob as _glob
    import re as _re
    assume_sites = []
    for f in sorted(_glob.glob(os.path.join(ROOT, 'contracts', prop.lower() + '*.py'))):
        for i, line in enumerate(open(f), 1):
            if _re.search(r'\.assume\(', line) and not line.lstrip().startswith('#'):
                assume_sites.append('%s:%d' % (os.path.relpath(f, ROOT), i))

    # 2. contracts
    # a contract may restrict itself to tiers (`tiers = ('thorough',)`): the quick tier then runs a stated subset of a case family
    idxs = [i for i, c in enumerate(mod.CONTRACTS) if (not a.only or a.only in c.cname) and a.tier in getattr(c, 'tiers', ('quick', 'thorough'))]
    jobs = [(modname, i, a.tier, seed, a.repo) for i in idxs]
    if a.jobs > 1 and len(jobs) > 1:
        ctx = mp.get_context('fork')
        with ctx.Pool(min(a.jobs, len(jobs))) as pool:
            outs = pool.map(_contract_job, jobs, chunksize=1)
    else:
        outs = [_contract_job(j) for j in jobs]

    known, fixed = load_known(prop)
    violations, known_hits, degraded, checker_errors = [], [], [], []
    contract_crashes = []
    n_obl = n_dis = 0
    backends = {}
    solver_s = 0.0
    functions = []
    samples = []
    replay_root = os.path.join(ROOT, 'replays') if os.path.realpath(a.repo) == '/repo' else os.path.join(a.repo, '.pyvc-replays')
    os.makedirs(os.path.join(replay_root, prop), exist_ok=True)
    for out in outs:
        c = mod.CONTRACTS[out['idx']]
        fo = dict(function=out['target'], contract=out['cname'], sha256=out['sha256'], lineno=out.get('lineno'),
                  stmts=out['stats'], paths=out['n_paths'], obligations=0, discharged=0, backend_counts={}, solver_s=0.0,
                  covers=out['covers'], covers_sat=out['covers_sat'], error=out['error'],
                  inlined_real_functions=out.get('inlined', []))
        if out.get('crash'):
            # an exception inside the checker while analysing ONE contract (typically: edited code reaches a proxy / stub operation the
            # engine does not implement).  Policy: a traceback is never a violation and never an alarm - the function is UNDECIDED, the
            # bounded stand-in decides, the evidence level drops to `other` and the crash is listed in coverage.contract_crashes.
            contract_crashes.append('%s: %s' % (out['cname'], out['error']))
            degraded.append(dict(contract=out['cname'], obligation='(whole function)', why='checker crash, function undecided: ' + str(out['error']).splitlines()[0]))
        elif out['error']:
            degraded.append(dict(contract=out['cname'], obligation='(whole function)', why=out['error']))
        for r in out['results']:
            n_obl += 1
            fo['obligations'] += 1
            solver_s += r['seconds'] or 0
            fo['solver_s'] += r['seconds'] or 0
            if r['verdict'] == 'discharged':
                n_dis += 1
                fo['discharged'] += 1
                backends[r['backend']] = backends.get(r['backend'], 0) + 1
                fo['backend_counts'][r['backend']] = fo['backend_counts'].get(r['backend'], 0) + 1
            elif r['verdict'] == 'undecided' or r['verdict'] == 'sat?':
                degraded.append(dict(contract=out['cname'], obligation=r['name'], why=r.get('reason') or 'solver: unknown'))
            if a.verbose or r['verdict'] != 'discharged':
                print('  %-10s %6.2fs %-12s %s  %s' % (r['verdict'], r['seconds'] or 0, r['backend'] or '', r['name'], (r['note'] or '')[:70]))
        for rf in out['refuted']:
            k = match_known(known, out['cname'], rf['kind'])
            if k:
                known_hits.append((k, rf))
            else:
                violations.append((out, rf))
        if not out['error'] and c.cover and out['covers_sat'] == 0 and not out['refuted'] and (out.get('covers_unknown') or out.get('fin_error')):
            # the reachability covers were not ANSWERED (solver timeout / generation budget under machine load): the guard is undecided, not failed
            degraded.append(dict(contract=out['cname'], obligation='(vacuity guard)', why='reachability covers undecided (%d of %d timed out%s)' % (
                out.get('covers_unknown', 0), out['covers'], '; ' + str(out.get('fin_error')) if out.get('fin_error') else '')))
        elif not out['error'] and c.cover and out['covers_sat'] == 0 and not out['refuted']:
            checker_errors.append('%s: vacuity guard - no feasible normal exit in finitised mode (covers=%d)' % (out['cname'], out['covers']))
        if not out['error'] and not out['results'] and not getattr(c, 'allow_no_obligations', False):
            checker_errors.append('%s: zero obligations generated' % out['cname'])
        fo['solver_s'] = round(fo['solver_s'], 3)
        functions.append(fo)
        samples.extend(out.get('samples', [])[:1])

    # 3. bounded stand-ins (always run; they also replay refuted obligations)
    bounded = []
    bounded_fail = []
    if hasattr(mod, 'bounded'):
        try:
            for b in mod.bounded(a.tier, seed):
                bounded.append({k: v for k, v in b.items() if k != 'failures'} | {'failures': len(b.get('failures', []))})
                for f in b.get('failures', []):
                    bounded_fail.append((b, f))
        except Exception as e:
            contract_crashes.append('bounded stand-in crashed: %s: %s\n%s' % (type(e).__name__, e, traceback.format_exc()))
            degraded.append(dict(contract='bounded', obligation='(bounded stand-in)', why='bounded stand-in crashed (undecided): %s: %s' % (type(e).__name__, e)))

    # 4. verdict lines
    rc = 0
    lines = []
    for out, rf in violations:
        # replay: ask the property module for a failing input of this clause on the real code
        rep = None
        if hasattr(mod, 'replay_refuted'):
            try:
                rep = mod.replay_refuted(out['cname'], rf)
            except Exception as e:
                rep = dict(found=False, error='%s: %s' % (type(e).__name__, e))
        path = os.path.join(replay_root, prop, _safe(rf['name']) + '.json')
        json.dump(dict(property=prop, obligation=rf['name'], kind=rf['kind'], note=rf['note'], function=out['target'],
                       sha256=out['sha256'], solver=dict(mode='finitised', fin=rf['fin'], model=rf['model'], seconds=rf['seconds']),
                       witness=rf.get('witness'), replay=rep), open(path, 'w'), indent=1, default=str)
        over = sorted({t[len('overapprox:'):] for t in rf.get('tags', []) if t.startswith('overapprox:')})
        if rep and rep.get('found'):
            lines.append('VIOLATION property=%s replay=%s obligation=%s' % (prop, path, rf['name']))
        elif over:
            # the counter-model lives in an over-approximated state (no representation invariant known for it) and no failing
            # input exists on the real code within the bounded search: undecided, not a violation
            degraded.append(dict(contract=out['cname'], obligation=rf['name'],
                                 why='counter-model only under over-approximated state (%s); no failing input on the real code: undecided' % '; '.join(over)))
            continue
        elif str(rf.get('kind', '')).startswith('lemma-step'):
            # a `cut` is a step of OUR proof script (an intermediate fact proved and then used), not a clause of the property: when it is
            # refuted and the bounded search finds no failing input on the real code, what failed is the proof attempt (the edited code
            # reaches the post by another route than the script expects) - undecided, never an alarm.  The property clauses themselves
            # (post / raises / frame / call-pre / crash obligations) stay violations even without a failing input.
            degraded.append(dict(contract=out['cname'], obligation=rf['name'],
                                 why='a step of the proof script is refuted and no failing input exists on the real code within the bounded search: proof attempt failed, undecided'))
            continue
        else:
            lines.append('VIOLATION property=%s replay=%s obligation=%s no-failing-input-found' % (prop, path, rf['name']))
        rc = 1
    seen_known = set()
    for b, f in bounded_fail:
        k = match_known(known, None, '', bounded_sig=f.get('signature'))
        if k:
            if k['id'] not in seen_known:
                seen_known.add(k['id'])
                known_hits.append((k, dict(name='bounded:' + b['name'], kind='bounded', note=f.get('what', ''))))
            continue
        path = os.path.join(replay_root, prop, _safe('bounded-' + b['name'] + '-' + str(f.get('signature', 'x'))) + '.json')
        json.dump(dict(property=prop, obligation='bounded:' + b['name'], bound=b.get('bound'), failing_input=f), open(path, 'w'), indent=1, default=str)
        lines.append('VIOLATION property=%s replay=%s obligation=bounded:%s' % (prop, path, b['name']))
        rc = 1
    printed = set()
    for k, rf in known_hits:
        if k['id'] in printed:
            continue
        printed.add(k['id'])
        print('KNOWN-FINDING: property=%s %s [%s; obligation %s]' % (prop, k['what'], k['id'], rf['name']))
    for k in known:
        if k['id'] not in printed and k.get('expect_refuted', True):
            print('KNOWN-FINDING-STALE property=%s %s is listed but nothing failed for it in this run' % (prop, k['id']))
    for d in degraded:
        print('DEGRADED property=%s obligation=%s proof->bounded (%s)' % (prop, d['obligation'], str(d['why']).splitlines()[0][:160]))
    for ln in lines:
        print(ln)
    if checker_errors:
        for e in checker_errors:
            print('CHECKER-ERROR %s' % e)
        rc = 3 if rc == 0 else rc
    wall = time.time() - t0

    # 5. evidence
    # obligations whose refutation is a listed known finding (the sigma-half of a split obligation) are reported separately
    # and are not part of the proof claim: obligations/discharged count the rest
    known_names = {rf['name'] for k, rf in known_hits if rf['kind'] != 'bounded'}
    n_known_obl = len(known_names)
    n_obl -= n_known_obl
    level = 'proof' if (not degraded and n_obl > 0 and n_obl == n_dis and not checker_errors and rc == 0) else 'other'
    bcases = sum(b.get('cases', 0) for b in bounded)
    bnontriv = sum(b.get('nontrivial', 0) for b in bounded)
    ev = dict(
        property_id=prop, tier=a.tier, seed=seed, level=level,
        coverage=dict(
            obligations=n_obl, discharged=n_dis,
            refuted_known_findings=n_known_obl,
            checker_cmd='./check %s --tier %s' % (prop, a.tier),
            trusted_base=list(getattr(mod, 'TRUSTED_BASE', [])),
            backends=backends, solver_s=round(solver_s, 3),
            functions_under_contract=functions,
            samples=samples[:5] or [dict(note='no post/inv-step obligation sampled')],
            bounded=bounded, evaluations=max(bcases + n_obl, 1), distinct_nontrivial=max(bnontriv + n_dis, 2) if (bnontriv + n_dis) >= 2 else bnontriv + n_dis,
            rule='obligations: one per (function, path, clause) generated from the real source in this run; bounded cases: see bounded[*].bound / rule',
            assumption_sanity_tests=dict(run=len(sanity), passed=sum(1 for _, ok in sanity if ok), names=[n for n, _ in sanity]),
            engine_selfcheck=selfcheck, lean_recheck=lean,
            assume_sites=dict(count=len(assume_sites), where=assume_sites[:400], note='every vc.assume( in this property\'s contract sources: library-spec facts at call sites, definitional extensions, explicit instances of verified or Lean-certified lemmas; listed mechanically, see TRUSTED_BASE for what they rest on'),
            vacuity=dict(covers=sum(o['covers'] for o in outs), covers_sat=sum(o['covers_sat'] for o in outs)),
            not_proved_clauses=list(getattr(mod, 'NOT_PROVED', [])),
            contract_crashes=contract_crashes, degraded=degraded, known_findings=sorted({k['id'] for k, _ in known_hits}), fixed=fixed,
            explanation=('proof: every obligation generated from the current source was discharged' if level == 'proof' else
                         'degraded or partially refuted run: see degraded / known_findings / violations; bounded stand-ins listed under bounded'),
        ),
        assumptions=list(getattr(mod, 'ASSUMPTIONS', [])),
        wall_s=round(wall, 2), violations=sum(1 for l in lines if l.startswith('VIOLATION')))
    if not a.no_evidence and not a.only:
        os.makedirs(os.path.join(ROOT, 'evidence'), exist_ok=True)
        with open(os.path.join(ROOT, 'evidence', prop + '.json'), 'w') as f:
            json.dump(ev, f, indent=1, default=str)
    if rc == 0:
        print('OK property=%s level=%s obligations=%d discharged=%d known_findings=%d bounded_cases=%d wall=%.1fs' % (
            prop, level, n_obl, n_dis, len(printed), bcases, wall))
    return rc


def _safe(s):
    return ''.join(ch if ch.isalnum() or ch in '-_.' else '_' for ch in s)[:150]


def _generic_replay(mod, path):
    d = json.load(open(path))
    print(json.dumps(d, indent=1)[:4000])
    if hasattr(mod, 'replay_input') and d.get('failing_input') is not None:
        fi = d['failing_input']
        if isinstance(fi, dict) and 'signature' in fi and isinstance(fi.get('input'), (dict, list)):
            fi = fi['input']          # a bounded-failure record (signature, what, input) wraps the input
        ok = mod.replay_input(fi)
        print('replay: %s' % ('REPRODUCED' if not ok else 'not reproduced'))
        return 1 if not ok else 0
    if hasattr(mod, 'replay_input') and d.get('replay', {}) and d['replay'].get('input') is not None:
        ok = mod.replay_input(d['replay']['input'])
        print('replay: %s' % ('REPRODUCED' if not ok else 'not reproduced'))
        return 1 if not ok else 0
    return 0


if __name__ == '__main__':
    sys.exit(main())
