"""Contract language and the per-function verification run."""
import builtins
import time
import traceback
import types
import z3

from . import core, instrument
from .core import VC, PathEnd, Infeasible, OutOfSubset, cur, _z
from .values import Sym, SBool, SInt, SReal, lift, is_none, SOpt


class NS:
    """attribute namespace over a dict (locals of the analysed function, contract state)"""

    def __init__(self, d=None, **kw):
        self.__dict__.update(d or {})
        self.__dict__.update(kw)

    def __getattr__(self, k):
        raise OutOfSubset('contract refers to `%s`, which is not bound at this program point' % k)

    def get(self, k, default=None):
        return self.__dict__.get(k, default)

    def has(self, k):
        return k in self.__dict__


class Loop:
    """Loop contract.  inv(s, l) -> list of facts or (name, fact) pairs; l = locals at the loop head
    (l.it = iteration ghost for `for` loops; l.entry = snapshot taken at loop entry).
    modifies(s, l) -> heap objects havocked in place at the loop head (each needs ._vc_havoc()).
    snapshot(s, l) -> dict kept as l.entry.  fresh = {name: factory()} for names unbound before the loop.
    lemmas(s, l0, l1) -> facts assumed before the inv-step check (explicit lemma instances; each lemma's
    own proof is a separate obligation elsewhere).  on_head(s, l): ghost hook after assuming the invariant."""

    def __init__(self, inv, modifies=None, snapshot=None, fresh=None, lemmas=None, on_head=None, on_exit=None, ghost_step=None,
                 keep=(), at_head=None):
        self.at_head = at_head      # at_head(s, l) -> dict of immutable terms captured at the loop head (l0.h.<name> in lemmas/ghost_step)
        self.inv, self.modifies, self.snapshot = inv, modifies, snapshot
        self.fresh = fresh or {}
        self.lemmas, self.on_head, self.on_exit, self.ghost_step = lemmas, on_head, on_exit, ghost_step
        self.rebind = ()            # names (set by the contract after construction: L.rebind = ('args',)) havocked at the head although the body only MUTATES the object they are bound to (python list / set); needs Loop.fresh[name]
        self.keep = set(keep)       # syntactically assigned names that are NOT havocked (loop-local temporaries are fine to havoc; this is for names the contract proves are re-bound to the same object)


class SeqIter:
    """ghost state for iterating a symbolic sequence in index order"""

    def __init__(self, n, elt):
        self.n, self.elt = n, elt
        self.index = None

    def start(self, vc, k):
        self.index = z3.IntVal(0)

    def havoc(self, vc, k):
        self.index = vc.fresh_int('it%d' % k, size=True)
        vc.assume(self.index >= 0, self.index <= self.n)

    def has_next(self):
        return self.index < self.n

    def next(self, vc):
        return self.elt(self.index)

    def advance(self, vc):
        self.index = self.index + 1


class SetIter:
    """ghost state for iterating a finite set/dict in an unspecified order: a `visited` predicate"""

    def __init__(self, sort, dom, make):
        self.sort, self.dom, self.make = sort, dom, make   # dom(key_term)->Bool term; make(key_term)->loop target value
        self.visited = None
        self.cur = None

    def start(self, vc, k):
        self.visited = lambda key: z3.BoolVal(False)

    def havoc(self, vc, k):
        f = vc.fresh_fn('visited%d' % k, self.sort, z3.BoolSort())
        self.visited = lambda key: f(key)
        q = z3.Const('vk!%d' % next(vc._counter), self.sort)
        vc.assume(z3.ForAll([q], z3.Implies(f(q), self.dom(q))))

    def has_next(self):
        vc = cur()
        c = vc.fresh('node', self.sort)
        self._cand = c
        return z3.And(self.dom(c), z3.Not(self.visited(c)))

    def next(self, vc):
        self.cur = self._cand
        return self.make(self.cur)

    def advance(self, vc):
        old, c = self.visited, self.cur
        self.visited = lambda key: z3.Or(old(key), key == c)

    def done_fact(self, vc):
        q = z3.Const('vk!%d' % next(vc._counter), self.sort)
        return z3.ForAll([q], self.visited(q) == self.dom(q))


class Runtime:
    """The object bound to __vc__ inside the instrumented function."""

    def __init__(self, vc, contract, state):
        self.vc, self.c, self.s = vc, contract, state
        self.loopstate = {}

    # T1
    def is_(self, a, b):
        if b is None:
            return is_none(a)
        if a is None:
            return is_none(b)
        f = getattr(a, '_vc_is', None)
        if f is not None:
            return f(b)
        if isinstance(a, Sym) and isinstance(b, Sym) and a is not b and type(a) is type(b) and not isinstance(a, (SInt, SReal, SBool)):
            raise OutOfSubset('identity comparison of two symbolic objects')
        return a is b

    def is_not(self, a, b):
        r = self.is_(a, b)
        if isinstance(r, bool):
            return not r
        return ~r

    # T5
    def raised(self, exc):
        if isinstance(exc, type):
            exc = exc()
        try:
            exc._vc_explicit = True
        except Exception:
            pass
        return exc

    # T6
    def listcomp(self, it, elt, cond):
        f = getattr(it, '_vc_listcomp', None)
        if f is not None:
            return f(elt, cond)
        if cond is None:
            return [elt(x) for x in it]
        return [elt(x) for x in it if cond(x)]

    def dictcomp(self, it, key, val, cond):
        """T6d: a symbolic collection answers through `_vc_dictcomp`; for an ordinary iterable this IS the dict comprehension"""
        f = getattr(it, '_vc_dictcomp', None)
        if f is not None:
            return f(key, val, cond)
        if cond is None:
            return {key(x): val(x) for x in it}
        return {key(x): val(x) for x in it if cond(x)}

    def dictcomp_star(self, it, key, val, cond):
        """T6d with a tuple target: key / val / cond take the unpacked element"""
        return self.dictcomp(it, lambda x: key(*x), lambda x: val(*x), None if cond is None else (lambda x: cond(*x)))

    def listcomp_star(self, it, elt, cond):
        """T6 with a tuple target: elt / cond take the unpacked element"""
        return self.listcomp(it, lambda x: elt(*x), None if cond is None else (lambda x: cond(*x)))

    # T3
    def super_(self, obj):
        f = getattr(obj, '_vc_super', None)
        if f is None:
            raise OutOfSubset('super() on an object without a modelled base class')
        return f()

    # T2 ------------------------------------------------------------------ loops
    def _ls(self, k):
        return self.loopstate[k]

    def _locals_ns(self, k, loc, it=None):
        d = dict(loc)
        d.pop('__vc__', None)
        st = self.loopstate.get(k)
        l = NS(d)
        if st is not None:
            l.__dict__['it'] = st.get('it')
            l.__dict__['entry'] = st.get('entry')
        return l

    def _inv_facts(self, k, l):
        L = self.c.loops[k]
        out = []
        for i, f in enumerate(L.inv(self.s, l)):
            if isinstance(f, tuple):
                out.append((f[0], _z(f[1])))
            else:
                out.append(('#%d' % i, _z(f)))
        return out

    def loop_init(self, k, loc, it=None):
        vc = self.vc
        L = self.c.loops[k]
        st = {'it': it}
        self.loopstate[k] = st
        if it is not None:
            it.start(vc, k)
        l = self._locals_ns(k, loc)
        for nm, mk in L.fresh.items():
            if not l.has(nm):
                pass
        st['entry'] = NS(L.snapshot(self.s, l)) if L.snapshot else NS()
        l = self._locals_ns(k, loc)
        # names that are unbound at loop entry but that the invariant mentions get their declared initial form
        for nm, mk in L.fresh.items():
            if not l.has(nm):
                l.__dict__[nm] = mk('init')
        for nm, f in self._inv_facts(k, l):
            vc.oblige('inv-init[loop%d %s]' % (k, nm), f)

    def for_init(self, k, iterable, loc):
        it = make_iter(iterable)
        self.loop_init(k, loc, it)

    def havoc(self, k, name, loc):
        L = self.c.loops[k]
        if name in L.keep:
            if name in loc:
                return loc[name]
            raise OutOfSubset('loop %d: kept name %s unbound' % (k, name))
        if name in L.fresh:
            return L.fresh[name]('havoc')
        if name not in loc or loc[name] is _UNBOUND:
            return _UNBOUND
        v = loc[name]
        if v is None or isinstance(v, (bool, int, float, str)):
            v2 = lift(v) if isinstance(v, (bool, int, float)) else None
            if v2 is None:
                raise OutOfSubset('loop %d: cannot havoc local %s=%r; give Loop.fresh[%r]' % (k, name, v, name))
            return v2._vc_fresh_like(name)
        f = getattr(v, '_vc_fresh_like', None)
        if f is None:
            raise OutOfSubset('loop %d: cannot havoc local %s of type %s; give Loop.fresh[%r]' % (k, name, type(v).__name__, name))
        return f(name)

    def loop_head(self, k, loc):
        vc = self.vc
        L = self.c.loops[k]
        st = self._ls(k)
        l = self._locals_ns(k, loc)
        if L.modifies:
            for obj in L.modifies(self.s, l):
                obj._vc_havoc('loop%d' % k)
        if st['it'] is not None:
            st['it'].havoc(vc, k)
        l = self._locals_ns(k, loc)
        for nm, f in self._inv_facts(k, l):
            vc.assume(f)
        if L.on_head:
            L.on_head(self.s, l)
        if L.at_head:
            l.__dict__['h'] = NS(L.at_head(self.s, l))
        st['head'] = l
        st['head_pc_len'] = len(vc.pc)

    def for_has_next(self, k):
        st = self._ls(k)
        c = st['it'].has_next()
        r = self.vc.branch(c)
        if not r and isinstance(st['it'], SetIter):
            self.vc.assume(st['it'].done_fact(self.vc))
        if not r:
            L = self.c.loops[k]
            if L.on_exit:
                L.on_exit(self.s, st['head'])
        return r

    def for_next(self, k):
        return self._ls(k)['it'].next(self.vc)

    def loop_step(self, k, loc):
        vc = self.vc
        L = self.c.loops[k]
        st = self._ls(k)
        if st['it'] is not None:
            st['it'].advance(vc)
        l = self._locals_ns(k, loc)
        if L.ghost_step:
            L.ghost_step(self.s, st['head'], l)
        if L.lemmas:
            for f in L.lemmas(self.s, st['head'], l):
                vc.assume(f)
        for nm, f in self._inv_facts(k, l):
            vc.oblige('inv-step[loop%d %s]' % (k, nm), f)
        raise PathEnd()


class _Unbound:
    def __repr__(self):
        return '<unbound>'

    def __getattr__(self, k):
        raise OutOfSubset('use of a local that is unbound at the loop head')


_UNBOUND = _Unbound()


def make_iter(iterable):
    f = getattr(iterable, '_vc_iter', None)
    if f is not None:
        return f()
    if isinstance(iterable, range):         # a concrete range under a loop contract (some paths of a function have concrete bounds)
        r = iterable
        return SeqIter(z3.IntVal(len(r)), lambda i: SInt(z3.IntVal(r.start) + i * z3.IntVal(r.step)))
    raise OutOfSubset('loop contract over an iterable of type %s' % type(iterable).__name__)


# ---------------------------------------------------------------------- contracts
class Contract:
    target = None            # 'elfi/x.py::Class.method'
    prop = None
    label = None             # distinguishes several contracts of one function (e.g. case splits)
    fin = 5
    fin_range = None         # finitised quantifier range; default fin + 1 (set it when indices like n + b occur)
    options = {}
    loops = {}
    max_paths = 4000
    cover = True             # emit the must-fail vacuity probe at every normal exit

    def env(self, vc):
        """extra globals for the analysed function"""
        return {}

    def setup(self, vc):
        """-> (state NS, args tuple, kwargs dict); may fork (vc.fork_values)"""
        raise NotImplementedError

    def requires(self, s):
        return []

    def snapshot(self, s):
        return {}

    def ensures(self, s, result):
        return []

    def raises(self, s):
        """{ExceptionClassName: condition that must hold whenever it is raised}"""
        return {}

    def iff_raises(self, s):
        """facts that must hold at every NORMAL exit (negations of the `raises iff` conditions)"""
        return []

    def lemmas_at_exit(self, s, result):
        return []

    @property
    def cname(self):
        q = self.target.split('::')[1]
        return q + ('[%s]' % self.label if self.label else '')


class FunctionRun:
    """All obligations of one contract on the current working tree."""

    def __init__(self, contract, fin=None, repo=None):
        self.c = contract
        self.fin = fin
        self.repo = repo
        self.error = None
        self.vc = None
        self.stats = {}
        self.loc = None

    def generate(self):
        c = self.c
        t0 = time.time()
        try:
            self.loc = instrument.locate(c.target, self.repo)
            code, stats, text = instrument.instrument(self.loc, tuple(c.loops.keys()),
                                                      rebind={k: tuple(getattr(L, 'rebind', ())) for k, L in c.loops.items()},
                                                      comprehensions=getattr(c, 'comprehensions', False), genexps=getattr(c, 'genexps', False))
            self.stats = stats
            self.text = text
        except OutOfSubset as e:
            self.error = 'front end: %s' % e
            return self
        vc = VC('%s/%s' % (c.prop, c.cname), fin=self.fin, options=c.options, fin_range=getattr(c, 'fin_range', None))
        self.vc = vc
        from . import pyspec, npspec

        def run_once():
            g = _ResolvingGlobals(pyspec.make_globals())
            g['np'] = npspec.module()
            g['__vc_locals__'] = builtins.locals
            vc.g = g
            vc.inlined = []
            vc.resolved_from_tree = []
            vc.repo = self.repo
            s, args, kwargs = c.setup(vc)
            if not getattr(c, 'no_tree_fallback', False) and '::' in c.target and not c.target.startswith('@'):
                g._vc_setup(vc, c.target.split('::')[0], c.target.split('::')[1].split('.')[0].split('#')[0] if '.' not in c.target.split('::')[1] else None)
                if args:
                    _install_self_fallback(vc, c.target, args[0])
            vc._s = s                      # contract state, for env() / hooks that need it before requires() runs
            g.update(c.env(vc))
            vc.hooks = dict(c.hooks(s)) if hasattr(c, 'hooks') else {}
            rt = Runtime(vc, c, s)
            g['__vc__'] = rt
            s.__dict__['rt'] = rt
            exec(code, g)
            fn = g[self.loc.node.name]
            env_post = getattr(c, 'env_post', None)     # names re-bound AFTER the definition: a recursive function's own name -> Stub of its contract
            if env_post is not None:
                g.update(env_post(vc))
            for f in c.requires(s):
                vc.assume(f[1] if isinstance(f, tuple) else f)
            if not vc.feasible():
                raise Infeasible()
            s.__dict__['old'] = NS(c.snapshot(s))
            try:
                result = fn(*args, **kwargs)
            except PathEnd:
                raise
            except OutOfSubset:
                raise
            except (RecursionError, MemoryError):
                raise
            except Exception as e:      # an exception raised by the analysed code (or a spec function on its behalf)
                if not getattr(e, '_vc_explicit', False):
                    raise OutOfSubset('engine/spec error: %s: %s\n%s' % (type(e).__name__, e, traceback.format_exc(limit=6)))
                name = type(e).__name__
                allowed = c.raises(s)
                if name in allowed:
                    vc.oblige('raises[%s]' % name, allowed[name], note=str(e)[:80])
                else:
                    vc.oblige('raises[%s not allowed by the contract]' % name, z3.BoolVal(False), note=str(e)[:120])
                vc.exits.append(('raise:' + name, None, vc.path_id))
                return
            for f in c.lemmas_at_exit(s, result):
                vc.assume(f)
            for i, f in enumerate(c.iff_raises(s)):
                nm, g_ = f if isinstance(f, tuple) else ('#%d' % i, f)
                vc.oblige('post[no-raise: %s]' % nm, g_)
            for i, f in enumerate(c.ensures(s, result)):
                nm, g_ = f if isinstance(f, tuple) else ('#%d' % i, f)
                vc.oblige('post[%s]' % nm, g_)
            if c.cover:
                vc.oblige('cover[normal exit reachable]', z3.BoolVal(False), expect='sat')
            vc.exits.append(('return', result, vc.path_id))
        try:
            vc.explore(run_once, max_paths=c.max_paths)
        except OutOfSubset as e:
            self.error = 'out of subset: %s' % e
        except RecursionError as e:
            self.error = 'out of subset: recursion limit'
        self.gen_s = time.time() - t0
        # +inf is a real constant above every finite literal the code can mention (floats are < 1.8e308)
        vc.axioms = list(vc.axioms) + [npspec.INF > z3.RealVal(10) ** 300]
        # name the obligations: <prop>/<qualname>/<kind>#<n>
        counts = {}
        for o in vc.obligations:
            n = counts.get(o.kind, 0)
            counts[o.kind] = n + 1
            o.name = '%s/%s#%d' % (vc.func, o.kind, n)
        return self


def _from_analysed_code(e):
    tb = e.__traceback__
    while tb is not None:
        fn = tb.tb_frame.f_code.co_filename
        if fn.startswith('<pyvc:'):
            return True
        tb = tb.tb_next
    return False



# ---------------------------------------------------------------------- names an EDIT introduces: resolved from the tree
# A restructuring edit extracts a helper, adds a module-level table or a class constant.  The contract's environment
# cannot know such names in advance; without help the run ends in NameError / AttributeError = undecided.  The two
# fallbacks below resolve a name ONLY when the contract does not supply it, and only to what the tree itself defines:
#   * a `def` (module level, or a method / staticmethod / classmethod / property of the class under analysis or of a base
#     class in the same module) is the REAL function, instrumented and inlined;
#   * an assignment of a python literal is that literal - unless the object is mutable and the module mutates it or hands it
#     to a call somewhere: then it is STATE THAT SURVIVES BETWEEN CALLS, modelled by ModuleState (content unknown: reads
#     taint the path and leave the subset; stores / clear() are accepted);
#   * anything else stays unresolved (fail closed).
_MUTATORS = frozenset(('append', 'extend', 'insert', 'pop', 'remove', 'clear', 'update', 'setdefault', 'add', 'discard',
                       'popitem', 'sort', 'reverse', '__setitem__', '__delitem__'))
_IMMUTABLE = (int, float, complex, str, bytes, bool, type(None))


class ModuleState:
    """a module-level (or class-level) mutable object: its content is whatever earlier calls left there"""
    _vc_module_state = True

    def __init__(self, name):
        self._vc_name = name

    def _read(self, what):
        cur().taint('content of the shared mutable object `%s` left by earlier calls' % self._vc_name)
        raise OutOfSubset('read (%s) of the shared mutable object `%s`, whose content from earlier calls is unknown' % (what, self._vc_name))

    def __bool__(self):
        self._read('truthiness')

    def __len__(self):
        self._read('len')

    def __iter__(self):
        self._read('iteration')

    def __contains__(self, k):
        self._read('membership')

    def __getitem__(self, k):
        self._read('lookup')

    def get(self, *a):
        self._read('get')

    def pop(self, *a):
        self._read('pop')

    def setdefault(self, *a):
        self._read('setdefault')

    def __setitem__(self, k, v):
        pass

    def __delitem__(self, k):
        pass

    def clear(self):
        pass

    def update(self, *a, **k):
        pass

    def append(self, v):
        pass

    def add(self, v):
        pass


def _is_immutable_literal(v):
    if isinstance(v, _IMMUTABLE):
        return True
    if isinstance(v, (tuple, frozenset)):
        return all(_is_immutable_literal(x) for x in v)
    return False


_module_info_cache = {}


def _module_info(path, repo):
    import ast
    src, tree = instrument._parse(path, repo)
    key = (path, repo, hash(src))
    if key in _module_info_cache:
        return _module_info_cache[key]
    top, classes = {}, {}
    for n in tree.body:
        if isinstance(n, ast.FunctionDef):
            top[n.name] = ('def', n)
        elif isinstance(n, ast.ClassDef):
            classes[n.name] = n
        elif isinstance(n, ast.Assign) and len(n.targets) == 1 and isinstance(n.targets[0], ast.Name):
            top[n.targets[0].id] = ('assign', n.value)
        elif isinstance(n, ast.AnnAssign) and isinstance(n.target, ast.Name) and n.value is not None:
            top[n.target.id] = ('assign', n.value)
    shared = set()         # names / attribute names that are mutated, or handed to a call, somewhere in the module

    def base_name(x):
        if isinstance(x, ast.Name):
            return x.id
        if isinstance(x, ast.Attribute):
            return x.attr
        return None
    for x in ast.walk(tree):
        if isinstance(x, ast.Subscript) and isinstance(x.ctx, (ast.Store, ast.Del)):
            shared.add(base_name(x.value))
        elif isinstance(x, ast.Call):
            if isinstance(x.func, ast.Attribute) and x.func.attr in _MUTATORS:
                shared.add(base_name(x.func.value))
            for a in list(x.args) + [k.value for k in x.keywords]:
                if isinstance(a, ast.Starred):
                    a = a.value
                shared.add(base_name(a))
        elif isinstance(x, ast.Global):
            shared.update(x.names)
        elif isinstance(x, ast.AugAssign):
            shared.add(base_name(x.target))
    shared.discard(None)
    info = (top, classes, shared)
    _module_info_cache[key] = info
    return info


_UNRESOLVED = object()


def _literal_or_state(value_node, name, shared):
    import ast
    if isinstance(value_node, ast.Call) and isinstance(value_node.func, ast.Name) and value_node.func.id in ('dict', 'list', 'set') \
            and not value_node.args and not value_node.keywords:
        v = {'dict': dict, 'list': list, 'set': set}[value_node.func.id]()
    else:
        try:
            v = ast.literal_eval(value_node)
        except (ValueError, SyntaxError, TypeError, MemoryError, RecursionError):
            return _UNRESOLVED
    if _is_immutable_literal(v):
        return v
    if name in shared:
        return ModuleState(name)
    return v            # a table that the module only reads: a fresh copy of the literal per run


class _ResolvingGlobals(dict):
    """globals of the analysed function: a name the contract environment lacks is looked up at the top level of the
    analysed module in the tree (see the comment block above)"""

    def _vc_setup(self, vc, path, own_name):
        self._vc = (vc, path, own_name)

    def __missing__(self, name):
        st = getattr(self, '_vc', None)
        if st is None or name.startswith('__'):
            raise KeyError(name)
        vc, path, own_name = st
        top, classes, shared = _module_info(path, vc.repo)
        if name == own_name or name not in top:
            raise KeyError(name)
        kind, node = top[name]
        if kind == 'def':
            v = inline(vc, '%s::%s' % (path, name))
        else:
            v = _literal_or_state(node, name, shared)
            if v is _UNRESOLVED:
                raise KeyError(name)
        self[name] = v
        vc.resolved_from_tree.append('%s::%s' % (path, name))
        return v


def _class_chain(path, repo, clsname):
    """the ClassDef of `clsname` and of its base classes defined in the same module, in MRO-like order (single inheritance chains)"""
    import ast
    top, classes, shared = _module_info(path, repo)
    out, todo, seen = [], [clsname], set()
    while todo:
        c = todo.pop(0)
        if c in seen or c not in classes:
            continue
        seen.add(c)
        out.append(classes[c])
        todo.extend(b.id for b in classes[c].bases if isinstance(b, ast.Name))
    return out, shared


def _install_self_fallback(vc, target, obj):
    """stub `self` / `cls` made by make_object: a member the contract did not give it is looked up in the REAL class"""
    import ast
    if target.startswith('@') or '::' not in target:
        return
    path, qual = target.split('::')
    parts = [p.split('#')[0] for p in qual.split('.')]
    T = type(obj)
    if len(parts) < 2 or not T.__dict__.get('_vc_made') or any('__getattr__' in k.__dict__ for k in T.__mro__[:-1]):
        return
    clsname = parts[-2]

    def __getattr__(self, k):
        if k.startswith('__') or k.startswith('_vc_'):
            raise AttributeError(k)
        v = cur()
        chain, shared = _class_chain(path, v.repo, clsname)
        for cd in chain:
            hit = None
            for st in cd.body:
                if isinstance(st, ast.FunctionDef) and st.name == k:
                    hit = st            # last definition wins
                elif isinstance(st, ast.Assign) and len(st.targets) == 1 and isinstance(st.targets[0], ast.Name) and st.targets[0].id == k:
                    hit = st
            if hit is None:
                continue
            if isinstance(hit, ast.Assign):
                val = _literal_or_state(hit.value, k, shared)
                if val is _UNRESOLVED:
                    raise AttributeError(k)
                v.resolved_from_tree.append('%s::%s.%s' % (path, cd.name, k))
                return val
            decos = [d.id if isinstance(d, ast.Name) else (d.attr if isinstance(d, ast.Attribute) else '?') for d in hit.decorator_list]
            if any(d not in ('staticmethod', 'classmethod', 'property') for d in decos):
                raise AttributeError(k)         # an unknown decorator: fail closed
            fn = inline(v, '%s::%s.%s' % (path, cd.name, k))
            v.resolved_from_tree.append('%s::%s.%s' % (path, cd.name, k))
            if 'staticmethod' in decos:
                return fn
            if 'property' in decos:
                return fn(self)
            return types.MethodType(fn, self)       # plain method or classmethod: the stub plays both roles
        raise AttributeError(k)
    T.__getattr__ = __getattr__


class Stub:
    """Modular call: a callee under contract, seen from a caller.  `spec` is a plain function
    spec(vc, *args, **kwargs) that obliges the callee's preconditions (call-pre), havocs what it
    modifies and returns a value constrained by its postcondition.  The same facts are what the
    callee's own Contract proves; `checked_by` names that contract so reports can show the chain."""

    def __init__(self, name, spec, checked_by=None):
        self.name, self.spec, self.checked_by = name, spec, checked_by
        self.calls = 0

    def __call__(self, *a, **kw):
        vc = cur()
        vc.libcall('stub:' + self.name, (a, kw))
        return self.spec(vc, *a, **kw)


_inline_cache = {}


def inline(vc, target):
    """the REAL function `target`, instrumented (no loop cutting: its loops must be concrete) and compiled in the
    spec environment of the current run - for tiny helpers/properties that a contract wants executed, not stubbed"""
    key = (target, vc.repo, id(vc))
    loc = instrument.locate(target, vc.repo)
    ck = (target, loc.sha256)
    if ck not in _inline_cache:
        code, stats, text = instrument.instrument(loc, ())
        _inline_cache[ck] = (code, stats)
    code, stats = _inline_cache[ck]
    ns = dict(vc.g)
    exec(code, vc.g, ns)
    fn = ns[loc.node.name]
    if not any(t == target for t, _ in vc.inlined):
        vc.inlined.append((target, loc.sha256))
    return fn


def make_object(name, attrs=None, methods=None, properties=None, bases=()):
    """a stub `self`: plain attributes, bound methods (stubs or inlined real functions) and properties"""
    d = {}
    for k, f in (properties or {}).items():
        d[k] = property(f)
    for k, f in (methods or {}).items():
        d[k] = f
    d['_vc_made'] = True
    cls = type(name, tuple(bases) or (object,), d)
    o = cls.__new__(cls)
    for k, v in (attrs or {}).items():
        setattr(o, k, v)
    return o
