"""Extended reals for properties that speak about -inf / +inf / NaN values (C09: log-targets).

A value is  finite(v) | +inf | -inf | nan :  `XReal(tag, v)` with `tag` a term of the enumeration sort
XTag and `v` a Real term that is meaningful only when tag = FIN.  Arithmetic, comparisons, exp, isinf /
isnan / isfinite follow IEEE-754 for the TAGS (nan is absorbing, inf - inf = nan, 0 * inf = nan, every
comparison with nan is False, exp(-inf) = 0, exp(+inf) = +inf); finite values are mathematical reals
(A-REAL: no rounding, no overflow of a finite result to inf, no underflow of exp to 0).
`sanity()` runs the same tag tables against the installed numpy.

The functions isinf / isnan / isfinite / exp / xmin / xfloat accept XReal and fall back to the ordinary
spec functions of pyvc.npspec / pyvc.pyspec for everything else, so a contract can put them into the
analysed function's environment (`npspec.module(extra=NP_EXTRA)`, `float`, `min`)."""
import z3

from .core import cur, OutOfSubset
from .values import Sym, SInt, SReal, SBool, SNum, lift, RealS

XTag, (FIN, PINF, NINF, NAN) = z3.EnumSort('XTag', ['FIN', 'PINF', 'NINF', 'NAN'])


def _simp(t):
    return z3.simplify(t)


class XReal(Sym):
    __slots__ = ('tag', 'v')

    def __init__(self, tag, v):
        self.tag, self.v = tag, v
        self.t = None

    # ------------------------------------------------------------ constructors
    @staticmethod
    def fin(v):
        return XReal(FIN, v)

    @staticmethod
    def fresh(name, vc=None):
        vc = vc or cur()
        return XReal(vc.fresh(name + '.tag', XTag), vc.fresh(name + '.val', RealS))

    @staticmethod
    def of(o):
        """python / numpy float (also inf, nan), int, SInt, SReal, XReal -> XReal; None if not a scalar number"""
        if isinstance(o, XReal):
            return o
        if isinstance(o, SBool):
            o = o._as_int()
        if isinstance(o, SInt):
            return XReal(FIN, z3.ToReal(o.t))
        if isinstance(o, SReal):
            return XReal(FIN, o.t)
        if isinstance(o, bool):
            return XReal(FIN, z3.RealVal(int(o)))
        if isinstance(o, int):
            return XReal(FIN, z3.RealVal(o))
        try:
            import numpy as _np
            if isinstance(o, (_np.floating, _np.integer)):
                o = o.item()
        except ImportError:
            pass
        if isinstance(o, int):
            return XReal(FIN, z3.RealVal(o))
        if isinstance(o, float):
            if o != o:
                return XReal(NAN, z3.RealVal(0))
            if o == float('inf'):
                return XReal(PINF, z3.RealVal(0))
            if o == float('-inf'):
                return XReal(NINF, z3.RealVal(0))
            return XReal(FIN, z3.RealVal(repr(o)))
        return None

    # ------------------------------------------------------------ tag predicates (z3 Bool terms)
    @property
    def is_fin(self):
        return _simp(self.tag == FIN)

    @property
    def is_pinf(self):
        return _simp(self.tag == PINF)

    @property
    def is_ninf(self):
        return _simp(self.tag == NINF)

    @property
    def is_nan(self):
        return _simp(self.tag == NAN)

    @property
    def is_inf(self):
        return _simp(z3.Or(self.tag == PINF, self.tag == NINF))

    def eq_term(self, o):
        """identity of the two extended reals as VALUES (nan equals nan) - for contracts, not for the analysed code"""
        return z3.And(self.tag == o.tag, z3.Implies(self.tag == FIN, self.v == o.v))

    # ------------------------------------------------------------ arithmetic
    def __neg__(self):
        return XReal(_simp(z3.If(self.tag == PINF, NINF, z3.If(self.tag == NINF, PINF, self.tag))), -self.v)

    def _add(a, b):
        if z3.is_true(a.is_fin) and z3.is_true(b.is_fin):
            return XReal(FIN, a.v + b.v)
        nan = z3.Or(a.tag == NAN, b.tag == NAN, z3.And(a.tag == PINF, b.tag == NINF), z3.And(a.tag == NINF, b.tag == PINF))
        tag = z3.If(nan, NAN, z3.If(z3.Or(a.tag == PINF, b.tag == PINF), PINF, z3.If(z3.Or(a.tag == NINF, b.tag == NINF), NINF, FIN)))
        return XReal(_simp(tag), a.v + b.v)

    def _mul(a, b):
        if z3.is_true(a.is_fin) and z3.is_true(b.is_fin):
            return XReal(FIN, a.v * b.v)
        a_inf, b_inf = z3.Or(a.tag == PINF, a.tag == NINF), z3.Or(b.tag == PINF, b.tag == NINF)
        a_zero, b_zero = z3.And(a.tag == FIN, a.v == 0), z3.And(b.tag == FIN, b.v == 0)
        a_neg = z3.Or(a.tag == NINF, z3.And(a.tag == FIN, a.v < 0))
        b_neg = z3.Or(b.tag == NINF, z3.And(b.tag == FIN, b.v < 0))
        nan = z3.Or(a.tag == NAN, b.tag == NAN, z3.And(a_inf, b_zero), z3.And(b_inf, a_zero))
        tag = z3.If(nan, NAN, z3.If(z3.Or(a_inf, b_inf), z3.If(a_neg == b_neg, PINF, NINF), FIN))
        return XReal(_simp(tag), a.v * b.v)

    def _bin(self, o, f, rev=False):
        x = XReal.of(o)
        if x is None:
            return NotImplemented
        return f(x, self) if rev else f(self, x)

    def __add__(self, o): return self._bin(o, XReal._add)
    def __radd__(self, o): return self._bin(o, XReal._add, True)
    def __sub__(self, o): return self._bin(o, lambda a, b: XReal._add(a, -b))
    def __rsub__(self, o): return self._bin(o, lambda a, b: XReal._add(a, -b), True)
    def __mul__(self, o): return self._bin(o, XReal._mul)
    def __rmul__(self, o): return self._bin(o, XReal._mul, True)

    def __truediv__(self, o):
        raise OutOfSubset('division of extended reals')

    __rtruediv__ = __truediv__

    # ------------------------------------------------------------ IEEE comparisons (False whenever a nan is involved)
    @staticmethod
    def lt(a, b):
        return z3.And(a.tag != NAN, b.tag != NAN,
                      z3.Or(z3.And(a.tag == NINF, b.tag != NINF), z3.And(b.tag == PINF, a.tag != PINF),
                            z3.And(a.tag == FIN, b.tag == FIN, a.v < b.v)))

    @staticmethod
    def le(a, b):
        return z3.And(a.tag != NAN, b.tag != NAN,
                      z3.Or(a.tag == NINF, b.tag == PINF, z3.And(a.tag == FIN, b.tag == FIN, a.v <= b.v)))

    @staticmethod
    def eq(a, b):
        return z3.And(a.tag != NAN, b.tag != NAN, z3.Or(z3.And(a.tag == b.tag, a.tag != FIN), z3.And(a.tag == FIN, b.tag == FIN, a.v == b.v)))

    def _cmp(self, o, f, rev=False):
        x = XReal.of(o)
        if x is None:
            return NotImplemented
        return SBool(_simp(f(x, self) if rev else f(self, x)))

    def __lt__(self, o): return self._cmp(o, XReal.lt)
    def __le__(self, o): return self._cmp(o, XReal.le)
    def __gt__(self, o): return self._cmp(o, XReal.lt, True)
    def __ge__(self, o): return self._cmp(o, XReal.le, True)

    def __eq__(self, o):
        if o is None:
            return False
        return self._cmp(o, XReal.eq)

    def __ne__(self, o):
        if o is None:
            return True
        r = self._cmp(o, XReal.eq)
        return r if r is NotImplemented else ~r

    __hash__ = Sym.__hash__

    def __bool__(self):
        raise OutOfSubset('truth value of an extended real')

    def __float__(self):
        raise OutOfSubset('float() of an extended real through the C slot')

    def _vc_fresh_like(self, name):
        return XReal.fresh(name)

    def __repr__(self):
        return 'XReal(%s,%s)' % (self.tag, z3.simplify(self.v))

    def __format__(self, spec):
        return repr(self)

    def as_real(self, why='extended real used as a real number'):
        """the finite value, with the obligation that the value IS finite"""
        cur().oblige('call-pre[%s: finite]' % why, self.tag == FIN)
        return SReal(self.v)


class XFun:
    """uninterpreted function into the extended reals: f(args) = (tag(args), val(args))"""

    def __init__(self, name, *arg_sorts):
        self.tagf = z3.Function(name + '.tag', *(list(arg_sorts) + [XTag]))
        self.valf = z3.Function(name + '.val', *(list(arg_sorts) + [RealS]))

    def __call__(self, *args):
        return XReal(self.tagf(*args), self.valf(*args))


# ---------------------------------------------------------------- numpy / builtins over extended reals
def isinf(x):
    if isinstance(x, XReal):
        return SBool(x.is_inf)
    from . import npspec
    return npspec.isinf(x)


def isnan(x):
    if isinstance(x, XReal):
        return SBool(x.is_nan)
    from . import npspec
    return npspec.isnan(x)


def isfinite(x):
    if isinstance(x, XReal):
        return SBool(x.is_fin)
    from . import npspec
    return npspec.isfinite(x)


def exp(x):
    """exp(nan)=nan, exp(+inf)=+inf, exp(-inf)=0, exp(finite v) = finite exp(v) > 0"""
    from . import npspec
    if not isinstance(x, XReal):
        return npspec.exp(x)
    if z3.is_true(x.is_fin):
        return XReal(FIN, npspec.exp(SReal(x.v)).t)
    e = npspec._exp(x.v)
    cur().assume(e > 0)
    return _exp_parts(x, e)


def _exp_parts(x, e):
    return XReal(_simp(z3.If(x.tag == NINF, FIN, x.tag)), z3.If(x.tag == NINF, z3.RealVal(0), e))


def xmin(*a, **kw):
    """python's min(a, b) = b if b < a else a  (so min(1., nan) = 1.)"""
    from . import pyspec
    if len(a) == 2 and not kw and (isinstance(a[0], XReal) or isinstance(a[1], XReal)):
        p, q = XReal.of(a[0]), XReal.of(a[1])
        if p is None or q is None:
            raise OutOfSubset('min of an extended real and %r' % (a,))
        c = XReal.lt(q, p)
        return XReal(_simp(z3.If(c, q.tag, p.tag)), z3.If(c, q.v, p.v))
    return pyspec.vc_min(*a, **kw)


def xfloat(x=0.0):
    """float(): identity on extended reals, 0/1 on booleans, pyspec.vc_float otherwise"""
    from . import pyspec
    if isinstance(x, XReal):
        return x
    if isinstance(x, SBool):
        return SReal(z3.If(x.t, z3.RealVal(1), z3.RealVal(0)))
    if isinstance(x, bool):
        return float(x)
    return pyspec.vc_float(x)


xfloat._vc_models = float

NP_EXTRA = dict(isinf=isinf, isnan=isnan, isfinite=isfinite, exp=exp)


# ---------------------------------------------------------------- sanity of the tag tables against the installed numpy
def sanity():
    """evaluate the symbolic tables on concrete operands and compare with numpy's IEEE behaviour"""
    import itertools
    import numpy as np
    vals = [0.0, 1.5, -2.0, float('inf'), float('-inf'), float('nan')]

    def tag_of(f):
        return 'NAN' if f != f else 'PINF' if f == float('inf') else 'NINF' if f == float('-inf') else 'FIN'

    def conc(x):
        tag = str(z3.simplify(x.tag))
        if tag != 'FIN':
            return tag, None
        v = z3.simplify(x.v)
        return tag, float(v.as_fraction()) if z3.is_rational_value(v) else None

    ok_arith = ok_cmp = ok_un = True
    with np.errstate(all='ignore'):
        for p, q in itertools.product(vals, vals):
            a, b = XReal.of(p), XReal.of(q)
            for sym, ref in ((a + b, np.float64(p) + np.float64(q)), (a - b, np.float64(p) - np.float64(q)), (a * b, np.float64(p) * np.float64(q))):
                t, v = conc(sym)
                if t != tag_of(float(ref)) or (t == 'FIN' and abs(v - float(ref)) > 1e-12):
                    ok_arith = False
            for sym, ref in ((a < b, p < q), (a <= b, p <= q), (a > b, p > q), (a >= b, p >= q), (a == b, p == q), (a != b, p != q)):
                if z3.is_true(z3.simplify(sym.t)) != bool(ref):
                    ok_cmp = False
            t, v = conc(xmin(p, b))
            ref = min(p, q)
            if t != tag_of(ref) or (t == 'FIN' and abs(v - ref) > 1e-12):
                ok_un = False
        for p in vals:
            a = XReal.of(p)
            if z3.is_true(a.is_inf) != bool(np.isinf(p)) or z3.is_true(a.is_nan) != bool(np.isnan(p)) or z3.is_true(a.is_fin) != bool(np.isfinite(p)):
                ok_un = False
            if tag_of(-p) != conc(-a)[0]:
                ok_un = False
        # exp on the non-finite tags (finite arguments give an uninterpreted positive value)
        for p in (float('inf'), float('-inf'), float('nan')):
            a = XReal.of(p)
            t, v = conc(_exp_parts(a, z3.RealVal(1)))
            r = float(np.exp(p))
            if t != tag_of(r) or (t == 'FIN' and v != r):
                ok_un = False
    return [('extreal: + - * tag tables = numpy IEEE', ok_arith), ('extreal: comparisons with nan/inf = numpy IEEE', ok_cmp),
            ('extreal: isinf/isnan/isfinite/neg/min/exp(non-finite) = numpy', ok_un)]
