"""Front end: reads a function from /repo's working tree, applies the MECHANICAL transformations
listed below, compiles it.  The compiled object is the real function body; nothing is transcribed.

Transformations (complete list - the evidence file reports the counts per function):
  D1  docstring expression statements are dropped
  D2  expression statements calling logger.<level>(...), print(...), warnings.warn(...),
      self.progress_bar.*(...) are dropped (assumption A-LOG: logging has no effect on program state)
  T1  `a is b` / `a is not b`  ->  __vc__.is_(a, b) / __vc__.is_not(a, b)   (python's `is` cannot be
      observed by a proxy; for non-proxy operands the helper IS python's `is`)
  T2  a `while` / `for` loop that has a loop contract (keyed by its ordinal in source order) is cut
      at its invariant: inv-init obligation, havoc of the syntactically assigned names and of the
      heap objects named by the contract, assume invariant, ONE symbolic iteration, inv-step obligation.
      `continue` inside such a loop becomes the inv-step check; `break` leaves the loop with the state it has.
      Loops without a loop contract are executed natively by CPython (concrete iteration only; a
      symbolic iterable raises OutOfSubset).
  T3  `super()` -> __vc__.super_(self) (zero-argument super needs a class cell that a re-compiled
      function does not have)
  T5  `raise X` -> `raise __vc__.raised(X)` and `assert t, m` -> `if not t: raise __vc__.raised(AssertionError(m))`:
      only exceptions raised EXPLICITLY by the analysed code (or deliberately by a spec function) are
      program behaviour; any other exception escaping the run is an engine limit (OutOfSubset, undecided).
  T6  (opt-in per contract, `comprehensions = True`) a single-generator list comprehension with a plain name target
      `[elt for x in it if c]` -> `__vc__.listcomp(it, lambda x: elt, lambda x: c)`; for an ordinary iterable the helper
      IS that comprehension, a symbolic collection answers through `_vc_listcomp`.  With `comprehensions = 'tuple'` also
      `[elt for a, b in it if c]` -> `__vc__.listcomp_star(it, lambda a, b: elt, lambda a, b: c)`.
      T6d: under the same opt-in a single-generator dict comprehension `{k: v for x in it if c}` -> `__vc__.dictcomp(it, lambda x: k, lambda x: v, lambda x: c)`.
      T6g: opt-in `genexps = True`: a single-generator generator expression is evaluated as the list comprehension with the same parts.
  T4  global names are resolved in the spec environment (numpy -> pyvc.npspec, builtins ->
      pyvc.pyspec, plus what the contract supplies); an unknown global raises OutOfSubset.
"""
import ast
import hashlib
import os
import textwrap

from .core import OutOfSubset

REPO = os.environ.get('PYVC_REPO', '/repo')

LOG_FUNCS = {'debug', 'info', 'warning', 'error', 'critical', 'exception', 'warn'}


class Located:
    def __init__(self, path, qualname, node, source, cls_node):
        self.path, self.qualname, self.node, self.source, self.cls_node = path, qualname, node, source, cls_node
        self.sha256 = hashlib.sha256(source.encode()).hexdigest()
        self.lineno = node.lineno


_file_cache = {}


def _parse(path, repo=None):
    if path.startswith('@verif/'):      # ghost lemma functions live in /verif/lemmas (they are not repository code)
        full = os.path.join(os.path.dirname(os.path.dirname(os.path.abspath(__file__))), path[7:])
    else:
        full = os.path.join(repo or os.environ.get('PYVC_REPO') or REPO, path)
    st = os.stat(full)
    key = (full, st.st_mtime_ns, st.st_size)
    if key not in _file_cache:
        src = open(full).read()
        _file_cache[key] = (src, ast.parse(src))
    return _file_cache[key]


def locate(spec, repo=None):
    """spec = 'elfi/utils.py::get_sub_seed' or 'elfi/client.py::BatchHandler.wait_next'"""
    path, qual = spec.split('::')
    src, tree = _parse(path, repo)
    parts = qual.split('.')
    body, cls = tree.body, None
    node = None
    for i, p in enumerate(parts):
        found = None
        want = None
        if '#' in p:            # 'name#k': the k-th definition of that name in source order (property getter #0, setter #1)
            p, want = p.split('#')
            want = int(want)
        seen_defs = 0
        for n in body:
            if isinstance(n, (ast.FunctionDef, ast.ClassDef)) and n.name == p:
                if want is None or seen_defs == want:
                    found = n       # last definition wins, as in python (unless #k selects one)
                seen_defs += 1
        if found is None:
            raise OutOfSubset('cannot locate %s in %s' % (qual, path))
        if isinstance(found, ast.ClassDef) and i < len(parts) - 1:
            cls = found
        body, node = found.body, found
    seg = ast.get_source_segment(src, node)
    return Located(path, qual, node, seg, cls)


def _is_log_call(stmt):
    if not (isinstance(stmt, ast.Expr) and isinstance(stmt.value, ast.Call)):
        return False
    f = stmt.value.func
    if isinstance(f, ast.Name) and f.id == 'print':
        return True
    if isinstance(f, ast.Attribute):
        if f.attr in LOG_FUNCS and isinstance(f.value, ast.Name) and f.value.id in ('logger', 'logging', 'warnings', 'log'):
            return True
        v = f.value
        if isinstance(v, ast.Attribute) and v.attr == 'progress_bar':
            return True
    return False


def loops_in_source_order(fn):
    loops = []

    def visit(n):
        for c in ast.iter_child_nodes(n):
            if isinstance(c, (ast.FunctionDef, ast.Lambda, ast.ClassDef)) and c is not fn:
                continue
            if isinstance(c, (ast.While, ast.For)):
                loops.append(c)
            visit(c)
    visit(fn)
    loops.sort(key=lambda n: (n.lineno, n.col_offset))
    return loops


def assigned_names(stmts):
    names = []

    def tgt(t):
        if isinstance(t, ast.Name):
            if t.id not in names:
                names.append(t.id)
        elif isinstance(t, (ast.Tuple, ast.List)):
            for e in t.elts:
                tgt(e)
        elif isinstance(t, ast.Starred):
            tgt(t.value)

    class V(ast.NodeVisitor):
        def visit_Assign(self, n):
            for t in n.targets:
                tgt(t)
            self.generic_visit(n)

        def visit_AugAssign(self, n):
            tgt(n.target)
            self.generic_visit(n)

        def visit_AnnAssign(self, n):
            tgt(n.target)
            self.generic_visit(n)

        def visit_For(self, n):
            tgt(n.target)
            self.generic_visit(n)

        def visit_NamedExpr(self, n):
            tgt(n.target)
            self.generic_visit(n)

        def visit_With(self, n):
            for it in n.items:
                if it.optional_vars is not None:
                    tgt(it.optional_vars)
            self.generic_visit(n)

        def visit_FunctionDef(self, n):
            pass

        def visit_Lambda(self, n):
            pass
    v = V()
    for s in stmts:
        v.visit(s)
    return names


def _call(attr, *args):
    return ast.Call(func=ast.Attribute(value=ast.Name(id='__vc__', ctx=ast.Load()), attr=attr, ctx=ast.Load()),
                    args=list(args), keywords=[])


def _locals():
    return ast.Call(func=ast.Name(id='__vc_locals__', ctx=ast.Load()), args=[], keywords=[])


class Transformer(ast.NodeTransformer):
    def __init__(self, fn, loop_ordinals_to_cut, rebind=None, comprehensions=False, genexps=False):
        self.fn = fn
        self.genexps = genexps
        self.rebind = rebind or {}          # {loop ordinal: names havocked at the head although not syntactically assigned (Loop.rebind)}
        self.comprehensions = comprehensions
        self.ordinal = {id(n): k for k, n in enumerate(loops_in_source_order(fn))}
        self.cut = set(loop_ordinals_to_cut)
        self.stats = dict(stmts_read=0, dropped_docstrings=0, dropped_log_calls=0, is_rewrites=0, loops_cut=0,
                          loops_native=0, super_rewrites=0)
        self.loop_stack = []

    # ---- statements
    def _block(self, stmts):
        out = []
        for i, s in enumerate(stmts):
            self.stats['stmts_read'] += 1
            if isinstance(s, ast.Expr) and isinstance(s.value, ast.Constant) and isinstance(s.value.value, str):
                self.stats['dropped_docstrings'] += 1
                continue
            if _is_log_call(s):
                self.stats['dropped_log_calls'] += 1
                continue
            r = self.visit(s)
            if isinstance(r, list):
                out.extend(r)
            elif r is not None:
                out.append(r)
        return out or [ast.Pass()]

    def generic_visit(self, node):
        for field, old in ast.iter_fields(node):
            if isinstance(old, list):
                if old and isinstance(old[0], ast.stmt):
                    setattr(node, field, self._block(old))
                else:
                    new = []
                    for v in old:
                        if isinstance(v, ast.AST):
                            v = self.visit(v)
                            if v is None:
                                continue
                        new.append(v)
                    setattr(node, field, new)
            elif isinstance(old, ast.AST):
                new = self.visit(old)
                setattr(node, field, new)
        return node

    def visit_FunctionDef(self, node):
        if node is not self.fn:
            # nested function: transformed in place (T1 etc.), loops inside are native
            saved = self.loop_stack
            self.loop_stack = []
            self.generic_visit(node)
            self.loop_stack = saved
            return node
        for d in node.decorator_list:
            # binding decorators are made explicit by the contract (it passes self / cls itself); any other decorator
            # (functools.lru_cache, a registry, ...) changes behaviour and cannot be dropped: fail closed
            nm = d.id if isinstance(d, ast.Name) else (d.attr if isinstance(d, ast.Attribute) else None)
            if nm not in ('staticmethod', 'classmethod', 'property', 'setter', 'getter', 'abstractmethod'):
                raise OutOfSubset('decorator %s on %s changes behaviour and is not modelled' % (ast.unparse(d), node.name))
        node.decorator_list = []
        node.returns = None
        for a in node.args.args + node.args.kwonlyargs + node.args.posonlyargs:
            a.annotation = None
        self.generic_visit(node)
        return node

    def visit_Compare(self, node):
        self.generic_visit(node)
        if len(node.ops) == 1 and isinstance(node.ops[0], (ast.Is, ast.IsNot)):
            self.stats['is_rewrites'] += 1
            return _call('is_' if isinstance(node.ops[0], ast.Is) else 'is_not', node.left, node.comparators[0])
        if any(isinstance(o, (ast.Is, ast.IsNot)) for o in node.ops):
            raise OutOfSubset('chained `is` comparison')
        return node

    def visit_Call(self, node):
        self.generic_visit(node)
        if isinstance(node.func, ast.Name) and node.func.id == 'super' and not node.args:
            self.stats['super_rewrites'] += 1
            return _call('super_', ast.Name(id='self', ctx=ast.Load()))
        return node

    def visit_ListComp(self, node):
        # T6 (opt-in, Contract.comprehensions): [elt for x in it if c] -> __vc__.listcomp(it, lambda x: elt, lambda x: c)
        self.generic_visit(node)
        if not self.comprehensions or len(node.generators) != 1:
            return node
        g = node.generators[0]
        if (not g.is_async and self.comprehensions == 'tuple' and isinstance(g.target, ast.Tuple)
                and all(isinstance(e, ast.Name) for e in g.target.elts)):
            # T6 with a tuple target (opt-in: comprehensions = 'tuple'): [elt for a, b in it] -> __vc__.listcomp_star(it, lambda a, b: elt, cond)
            self.stats['comprehensions'] = self.stats.get('comprehensions', 0) + 1
            targs = ast.arguments(posonlyargs=[], args=[ast.arg(arg=e.id) for e in g.target.elts], kwonlyargs=[], kw_defaults=[], defaults=[])
            tcond = ast.Constant(None)
            if g.ifs:
                ttest = g.ifs[0] if len(g.ifs) == 1 else ast.BoolOp(op=ast.And(), values=list(g.ifs))
                tcond = ast.Lambda(args=targs, body=ttest)
            return _call('listcomp_star', g.iter, ast.Lambda(args=targs, body=node.elt), tcond)
        if g.is_async or not isinstance(g.target, ast.Name):
            return node
        self.stats['comprehensions'] = self.stats.get('comprehensions', 0) + 1
        args = ast.arguments(posonlyargs=[], args=[ast.arg(arg=g.target.id)], kwonlyargs=[], kw_defaults=[], defaults=[])
        cond = ast.Constant(None)
        if g.ifs:
            test = g.ifs[0] if len(g.ifs) == 1 else ast.BoolOp(op=ast.And(), values=list(g.ifs))
            cond = ast.Lambda(args=args, body=test)
        return _call('listcomp', g.iter, ast.Lambda(args=args, body=node.elt), cond)

    def visit_DictComp(self, node):
        # T6d (opt-in with Contract.comprehensions): {k: v for x in it if c} -> __vc__.dictcomp(it, lambda x: k, lambda x: v, lambda x: c)
        self.generic_visit(node)
        if not self.comprehensions or len(node.generators) != 1:
            return node
        g = node.generators[0]
        if (not g.is_async and self.comprehensions == 'tuple' and isinstance(g.target, ast.Tuple)
                and all(isinstance(e, ast.Name) for e in g.target.elts)):
            self.stats['comprehensions'] = self.stats.get('comprehensions', 0) + 1
            targs = ast.arguments(posonlyargs=[], args=[ast.arg(arg=e.id) for e in g.target.elts], kwonlyargs=[], kw_defaults=[], defaults=[])
            tcond = ast.Constant(None)
            if g.ifs:
                ttest = g.ifs[0] if len(g.ifs) == 1 else ast.BoolOp(op=ast.And(), values=list(g.ifs))
                tcond = ast.Lambda(args=targs, body=ttest)
            return _call('dictcomp_star', g.iter, ast.Lambda(args=targs, body=node.key), ast.Lambda(args=targs, body=node.value), tcond)
        if g.is_async or not isinstance(g.target, ast.Name):
            return node
        self.stats['comprehensions'] = self.stats.get('comprehensions', 0) + 1
        args = ast.arguments(posonlyargs=[], args=[ast.arg(arg=g.target.id)], kwonlyargs=[], kw_defaults=[], defaults=[])
        cond = ast.Constant(None)
        if g.ifs:
            test = g.ifs[0] if len(g.ifs) == 1 else ast.BoolOp(op=ast.And(), values=list(g.ifs))
            cond = ast.Lambda(args=args, body=test)
        return _call('dictcomp', g.iter, ast.Lambda(args=args, body=node.key), ast.Lambda(args=args, body=node.value), cond)

    def visit_GeneratorExp(self, node):
        # T6g (opt-in, Contract.genexps = True): a single-generator generator expression with a plain name target is evaluated like the
        # list comprehension with the same parts (it is consumed completely by the call it is the argument of; only laziness differs)
        self.generic_visit(node)
        if not self.genexps or len(node.generators) != 1:
            return node
        g = node.generators[0]
        if g.is_async or not isinstance(g.target, ast.Name):
            return node
        self.stats['genexps'] = self.stats.get('genexps', 0) + 1
        args = ast.arguments(posonlyargs=[], args=[ast.arg(arg=g.target.id)], kwonlyargs=[], kw_defaults=[], defaults=[])
        cond = ast.Constant(None)
        if g.ifs:
            test = g.ifs[0] if len(g.ifs) == 1 else ast.BoolOp(op=ast.And(), values=list(g.ifs))
            cond = ast.Lambda(args=args, body=test)
        return _call('listcomp', g.iter, ast.Lambda(args=args, body=node.elt), cond)

    def visit_Raise(self, node):
        self.generic_visit(node)
        if node.exc is not None:
            node.exc = _call('raised', node.exc)
        return node

    def visit_Assert(self, node):
        self.generic_visit(node)
        exc = ast.Call(func=ast.Name(id='AssertionError', ctx=ast.Load()), args=[node.msg] if node.msg else [], keywords=[])
        return ast.If(test=ast.UnaryOp(op=ast.Not(), operand=node.test),
                      body=[ast.Raise(exc=_call('raised', exc), cause=None)], orelse=[])

    def visit_Continue(self, node):
        if self.loop_stack and self.loop_stack[-1] is not None:
            k = self.loop_stack[-1]
            return ast.Expr(value=_call('loop_step', ast.Constant(k), _locals()))
        return node

    def visit_While(self, node):
        k = self.ordinal[id(node)]
        if k not in self.cut:
            self.stats['loops_native'] += 1
            self.loop_stack.append(None)
            self.generic_visit(node)
            self.loop_stack.pop()
            return node
        self.stats['loops_cut'] += 1
        names = assigned_names(node.body)
        names = names + [n for n in self.rebind.get(k, ()) if n not in names]
        test = self.visit(node.test)
        self.loop_stack.append(k)
        body = self._block(node.body)
        self.loop_stack.pop()
        orelse = self._block(node.orelse) if node.orelse else []
        K = ast.Constant(k)
        pre = [ast.Expr(value=_call('loop_init', K, _locals()))]
        for nm in names:
            pre.append(ast.Assign(targets=[ast.Name(id=nm, ctx=ast.Store())],
                                  value=_call('havoc', K, ast.Constant(nm), _locals())))
        pre.append(ast.Expr(value=_call('loop_head', K, _locals())))
        inner = ast.If(test=test, body=body + [ast.Expr(value=_call('loop_step', K, _locals()))], orelse=orelse or [ast.Pass()])
        oneshot = ast.While(test=ast.Constant(True), body=[inner, ast.Break()], orelse=[])
        return pre + [oneshot]

    def visit_For(self, node):
        k = self.ordinal[id(node)]
        if k not in self.cut:
            self.stats['loops_native'] += 1
            self.loop_stack.append(None)
            self.generic_visit(node)
            self.loop_stack.pop()
            return node
        self.stats['loops_cut'] += 1
        names = assigned_names(node.body) + [n for n in assigned_names([ast.Assign(targets=[node.target], value=ast.Constant(0))])]
        names = names + list(self.rebind.get(k, ()))
        seen, uniq = set(), []
        for n in names:
            if n not in seen:
                seen.add(n)
                uniq.append(n)
        it = self.visit(node.iter)
        self.loop_stack.append(k)
        body = self._block(node.body)
        self.loop_stack.pop()
        orelse = self._block(node.orelse) if node.orelse else []
        K = ast.Constant(k)
        pre = [ast.Expr(value=_call('for_init', K, it, _locals()))]
        for nm in uniq:
            pre.append(ast.Assign(targets=[ast.Name(id=nm, ctx=ast.Store())],
                                  value=_call('havoc', K, ast.Constant(nm), _locals())))
        pre.append(ast.Expr(value=_call('loop_head', K, _locals())))
        bind = ast.Assign(targets=[node.target], value=_call('for_next', K))
        inner = ast.If(test=_call('for_has_next', K), body=[bind] + body + [ast.Expr(value=_call('loop_step', K, _locals()))],
                       orelse=orelse or [ast.Pass()])
        oneshot = ast.While(test=ast.Constant(True), body=[inner, ast.Break()], orelse=[])
        return pre + [oneshot]


def instrument(loc, cut_loops=(), rebind=None, comprehensions=False, genexps=False):
    """-> (code object defining the function, stats).  The function definition is re-parsed from the
    located source segment so that line numbers are relative and the original tree is not mutated."""
    src = textwrap.dedent(loc.source)
    tree = ast.parse(src)
    fn = tree.body[0]
    tr = Transformer(fn, cut_loops, rebind, comprehensions, genexps)
    n_loops = len(loops_in_source_order(fn))
    for k in cut_loops:
        if k >= n_loops:
            raise OutOfSubset('%s: loop contract for loop %d but the function has %d loops' % (loc.qualname, k, n_loops))
    new = tr.visit(fn)
    mod = ast.Module(body=[new], type_ignores=[])
    ast.fix_missing_locations(mod)
    code = compile(mod, '<pyvc:%s::%s>' % (loc.path, loc.qualname), 'exec')
    tr.stats['n_loops'] = n_loops
    tr.stats['stmts_lowered'] = tr.stats['stmts_read'] - tr.stats['dropped_docstrings'] - tr.stats['dropped_log_calls']
    return code, tr.stats, ast.unparse(mod)


def class_constants(spec, repo=None):
    """{name: value} for the simple constant assignments in the body of the class `path::Class` (read from the tree):
    stub `cls` / `self` objects expose them, so an edit that introduces a class-level constant stays inside the subset"""
    path, qual = spec.split('::')
    src, tree = _parse(path, repo)
    body = tree.body
    node = None
    for part in qual.split('.'):
        node = next((n for n in body if isinstance(n, ast.ClassDef) and n.name == part), None)
        if node is None:
            return {}
        body = node.body
    out = {}
    for st in node.body:
        if isinstance(st, ast.Assign) and len(st.targets) == 1 and isinstance(st.targets[0], ast.Name):
            try:
                out[st.targets[0].id] = ast.literal_eval(st.value)
            except Exception:
                pass
    return out
