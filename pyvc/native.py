"""Native side: importing the REAL elfi from the tree under analysis (for replays, bounded stand-ins
and assumed-contract sanity tests).  PYVC_REPO selects the tree (default /repo); a scratch copy is
put first on sys.path so that `import elfi` resolves there."""
import importlib
import os
import sys


def repo():
    return os.environ.get('PYVC_REPO', '/repo')


_done = [False]


def import_elfi():
    r = os.path.realpath(repo())
    if not _done[0]:
        if r not in [os.path.realpath(p) for p in sys.path[:1]]:
            sys.path.insert(0, r)
        for k in [k for k in sys.modules if k == 'elfi' or k.startswith('elfi.')]:
            f = getattr(sys.modules[k], '__file__', '') or ''
            if not os.path.realpath(f).startswith(r + os.sep):
                del sys.modules[k]
        import numpy as np
        _done[0] = True
    import warnings
    warnings.filterwarnings('ignore')
    import logging
    logging.disable(logging.CRITICAL)
    import elfi
    f = os.path.realpath(elfi.__file__)
    if not f.startswith(r + os.sep):
        raise RuntimeError('elfi imported from %s, expected under %s' % (f, r))
    return elfi


def import_module(name):
    import_elfi()
    return importlib.import_module(name)


def load_file_module(relpath, name=None):
    """load one repo file stand-alone (no package import side effects)"""
    import importlib.util
    p = os.path.join(repo(), relpath)
    spec = importlib.util.spec_from_file_location(name or ('pyvc_native_' + relpath.replace('/', '_').replace('.py', '')), p)
    m = importlib.util.module_from_spec(spec)
    spec.loader.exec_module(m)
    return m


class NativeTimeout(Exception):
    pass


class time_limit:
    """with time_limit(5): ...   raises NativeTimeout in the main thread when the block runs too long
    (mutated code may not terminate; a replay must never hang the check).  Library code under test may have
    `except Exception` handlers that swallow or convert the alarm (networkx turns it into NetworkXError): the timer
    therefore keeps firing every second, and whatever exception leaves the block after the alarm fired is
    replaced by NativeTimeout."""

    def __init__(self, seconds):
        self.seconds = seconds
        self.fired = False

    def _handler(self, signum, frame):
        self.fired = True
        raise NativeTimeout('no result within %.1f s' % self.seconds)

    def __enter__(self):
        import signal
        self._old = signal.signal(signal.SIGALRM, self._handler)
        signal.setitimer(signal.ITIMER_REAL, self.seconds, 1.0)
        return self

    def __exit__(self, et, ev, tb):
        import signal
        signal.setitimer(signal.ITIMER_REAL, 0)
        signal.signal(signal.SIGALRM, self._old)
        if self.fired and not (et is not None and issubclass(et, NativeTimeout)):
            raise NativeTimeout('no result within %.1f s' % self.seconds)
        return False
