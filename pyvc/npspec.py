"""numpy spec table (assumed contracts on numpy, shape-and-element level).  Each entry states what
is assumed of the installed numpy; libspec sanity tests (pyvc/sanity.py) run the same facts on the
real library.  Anything not listed raises OutOfSubset; an attribute that the INSTALLED numpy does
not have either is reported as a program AttributeError (that is how removed aliases surface)."""
import builtins as _bi
import z3

from .core import cur, OutOfSubset, forall_range, exists_range, program_exception
from .values import Sym, SInt, SReal, SBool, SKey, SNum, SOpt, lift, term, IntS, RealS, BoolS, z_ite
from .sarray import SArr, SPerm, Cell, zi, conc, ew1, ew2, wrap_scalar, SORT

# ---------------------------------------------------------------- uninterpreted real functions
_exp = z3.Function('exp', RealS, RealS)
_log = z3.Function('log', RealS, RealS)
_sqrt = z3.Function('sqrt', RealS, RealS)
INF = z3.Real('INF')      # +inf as a real constant: contracts state which values it bounds; no arithmetic on it


def _real(x):
    l = lift(x)
    if isinstance(l, SInt):
        return z3.ToReal(l.t)
    if isinstance(l, SReal):
        return l.t
    raise OutOfSubset('expected a number')


def _unary(name, f, facts):
    def g(x):
        if isinstance(x, SArr):
            vc = cur()
            src = x.snapshot()
            r = SArr(Cell(lambda *i: f(_to_real(src.at(*i), src.kind)), src.shape, 'real'))
            return r
        t = _real(x)
        r = f(t)
        for fact in facts(t, r):
            cur().assume(fact)
        return SReal(r)
    g.__name__ = name
    return g


def _to_real(t, kind):
    return z3.ToReal(t) if kind == 'int' else t


exp = _unary('exp', _exp, lambda x, r: [r > 0, _log(r) == x])
log = _unary('log', _log, lambda x, r: [z3.Implies(x > 0, _exp(r) == x)])


def sqrt(x):
    if isinstance(x, SArr):
        src = x.snapshot()
        out = SArr(Cell(lambda *i: _sqrt(_to_real(src.at(*i), src.kind)), src.shape, 'real'))
        fact = lambda *i: z3.Implies(_to_real(src.at(*i), src.kind) >= 0, z3.And(out.at(*i) >= 0, out.at(*i) * out.at(*i) == _to_real(src.at(*i), src.kind)))
        if src.ndim == 1:
            cur().assume(forall_range(0, src.shape[0], lambda i: fact(i), 'i'))
        elif src.ndim == 2:
            cur().assume(forall_range(0, src.shape[0], lambda i: forall_range(0, src.shape[1], lambda j: fact(i, j), 'j'), 'i'))
        elif src.ndim == 0:
            cur().assume(fact())
        return out
    t = _real(x)
    r = _sqrt(t)
    cur().oblige('call-pre[sqrt of non-negative]', t >= 0)
    cur().assume(z3.Implies(t >= 0, z3.And(r >= 0, r * r == t)))
    return SReal(r)


# ---------------------------------------------------------------- creation
def _shape(shape):
    if isinstance(shape, (tuple, list)):
        return tuple(zi(s) for s in shape)
    return (zi(shape),)


def empty(shape, dtype=None):
    sh = _shape(shape)
    for s in sh:
        cur().oblige('call-pre[non-negative dimension]', s >= 0)
    return SArr.fresh('empty', sh, _kind(dtype))


def _kind(dtype):
    if dtype is None or dtype is float or dtype in ('float', 'float64', 'f8'):
        return 'real'
    if dtype is int or dtype in ('int', 'int64', 'i8', 'uint32', 'int32'):
        return 'int'
    if dtype is bool or dtype == 'bool':
        return 'bool'
    m = getattr(dtype, '_vc_models', None)
    if m is not None:
        return _kind(m)
    raise OutOfSubset('dtype %r' % (dtype,))


def full(shape, value, dtype=None):
    sh = _shape(shape)
    l = lift(value)
    k = 'real' if isinstance(l, SReal) else 'int' if isinstance(l, SInt) else 'bool'
    if dtype is not None:
        k2 = _kind(dtype)
        t = z3.ToReal(l.t) if (k2 == 'real' and k == 'int') else l.t
        k = k2
    else:
        t = l.t
    return SArr(Cell(lambda *i: t, sh, k))


def zeros(shape, dtype=None):
    return full(shape, 0.0 if _kind(dtype) == 'real' else (False if _kind(dtype) == 'bool' else 0), dtype)


def ones(shape, dtype=None):
    return full(shape, 1.0 if _kind(dtype) == 'real' else (True if _kind(dtype) == 'bool' else 1), dtype)


def _like(a, dtype, shape):
    """(shape, kind) of np.*_like(a, dtype=, shape=): the PROTOTYPE's dtype and shape unless overridden"""
    a = asarray(a)
    if a.kind not in ('real', 'int', 'bool'):
        raise OutOfSubset('*_like of a %s array' % a.kind)
    sh = a.shape if shape is None else _shape(shape)
    for s_ in (() if shape is None else sh):
        cur().oblige('call-pre[non-negative dimension]', s_ >= 0)
    return sh, (a.kind if dtype is None else _kind(dtype))


def _const_of(kind, v):
    return {'real': float(v), 'int': int(v), 'bool': bool(v)}[kind]


def zeros_like(a, dtype=None, shape=None):
    if shape is None and dtype is not None:           # np.zeros_like(a, dtype=float): the given dtype, not a's
        return zeros(a.shape, dtype)
    sh, k = _like(a, dtype, shape)
    return full(sh, _const_of(k, 0))


def ones_like(a, dtype=None, shape=None):
    sh, k = _like(a, dtype, shape)
    return full(sh, _const_of(k, 1))


def empty_like(a, dtype=None, shape=None):
    """uninitialised array with the dtype of the prototype (an integer prototype gives an INTEGER buffer: later float stores truncate)"""
    sh, k = _like(a, dtype, shape)
    return SArr.fresh('empty_like', sh, k)


def full_like(a, fill_value, dtype=None, shape=None):
    sh, k = _like(a, dtype, shape)
    if not sh:
        raise OutOfSubset('full_like of a 0-d prototype')
    r = SArr.fresh('full_like', sh, k)
    r[(slice(None),) * len(sh)] = fill_value          # the fill value is cast to the prototype's dtype (float -> int truncates)
    return r


def asarray(x, dtype=None):
    if isinstance(x, SArr):
        return x
    if isinstance(x, SPerm):
        return x.as_array()
    if isinstance(x, SNum) or isinstance(x, (int, float)):
        l = lift(x)
        return SArr(Cell(lambda: l.t, (), 'real' if isinstance(l, SReal) else 'int'))
    if isinstance(x, SBool):
        return SArr(Cell(lambda: x.t, (), 'bool'))
    if isinstance(x, (list, tuple)):
        return array(x, dtype)
    f = getattr(x, '_vc_asarray', None)
    if f is not None:
        return f()
    raise OutOfSubset('asarray(%s)' % type(x).__name__)


asanyarray = asarray


def array(x, dtype=None, copy=True):
    if isinstance(x, SArr):
        return x.snapshot()
    if isinstance(x, (list, tuple)):
        items = [asarray(i) for i in x]
        if not items:
            return SArr(Cell(lambda i: z3.RealVal(0), (z3.IntVal(0),), 'real'))
        nd = items[0].ndim
        if _bi.any(i.ndim != nd for i in items):
            raise OutOfSubset('ragged array literal')
        kind = 'real' if _bi.any(i.kind == 'real' for i in items) else items[0].kind
        snaps = [i.snapshot() for i in items]
        for s_ in snaps[1:]:
            for a, b in zip(snaps[0].shape, s_.shape):
                cur().oblige('call-pre[array literal rows have equal shape]', a == b)

        def elt(i, *rest):
            r = None
            for k in reversed(range(len(snaps))):
                v = snaps[k].at(*rest)
                if kind == 'real' and snaps[k].kind == 'int':
                    v = z3.ToReal(v)
                r = v if r is None else z3.If(i == k, v, r)
            return r
        return SArr(Cell(elt, (z3.IntVal(len(snaps)),) + tuple(snaps[0].shape), kind))
    return asarray(x, dtype)


def atleast_1d(x):
    a = asarray(x)
    if a.ndim >= 1:
        return a
    s = a.snapshot()
    return SArr(Cell(lambda i: s.at(), (z3.IntVal(1),), s.kind))


def atleast_2d(x):
    a = asarray(x)
    if a.ndim >= 2:
        return a
    s = a.snapshot()
    if a.ndim == 1:
        return SArr(Cell(lambda i, j: s.at(j), (z3.IntVal(1), s.shape[0]), s.kind))
    return SArr(Cell(lambda i, j: s.at(), (z3.IntVal(1), z3.IntVal(1)), s.kind))


def transpose(x):
    return asarray(x).transpose()


def squeeze(x, axis=None):
    a = asarray(x)
    s = a.snapshot()
    keep = []
    for d, n in enumerate(s.shape):
        c = conc(n)
        if c is None:
            keep.append(d)       # assumption recorded below: a symbolic dimension is not squeezed
        elif c != 1:
            keep.append(d)
    for d in keep:
        if conc(s.shape[d]) is None:
            cur().oblige('call-pre[squeeze: symbolic dimension is not 1]', s.shape[d] != 1)
    if len(keep) == s.ndim:
        return a

    def elt(*i):
        full_, k = [], 0
        for d in range(s.ndim):
            if d in keep:
                full_.append(i[k]); k += 1
            else:
                full_.append(z3.IntVal(0))
        return s.at(*full_)
    return SArr(Cell(elt, [s.shape[d] for d in keep], s.kind))


def expand_dims(x, axis):
    a = asarray(x).snapshot()
    if axis < 0:
        axis = a.ndim + 1 + axis
    shape = list(a.shape)
    shape.insert(axis, z3.IntVal(1))
    return SArr(Cell(lambda *i: a.at(*(i[:axis] + i[axis + 1:])), shape, a.kind))


def reshape(x, shape):
    a = asarray(x).snapshot()
    if isinstance(shape, (int, SInt)):
        shape = (shape,)
    shape = list(shape)
    total = z3.IntVal(1)
    for n in a.shape:
        total = total * n
    neg = [i for i, s_ in enumerate(shape) if isinstance(s_, int) and s_ == -1]
    sh = [None if i in neg else zi(s_) for i, s_ in enumerate(shape)]
    if len(neg) > 1:
        raise ValueError('can only specify one unknown dimension')
    known = z3.IntVal(1)
    for s_ in sh:
        if s_ is not None:
            known = known * s_
    vc = cur()
    if neg and conc(known) not in (None, 0) and conc(total) is not None and conc(total) % conc(known) == 0:
        sh[neg[0]] = z3.IntVal(conc(total) // conc(known))      # all sizes concrete: the free dimension is a number, not a fresh symbol
    elif neg:
        q = vc.fresh_int('dim', size=True)
        vc.oblige('call-pre[reshape: size divisible]', z3.Exists([z3.Int('qq')], z3.And(z3.Int('qq') >= 0, z3.Int('qq') * known == total))
                  if conc(known) is None or conc(total) is None or conc(known) == 0 or conc(total) % conc(known) else z3.BoolVal(True))
        vc.assume(q >= 0, q * known == total)
        sh[neg[0]] = q
    else:
        vc.oblige('call-pre[reshape: same size]', known == total)
    # row-major (C order) index arithmetic
    if a.ndim == 1 and len(sh) == 2:
        return SArr(Cell(lambda i, j: a.at(i * sh[1] + j), sh, a.kind))
    if a.ndim == 2 and len(sh) == 1:
        vc2 = cur()

        def elt(i):
            # i = r * cols + c
            cols = a.shape[1]
            cc = conc(cols)
            if cc is not None and cc > 0:
                return a.at(i / cc, i % cc)
            if cc == 0:
                return a.at(z3.IntVal(0), z3.IntVal(0))
            return a.at(i / cols, i % cols)
        return SArr(Cell(elt, sh, a.kind))
    if a.ndim == len(sh) and _bi.all(z3.eq(z3.simplify(x_), z3.simplify(y_)) for x_, y_ in zip(a.shape, sh)):
        return SArr(Cell(lambda *i: a.at(*i), sh, a.kind))
    if a.ndim == 0 and len(sh) >= 1:
        return SArr(Cell(lambda *i: a.at(), sh, a.kind))
    if a.ndim == 1 and len(sh) == 1:
        return SArr(Cell(lambda i: a.at(i), sh, a.kind))
    if a.ndim == 2 and len(sh) == 2:
        cols, ncols = a.shape[1], sh[1]
        return SArr(Cell(lambda i, j: a.at((i * ncols + j) / cols, (i * ncols + j) % cols), sh, a.kind))
    if a.ndim == 3 and len(sh) == 2 and z3.eq(z3.simplify(a.shape[2]), z3.simplify(sh[1])):
        # (A, M, d) -> (A*M, d), trailing axis kept (row-major): out[r, j] = a[r div M, r mod M, j]
        A_, M_ = a.shape[0], a.shape[1]
        if neg:
            vc.assume(z3.Implies(sh[1] > 0, sh[0] == A_ * M_))      # consequence of q * d == A * M * d for d > 0
        out = SArr(Cell(lambda r, j: a.at(r / M_, r % M_, j), sh, a.kind))
        vc.libcall('np.reshape3', dict(src=a, res=out, rows=M_))
        return out
    raise OutOfSubset('reshape %d-d -> %d-d' % (a.ndim, len(sh)))


def column_stack(tup):
    cols = [asarray(c).snapshot() for c in tup]
    vc = cur()
    n = cols[0].shape[0]
    widths = []
    for c in cols:
        if c.ndim == 0:
            raise OutOfSubset('column_stack of a scalar')
        vc.oblige('call-pre[column_stack: equal first dimension]', c.shape[0] == n)
        if c.ndim > 2:
            raise OutOfSubset('column_stack rank>2')
        widths.append(z3.IntVal(1) if c.ndim == 1 else c.shape[1])
    offs = [z3.IntVal(0)]
    for w in widths:
        offs.append(z3.simplify(offs[-1] + w))
    kind = 'real' if _bi.any(c.kind == 'real' for c in cols) else cols[0].kind

    def elt(i, j):
        r = None
        for k in reversed(range(len(cols))):
            c = cols[k]
            v = c.at(i) if c.ndim == 1 else c.at(i, j - offs[k])
            if kind == 'real' and c.kind == 'int':
                v = z3.ToReal(v)
            r = v if r is None else z3.If(j < offs[k + 1], v, r)
        return r
    out = SArr(Cell(elt, (n, offs[-1]), kind))
    cur().libcall('np.column_stack', dict(res=out, offs=offs, cols=cols))
    return out


def concatenate(tup, axis=0):
    parts = [asarray(c).snapshot() for c in tup]
    vc = cur()
    nd = parts[0].ndim
    if _bi.any(p.ndim != nd for p in parts) or nd == 0:
        raise program_exception(ValueError('all the input array dimensions must match / zero-dimensional arrays cannot be concatenated'))
    if axis is None:
        raise OutOfSubset('concatenate axis=None')
    if axis < 0:
        axis += nd
    for p in parts[1:]:
        for d in range(nd):
            if d != axis:
                vc.oblige('call-pre[concatenate: other dimensions equal]', p.shape[d] == parts[0].shape[d])
    offs = [z3.IntVal(0)]
    for p in parts:
        offs.append(z3.simplify(offs[-1] + p.shape[axis]))
    kind = 'real' if _bi.any(c.kind == 'real' for c in parts) else parts[0].kind

    def elt(*i):
        r = None
        for k in reversed(range(len(parts))):
            p = parts[k]
            j = list(i)
            j[axis] = i[axis] - offs[k]
            v = p.at(*j)
            if kind == 'real' and p.kind == 'int':
                v = z3.ToReal(v)
            r = v if r is None else z3.If(i[axis] < offs[k + 1], v, r)
        return r
    shape = list(parts[0].shape)
    shape[axis] = offs[-1]
    out = SArr(Cell(elt, shape, kind))
    cur().libcall('np.concatenate', dict(res=out, offs=offs, parts=parts, axis=axis))
    return out


def vstack(tup):
    return concatenate([atleast_2d(t) for t in tup], axis=0)


def hstack(tup):
    parts = [atleast_1d(t) for t in tup]
    return concatenate(parts, axis=0 if parts[0].ndim == 1 else 1)


# ---------------------------------------------------------------- reductions
def _prefix_sum_1d(a, n, at):
    """fresh ps with ps(0)=0, ps(i+1)=ps(i)+at(i); returns (ps, total)"""
    vc = cur()
    ps = vc.fresh_fn('ps', IntS, RealS)
    f0, f1 = ps(0) == 0, forall_range(0, n, lambda i: ps(i + 1) == ps(i) + at(i), 'i')
    vc.assume(f0, f1)
    vc.ghost['ps_axioms'] = (f0, f1)         # the two facts just assumed (for proof scripts that name their hypotheses)
    return ps, ps(n)


def sum(a, axis=None, keepdims=False):
    if isinstance(a, (list, tuple)):
        a = array(a)
    if isinstance(a, (SNum, SBool)):
        return a
    if not isinstance(a, SArr):
        raise OutOfSubset('np.sum(%s)' % type(a).__name__)
    if keepdims:
        raise OutOfSubset('keepdims')
    vc = cur()
    if a.kind == 'bool' and a.ndim == 1:
        k, sel, rank, m = a.select()
        r = SInt(k)
        vc.libcall('np.sum', dict(arr=m, res=r, mask=a))
        return r
    s = a.snapshot()
    real = (lambda t: z3.ToReal(t)) if s.kind == 'int' else (lambda t: z3.If(t, z3.RealVal(1), z3.RealVal(0))) if s.kind == 'bool' else (lambda t: t)
    if s.ndim == 1 and (axis in (None, 0, -1)):
        ps, tot = _prefix_sum_1d(s, s.shape[0], lambda i: real(s.at(i)))
        r = SReal(tot)
        vc.libcall('np.sum', dict(arr=s, res=r, ps=ps, axioms=vc.ghost.get('ps_axioms')))
        return r
    if s.ndim == 2 and axis in (0, -2):
        ps = vc.fresh_fn('ps', IntS, IntS, RealS)
        n, m = s.shape
        vc.assume(forall_range(0, m, lambda j: z3.And(ps(0, j) == 0, forall_range(0, n, lambda i: ps(i + 1, j) == ps(i, j) + real(s.at(i, j)), 'i')), 'j'))
        out = SArr(Cell(lambda j: ps(n, j), (m,), 'real'))
        vc.libcall('np.sum', dict(arr=s, res=out, ps=ps, axis=0))
        return out
    if s.ndim == 2 and axis in (1, -1):
        ps = vc.fresh_fn('ps', IntS, IntS, RealS)
        n, m = s.shape
        ax = forall_range(0, n, lambda i: z3.And(ps(i, 0) == 0, forall_range(0, m, lambda j: ps(i, j + 1) == ps(i, j) + real(s.at(i, j)), 'j')), 'i')
        vc.assume(ax)
        out = SArr(Cell(lambda i: ps(i, m), (n,), 'real'))
        vc.libcall('np.sum', dict(arr=s, res=out, ps=ps, axis=1, axioms=(ax,)))
        return out
    raise OutOfSubset('np.sum rank %d axis %r' % (s.ndim, axis))


def mean(a, axis=None):
    a = asarray(a)
    if a.ndim == 1:
        return sum(a) / SInt(a.shape[0])
    if a.ndim == 2 and axis is not None:
        ax = axis if axis >= 0 else axis + 2
        return sum(a, axis=axis) / SInt(a.shape[ax])
    raise OutOfSubset('np.mean rank %d axis %r' % (a.ndim, axis))


def all(a, axis=None):
    if isinstance(a, SBool):
        return a
    if isinstance(a, bool):
        return a
    a = asarray(a)
    if a.kind != 'bool':
        raise OutOfSubset('np.all of non-bool')
    s = a.snapshot()
    if s.ndim == 0:
        return SBool(s.at())
    if s.ndim == 1 and axis in (None, 0, -1):
        return SBool(forall_range(0, s.shape[0], lambda i: s.at(i), 'i'))
    if s.ndim == 2 and axis is None:
        return SBool(forall_range(0, s.shape[0], lambda i: forall_range(0, s.shape[1], lambda j: s.at(i, j), 'j'), 'i'))
    if s.ndim == 2 and axis in (0, -2):
        return _bool_reduce_2d(s, 0, True)
    if s.ndim == 2 and axis in (1, -1):
        return _bool_reduce_2d(s, 1, True)
    raise OutOfSubset('np.all rank %d axis %r' % (s.ndim, axis))


def any(a, axis=None):
    if isinstance(a, SBool):
        return a
    if isinstance(a, bool):
        return a
    a = asarray(a)
    if a.kind != 'bool':
        raise OutOfSubset('np.any of non-bool')
    s = a.snapshot()
    if s.ndim == 0:
        return SBool(s.at())
    if s.ndim == 1 and axis in (None, 0, -1):
        return SBool(exists_range(0, s.shape[0], lambda i: s.at(i), 'i'))
    if s.ndim == 2 and axis in (0, -2):
        return _bool_reduce_2d(s, 0, False)
    if s.ndim == 2 and axis in (1, -1):
        return _bool_reduce_2d(s, 1, False)
    raise OutOfSubset('np.any rank %d axis %r' % (s.ndim, axis))


def _bool_reduce_2d(s, axis, is_all):
    """all/any along one axis of a 2-D bool array -> 1-D bool array given by a fresh function with its defining axiom"""
    vc = cur()
    n, m = s.shape
    r = vc.fresh_fn('red', IntS, BoolS)
    if axis == 0:
        if conc(n) is not None and conc(n) <= 4:
            k = conc(n)
            parts = lambda j: [s.at(i, j) for i in range(k)]
            return SArr(Cell(lambda j: (z3.And(*parts(j)) if is_all else z3.Or(*parts(j))) if k else z3.BoolVal(is_all), (m,), 'bool'))
        q = forall_range if is_all else exists_range
        vc.assume(forall_range(0, m, lambda j: r(j) == q(0, n, lambda i: s.at(i, j), 'i'), 'j'))
        return SArr(Cell(lambda j: r(j), (m,), 'bool'))
    if conc(m) is not None and conc(m) <= 4:
        k = conc(m)
        parts = lambda i: [s.at(i, j) for j in range(k)]
        return SArr(Cell(lambda i: (z3.And(*parts(i)) if is_all else z3.Or(*parts(i))) if k else z3.BoolVal(is_all), (n,), 'bool'))
    q = forall_range if is_all else exists_range
    vc.assume(forall_range(0, n, lambda i: r(i) == q(0, m, lambda j: s.at(i, j), 'j'), 'i'))
    return SArr(Cell(lambda i: r(i), (n,), 'bool'))


def argsort(a, axis=-1, kind=None):
    a = asarray(a)
    if a.ndim != 1:
        raise OutOfSubset('argsort rank %d' % a.ndim)
    vc = cur()
    s = a.snapshot()
    n = s.shape[0]
    pi = vc.fresh_fn('pi', IntS, IntS)
    pinv = vc.fresh_fn('pinv', IntS, IntS)
    from .core import forall2_range
    vc.assume(forall_range(0, n, lambda i: z3.And(0 <= pi(i), pi(i) < n, pinv(pi(i)) == i, 0 <= pinv(i), pinv(i) < n, pi(pinv(i)) == i), 'i'),
              forall2_range(0, n, lambda i, j: z3.Implies(i <= j, s.at(pi(i)) <= s.at(pi(j)))),
              # the same fact read through the inverse permutation (rank form); implied by the two lines above
              forall2_range(0, n, lambda i, j: z3.Implies(pinv(i) <= pinv(j), s.at(i) <= s.at(j))))
    p = SPerm(pi, pinv, n, of=s)
    vc.libcall('np.argsort', p)
    return p


def argmin(a):
    a = asarray(a)
    if a.ndim != 1:
        raise OutOfSubset('argmin rank %d' % a.ndim)
    vc = cur()
    s = a.snapshot()
    n = s.shape[0]
    vc.oblige('call-pre[argmin of a non-empty sequence]', n >= 1)
    k = vc.fresh_int('argmin')
    vc.assume(0 <= k, k < n, forall_range(0, n, lambda i: s.at(k) <= s.at(i), 'i'))
    return SInt(k)


def clip(x, lo, hi):
    if isinstance(x, SArr):
        src = x.snapshot()
        l, h = _real(lo), _real(hi)
        return SArr(Cell(lambda *i: z3.If(_to_real(src.at(*i), src.kind) < l, l, z3.If(_to_real(src.at(*i), src.kind) > h, h, _to_real(src.at(*i), src.kind))), src.shape, 'real'))
    t, l, h = _real(x), _real(lo), _real(hi)
    # numpy: minimum(maximum(x, lo), hi)
    return SReal(z3.If(z3.If(t < l, l, t) > h, h, z3.If(t < l, l, t)))


def isfinite(x):
    """real mode: every modelled value except the constant INF (and -INF) is finite"""
    if isinstance(x, SArr):
        src = x.snapshot()
        if src.kind != 'real':
            return SArr(Cell(lambda *i: z3.BoolVal(True), src.shape, 'bool'))
        return SArr(Cell(lambda *i: z3.And(src.at(*i) != INF, src.at(*i) != -INF), src.shape, 'bool'))
    t = _real(x)
    return SBool(z3.And(t != INF, t != -INF))


def isinf(x):
    r = isfinite(x)
    return ~r


def isnan(x):
    if isinstance(x, SArr):
        return SArr(Cell(lambda *i: z3.BoolVal(False), x.shape, 'bool'))
    return SBool(z3.BoolVal(False))


def where(cond, *a):
    if len(a) == 2:
        return ew_where(cond, a[0], a[1])
    if a:
        raise OutOfSubset('np.where with 2 arguments')
    # index form: a 1-tuple holding the increasing indices of the True entries (the select bijection)
    c = asarray(cond)
    if c.ndim != 1 or c.kind != 'bool':
        raise OutOfSubset('np.where(cond) for rank %d / kind %s' % (c.ndim, c.kind))
    k, sel, rank, m = c.select()
    out = SArr(Cell(lambda j: sel(j), (k,), 'int'))
    cur().libcall('np.where', dict(mask=m, k=k, sel=sel, rank=rank, res=out, inst=c.sel_inst))
    return (out,)


def logical_and(a, b):
    if isinstance(a, SArr) or isinstance(b, SArr):
        return ew2(a, b, lambda p, q: z3.And(p, q), 'bool')
    return SBool(z3.And(lift(a).t, lift(b).t))


def logical_or(a, b):
    if isinstance(a, SArr) or isinstance(b, SArr):
        return ew2(a, b, lambda p, q: z3.Or(p, q), 'bool')
    return SBool(z3.Or(lift(a).t, lift(b).t))


def logical_not(a):
    if isinstance(a, SArr):
        return ew1(a, lambda p: z3.Not(p))
    return SBool(z3.Not(lift(a).t))


def isclose(a, b, rtol=1e-05, atol=1e-08, equal_nan=False):
    """numpy's documented formula |a - b| <= atol + rtol * |b| (finite operands)"""
    if isinstance(a, SArr) or isinstance(b, SArr):
        ra, rt = _real(atol), _real(rtol)
        return ew2(asarray(a) if not isinstance(a, SArr) else a, b,
                   lambda p, q: z3.If(p - q >= 0, p - q, q - p) <= ra + rt * z3.If(q >= 0, q, -q), 'bool')
    ta, tb = _real(a), _real(b)
    return SBool(z3.If(ta - tb >= 0, ta - tb, tb - ta) <= _real(atol) + _real(rtol) * z3.If(tb >= 0, tb, -tb))


def square(x):
    return x * x


def cumsum(a, axis=None):
    a = asarray(a)
    if a.ndim != 1:
        raise OutOfSubset('cumsum rank %d' % a.ndim)
    s = a.snapshot()
    real = (lambda t: z3.ToReal(t)) if s.kind == 'int' else (lambda t: t)
    ps, tot = _prefix_sum_1d(s, s.shape[0], lambda i: real(s.at(i)))
    out = SArr(Cell(lambda i: ps(i + 1), (s.shape[0],), 'real'))
    cur().libcall('np.cumsum', dict(arr=s, res=out, ps=ps))
    return out


def searchsorted(a, v, side='left', sorter=None):
    """numpy.searchsorted(a, v, side) for a 1-d array and a scalar.  numpy documents the result only for an ascending `a`; the spec is therefore
    CONDITIONAL: a fresh index i in [0, n], and IF a is ascending THEN  side='left': a[j] < v for j < i and v <= a[j] for j >= i;
    side='right': a[j] <= v for j < i and v < a[j] for j >= i.  For an unsorted array nothing is known about i (sound, no precondition)."""
    if sorter is not None or side not in ('left', 'right'):
        raise OutOfSubset('np.searchsorted with sorter / side=%r' % (side,))
    arr = asarray(a)
    if arr.ndim != 1 or isinstance(v, SArr) and v.ndim != 0:
        raise OutOfSubset('np.searchsorted for a rank-%d array / non-scalar value' % arr.ndim)
    s = arr.snapshot()
    n = s.shape[0]
    real = (lambda t: z3.ToReal(t)) if s.kind == 'int' else (lambda t: t)
    tv = _real(v)
    vc = cur()
    i = vc.fresh_int('searchsorted', nonneg=True)
    vc.assume(i <= n)
    asc = forall_range(0, n - 1, lambda j: real(s.at(j)) <= real(s.at(j + 1)), 'j')
    if side == 'left':
        below, above = (lambda t: t < tv), (lambda t: tv <= t)
    else:
        below, above = (lambda t: t <= tv), (lambda t: tv < t)
    vc.assume(z3.Implies(asc, z3.And(forall_range(0, i, lambda j: below(real(s.at(j))), 'j'), forall_range(i, n, lambda j: above(real(s.at(j))), 'j'))))
    vc.libcall('np.searchsorted', dict(arr=s, value=tv, side=side, res=i, ascending=asc))
    return SInt(i)


def insert(arr, obj, values, axis=None):
    a = asarray(arr).snapshot()
    if a.ndim != 1 or not (isinstance(obj, int) and obj == 0):
        raise OutOfSubset('np.insert other than a scalar at position 0 of a 1-d array')
    v = _real(values)
    real = (lambda t: z3.ToReal(t)) if a.kind == 'int' else (lambda t: t)
    out = SArr(Cell(lambda i: z3.If(i == 0, v, real(a.at(i - 1))), (z3.simplify(a.shape[0] + 1),), 'real'))
    cur().libcall('np.insert', out)
    return out


def average(a, axis=None, weights=None):
    a = asarray(a)
    if weights is None:
        return mean(a, axis=axis)
    w = asarray(weights)
    if a.ndim == 1 and w.ndim == 1:
        cur().oblige('call-pre[average: weights and data have equal length]', a.shape[0] == w.shape[0])
        num = sum(a * w)
        den = sum(w)
        cur().oblige('call-pre[average: weights sum to non-zero]', den.t != 0)
        return SReal(num.t / den.t)
    if a.ndim == 2 and w.ndim == 1 and axis in (0, -2):
        cur().oblige('call-pre[average: weights and data have equal length]', a.shape[0] == w.shape[0])
        ws = w.snapshot()
        asn = a.snapshot()
        prod_ = SArr(Cell(lambda i, j: asn.at(i, j) * ws.at(i), asn.shape, 'real'))
        num = sum(prod_, axis=0)
        den = sum(w)
        cur().oblige('call-pre[average: weights sum to non-zero]', den.t != 0)
        nn = num.snapshot()
        return SArr(Cell(lambda j: nn.at(j) / den.t, nn.shape, 'real'))
    raise OutOfSubset('np.average rank %d/%d axis %r' % (a.ndim, w.ndim, axis))


def ew_where(c, x, y):
    c = asarray(c).snapshot()
    xs = asarray(x).snapshot()
    ys = asarray(y).snapshot()
    kind = 'real' if 'real' in (xs.kind, ys.kind) else xs.kind

    def g(s, i):
        v = s.at(*i[len(i) - s.ndim:]) if s.ndim else s.at()
        return z3.ToReal(v) if (kind == 'real' and s.kind == 'int') else v
    return SArr(Cell(lambda *i: z3.If(c.at(*i), g(xs, i), g(ys, i)), c.shape, kind))


def dot(a, b):
    a, b = asarray(a), asarray(b)
    if a.ndim == 1 and b.ndim == 1:
        cur().oblige('call-pre[dot: equal lengths]', a.shape[0] == b.shape[0])
        return sum(a * b)
    if a.ndim == 2 and b.ndim == 1:
        cur().oblige('call-pre[dot: inner dimensions]', a.shape[1] == b.shape[0])
        return sum(a * b, axis=1)
    if a.ndim == 1 and b.ndim == 2:
        cur().oblige('call-pre[dot: inner dimensions]', a.shape[0] == b.shape[0])
        asn, bsn = a.snapshot(), b.snapshot()
        prod_ = SArr(Cell(lambda i, j: _to_real(asn.at(i), asn.kind) * _to_real(bsn.at(i, j), bsn.kind), bsn.shape, 'real'))
        return sum(prod_, axis=0)
    raise OutOfSubset('dot %d-d x %d-d' % (a.ndim, b.ndim))


def prod(x):
    if isinstance(x, (tuple, list)):
        r = lift(1)
        for v in x:
            r = r * v
        return r
    raise OutOfSubset('np.prod of %s' % type(x).__name__)


def minimum(a, b):
    if isinstance(a, SArr) or isinstance(b, SArr):
        return ew2(asarray(a) if not isinstance(a, SArr) else a, b, lambda p, q: z3.If(p <= q, p, q))
    return z_ite((lift(a) <= lift(b)).t, a, b)


def maximum(a, b):
    if isinstance(a, SArr) or isinstance(b, SArr):
        return ew2(asarray(a) if not isinstance(a, SArr) else a, b, lambda p, q: z3.If(p >= q, p, q))
    return z_ite((lift(a) >= lift(b)).t, a, b)


def abs_(x):
    if isinstance(x, SArr):
        return ew1(x, lambda a: z3.If(a >= 0, a, -a))
    return abs(lift(x))


def count_nonzero(a):
    a = asarray(a)
    if a.ndim != 1:
        raise OutOfSubset('count_nonzero rank %d' % a.ndim)
    s_ = a.snapshot()
    mask = SArr(Cell((lambda i: s_.at(i)) if s_.kind == 'bool' else (lambda i: s_.at(i) != 0), s_.shape, 'bool'))
    k, sel, rank, m = mask.select()
    cur().libcall('np.count_nonzero', dict(arr=s_, mask=mask, res=SInt(k)))
    return SInt(k)


def diag(v):
    a = asarray(v).snapshot()
    if a.ndim == 1:
        n = a.shape[0]
        zero = z3.RealVal(0) if a.kind == 'real' else z3.IntVal(0)
        return SArr(Cell(lambda i, j: z3.If(i == j, a.at(i), zero), (n, n), a.kind))
    if a.ndim == 2:
        return SArr(Cell(lambda i: a.at(i, i), (a.shape[0],), a.kind))
    raise OutOfSubset('diag rank %d' % a.ndim)


def ndim(x):
    if isinstance(x, SArr):
        return x.ndim
    if isinstance(x, (SNum, SBool, int, float)):
        return 0
    raise OutOfSubset('np.ndim(%s)' % type(x).__name__)


def shape(x):
    return asarray(x).pshape


class _NdarrayMeta(type):
    def __instancecheck__(cls, x):
        return isinstance(x, (SArr, SPerm))


class ndarray(metaclass=_NdarrayMeta):
    import numpy as _np
    _vc_models = _np.ndarray


class _Module:
    """what the analysed code sees as `np`"""
    _table = None

    def __init__(self, extra=None):
        import numpy as _np
        self.__dict__['_real_np'] = _np
        t = dict(exp=exp, log=log, sqrt=sqrt, empty=empty, full=full, zeros=zeros, ones=ones, zeros_like=zeros_like, ones_like=ones_like, empty_like=empty_like, full_like=full_like,
                 asarray=asarray, asanyarray=asanyarray, array=array, atleast_1d=atleast_1d, atleast_2d=atleast_2d,
                 transpose=transpose, squeeze=squeeze, expand_dims=expand_dims, reshape=reshape, column_stack=column_stack,
                 concatenate=concatenate, vstack=vstack, hstack=hstack, sum=sum, mean=mean, all=all, any=any, argsort=argsort,
                 argmin=argmin, clip=clip, logical_and=logical_and, logical_or=logical_or, logical_not=logical_not, isclose=isclose, square=square, count_nonzero=count_nonzero, diag=diag, cumsum=cumsum, insert=insert, searchsorted=searchsorted, average=average, isfinite=isfinite, isinf=isinf, isnan=isnan, where=where, dot=dot, prod=prod,
                 minimum=minimum, maximum=maximum, abs=abs_, absolute=abs_, ndim=ndim, shape=shape, ndarray=ndarray,
                 inf=SReal(INF), pi=_np.pi, newaxis=None, float64=float, int64=int, bool_=bool,
                 )
        self.__dict__.update(t)
        if extra:
            self.__dict__.update(extra)

    def __getattr__(self, name):
        if not hasattr(self._real_np, name):
            raise program_exception(AttributeError("module 'numpy' has no attribute %r (installed numpy %s)" % (name, self._real_np.__version__)))
        raise OutOfSubset('numpy.%s is not in the spec table' % name)


def module(extra=None):
    return _Module(extra)
