"""pyvc.nxspec - symbolic spec of the parts of networkx.DiGraph (and of the python dicts / sets / lists
hanging off it) that the code under contract uses.  Shared by C14, C02, C03, C08.

Everything is a *library model* (assumed contract, sanity-tested by `sanity()` on the installed
networkx); the analysed elfi code runs over these proxies unchanged.

Sorts (one `Theory` per VC, `theory(vc)`; proof mode: uninterpreted sorts, finitised mode: finite
enumerations so that every quantifier built through `th.forall_*` is expanded):
  Node   node names (hashable python objects, in elfi: str).  `th.private(n)` <=> n[0] == '_',
         `th.lt(a, b)` the strict total order python uses for sorting names.
  Ref    identity of a python dict on the heap          Obj  opaque python object      Str  edge-parameter name
  Key    klit(<interned literal str>) | knode(Node)      (a dict key written as a literal / a node name)
  Val    vref(Ref) | vobj(Obj) | vbool(Bool) | vnone     (what a dict slot holds)
  Param  ppos(Int) | pname(Str) | pabsent                (the 'param' entry of an edge data dict)

Heap    `Heap`: has(r, k), val(r, k), alloc(r) as python closures over z3 terms; dict proxies `SDict(heap, ref)`
        read and write through it, so ALIASING IS VISIBLE: two proxies with the same `ref` are the same dict.
Graph   `SDiGraph`: node(n), edge(u, v), param(u, v), nattr(n) (Ref of the node's data dict `G.nodes[n]`),
        gref (Ref of `G.graph`).  Mutators rebind the closures (functional update); `snap()` freezes a state.
        `DiGraph(G)` (and `G.copy()`) is the SHALLOW copy networkx makes: new adjacency, new graph dict, one new
        data dict per node, all holding the SAME value references.
Iteration over node / edge sets goes through `engine.SetIter` (visited-set ghost, order independent);
a loop over such a set therefore needs a loop contract.  List comprehensions over them need
`Contract.comprehensions = True` (instrumenter rewrite T6 -> `_vc_listcomp`).
"""
import itertools

import z3

from .core import cur, OutOfSubset, program_exception, _z
from .values import Sym, SBool, SInt, SKey, lift

BoolS, IntS = z3.BoolSort(), z3.IntSort()

DEFAULT_LITS = ('attr_dict', '_parameter', 'observed', 'name', '_class', 'output', '_stochastic', '_observable',
                '_uses_batch_size', '_uses_meta', '_operation', '?other0', '?other1')


_SORTS = {}


class KwMark(str):
    """the single keyword under which `f(**d)` passes a dict d whose key set is symbolic (python needs str keys)"""


KW = KwMark('__vc_kwargs__')


class NetworkXError(Exception):
    """stands for networkx.NetworkXError raised by the library on behalf of the analysed code"""


# ====================================================================== theory
class Theory:
    """Sorts, constructors and quantifier combinators of one VC.  sizes (finitised mode only):
    nodes / refs / objs / strs = number of elements of the enumerations."""

    def __init__(self, vc, nodes=4, refs=16, objs=4, strs=2, lits=DEFAULT_LITS):
        self.vc = vc
        self.fin = vc.fin is not None
        self.lits = list(lits)
        key = (self.fin, nodes, refs, objs, strs, tuple(lits)) if self.fin else (False,)
        if key not in _SORTS:           # z3 sort names are global: build each signature once per process
            _SORTS[key] = self._declare(nodes, refs, objs, strs)
        self.__dict__.update(_SORTS[key])
        self._objs = {}

    def _declare(self, nodes, refs, objs, strs):
        keep = set(self.__dict__)
        tag = 'F%d_%d_%d' % (nodes, refs, len(_SORTS)) if self.fin else ''
        if not self.fin:
            self.Node, self.Ref = z3.DeclareSort('Node'), z3.DeclareSort('Ref')
            self.Obj, self.Str = z3.DeclareSort('Obj'), z3.DeclareSort('Str')
            self.node_u = self.ref_u = self.str_u = None
            Lit = IntS
        else:
            self.Node, self.node_u = z3.EnumSort('Node' + tag, ['n%d' % i for i in range(nodes)])
            self.Ref, self.ref_u = z3.EnumSort('Ref' + tag, ['r%d' % i for i in range(refs)])
            self.Obj, _ = z3.EnumSort('Obj' + tag, ['o%d' % i for i in range(objs)])
            self.Str, self.str_u = z3.EnumSort('Str' + tag, ['s%d' % i for i in range(strs)])
            Lit, self.lit_u = z3.EnumSort('Lit' + tag, ['L' + l.replace('?', 'q') for l in self.lits])
        K = z3.Datatype('Key' + tag)
        K.declare('klit', ('lit', Lit))
        K.declare('knode', ('knode_of', self.Node))
        self.Key = K.create()
        V = z3.Datatype('Val' + tag)
        V.declare('vref', ('ref_of', self.Ref))
        V.declare('vobj', ('obj_of', self.Obj))
        V.declare('vbool', ('bool_of', BoolS))
        V.declare('vnone')
        self.Val = V.create()
        P = z3.Datatype('Param' + tag)
        P.declare('ppos', ('pos_of', IntS))
        P.declare('pname', ('pname_of', self.Str))
        P.declare('pabsent')
        self.Param = P.create()
        E = z3.Datatype('Edge' + tag)
        E.declare('mk_edge', ('src', self.Node), ('dst', self.Node))
        self.Edge = E.create()
        self.private = z3.Function('private' + tag, self.Node, BoolS)
        self.lt = z3.Function('name_lt' + tag, self.Node, self.Node, BoolS)
        return {k: v for k, v in self.__dict__.items() if k not in keep}

    # ---- constructors
    def klit(self, s):
        if s not in self.lits:
            if self.fin:
                raise OutOfSubset('dict key literal %r is not declared in the theory (lits=...)' % (s,))
            self.lits.append(s)
        i = self.lits.index(s)
        return self.Key.klit(self.lit_u[i] if self.fin else z3.IntVal(i))

    def knode(self, n):
        return self.Key.knode(n)

    def key(self, k):
        """python dict key -> Key term"""
        if isinstance(k, KwMark):
            raise OutOfSubset('the **-unpacking marker used as a dict key')
        if isinstance(k, str):
            return self.klit(k)
        if isinstance(k, SNodeName):
            return self.knode(k.t)
        if isinstance(k, z3.ExprRef) and k.sort() == self.Key:
            return k
        if isinstance(k, z3.ExprRef) and k.sort() == self.Node:
            return self.knode(k)
        raise OutOfSubset('dict key %r' % (k,))

    def all_keys(self):
        """finitised universe of Key"""
        return [self.Key.klit(l) for l in self.lit_u] + [self.Key.knode(n) for n in self.node_u]

    def fresh(self, name, sort):
        return self.vc.fresh(name, sort)

    def fresh_node(self, name='n'):
        return self.vc.fresh(name, self.Node)

    def opaque(self, pyobj):
        """an opaque python object stored in a dict: one Obj constant per object identity and path"""
        k = (self.vc.path_id, id(pyobj))
        if k not in self._objs:
            self._objs[k] = (self.vc.fresh('obj', self.Obj), pyobj)
        return self.Val.vobj(self._objs[k][0])

    # ---- quantifiers (expanded in finitised mode)
    def _q(self, kind, sorts_universes, body, name):
        if not self.fin:
            vs = [z3.Const('%s%d!%d' % (name, i, next(self.vc._counter)), s) for i, (s, _) in enumerate(sorts_universes)]
            b = _z(body(*vs))
            return z3.ForAll(vs, b) if kind == 'A' else z3.Exists(vs, b)
        parts = [_z(body(*cs)) for cs in itertools.product(*[u for _, u in sorts_universes])]
        return z3.And(parts) if kind == 'A' else z3.Or(parts)

    def forall_nodes(self, body, k=1, name='x'):
        return self._q('A', [(self.Node, self.node_u)] * k, body, name)

    def exists_nodes(self, body, k=1, name='w'):
        return self._q('E', [(self.Node, self.node_u)] * k, body, name)

    def forall_refs(self, body, k=1, name='r'):
        return self._q('A', [(self.Ref, self.ref_u)] * k, body, name)

    def forall_keys(self, body, name='k'):
        return self._q('A', [(self.Key, self.all_keys() if self.fin else None)], body, name)

    def forall_ref_key(self, body, name='rk'):
        return self._q('A', [(self.Ref, self.ref_u), (self.Key, self.all_keys() if self.fin else None)], body, name)

    def forall_strs(self, body, k=1, name='s'):
        return self._q('A', [(self.Str, self.str_u)] * k, body, name)

    def truth(self, v):
        """bool(v) of a dict-slot value: python bools and None as in python, other objects through the uninterpreted `truthy`"""
        tr = self.__dict__.get('_truthy')
        if tr is None:
            tr = self.__dict__['_truthy'] = z3.Function('truthy' + str(self.Val), self.Val, BoolS)
        V = self.Val
        return z3.If(V.is_vbool(v), V.bool_of(v), z3.If(v == V.vnone, z3.BoolVal(False), tr(v)))

    def name_order_axioms(self):
        """`lt` is a strict total order on names (python str comparison)"""
        lt = self.lt
        return [self.forall_nodes(lambda a: z3.Not(lt(a, a))),
                self.forall_nodes(lambda a, b: z3.Or(a == b, lt(a, b), lt(b, a)), 2),
                self.forall_nodes(lambda a, b, c: z3.Implies(z3.And(lt(a, b), lt(b, c)), lt(a, c)), 3)]


def theory(vc=None, **kw):
    """the Theory of the current VC (created on first use; sizes only matter in finitised mode)"""
    vc = vc or cur()
    th = getattr(vc, '_nx_theory', None)
    if th is None:
        th = vc._nx_theory = Theory(vc, **kw)
    return th


def ite_value(c, a, b):
    """structural if-then-else over python values built from proxies"""
    if a is b:
        return a
    if isinstance(a, tuple) and isinstance(b, tuple) and len(a) == len(b):
        return tuple(ite_value(c, x, y) for x, y in zip(a, b))
    fa = getattr(a, '_vc_ite', None)
    if fa is not None:
        return fa(c, b)
    if isinstance(a, (Sym, int, float, bool)) and isinstance(b, (Sym, int, float, bool)):
        la, lb = lift(a), lift(b)
        if type(la) is type(lb):
            return type(la)(z3.If(c, la.t, lb.t))
    raise OutOfSubset('cannot merge %s and %s under a symbolic condition' % (type(a).__name__, type(b).__name__))


# ====================================================================== heap of dicts
class HeapState:
    """frozen heap: has(r, k) -> Bool term, val(r, k) -> Val term, alloc(r) -> Bool term"""

    def __init__(self, has, val, alloc):
        self.has, self.val, self.alloc = has, val, alloc


class Heap:
    """The python heap restricted to dict objects.  A fresh Heap is an arbitrary (symbolic) heap."""

    def __init__(self, th, name='heap'):
        self.th = th
        self._fresh(name)

    def _fresh(self, name):
        th, vc = self.th, self.th.vc
        h = vc.fresh_fn(name + '.has', th.Ref, th.Key, BoolS)
        v = vc.fresh_fn(name + '.val', th.Ref, th.Key, th.Val)
        a = vc.fresh_fn(name + '.alloc', th.Ref, BoolS)
        self.has, self.val, self.alloc = (lambda r, k: h(r, k)), (lambda r, k: v(r, k)), (lambda r: a(r))

    def snap(self):
        return HeapState(self.has, self.val, self.alloc)

    def _vc_havoc(self, name):
        self._fresh('heap@' + name)

    def closed(self):
        """every dict reference stored in an allocated dict is allocated"""
        th = self.th
        return th.forall_ref_key(lambda r, k: z3.Implies(z3.And(self.alloc(r), self.has(r, k), th.Val.is_vref(self.val(r, k))),
                                                         self.alloc(th.Val.ref_of(self.val(r, k)))))

    # ---- primitive updates
    def write(self, r, k, v):
        has, val = self.has, self.val
        self.has = lambda r_, k_: z3.If(z3.And(r_ == r, k_ == k), z3.BoolVal(True), has(r_, k_))
        self.val = lambda r_, k_: z3.If(z3.And(r_ == r, k_ == k), v, val(r_, k_))

    def delete(self, r, k):
        has = self.has
        self.has = lambda r_, k_: z3.If(z3.And(r_ == r, k_ == k), z3.BoolVal(False), has(r_, k_))

    def new_ref(self, name='dict'):
        """allocate: a Ref that was not allocated before"""
        th = self.th
        r = th.fresh(name, th.Ref)
        th.vc.assume(z3.Not(self.alloc(r)))
        alloc = self.alloc
        self.alloc = lambda r_: z3.Or(r_ == r, alloc(r_))
        return r

    def new_dict(self, items=(), name='dict'):
        r = self.new_ref(name)
        has = self.has
        self.has = lambda r_, k_: z3.If(r_ == r, z3.BoolVal(False), has(r_, k_))
        for k, v in items:
            self.write(r, self.th.key(k), self.to_val(v))
        return SDict(self, r)

    def copy_dict(self, src, name='copy'):
        """dict.copy(): a new dict holding the same (key, value reference) pairs"""
        r = self.new_ref(name)
        has, val = self.has, self.val
        self.has = lambda r_, k_: z3.If(r_ == r, has(src, k_), has(r_, k_))
        self.val = lambda r_, k_: z3.If(r_ == r, val(src, k_), val(r_, k_))
        return SDict(self, r)

    def to_val(self, x):
        th = self.th
        if isinstance(x, SVal):
            return x.t
        if isinstance(x, SDict):
            return th.Val.vref(x.ref)
        if isinstance(x, z3.ExprRef) and x.sort() == th.Val:
            return x
        if x is None:
            return th.Val.vnone
        if isinstance(x, bool):
            return th.Val.vbool(z3.BoolVal(x))
        if isinstance(x, SBool):
            return th.Val.vbool(x.t)
        if isinstance(x, dict):
            if getattr(x, '_vc_ref', None) is None:
                d = self.new_dict(list(x.items()), 'literal')
                return th.Val.vref(d.ref)
        if isinstance(x, Sym):
            raise OutOfSubset('storing a %s in a dict' % type(x).__name__)
        return th.opaque(x)


class SVal(Sym):
    """a value read from a dict slot.  Used as a dict it obliges `is a dict reference`."""
    __slots__ = ('heap',)

    def __init__(self, heap, t):
        self.heap, self.t = heap, t

    def _d(self, why):
        th = self.heap.th
        _need('call-pre[%s: value is a dict]' % why, th.Val.is_vref(self.t))
        return SDict(self.heap, th.Val.ref_of(self.t))

    def __contains__(self, k): return self._d('in').__contains__(k)
    def __getitem__(self, k): return self._d('[]')[k]
    def __setitem__(self, k, v): self._d('[]=')[k] = v
    def pop(self, *a): return self._d('pop').pop(*a)
    def get(self, *a): return self._d('get').get(*a)
    def copy(self): return self._d('copy').copy()
    def keys(self): return self._d('keys').keys()
    def items(self): return self._d('items').items()
    def update(self, *a, **k): return self._d('update').update(*a, **k)
    def __delitem__(self, k): self._d('del').__delitem__(k)

    def __bool__(self):
        return cur().branch(self.heap.th.truth(self.t))

    def _vc_is(self, other):
        if isinstance(other, SVal):
            return SBool(self.t == other.t)
        if isinstance(other, SDict):
            return SBool(self.t == self.heap.th.Val.vref(other.ref))
        raise OutOfSubset('identity of a heap value and %s' % type(other).__name__)

    def _vc_is_none(self):
        return SBool(self.t == self.heap.th.Val.vnone)

    def _vc_ite(self, c, other):
        return SVal(self.heap, z3.If(c, self.t, self.heap.to_val(other)))

    def _vc_fresh_like(self, name):
        return SVal(self.heap, cur().fresh(name, self.heap.th.Val))

    __hash__ = Sym.__hash__

    def __eq__(self, o):
        raise OutOfSubset('== on an opaque heap value')

    def __repr__(self):
        return 'SVal(%s)' % z3.simplify(self.t)

    def __format__(self, spec):
        return '<value>'


class SDict(Sym):
    """a python dict living on the symbolic heap (identity = `ref`)"""
    __slots__ = ('heap', 'ref')

    def __init__(self, heap, ref):
        self.heap, self.ref, self.t = heap, ref, None

    def _k(self, k):
        return self.heap.th.key(k)

    def has(self, k):
        return self.heap.has(self.ref, self._k(k))

    def value(self, k):
        return self.heap.val(self.ref, self._k(k))

    def __contains__(self, k):
        return bool(SBool(self.has(k)))

    def __getitem__(self, k):
        if isinstance(k, KwMark):       # f(**d): the callee receives d itself under the marker keyword
            return self
        _need('call-pre[dict key present: %s]' % _kname(k), self.has(k))
        return SVal(self.heap, self.value(k))

    def items(self):
        return _NodeKeyItems(self)

    def __setitem__(self, k, v):
        self.heap.write(self.ref, self._k(k), self.heap.to_val(v))

    def pop(self, k, *default):
        if default:
            if cur().branch(self.has(k)):
                v = SVal(self.heap, self.value(k))
                self.heap.delete(self.ref, self._k(k))
                return v
            return default[0]
        _need('call-pre[dict.pop key present: %s]' % _kname(k), self.has(k))
        v = SVal(self.heap, self.value(k))
        self.heap.delete(self.ref, self._k(k))
        return v

    def get(self, k, default=None):
        if default is None and getattr(self.heap.th, 'merge_get', False):
            # opt-in (theory flag): d.get(k) without forking - an absent key and a stored None are the same observable result
            return SVal(self.heap, z3.If(self.has(k), self.value(k), self.heap.th.Val.vnone))
        if cur().branch(self.has(k)):
            return SVal(self.heap, self.value(k))
        return default

    def copy(self):
        return self.heap.copy_dict(self.ref)

    def keys(self):
        return _DictKeys(self)

    def update(self, other=(), **kw):
        """d.update(m) for a python mapping / pair list with literal keys"""
        if isinstance(other, Sym):
            raise OutOfSubset('dict.update(%s)' % type(other).__name__)
        for k, v in list(dict(other).items()) + list(kw.items()):
            self[k] = v

    def __delitem__(self, k):
        _need('call-pre[del dict[key]: key present: %s]' % _kname(k), self.has(k))
        self.heap.delete(self.ref, self._k(k))

    def _vc_is(self, other):
        if isinstance(other, SDict):
            return SBool(self.ref == other.ref)
        if isinstance(other, SVal):
            return other._vc_is(self)
        return False

    def _vc_isinstance(self, cls):
        classes = cls if isinstance(cls, tuple) else (cls,)
        return any(getattr(c, '_vc_models', c) is dict for c in classes)

    def _vc_ite(self, c, other):
        return SVal(self.heap, self.heap.th.Val.vref(self.ref))._vc_ite(c, other)

    def __iter__(self):
        raise OutOfSubset('iteration over a symbolic dict')

    def __bool__(self):
        raise OutOfSubset('truth value of a symbolic dict')

    __hash__ = Sym.__hash__

    def __repr__(self):
        return 'SDict(%s)' % z3.simplify(self.ref)


class _DictKeys:
    """d.keys(): only the superset test `d.keys() >= {literal keys}` is modelled"""

    def __init__(self, d):
        self.d = d

    def __ge__(self, other):
        if not isinstance(other, (set, frozenset)) or not all(isinstance(k, str) for k in other):
            raise OutOfSubset('dict.keys() >= %r' % (other,))
        return SBool(z3.And([self.d.has(k) for k in sorted(other)]))

    def _no(self, *a):
        raise OutOfSubset('operation on dict.keys() other than `>= {literals}`')

    def __iter__(self):                 # only what `f(**d)` needs: one marker keyword (see KwMark)
        return iter([KW])

    __gt__ = __le__ = __lt__ = __eq__ = __ne__ = __contains__ = __len__ = _no
    __hash__ = None


class _NodeKeyItems:
    """d.items() of a dict keyed by NODE NAMES (obliged: it holds no literal key): iterable through a loop contract (visited set of names)"""

    def __init__(self, d):
        self.d = d

    def _vc_iter(self):
        from .engine import SetIter
        d, th = self.d, self.d.heap.th
        _need('call-pre[dict.items(): the dict is keyed by node names only]',
              th.forall_keys(lambda k: z3.Implies(th.Key.is_klit(k), z3.Not(d.heap.has(d.ref, k)))))
        return SetIter(th.Node, lambda q: d.heap.has(d.ref, th.knode(q)), lambda q: (SNodeName(q), SVal(d.heap, d.heap.val(d.ref, th.knode(q)))))

    def __iter__(self):
        raise OutOfSubset('iteration over the items of a symbolic dict needs a loop contract')


def _need(kind, fact):
    """a library precondition whose violation raises (KeyError, IndexError, ...): obliged, and execution continues under it"""
    vc = cur()
    vc.oblige(kind, fact)
    vc.assume(fact)


def _kname(k):
    return k if isinstance(k, str) else '<node name>'


# ====================================================================== node names, sets of names, lists
class SNodeName(SKey):
    """a node name (a python str in elfi).  name[0] == '_' is the uninterpreted predicate `private`;
    `<` is the total order `lt`.  Comparing with a concrete str or hashing is out of subset (fail closed)."""
    __slots__ = ()

    def __eq__(self, o):
        if isinstance(o, SKey):
            return SBool(self.t == o.t)
        if isinstance(o, z3.ExprRef):
            return SBool(self.t == o)
        if o is None:
            return False
        raise OutOfSubset('comparison of a symbolic node name with %r' % (o,))

    def __ne__(self, o):
        r = self.__eq__(o)
        return (not r) if isinstance(r, bool) else ~r

    def __hash__(self):
        raise OutOfSubset('hash of a symbolic node name (python set / dict key)')

    def __getitem__(self, i):
        if i == 0:
            return _FirstChar(self)
        raise OutOfSubset('character %r of a symbolic node name' % (i,))

    def startswith(self, p):
        if p == '_':
            return SBool(theory().private(self.t))
        raise OutOfSubset('startswith(%r) on a symbolic node name' % (p,))

    def __lt__(self, o):
        return SBool(theory().lt(self.t, _name_t(o)))

    def __gt__(self, o):
        return SBool(theory().lt(_name_t(o), self.t))

    def __le__(self, o):
        return SBool(z3.Not(theory().lt(_name_t(o), self.t)))

    def __ge__(self, o):
        return SBool(z3.Not(theory().lt(self.t, _name_t(o))))

    def _vc_fresh_like(self, name):
        return SNodeName(cur().fresh(name, self.t.sort()))

    def _vc_ite(self, c, other):
        return SNodeName(z3.If(c, self.t, _name_t(other)))

    def _vc_isinstance(self, cls):
        classes = cls if isinstance(cls, tuple) else (cls,)
        return any(getattr(c, '_vc_models', c) is str for c in classes)

    def __repr__(self):
        return '<node %s>' % z3.simplify(self.t)

    def __format__(self, spec):
        return repr(self)


def _name_t(o):
    if isinstance(o, SNodeName):
        return o.t
    if isinstance(o, z3.ExprRef):
        return o
    if isinstance(o, str) and not isinstance(o, KwMark):
        f = getattr(theory(), 'node_lit', None)      # a contract may interpret literal node names (distinct constants of sort Node)
        if f is not None:
            return f(o)
    raise OutOfSubset('expected a node name, got %r' % (o,))


class _FirstChar:
    def __init__(self, name):
        self.name = name

    def __eq__(self, o):
        if o == '_':
            return SBool(theory().private(self.name.t))
        raise OutOfSubset("first character of a node name compared with %r (only '_' is modelled)" % (o,))

    def __ne__(self, o):
        return ~self.__eq__(o)

    __hash__ = None


class SParam(Sym):
    """the value of an edge's 'param' entry: an int (positional) or a str (named)"""
    __slots__ = ()

    def __init__(self, t):
        self.t = t

    def _vc_isinstance(self, cls):
        th = theory()
        classes = cls if isinstance(cls, tuple) else (cls,)
        classes = [getattr(c, '_vc_models', c) for c in classes]
        out = []
        for c in classes:
            if c is int:
                out.append(th.Param.is_ppos(self.t))
            elif c is str:
                out.append(th.Param.is_pname(self.t))
            else:
                raise OutOfSubset('isinstance(param, %r)' % (c,))
        return SBool(z3.Or(out))

    def sort_key(self):
        th = theory()
        _need('call-pre[ordering params: positional (int)]', th.Param.is_ppos(self.t))
        return th.Param.pos_of(self.t)

    def _vc_ite(self, c, other):
        return SParam(z3.If(c, self.t, to_param(other)))

    def _vc_fresh_like(self, name):
        return SParam(cur().fresh(name, self.t.sort()))

    __hash__ = Sym.__hash__

    def __eq__(self, o):
        return SBool(self.t == to_param(o))

    def __repr__(self):
        return 'SParam(%s)' % z3.simplify(self.t)

    def __format__(self, spec):
        return repr(self)


def to_param(x):
    th = theory()
    if isinstance(x, SParam):
        return x.t
    if isinstance(x, z3.ExprRef) and x.sort() == th.Param:
        return x
    if isinstance(x, bool):
        raise OutOfSubset('bool as edge param')
    if isinstance(x, int):
        return th.Param.ppos(z3.IntVal(x))
    if isinstance(x, SInt):
        return th.Param.ppos(x.t)
    if isinstance(x, z3.ExprRef) and x.sort() == th.Str:
        return th.Param.pname(x)
    if isinstance(x, str) and not isinstance(x, KwMark):
        f = getattr(th, 'str_lit', None)             # a contract may interpret literal parameter names (distinct constants of sort Str)
        if f is not None:
            return th.Param.pname(f(x))
    raise OutOfSubset('edge param %r' % (x,))


class SEdgeData(Sym):
    """the data dict of an edge as a VALUE ({'param': p} or {}); networkx copies it on add_edge(**data) /
    add_edges_from, so its identity is not modelled."""
    __slots__ = ()

    def __init__(self, t):
        self.t = t          # Param term (pabsent = no 'param' key)

    def __getitem__(self, k):
        if k != 'param':
            raise OutOfSubset('edge attribute %r' % (k,))
        th = theory()
        cur().oblige("call-pre[edge has a 'param']", z3.Not(th.Param.is_pabsent(self.t)))
        return SParam(self.t)

    def __contains__(self, k):
        if k != 'param':
            raise OutOfSubset('edge attribute %r' % (k,))
        return bool(SBool(z3.Not(theory().Param.is_pabsent(self.t))))

    def keys(self):             # mapping protocol for `**data`
        if cur().branch(theory().Param.is_pabsent(self.t)):
            return []
        return ['param']

    def get(self, k, default=None):
        return self[k] if k in self else default

    def copy(self):
        return SEdgeData(self.t)

    __hash__ = Sym.__hash__


class SNodeSet(Sym):
    """a finite python set (or any iterable turned into one) of node names: membership predicate"""
    __slots__ = ('mem',)

    def __init__(self, mem):
        self.mem, self.t = mem, None

    @classmethod
    def fresh(cls, name='set'):
        th = theory()
        f = th.vc.fresh_fn(name, th.Node, BoolS)
        return cls(lambda x: f(x))

    def _vc_set(self):
        return SNodeSet(self.mem)

    def _vc_list(self):
        raise OutOfSubset('list(<symbolic set>)')

    def __contains__(self, x):
        return bool(SBool(self.mem(_name_t(x))))

    def remove(self, x):
        x = _name_t(x)
        _need('call-pre[set.remove: element present]', self.mem(x))
        old = self.mem
        self.mem = lambda y: z3.And(y != x, old(y))

    def discard(self, x):
        x = _name_t(x)
        old = self.mem
        self.mem = lambda y: z3.And(y != x, old(y))

    def add(self, x):
        x = _name_t(x)
        old = self.mem
        self.mem = lambda y: z3.Or(y == x, old(y))

    def _vc_len(self):
        """cardinality: only `>= 0` and `== 0 <=> empty` are specified"""
        th = theory()
        vc = th.vc
        n = vc.fresh_int('card')
        w = th.fresh_node('member')
        vc.assume(n >= 0, z3.Implies(n > 0, self.mem(w)), z3.Implies(n == 0, th.forall_nodes(lambda x: z3.Not(self.mem(x)))))
        return SInt(n)

    def _vc_havoc(self, name):
        th = theory()
        f = th.vc.fresh_fn('set@' + name, th.Node, BoolS)
        self.mem = lambda x: f(x)

    def _vc_iter(self):
        from .engine import SetIter
        return SetIter(theory().Node, lambda q: self.mem(q), lambda q: SNodeName(q))

    def __iter__(self):
        raise OutOfSubset('iteration over a symbolic set needs a loop contract')

    def __bool__(self):
        return bool(self._vc_len() > 0)

    __hash__ = Sym.__hash__


class SList(Sym):
    """a python list of symbolic length: n (Int term) and elt(i) -> python value built from proxies.
    `ghost` is free for the contract (e.g. an index function of a 'contains every x once' fact)."""

    def __init__(self, n, elt, ghost=None):
        self.n, self.elt, self.ghost, self.t = _zi(n), elt, ghost, None

    @classmethod
    def of(cls, x):
        """python list / SList -> SList (for invariants that see a concrete list before the first iteration)"""
        if isinstance(x, SList):
            return x
        if isinstance(x, (list, tuple)):
            items = list(x)

            def elt(i, items=items):
                if not items:
                    raise OutOfSubset('element of an empty list')
                v = items[-1]
                for j in range(len(items) - 2, -1, -1):
                    v = ite_value(i == j, items[j], v)
                return v
            return cls(z3.IntVal(len(items)), elt)
        raise OutOfSubset('expected a list, got %s' % type(x).__name__)

    def _vc_len(self):
        return SInt(self.n)

    def __getitem__(self, i):
        if isinstance(i, slice):
            raise OutOfSubset('slice of a symbolic list')
        i = _zi(i)
        i = z3.If(i < 0, i + self.n, i)
        _need('call-pre[list index in range]', z3.And(i >= 0, i < self.n))
        return self.elt(i)

    def append(self, x):
        n, elt = self.n, self.elt
        self.n = n + 1
        self.elt = lambda i: ite_value(_zi(i) == n, x, elt(i))

    def _vc_list(self):
        return SList(self.n, self.elt, self.ghost)

    def _vc_iter(self):
        from .engine import SeqIter
        return SeqIter(self.n, self.elt)

    def _vc_listcomp(self, elt_fn, cond_fn):
        if cond_fn is not None:
            raise OutOfSubset('filtering comprehension over a symbolic list')
        elt = self.elt
        return SList(self.n, lambda i: elt_fn(elt(i)), self.ghost)

    def _vc_sorted(self, key=None, reverse=False):
        """sorted(): a permutation of the list with non-decreasing keys (keys: ints, positional params or names)"""
        if reverse:
            raise OutOfSubset('sorted(reverse=True)')
        vc = cur()
        th = theory()
        n, elt = self.n, self.elt
        pi = vc.fresh_fn('sort.pi', IntS, IntS)
        pinv = vc.fresh_fn('sort.pinv', IntS, IntS)
        from .core import forall_range

        def kterm(i, check=False):
            v = elt(i)
            v = key(v) if key is not None else v
            if isinstance(v, SParam):
                return ('int', v.sort_key() if check else th.Param.pos_of(v.t))
            if isinstance(v, SInt):
                return ('int', v.t)
            if isinstance(v, SNodeName):
                return ('name', v.t)
            raise OutOfSubset('sort key of type %s' % type(v).__name__)

        def le(i, j):
            (ka, a), (kb, b) = kterm(i), kterm(j)
            return a <= b if ka == 'int' else z3.Not(th.lt(b, a))
        # the keys must be mutually comparable: obliged once, on a generic element
        g = vc.fresh_int('sort.i')
        saved = len(vc.pc)
        vc.pc.append(z3.And(g >= 0, g < n))
        kterm(g, check=True)
        del vc.pc[saved:]
        vc.assume(forall_range(0, n, lambda i: z3.And(pi(i) >= 0, pi(i) < n, pinv(pi(i)) == i, pinv(i) >= 0, pinv(i) < n,
                                                      pi(pinv(i)) == i), 'i'),
                  forall_range(0, n, lambda i: forall_range(0, n, lambda j: z3.Implies(i <= j, le(pi(i), pi(j))), 'j'), 'i'))
        out = SList(n, lambda i: elt(pi(_zi(i))), self.ghost)
        vc.libcall('sorted', dict(pi=pi, pinv=pinv, n=n, src=self, out=out))
        return out

    def __iter__(self):
        raise OutOfSubset('iteration over a symbolic list needs a loop contract')

    __hash__ = Sym.__hash__


class SNameList(SList):
    """list of node names in UNSPECIFIED order holding every element of a set exactly once (the result of
    a comprehension over a node view).  mem(x) is the membership predicate; idx(x) the ghost position."""

    @classmethod
    def of_set(cls, mem, name='names'):
        th = theory()
        vc = th.vc
        from .core import forall_range
        n = vc.fresh_int(name + '.n', nonneg=True, size=True)
        at = vc.fresh_fn(name + '.at', IntS, th.Node)
        idx = vc.fresh_fn(name + '.idx', th.Node, IntS)
        vc.assume(forall_range(0, n, lambda i: z3.And(mem(at(i)), idx(at(i)) == i), 'i'),
                  th.forall_nodes(lambda x: z3.Implies(mem(x), z3.And(idx(x) >= 0, idx(x) < n, at(idx(x)) == x))))
        o = cls(n, lambda i: SNodeName(at(_zi(i))))
        o.mem, o.idx = mem, idx
        return o

    def _vc_sorted(self, key=None, reverse=False):
        out = SList._vc_sorted(self, key, reverse)
        o = SNameList(out.n, out.elt)
        o.mem, o.idx = self.mem, self.idx
        return o


def _zi(x):
    if isinstance(x, bool):
        raise OutOfSubset('bool used as an index')
    if isinstance(x, int):
        return z3.IntVal(x)
    if isinstance(x, z3.ExprRef):
        return x
    return x.t


def summarise_bool(thunk):
    """Evaluate a python predicate over proxies on EVERY path it has from here (its `bool()` calls fork) and
    return the z3 condition under which it returns a true value.  Obligations it emits are kept (they are
    guarded by the path condition of their sub-path).  Used to turn the filter of a comprehension over a
    set into a membership predicate."""
    vc = cur()
    base_pc, base_taken, base_prefix, base_work = list(vc.pc), list(vc.taken), vc.prefix, vc.worklist
    cases, work = [], [[]]
    try:
        while work:
            pre = work.pop()
            vc.pc, vc.taken, vc.prefix, vc.worklist = list(base_pc), list(base_taken), list(base_taken) + pre, []
            try:
                r = thunk()
                if isinstance(r, SBool):
                    r = r.t
                elif isinstance(r, bool):
                    r = z3.BoolVal(r)
                else:
                    raise OutOfSubset('comprehension filter returned %s' % type(r).__name__)
                conds = vc.pc[len(base_pc):]
                cases.append(z3.And(conds + [r]) if conds else r)
            except __import__('pyvc.core', fromlist=['Infeasible']).Infeasible:
                pass
            for w in vc.worklist:
                work.append(w[len(base_taken):])
            if len(cases) > 64:
                raise OutOfSubset('comprehension filter with more than 64 paths')
    finally:
        vc.pc, vc.taken, vc.prefix, vc.worklist = base_pc, base_taken, base_prefix, base_work
    return z3.simplify(z3.Or(cases)) if cases else z3.BoolVal(False)


# ====================================================================== the graph
class GState:
    """frozen graph state (closures over z3 terms)"""

    def __init__(self, node, edge, param, nattr, gref):
        self.node, self.edge, self.param, self.nattr, self.gref = node, edge, param, nattr, gref

    def pos(self, u, v):
        """(u, v) is an edge carrying a positional (int) param"""
        return z3.And(self.edge(u, v), theory().Param.is_ppos(self.param(u, v)))


class SDiGraph(Sym):
    """networkx.DiGraph.  State: node(n), edge(u, v), param(u, v) [Param], nattr(n) [Ref of G.nodes[n]], gref [Ref of G.graph].
    kind='sym'  an arbitrary graph (fresh uninterpreted state; assume `wf()` in the contract's requires)
    kind='empty' DiGraph()"""
    _vc_models = None

    def __init__(self, heap, name='G', kind='sym'):
        self.heap, self.th, self.t, self.name = heap, heap.th, None, name
        th, vc = self.th, self.th.vc
        if kind == 'sym':
            self._fresh(name)
            self.gref = th.fresh(name + '.graph', th.Ref)
        else:
            self.node = lambda n: z3.BoolVal(False)
            self.edge = lambda u, v: z3.BoolVal(False)
            self.param = lambda u, v: th.Param.pabsent
            na = vc.fresh_fn(name + '.nattr', th.Node, th.Ref)
            self.nattr = lambda n: na(n)
            self.gref = heap.new_dict(name=name + '.graph').ref

    def _fresh(self, name):
        th, vc = self.th, self.th.vc
        nd = vc.fresh_fn(name + '.node', th.Node, BoolS)
        ed = vc.fresh_fn(name + '.edge', th.Node, th.Node, BoolS)
        pa = vc.fresh_fn(name + '.param', th.Node, th.Node, th.Param)
        na = vc.fresh_fn(name + '.nattr', th.Node, th.Ref)
        self.node, self.edge = (lambda n: nd(n)), (lambda u, v: ed(u, v))
        self.param, self.nattr = (lambda u, v: pa(u, v)), (lambda n: na(n))

    def _vc_havoc(self, name):
        self._fresh(self.name + '@' + name)

    def snap(self):
        return GState(self.node, self.edge, self.param, self.nattr, self.gref)

    def restore(self, st):
        self.node, self.edge, self.param, self.nattr, self.gref = st.node, st.edge, st.param, st.nattr, st.gref

    def wf(self, st=None):
        """representation invariant of a networkx graph together with its heap footprint: edges join nodes; the data
        dicts of distinct nodes are distinct allocated dicts, distinct from the graph dict."""
        st, th, h = st or self, self.th, self.heap
        return z3.And(th.forall_nodes(lambda u, v: z3.Implies(st.edge(u, v), z3.And(st.node(u), st.node(v))), 2),
                      th.forall_nodes(lambda u, v: z3.Implies(z3.And(st.node(u), st.node(v), u != v), st.nattr(u) != st.nattr(v)), 2),
                      th.forall_nodes(lambda u: z3.Implies(st.node(u), z3.And(h.alloc(st.nattr(u)), st.nattr(u) != st.gref))),
                      h.alloc(st.gref))

    # ---- queries
    def has_node(self, n):
        return SBool(self.node(_name_t(n)))

    def __contains__(self, n):
        return bool(self.has_node(n))

    def has_edge(self, u, v):
        return SBool(self.edge(_name_t(u), _name_t(v)))

    @property
    def graph(self):
        return SDict(self.heap, self.gref)

    @property
    def nodes(self):
        return NodeView(self)

    def node_data(self, n, why='G.nodes[n]'):
        n = _name_t(n)
        _need('call-pre[%s: node present]' % why, self.node(n))
        return SDict(self.heap, self.nattr(n))

    @property
    def edges(self):
        return EdgeView(self, 'out')

    @property
    def out_edges(self):
        return EdgeView(self, 'out')

    @property
    def in_edges(self):
        return EdgeView(self, 'in')

    def _need_node(self, n, what):
        """networkx raises NetworkXError for an unknown node"""
        if not cur().branch(self.node(n)):
            raise program_exception(NetworkXError('The node is not in the digraph (%s)' % what))

    def predecessors(self, n):
        n = _name_t(n)
        self._need_node(n, 'predecessors')
        return NameSetView(self, lambda q: self.edge(q, n))

    def successors(self, n):
        n = _name_t(n)
        self._need_node(n, 'successors')
        return NameSetView(self, lambda q: self.edge(n, q))

    neighbors = successors

    def __getitem__(self, u):
        u = _name_t(u)
        _need('call-pre[G[u]: node present]', self.node(u))
        return _Adj(self, u)

    @property
    def degree(self):
        return _Degree(self, 'both')

    @property
    def in_degree(self):
        return _Degree(self, 'in')

    @property
    def out_degree(self):
        return _Degree(self, 'out')

    # ---- mutators
    def _new_node(self, n, items=()):
        """n is not a node: give it a new data dict"""
        d = self.heap.new_dict(items, name='nodedata')
        node, nattr = self.node, self.nattr
        self.node = lambda x: z3.Or(x == n, node(x))
        self.nattr = lambda x: z3.If(x == n, d.ref, nattr(x))
        return d

    def add_node(self, n, **attr):
        n = _name_t(n)
        if any(isinstance(k, KwMark) for k in attr):
            # add_node(n, **d) with a heap dict d: a NEW node gets a new data dict with the (key, value) pairs of d
            if len(attr) != 1 or not isinstance(attr[KW], SDict):
                raise OutOfSubset('add_node(**symbolic dict) mixed with explicit attributes')
            if cur().branch(self.node(n)):
                raise OutOfSubset('add_node(existing node, **symbolic dict)')
            d = self.heap.copy_dict(attr[KW].ref, name='nodedata')
            node, nattr = self.node, self.nattr
            self.node = lambda x: z3.Or(x == n, node(x))
            self.nattr = lambda x: z3.If(x == n, d.ref, nattr(x))
            return
        if cur().branch(self.node(n)):
            d = SDict(self.heap, self.nattr(n))          # existing node: its data dict is updated
            for k, v in attr.items():
                d[k] = v
        else:
            self._new_node(n, list(attr.items()))

    def add_nodes_from(self, names, **attr):
        if isinstance(names, (NodeView, NameSetView, SNodeSet)):
            if attr:
                raise OutOfSubset('add_nodes_from(<symbolic set>, **attr)')
            mem = names.mem if not isinstance(names, NodeView) else names.G.node
            self._add_node_set(mem)
            return
        for x in names:
            if isinstance(x, tuple):
                self.add_node(x[0], **dict(attr, **dict(x[1])))
            else:
                self.add_node(x, **attr)

    def _add_node_set(self, mem):
        """every x with mem(x) that is not a node becomes one, each with its own new empty data dict"""
        th, h, vc = self.th, self.heap, self.th.vc
        node, nattr = self.node, self.nattr
        newref = vc.fresh_fn('newdata', th.Node, th.Ref)
        owner = vc.fresh_fn('newdata.owner', th.Ref, th.Node)
        isnew = lambda x: z3.And(mem(x), z3.Not(node(x)))
        vc.assume(th.forall_nodes(lambda x: z3.Implies(isnew(x), z3.And(z3.Not(h.alloc(newref(x))), owner(newref(x)) == x))))
        fresh_r = lambda r: z3.And(isnew(owner(r)), newref(owner(r)) == r)
        alloc, has = h.alloc, h.has
        h.alloc = lambda r: z3.Or(alloc(r), fresh_r(r))
        h.has = lambda r, k: z3.If(fresh_r(r), z3.BoolVal(False), has(r, k))
        self.node = lambda x: z3.Or(node(x), mem(x))
        self.nattr = lambda x: z3.If(isnew(x), newref(x), nattr(x))

    def add_edge(self, u, v, **attr):
        u, v = _name_t(u), _name_t(v)
        for k in attr:
            if k != 'param':
                raise OutOfSubset('edge attribute %r' % (k,))
        vc = cur()
        if not vc.branch(self.node(u)):
            self._new_node(u)
        if not vc.branch(self.node(v)):
            self._new_node(v)
        edge, param = self.edge, self.param
        if 'param' in attr:
            p = to_param(attr['param'])
        else:
            p = z3.If(edge(u, v), param(u, v), self.th.Param.pabsent)       # existing data kept, new edge: {}
        self.edge = lambda a, b: z3.Or(z3.And(a == u, b == v), edge(a, b))
        self.param = lambda a, b: z3.If(z3.And(a == u, b == v), p, param(a, b))

    def add_edges_from(self, ebunch):
        if isinstance(ebunch, EdgeView):
            ebunch = ebunch._vc_list()
        if isinstance(ebunch, EdgeSnap):
            S = ebunch
            self._add_node_set(lambda x: self.th.exists_nodes(lambda y: z3.Or(S.mem(x, y), S.mem(y, x))))
            edge, param = self.edge, self.param
            P = self.th.Param
            self.edge = lambda a, b: z3.Or(S.mem(a, b), edge(a, b))
            if S.data:      # datadict.update(dd): a 'param' in dd overrides, otherwise the old entry (if any) stays
                self.param = lambda a, b: z3.If(z3.And(S.mem(a, b), z3.Or(z3.Not(edge(a, b)), z3.Not(P.is_pabsent(S.param(a, b))))),
                                                S.param(a, b), param(a, b))
            else:
                self.param = lambda a, b: z3.If(z3.And(S.mem(a, b), z3.Not(edge(a, b))), P.pabsent, param(a, b))
            return
        if isinstance(ebunch, Sym):
            raise OutOfSubset('add_edges_from(%s)' % type(ebunch).__name__)
        for e in ebunch:
            if len(e) == 3:
                d = e[2]
                self.add_edge(e[0], e[1], **({'param': d['param']} if 'param' in d else {}))
            else:
                self.add_edge(e[0], e[1])

    def remove_node(self, n):
        n = _name_t(n)
        self._need_node(n, 'remove_node')
        node, edge = self.node, self.edge
        self.node = lambda x: z3.And(x != n, node(x))
        self.edge = lambda a, b: z3.And(a != n, b != n, edge(a, b))

    def remove_edge(self, u, v):
        u, v = _name_t(u), _name_t(v)
        if not cur().branch(self.edge(u, v)):
            raise program_exception(NetworkXError('The edge is not in the graph'))
        edge = self.edge
        self.edge = lambda a, b: z3.And(z3.Not(z3.And(a == u, b == v)), edge(a, b))

    def copy(self):
        return DiGraph(self)

    def _vc_isinstance(self, cls):
        classes = cls if isinstance(cls, tuple) else (cls,)
        return any(c is DiGraph or getattr(c, '__name__', '') == 'DiGraph' for c in classes)

    def __bool__(self):
        raise OutOfSubset('truth value of a symbolic graph (len(G) > 0)')

    __hash__ = Sym.__hash__


def DiGraph(G=None, **attr):
    """nx.DiGraph() / nx.DiGraph(G): for a graph argument the SHALLOW copy networkx makes (sanity-tested):
    same nodes, edges and edge data values; a new graph dict and a new data dict per node, each holding the same
    (key, value reference) pairs as the original's."""
    if attr:
        raise OutOfSubset('DiGraph(**attr)')
    if G is None:
        th = theory()
        heap = getattr(th, 'default_heap', None)
        if heap is None:
            raise OutOfSubset('nx.DiGraph() without a heap in the theory (set theory(vc).default_heap)')
        return SDiGraph(heap, name='G%d' % next(th.vc._counter), kind='empty')
    if not isinstance(G, SDiGraph):
        raise OutOfSubset('nx.DiGraph(%s)' % type(G).__name__)
    th, h, vc = G.th, G.heap, G.th.vc
    K = SDiGraph.__new__(SDiGraph)
    K.heap, K.th, K.t, K.name = h, th, None, G.name + "'"
    node, nattr = G.node, G.nattr
    K.node, K.edge, K.param = G.node, G.edge, G.param
    K.gref = h.copy_dict(G.gref, name='graphdict').ref
    newref = vc.fresh_fn('copydata', th.Node, th.Ref)
    owner = vc.fresh_fn('copydata.owner', th.Ref, th.Node)
    vc.assume(th.forall_nodes(lambda x: z3.Implies(node(x), z3.And(z3.Not(h.alloc(newref(x))), owner(newref(x)) == x))))
    fresh_r = lambda r: z3.And(node(owner(r)), newref(owner(r)) == r)
    alloc, has, val = h.alloc, h.has, h.val
    h.alloc = lambda r: z3.Or(alloc(r), fresh_r(r))
    h.has = lambda r, k: z3.If(fresh_r(r), has(nattr(owner(r)), k), has(r, k))
    h.val = lambda r, k: z3.If(fresh_r(r), val(nattr(owner(r)), k), val(r, k))
    K.nattr = lambda x: z3.If(node(x), newref(x), nattr(x))
    vc.libcall('nx.DiGraph', dict(src=G, copy=K, heap=h.snap()))       # anchor for contracts (state right after the library copy)
    return K


# ---- views
class NodeView:
    """G.nodes: `in`, [n] -> data dict, (data=True) -> (name, data dict) pairs, iteration via SetIter"""

    def __init__(self, G, data=False):
        self.G, self.data = G, data

    def __call__(self, data=False):
        if data not in (False, True):
            raise OutOfSubset('G.nodes(data=%r)' % (data,))
        return NodeView(self.G, data)

    def __getitem__(self, n):
        return self.G.node_data(n)

    def __setitem__(self, n, v):
        raise program_exception(TypeError("'NodeView' object does not support item assignment"))

    def __contains__(self, n):
        return bool(self.G.has_node(n))

    def get(self, n, default=None):
        n = _name_t(n)
        if cur().branch(self.G.node(n)):
            return SDict(self.G.heap, self.G.nattr(n))
        return default

    def _make(self, q):
        return (SNodeName(q), SDict(self.G.heap, self.G.nattr(q))) if self.data else SNodeName(q)

    def _vc_iter(self):
        from .engine import SetIter
        G = self.G
        return SetIter(G.th.Node, lambda q: G.node(q), self._make)

    def _vc_listcomp(self, elt_fn, cond_fn):
        return _set_listcomp(self.G.th, lambda q: self.G.node(q), self._make, elt_fn, cond_fn)

    def _vc_set(self):
        if self.data:
            raise OutOfSubset('set(G.nodes(data=True))')
        node = self.G.node
        return SNodeSet(lambda q: node(q))

    def _vc_list(self):
        if self.data:
            raise OutOfSubset('list(G.nodes(data=True))')
        return SNameList.of_set(self.G.node)

    def __iter__(self):
        raise OutOfSubset('iteration over the nodes of a symbolic graph needs a loop contract')


class NameSetView:
    """predecessors / successors: a set of node names (live view of the graph)"""

    def __init__(self, G, mem):
        self.G, self.mem = G, mem

    def _vc_iter(self):
        from .engine import SetIter
        return SetIter(self.G.th.Node, lambda q: self.mem(q), lambda q: SNodeName(q))

    def _vc_listcomp(self, elt_fn, cond_fn):
        return _set_listcomp(self.G.th, lambda q: self.mem(q), lambda q: SNodeName(q), elt_fn, cond_fn)

    def _vc_list(self):
        return SNameList.of_set(self.mem)

    def _vc_set(self):
        mem = self.mem
        return SNodeSet(lambda q: mem(q))

    def __contains__(self, n):
        return bool(SBool(self.mem(_name_t(n))))

    def __iter__(self):
        raise OutOfSubset('iteration over a neighbour set of a symbolic graph needs a loop contract')


def _set_listcomp(th, dom, make, elt_fn, cond_fn):
    """[elt(x) for x in <set> if cond(x)] with elt = identity on names: names of the members satisfying cond, each once,
    in unspecified order"""
    g = th.fresh_node('comp')
    probe = make(g)
    out = elt_fn(probe)
    if not (isinstance(out, SNodeName) and z3.eq(out.t, g)):
        raise OutOfSubset('comprehension over a node set whose element expression is not the node name')
    if cond_fn is None:
        return SNameList.of_set(dom)
    vc = th.vc
    saved = len(vc.pc)
    vc.pc.append(dom(g))
    try:
        c = summarise_bool(lambda: cond_fn(probe))
    finally:
        del vc.pc[saved:]
    return SNameList.of_set(lambda x: z3.And(dom(x), z3.substitute(c, (g, x))))


class EdgeSnap(Sym):
    """list(G.edges(...)): a frozen set of edges (u, v[, data])"""

    def __init__(self, mem, param, data):
        self.mem, self.param, self.data, self.t = mem, param, data, None

    __hash__ = Sym.__hash__


class EdgeView:
    """G.edges / G.out_edges / G.in_edges [(nbunch=one node, data=True|False)]"""

    def __init__(self, G, direction, n=None, data=False):
        self.G, self.dir, self.n, self.data, self.missing = G, direction, n, data, False

    def __call__(self, nbunch=None, data=False):
        if data not in (False, True):
            raise OutOfSubset('edges(data=%r)' % (data,))
        n = None
        if nbunch is not None:
            n = _name_t(nbunch)
            if not cur().branch(self.G.node(n)):      # nbunch not in the graph: networkx yields nothing for a single missing node
                v = EdgeView(self.G, self.dir, n, data)
                v.missing = True
                return v
        return EdgeView(self.G, self.dir, n, data)

    def _mem(self, st=None):
        st = st or self.G
        if self.missing:
            return lambda u, v: z3.BoolVal(False)
        if self.n is None:
            return lambda u, v: st.edge(u, v)
        n = self.n
        if self.dir == 'out':
            return lambda u, v: z3.And(u == n, st.edge(u, v))
        return lambda u, v: z3.And(v == n, st.edge(u, v))

    def _tuple(self, u, v):
        G = self.G
        t = (SNodeName(u), SNodeName(v))
        return t + (SEdgeData(G.param(u, v)),) if self.data else t

    def _vc_list(self):
        st = self.G.snap()
        return EdgeSnap(self._mem(st), st.param, self.data)

    def _vc_iter(self):
        from .engine import SetIter
        G, th = self.G, self.G.th
        if self.n is None:
            E = th.Edge
            mem = self._mem()
            return SetIter(E, lambda q: mem(E.src(q), E.dst(q)), lambda q: self._tuple(E.src(q), E.dst(q)))
        n = self.n
        if self.missing:
            return SetIter(th.Node, lambda q: z3.BoolVal(False), lambda q: self._tuple(n, q))
        if self.dir == 'out':
            return SetIter(th.Node, lambda q: G.edge(n, q), lambda q: self._tuple(n, q))
        return SetIter(th.Node, lambda q: G.edge(q, n), lambda q: self._tuple(q, n))

    def __iter__(self):
        raise OutOfSubset('iteration over the edges of a symbolic graph needs a loop contract')


class _Adj:
    def __init__(self, G, u):
        self.G, self.u = G, u

    def __getitem__(self, v):
        v = _name_t(v)
        _need('call-pre[G[u][v]: edge present]', self.G.edge(self.u, v))
        return SEdgeData(self.G.param(self.u, v))

    def __contains__(self, v):
        return bool(SBool(self.G.edge(self.u, _name_t(v))))


class _MissingDegree:
    """G.degree(n) for n not in G is an (empty) view object: it compares unequal to every number"""

    def __eq__(self, o):
        if isinstance(o, (int, SInt)):
            return False
        raise OutOfSubset('comparison of a degree view')

    def __ne__(self, o):
        return not self.__eq__(o)

    __hash__ = None


class _Degree:
    """G.degree(n) / G.degree[n]: a non-negative int of which only `== 0 <=> no incident edge` is specified"""

    def __init__(self, G, which):
        self.G, self.which = G, which

    def _value(self, n):
        G, th, vc = self.G, self.G.th, self.G.th.vc
        d = vc.fresh_int('degree')
        w = th.fresh_node('nbr')
        inc = {'both': lambda y: z3.Or(G.edge(n, y), G.edge(y, n)), 'in': lambda y: G.edge(y, n), 'out': lambda y: G.edge(n, y)}[self.which]
        vc.assume(d >= 0, z3.Implies(d > 0, inc(w)), z3.Implies(d == 0, th.forall_nodes(lambda y: z3.Not(inc(y)))))
        return SInt(d)

    def __call__(self, n=None, weight=None):
        if n is None or weight is not None:
            raise OutOfSubset('G.degree() over all nodes / weighted')
        n = _name_t(n)
        if not cur().branch(self.G.node(n)):
            return _MissingDegree()
        return self._value(n)

    def __getitem__(self, n):
        n = _name_t(n)
        _need('call-pre[G.degree[n]: node present]', self.G.node(n))
        return self._value(n)


class _Module:
    """what `nx` / `networkx` is in the analysed function's globals"""
    DiGraph = staticmethod(DiGraph)
    NetworkXError = NetworkXError


def module():
    return _Module


# ====================================================================== sanity tests of the assumed library contract
def sanity():
    """-> [(name, ok)] on the installed networkx"""
    import networkx as nx
    out = []
    G = nx.DiGraph()
    G.graph['observed'] = obs = {'x': 1}
    st = {'a': 1}
    G.add_node('n', attr_dict=st)
    G.add_node('p', attr_dict={})
    G.add_edge('p', 'n', param=0)
    K = nx.DiGraph(G)
    out.append(('nx.DiGraph(G): new graph dict, same value references', K.graph is not G.graph and K.graph['observed'] is obs))
    out.append(('nx.DiGraph(G): new node data dicts, same value references', K.nodes['n'] is not G.nodes['n'] and K.nodes['n']['attr_dict'] is st))
    out.append(('nx.DiGraph(G): edge data copied by value', K['p']['n'] is not G['p']['n'] and K['p']['n'] == {'param': 0}))
    K.add_edge('n', 'q')
    K.remove_node('p')
    out.append(('nx.DiGraph(G): structure independent', not G.has_node('q') and G.has_edge('p', 'n')))
    out.append(('degree of a missing node compares unequal to 0', (G.degree('zz') == 0) is False))
    out.append(('degree counts in+out edges', G.degree('n') == 1 and G.degree('p') == 1))
    G.add_node('n', foo=1)
    out.append(('add_node on an existing node updates its data dict', G.nodes['n']['foo'] == 1 and G.nodes['n']['attr_dict'] is st))
    G.add_edge('u', 'n')
    out.append(('add_edge creates missing nodes with empty data, edge data {}', G.nodes['u'] == {} and G['u']['n'] == {}))
    G.add_edge('p', 'n')
    out.append(('add_edge on an existing edge keeps its data', G['p']['n'] == {'param': 0}))
    G.add_edge('p', 'n', param=3)
    out.append(('add_edge(param=) overrides', G['p']['n'] == {'param': 3}))
    e = list(G.edges('p', data=True))
    G.remove_node('n')
    out.append(('remove_node removes incident edges only', list(G.edges) == [] and 'p' in G and 'u' in G and not G.has_node('n')))
    G.add_edges_from(e)
    out.append(('add_edges_from(list(edges(data=True))) restores nodes (empty data) and edge data', G.nodes['n'] == {} and G['p']['n'] == {'param': 3}))
    ok = False
    try:
        G.remove_node('zz')
    except nx.NetworkXError:
        ok = True
    try:
        list(G.predecessors('zz'))
        ok = False
    except nx.NetworkXError:
        pass
    out.append(('remove_node / predecessors of a missing node raise NetworkXError', ok))
    try:
        G.nodes['zz']
        ok = False
    except KeyError:
        ok = True
    out.append(('G.nodes[missing] raises KeyError', ok))
    out.append(('edges(missing node) is empty', list(G.edges('zz', data=True)) == []))
    try:
        G.nodes['p'] = {}
        ok = False
    except TypeError:
        ok = True
    out.append(('NodeView does not support item assignment', ok))
    return out
