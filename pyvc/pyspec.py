"""Spec environment for builtins (assumed contracts on the Python runtime).  The analysed function's
globals contain ONLY what is listed here plus what the contract adds; an unknown global is a
NameError -> OutOfSubset."""
import builtins
import math as _math
import operator as _operator
import z3

from .core import cur, OutOfSubset, forall_range, program_exception
from .values import Sym, SInt, SReal, SBool, SKey, SNum, SOpt, lift, term, IntS, RealS, BoolS, z_ite
from . import sarray
from .sarray import SArr, SPerm, zi, conc


def vc_len(x):
    f = getattr(x, '_vc_len', None)
    if f is not None:
        return f()
    if isinstance(x, SOpt):
        return vc_len(x.get('len'))
    if isinstance(x, Sym):
        raise OutOfSubset('len() of %s' % type(x).__name__)
    return builtins.len(x)


class SRange:
    def __init__(self, lo, hi):
        self.lo, self.hi = zi(lo), zi(hi)

    def _vc_iter(self):
        from .engine import SeqIter
        n = z3.If(self.hi >= self.lo, self.hi - self.lo, 0)
        return SeqIter(n, lambda i: SInt(self.lo + i))

    def _vc_len(self):
        return SInt(z3.If(self.hi >= self.lo, self.hi - self.lo, 0))

    def __iter__(self):
        raise OutOfSubset('range over a symbolic bound needs a loop contract')


def vc_range(*a):
    if all(isinstance(x, int) for x in a):
        return builtins.range(*a)
    vals = []
    for x in a:
        if isinstance(x, SInt) and x.concrete() is not None:
            vals.append(x.concrete())
        else:
            vals.append(x)
    if all(isinstance(x, int) for x in vals):
        return builtins.range(*vals)
    if len(a) == 1:
        return SRange(0, a[0])
    if len(a) == 2:
        return SRange(a[0], a[1])
    raise OutOfSubset('range with a step over symbolic bounds')


_ISINSTANCE = None


def _isinstance_table():
    global _ISINSTANCE
    if _ISINSTANCE is None:
        import numbers
        import numpy as _np
        _ISINSTANCE = {
            SInt: (int, numbers.Integral, numbers.Number, numbers.Real, _np.integer),
            SReal: (float, numbers.Real, numbers.Number, _np.floating),
            SBool: (bool, int, _np.bool_),
            SArr: (_np.ndarray,),
            SPerm: (_np.ndarray,),
        }
    return _ISINSTANCE


def vc_isinstance(x, cls):
    f = getattr(x, '_vc_isinstance', None)
    if f is not None:
        return f(cls)
    if isinstance(x, SOpt):
        raise OutOfSubset('isinstance on an optional')
    if isinstance(x, Sym):
        tab = _isinstance_table()
        mine = tab.get(type(x))
        if mine is None:
            raise OutOfSubset('isinstance(%s, ...)' % type(x).__name__)
        classes = cls if isinstance(cls, tuple) else (cls,)
        out = False
        for c in classes:
            m = getattr(c, '_vc_models', None)      # spec classes (npspec.ndarray, RandomState) declare what they model
            if m is not None:
                c = m
            if not isinstance(c, type):
                raise OutOfSubset('isinstance against %r' % (c,))
            if any(issubclass(k, c) for k in mine):
                out = True
        return out
    classes = cls if isinstance(cls, tuple) else (cls,)
    classes = tuple(getattr(c, '_vc_models', c) for c in classes)
    return builtins.isinstance(x, classes)


def vc_int(x=0, *a):
    if isinstance(x, SInt):
        return x
    if isinstance(x, SBool):
        return x._as_int()
    if isinstance(x, SReal):
        # truncation toward zero
        vc = cur()
        r = vc.fresh('trunc', IntS)
        rr = z3.ToReal(r)
        vc.assume(z3.If(x.t >= 0, z3.And(rr <= x.t, x.t < rr + 1), z3.And(rr >= x.t, x.t > rr - 1)))
        return SInt(r)
    if isinstance(x, SArr) and x.ndim == 0:
        return vc_int(x.item())
    if isinstance(x, Sym):
        raise OutOfSubset('int(%s)' % type(x).__name__)
    return builtins.int(x, *a)


def vc_float(x=0.0):
    if isinstance(x, SReal):
        return x
    if isinstance(x, SInt):
        return SReal(z3.ToReal(x.t))
    if isinstance(x, SArr):
        # numpy >= 2.x: float() of an array is only defined for 0-d arrays (size-1 arrays of higher rank raise TypeError)
        if x.ndim == 0:
            return vc_float(x.item())
        raise program_exception(TypeError('only 0-dimensional arrays can be converted to Python scalars'))
    if isinstance(x, Sym):
        raise OutOfSubset('float(%s)' % type(x).__name__)
    return builtins.float(x)


def vc_bool(x=False):
    if isinstance(x, Sym):
        return x.__bool__()
    return builtins.bool(x)


def vc_abs(x):
    if isinstance(x, Sym):
        return x.__abs__()
    return builtins.abs(x)


def _minmax(args, is_min, key=None):
    if len(args) == 1:
        seq = args[0]
        if isinstance(seq, Sym):
            raise OutOfSubset('min/max of a symbolic sequence')
        args = list(seq)
    if key is not None:
        raise OutOfSubset('min/max with key')
    if not any(isinstance(a, Sym) for a in args):
        return builtins.min(args) if is_min else builtins.max(args)
    r = args[0]
    for a in args[1:]:
        c = (lift(a) < r) if is_min else (lift(a) > r)
        r = z_ite(c.t, a, r)
    return r


def vc_min(*a, **kw):
    return _minmax(a, True, **kw)


def vc_max(*a, **kw):
    return _minmax(a, False, **kw)


def vc_sum(seq, start=0):
    if isinstance(seq, SArr):
        from . import npspec
        return npspec.sum(seq) + start
    if isinstance(seq, Sym):
        raise OutOfSubset('sum of %s' % type(seq).__name__)
    r = start
    for x in seq:
        r = r + x
    return r


def vc_sorted(seq, key=None, reverse=False):
    f = getattr(seq, '_vc_sorted', None)
    if f is not None:
        return f(key=key, reverse=reverse)
    if isinstance(seq, Sym):
        raise OutOfSubset('sorted(%s)' % type(seq).__name__)
    seq = list(seq)
    if any(isinstance(x, Sym) for x in seq) or (key is not None and seq and isinstance(key(seq[0]), Sym)):
        raise OutOfSubset('sorted over symbolic elements')
    return builtins.sorted(seq, key=key, reverse=reverse)


def vc_list(x=()):
    f = getattr(x, '_vc_list', None)
    if f is not None:
        return f()
    if isinstance(x, Sym):
        raise OutOfSubset('list(%s)' % type(x).__name__)
    return builtins.list(x)


def vc_tuple(x=()):
    f = getattr(x, '_vc_tuple', None)
    if f is not None:
        return f()
    if isinstance(x, Sym):
        raise OutOfSubset('tuple(%s)' % type(x).__name__)
    return builtins.tuple(x)


def vc_set(x=()):
    f = getattr(x, '_vc_set', None)
    if f is not None:
        return f()
    if isinstance(x, Sym):
        raise OutOfSubset('set(%s)' % type(x).__name__)
    return builtins.set(x)


def vc_enumerate(x, start=0):
    f = getattr(x, '_vc_enumerate', None)
    if f is not None:
        return f(start)
    if isinstance(x, Sym):
        raise OutOfSubset('enumerate(%s)' % type(x).__name__)
    return builtins.enumerate(x, start)


class ZipSeq:
    """zip over sequences of which at least one has a symbolic length: iterable only through a loop contract"""

    def __init__(self, seqs):
        self.seqs = seqs

    def _vc_iter(self):
        from .engine import SeqIter
        n = None
        for q in self.seqs:
            ln = zi(vc_len(q))
            n = ln if n is None else z3.If(ln < n, ln, n)
        return SeqIter(n, lambda i: builtins.tuple(q[SInt(i)] for q in self.seqs))

    def __iter__(self):
        raise OutOfSubset('zip over a symbolic sequence needs a loop contract')


def vc_zip(*seqs):
    if builtins.any(isinstance(q, Sym) for q in seqs):
        return ZipSeq(seqs)
    return builtins.zip(*seqs)


def vc_round(x, nd=None):
    if isinstance(x, Sym):
        raise OutOfSubset('round of symbolic')
    return builtins.round(x, nd) if nd is not None else builtins.round(x)


class _Math:
    pi = _math.pi
    e = _math.e
    inf = None

    @staticmethod
    def ceil(x):
        if isinstance(x, SInt):
            return x
        if isinstance(x, SReal):
            vc = cur()
            r = vc.fresh('ceil', IntS)
            vc.assume(z3.ToReal(r) >= x.t, z3.ToReal(r) < x.t + 1)
            return SInt(r)
        if isinstance(x, Sym):
            raise OutOfSubset('math.ceil(%s)' % type(x).__name__)
        return _math.ceil(x)

    @staticmethod
    def floor(x):
        if isinstance(x, SInt):
            return x
        if isinstance(x, SReal):
            vc = cur()
            r = vc.fresh('floor', IntS)
            vc.assume(z3.ToReal(r) <= x.t, z3.ToReal(r) > x.t - 1)
            return SInt(r)
        if isinstance(x, Sym):
            raise OutOfSubset('math.floor(%s)' % type(x).__name__)
        return _math.floor(x)

    @staticmethod
    def isclose(a, b, rel_tol=1e-09, abs_tol=0.0):
        if isinstance(a, Sym) or isinstance(b, Sym):
            # real-number reading of the documented formula
            a, b = lift(a), lift(b)
            d = abs(a - b)
            m = vc_max(abs(a), abs(b))
            return SBool(z3.Or((d <= lift(rel_tol) * m).t, (d <= lift(abs_tol)).t))
        return _math.isclose(a, b, rel_tol=rel_tol, abs_tol=abs_tol)

    @staticmethod
    def sqrt(x):
        from . import npspec
        if isinstance(x, Sym):
            return npspec.sqrt(x)
        return _math.sqrt(x)

    @staticmethod
    def log(x, *a):
        from . import npspec
        if isinstance(x, Sym):
            if a:
                raise OutOfSubset('math.log with base')
            return npspec.log(x)
        return _math.log(x, *a)

    @staticmethod
    def exp(x):
        from . import npspec
        if isinstance(x, Sym):
            return npspec.exp(x)
        return _math.exp(x)


SAFE_BUILTINS = ['ValueError', 'TypeError', 'KeyError', 'IndexError', 'AttributeError', 'NotImplementedError', 'RuntimeError',
                 'AssertionError', 'OverflowError', 'ZeroDivisionError', 'StopIteration', 'Exception', 'IOError', 'OSError',
                 'FloatingPointError', 'ArithmeticError', 'LookupError', 'FileNotFoundError',
                 'True', 'False', 'None', 'dict', 'str', 'zip', 'map', 'filter', 'reversed', 'object', 'type', 'hasattr',
                 'getattr', 'setattr', 'callable', 'slice', 'iter', 'next', 'repr', 'id', 'frozenset', 'divmod', 'any', 'all',
                 'property', 'staticmethod', 'classmethod', 'Ellipsis', 'NotImplemented', '__build_class__', '__name__', 'format',
                 'hash', 'issubclass', 'bytes', 'complex']


def make_globals():
    b = {k: getattr(builtins, k) for k in SAFE_BUILTINS if hasattr(builtins, k)}
    b.update(len=vc_len, range=vc_range, isinstance=vc_isinstance, int=vc_int, float=vc_float, bool=vc_bool, abs=vc_abs,
             min=vc_min, max=vc_max, sum=vc_sum, sorted=vc_sorted, list=vc_list, tuple=vc_tuple, set=vc_set,
             enumerate=vc_enumerate, round=vc_round, zip=vc_zip)
    b['__name__'] = 'pyvc_analysed'
    g = {'__builtins__': b, 'math': _Math, 'operator': _operator, 'ceil': _Math.ceil}
    return g

for _f, _m in ((vc_int, int), (vc_float, float), (vc_bool, bool), (vc_list, list), (vc_tuple, tuple), (vc_set, set),
               (vc_range, range)):
    _f._vc_models = _m
