"""Symbolic n-D arrays (rank concrete, sizes symbolic) as closures over z3 terms.

Storage is a mutable Cell shared by views (basic slicing / integer indexing give views, as in
numpy; everything else copies).  Not modelled: dtype casting, memory layout, float rounding.
"""
import sys
import z3
from .core import cur, OutOfSubset, forall_range, exists_range, _z
from .values import Sym, SInt, SReal, SBool, SKey, SNum, lift, term, IntS, RealS, BoolS, _coerce, SOpt

SORT = {'real': RealS, 'int': IntS, 'bool': BoolS}


def kind_of_sort(s):
    if s == RealS:
        return 'real'
    if s == IntS:
        return 'int'
    if s == BoolS:
        return 'bool'
    return 'key'


def zi(x):
    if isinstance(x, bool):
        raise OutOfSubset('bool used as size/index')
    if isinstance(x, int):
        return z3.IntVal(x)
    if isinstance(x, SInt):
        return x.t
    if isinstance(x, z3.ArithRef) and x.sort() == IntS:
        return x
    try:
        import numpy as _np
        if isinstance(x, _np.integer):
            return z3.IntVal(int(x))
    except ImportError:
        pass
    raise OutOfSubset('expected an integer, got %r' % (x,))


def conc(t):
    v = z3.simplify(t)
    return v.as_long() if z3.is_int_value(v) else None


class ZBool(z3.BoolRef):
    """a z3 Bool term that FORKS when python asks for its truth value.  (A plain z3.BoolRef answers bool(a == b) by
    STRUCTURAL equality - silently False for a symbolic operand - which would drop a path without any trace.)"""

    def __bool__(self):
        return cur().branch(self)


class ZInt(z3.ArithRef):
    """shape entries: ordinary z3 Int terms for contracts, but comparisons made by the ANALYSED code (`x.shape[1] == 1`)
    give ZBool and therefore fork instead of being decided structurally"""

    def _b(self, r):
        return ZBool(r.as_ast(), r.ctx) if isinstance(r, z3.BoolRef) else r

    def _a(self, r):
        return ZInt(r.as_ast(), r.ctx) if isinstance(r, z3.ArithRef) and r.sort() == IntS else r

    def __eq__(self, o): return self._b(z3.ArithRef.__eq__(self, _plain(o)))
    def __ne__(self, o): return self._b(z3.ArithRef.__ne__(self, _plain(o)))
    def __lt__(self, o): return self._b(z3.ArithRef.__lt__(self, _plain(o)))
    def __le__(self, o): return self._b(z3.ArithRef.__le__(self, _plain(o)))
    def __gt__(self, o): return self._b(z3.ArithRef.__gt__(self, _plain(o)))
    def __ge__(self, o): return self._b(z3.ArithRef.__ge__(self, _plain(o)))
    def __add__(self, o): return self._a(z3.ArithRef.__add__(self, _plain(o)))
    def __radd__(self, o): return self._a(z3.ArithRef.__radd__(self, _plain(o)))
    def __sub__(self, o): return self._a(z3.ArithRef.__sub__(self, _plain(o)))
    def __rsub__(self, o): return self._a(z3.ArithRef.__rsub__(self, _plain(o)))
    def __mul__(self, o): return self._a(z3.ArithRef.__mul__(self, _plain(o)))
    def __rmul__(self, o): return self._a(z3.ArithRef.__rmul__(self, _plain(o)))
    def __neg__(self): return self._a(z3.ArithRef.__neg__(self))
    __hash__ = z3.ArithRef.__hash__

    def __floordiv__(self, o): return SInt(self) // o
    def __rfloordiv__(self, o): return o // SInt(self)
    def __mod__(self, o): return SInt(self) % o
    def __truediv__(self, o): return SInt(self) / o
    def __rtruediv__(self, o): return o / SInt(self)

    def __index__(self):
        c = conc(self)
        if c is None:
            raise OutOfSubset('symbolic dimension used where python needs a concrete integer')
        return c

    def __int__(self):
        return self.__index__()


def _plain(o):
    if isinstance(o, Sym) and getattr(o, 't', None) is not None:
        return o.t
    return o


def zdim(t):
    if isinstance(t, ZInt):
        return t
    if isinstance(t, z3.ArithRef):
        return ZInt(t.as_ast(), t.ctx)
    return t


class Cell:
    __slots__ = ('elt', 'shape', 'kind')

    def __init__(self, elt, shape, kind):
        self.elt, self.shape, self.kind = elt, tuple(shape), kind


def wrap_scalar(t, kind):
    if kind == 'real':
        return SReal(t)
    if kind == 'int':
        return SInt(t)
    if kind == 'bool':
        return SBool(t)
    return SKey(t)


class SArr(Sym):
    """view = list over STORAGE axes of ('fix', term) | ('rng', offset_term); `shape` lists the lengths
    of the 'rng' axes in order; `perm` optionally permutes the view axes (transpose)."""
    __slots__ = ('cell', 'view', '_shape', 'perm', '_sel', 'name', 'sel_inst')

    def __init__(self, cell, view=None, shape=None, perm=None, name=None):
        self.cell = cell
        self.view = view if view is not None else [('rng', z3.IntVal(0))] * len(cell.shape)
        self._shape = tuple(shape) if shape is not None else tuple(cell.shape)
        self.perm = perm
        self._sel = None
        self.name = name
        self.t = None

    # ---------------------------------------------------------------- construction
    @staticmethod
    def fresh(name, shape, kind='real', vc=None, nonneg_shape=True):
        vc = vc or cur()
        shape = tuple(zi(s) for s in shape)
        f = vc.fresh_fn(name, *([IntS] * len(shape) + [SORT[kind]])) if shape else None
        if not shape:
            c = vc.fresh(name, SORT[kind])
            return SArr(Cell(lambda: c, (), kind), name=name)
        return SArr(Cell(lambda *i: f(*i), shape, kind), name=name)

    @staticmethod
    def from_fn(fn, shape, kind):
        return SArr(Cell(fn, tuple(zi(s) for s in shape), kind))

    # ---------------------------------------------------------------- basic facts
    @property
    def shape(self):
        """z3 Int terms for contract / engine code; python ints and SInt proxies when the ANALYSED code reads it
        (a raw z3 term would answer `x.shape[1] == 1` by structural equality - silently False - and `/` by integer division)"""
        if sys._getframe(1).f_code.co_filename.startswith('<pyvc:'):
            return self.pshape
        return self._shape

    @shape.setter
    def shape(self, v):
        self._shape = tuple(zi(d) for d in v)

    @property
    def kind(self):
        return self.cell.kind

    @property
    def ndim(self):
        return len(self.shape)

    @property
    def pshape(self):
        return tuple(SInt(s) if conc(s) is None else conc(s) for s in self._shape)

    def _vc_len(self):
        if not self.shape:
            raise TypeError('len() of unsized object')
        return SInt(self.shape[0])

    @property
    def size(self):
        r = z3.IntVal(1)
        for s in self.shape:
            r = r * s
        return SInt(z3.simplify(r)) if all(conc(s) is not None for s in self.shape) else SInt(r)

    @property
    def T(self):
        return self.transpose()

    @property
    def real(self):
        """ndarray.real of a real / int / bool array is the array itself (complex values are not modelled)"""
        return self

    @property
    def dtype(self):
        return {'real': 'float64', 'int': 'int64', 'bool': 'bool'}.get(self.kind, self.kind)

    def transpose(self):
        if self.ndim <= 1:
            return self
        if self.ndim == 2:
            p = self.perm or (0, 1)
            return SArr(self.cell, self.view, (self.shape[1], self.shape[0]), (p[1], p[0]))
        raise OutOfSubset('transpose of rank %d' % self.ndim)

    def storage_index(self, idx):
        """view indices (terms, in view-axis order) -> storage indices"""
        if len(idx) != len(self.shape):
            raise OutOfSubset('rank mismatch in element access')
        if self.perm is not None:
            un = [None] * len(idx)
            for viewpos, rngpos in enumerate(self.perm):
                un[rngpos] = idx[viewpos]
            idx = un
        out, k = [], 0
        for tag, v in self.view:
            if tag == 'fix':
                out.append(v)
            else:
                out.append(idx[k] if conc(v) == 0 else v + idx[k])
                k += 1
        return out

    def at(self, *idx):
        """element term at view index (z3 terms / ints); no bounds obligation"""
        idx = [zi(i) for i in idx]
        return self.cell.elt(*self.storage_index(idx))

    def snapshot(self):
        me = self
        elt = self.cell.elt
        view, perm, shape = list(self.view), self.perm, self.shape
        tmp = SArr(Cell(elt, self.cell.shape, self.kind), view, shape, perm)
        return SArr(Cell(lambda *i: tmp.at(*i), shape, self.kind))

    copy = snapshot

    def _vc_havoc(self, name='hv'):
        """in-place havoc of the elements seen through this view (whole storage if it is the base)"""
        vc = cur()
        f = vc.fresh_fn(name, *([IntS] * len(self.cell.shape) + [SORT[self.kind]]))
        if self._is_base():
            self.cell.elt = (lambda *i: f(*i))
        else:
            self._write(lambda *i: f(*self.storage_index(list(i))), None)
        self._sel = None

    def _vc_fresh_like(self, name):
        return SArr.fresh(name, self.shape, self.kind)

    def _is_base(self):
        return self.perm is None and all(tag == 'rng' and conc(v) == 0 for tag, v in self.view) and \
            all(z3.eq(z3.simplify(a), z3.simplify(b)) for a, b in zip(self.shape, self.cell.shape))

    # ---------------------------------------------------------------- indexing
    def _norm_index(self, i, n, what):
        """python index semantics: negative wraps; obligation: in range"""
        c = conc(i)
        if c is not None:
            r = z3.IntVal(c) if c >= 0 else n + c
        else:
            r = z3.If(i >= 0, i, n + i)
        cur().oblige('call-pre[index in range: %s]' % what, z3.And(r >= 0, r < n))
        return r

    def _norm_slice(self, sl, n):
        if sl.step is not None and sl.step != 1:
            raise OutOfSubset('slice step')
        if sl.start is None and sl.stop is None:
            return z3.IntVal(0), n

        def clamp(v, default):
            if v is None:
                return default
            v = zi(v)
            c = conc(v)
            if c is not None and c >= 0:
                w = v
            elif c is not None:
                w = n + c
            else:
                w = z3.If(v >= 0, v, n + v)
            return z3.If(w < 0, 0, z3.If(w > n, n, w))
        lo = clamp(sl.start, z3.IntVal(0))
        hi = clamp(sl.stop, n)
        ln = z3.If(hi >= lo, hi - lo, 0)
        return z3.simplify(lo), z3.simplify(ln)

    def __getitem__(self, idx):
        from . import npspec
        if isinstance(idx, SOpt):
            idx = idx.get('index')
        if isinstance(idx, SArr):
            if idx.kind == 'bool':
                return self._mask_select(idx)
            if idx.kind == 'int':
                return self._fancy(idx)
            raise OutOfSubset('index array of kind %s' % idx.kind)
        if isinstance(idx, SPerm):
            return self._fancy(idx.as_array())
        if isinstance(idx, list):
            raise OutOfSubset('list index')
        if not isinstance(idx, tuple):
            idx = (idx,)
        if any(isinstance(i, (SArr, SPerm)) for i in idx):
            # a[mask, :] / a[idx, :]  -> rows
            first, rest = idx[0], idx[1:]
            if all(isinstance(r, slice) and r == slice(None) for r in rest) and isinstance(first, (SArr, SPerm)):
                return self[first]
            if isinstance(idx[0], slice) and idx[0] == slice(None) and len(idx) == 2 and isinstance(idx[1], (SArr, SPerm)):
                return self.transpose()[idx[1]].transpose_copy()
            raise OutOfSubset('mixed fancy index')
        if any(i is Ellipsis for i in idx):
            raise OutOfSubset('ellipsis index')
        n_new = sum(1 for i in idx if i is None)
        if n_new:
            # a[..., None, ...]: index without the None entries, then insert the unit axes (a COPY, as np.expand_dims in npspec:
            # writes through the result are not propagated to `a`)
            base = self[tuple(i for i in idx if i is not None)]
            if not isinstance(base, SArr):
                base = npspec.asarray(base)
            pos, k = [], 0
            for i in idx:
                if i is None:
                    pos.append(k)
                    k += 1
                elif isinstance(i, slice):
                    k += 1
            out = base
            for p_ in pos:
                out = npspec.expand_dims(out, p_)
            return out
        if len(idx) > self.ndim:
            raise IndexError('too many indices for array')
        idx = list(idx) + [slice(None)] * (self.ndim - len(idx))
        # view-axis order -> the underlying 'rng' order
        order = list(self.perm) if self.perm is not None else list(range(self.ndim))
        per_rng = [None] * self.ndim
        for viewpos, ix in enumerate(idx):
            per_rng[order[viewpos]] = (ix, self.shape[viewpos], viewpos)
        new_view, k = [], 0
        kept = {}           # rngpos -> new length
        for tag, v in self.view:
            if tag == 'fix':
                new_view.append((tag, v))
                continue
            ix, n, viewpos = per_rng[k]
            if isinstance(ix, slice):
                lo, ln = self._norm_slice(ix, n)
                new_view.append(('rng', z3.simplify(v + lo)))
                kept[k] = ln
            else:
                r = self._norm_index(zi(ix), n, 'axis %d' % viewpos)
                new_view.append(('fix', z3.simplify(v + r)))
            k += 1
        kept_order = sorted(kept)                          # surviving rng positions
        remap = {old: new for new, old in enumerate(kept_order)}
        new_perm = [remap[o] for o in order if o in kept]
        new_shape = [kept[o] for o in order if o in kept]
        if not new_shape:
            return wrap_scalar(self.cell.elt(*[v for _, v in new_view]), self.kind)
        perm = tuple(new_perm) if new_perm != sorted(new_perm) else None
        return SArr(self.cell, new_view, new_shape, perm)

    def transpose_copy(self):
        return self.transpose().snapshot()

    def select(self):
        """for a 1-D bool array: (k, sel, rank) with the order-preserving bijection axioms"""
        if self._sel is None:
            if self.kind != 'bool' or self.ndim != 1:
                raise OutOfSubset('select() on a non-mask')
            vc = cur()
            n = self.shape[0]
            k = vc.fresh_int('k', size=True)
            sel = vc.fresh_fn('sel', IntS, IntS)
            rank = vc.fresh_fn('rank', IntS, IntS)
            m = self.snapshot()
            vc.assume(k >= 0, k <= n,
                      forall_range(0, k, lambda j: z3.And(0 <= sel(j), sel(j) < n, m.at(sel(j)), rank(sel(j)) == j), 'j'),
                      forall_range(0, n, lambda i: z3.Implies(m.at(i), z3.And(0 <= rank(i), rank(i) < k, sel(rank(i)) == i)), 'i'),
                      forall_range(0, k, lambda j: forall_range(0, j, lambda i: sel(i) < sel(j), 'i'), 'j'),
                      z3.Implies(forall_range(0, n, lambda i: m.at(i), 'i'), k == n),
                      z3.Implies(forall_range(0, n, lambda i: z3.Not(m.at(i)), 'i'), k == 0))
            self._sel = (k, sel, rank, m)
            # instance generators of the quantified axioms above (explicit instantiation by contracts; each is an
            # instance of an assumed fact, so assuming it adds nothing new)
            self.sel_inst = dict(
                true_has_rank=lambda i: z3.Implies(z3.And(0 <= i, i < n, m.at(i)), z3.And(0 <= rank(i), rank(i) < k, sel(rank(i)) == i)),
                sel_is_true=lambda j: z3.Implies(z3.And(0 <= j, j < k), z3.And(0 <= sel(j), sel(j) < n, m.at(sel(j)), rank(sel(j)) == j)),
                sel_increasing=lambda i, j: z3.Implies(z3.And(0 <= i, i < j, j < k), sel(i) < sel(j)))
        return self._sel

    def _mask_select(self, mask):
        vc = cur()
        if mask.ndim != 1:
            raise OutOfSubset('mask of rank %d' % mask.ndim)
        vc.oblige('call-pre[mask length == array length]', mask.shape[0] == self.shape[0])
        k, sel, rank, _ = mask.select()
        src = self.snapshot()
        return SArr(Cell(lambda j, *rest: src.at(sel(j), *rest), (k,) + tuple(self.shape[1:]), self.kind))

    def _fancy(self, idx):
        vc = cur()
        if idx.ndim != 1:
            raise OutOfSubset('index array of rank %d' % idx.ndim)
        n = self.shape[0]
        ix = idx.snapshot()
        vc.oblige('call-pre[index array in range]', forall_range(0, ix.shape[0], lambda i: z3.And(ix.at(i) >= 0, ix.at(i) < n), 'i'))
        src = self.snapshot()
        return SArr(Cell(lambda j, *rest: src.at(ix.at(j), *rest), (ix.shape[0],) + tuple(self.shape[1:]), self.kind))

    # ---------------------------------------------------------------- writes
    def _write(self, newval, cond):
        """storage[s] := newval(*v) where v is the view index that maps to s, restricted by cond(*v)."""
        cell = self.cell
        old = cell.elt
        view, shape, perm = list(self.view), self.shape, self.perm
        order = list(perm) if perm is not None else list(range(len(shape)))

        def new_elt(*s):
            conds, vidx_rng, k = [], {}, 0
            for (tag, v), si in zip(view, s):
                if tag == 'fix':
                    conds.append(si == v)
                else:
                    vi = si - v
                    vidx_rng[k] = vi
                    k += 1
            vidx = [vidx_rng[o] for o in order]
            for vi, n in zip(vidx, shape):
                conds.append(z3.And(vi >= 0, vi < n))
            if cond is not None:
                conds.append(cond(*vidx))
            return z3.If(z3.And(*conds) if conds else z3.BoolVal(True), newval(*vidx), old(*s))
        cell.elt = new_elt

    def __setitem__(self, idx, value):
        vc = cur()
        if isinstance(idx, SArr) and idx.kind == 'bool':
            if self.ndim != 1 and not isinstance(value, (SNum, int, float, SBool)):
                raise OutOfSubset('mask assignment on rank %d' % self.ndim)
            if idx.ndim == self.ndim and self.ndim > 1:
                # a[mask] = scalar with an ELEMENTWISE mask of the array's own rank
                for a_, b_ in zip(idx.shape, self.shape):
                    vc.oblige('call-pre[mask shape == array shape]', a_ == b_)
                m = idx.snapshot()
                t = self._cast_scalar(value)
                self._write(lambda *i: t, lambda *i: m.at(*i))
                return
            vc.oblige('call-pre[mask length == array length]', idx.shape[0] == self.shape[0])
            m = idx.snapshot()
            if isinstance(value, SArr):
                k, sel, rank, _ = idx.select()
                vc.oblige('call-pre[mask assignment: len(rhs) == count(mask)]', value.shape[0] == k)
                rhs = value.snapshot()
                self._write(lambda i, *r: self._cast(rhs.at(rank(i), *r), rhs.kind), lambda i, *r: m.at(i))
            else:
                t = self._cast_scalar(value)
                self._write(lambda i, *r: t, lambda i, *r: m.at(i))
            return
        if isinstance(idx, (SArr, SPerm)):
            raise OutOfSubset('fancy assignment')
        if isinstance(idx, tuple) and any(isinstance(i, (SArr, SPerm, list)) for i in idx):
            # a[mask, :] = v would go through __getitem__'s copy and be lost silently: fail closed
            raise OutOfSubset('assignment through a mask / index array inside a tuple index')
        target = self[idx] if not (isinstance(idx, slice) and idx == slice(None)) else self
        if not isinstance(target, SArr):
            # single element: rebuild as a 0-d write
            tup = idx if isinstance(idx, tuple) else (idx,)
            order = list(self.perm) if self.perm is not None else list(range(self.ndim))
            full = [self._norm_index(zi(i), n, 'store') for i, n in zip(tup, self.shape)]
            if isinstance(value, SArr):
                # numpy >= 2.? : a[i] = <array with ndim >= 1> is "setting an array element with a sequence" even for ONE
                # element (no implicit conversion of size-1 arrays to scalars); a 0-d array is accepted
                if value.ndim > 0:
                    from .core import program_exception
                    raise program_exception(ValueError('setting an array element with a sequence.'))
                value = wrap_scalar(value.at(), value.kind)
            t = self._cast_scalar(value)
            sidx = self.storage_index(full)
            old = self.cell.elt
            self.cell.elt = lambda *s: z3.If(z3.And(*[a == b for a, b in zip(s, sidx)]), t, old(*s))
            return
        if isinstance(value, SArr):
            rhs = value.snapshot()
            if rhs.ndim == target.ndim:
                for a, b in zip(target.shape, rhs.shape):
                    vc.oblige('call-pre[assignment shapes match]', a == b)
                target._write(lambda *i: self._cast(rhs.at(*i), rhs.kind), None)
            elif rhs.ndim == 0:
                target._write(lambda *i: self._cast(rhs.at(), rhs.kind), None)
            elif rhs.ndim < target.ndim:
                d = target.ndim - rhs.ndim
                for a, b in zip(target.shape[d:], rhs.shape):
                    vc.oblige('call-pre[assignment shapes broadcast]', a == b)
                target._write(lambda *i: self._cast(rhs.at(*i[d:]), rhs.kind), None)
            else:
                raise OutOfSubset('assignment of higher-rank value')
        else:
            t = self._cast_scalar(value)
            target._write(lambda *i: t, None)

    def _cast(self, t, kind):
        if self.kind == 'real' and kind == 'int':
            return z3.ToReal(t)
        if self.kind == kind:
            return t
        if self.kind == 'int' and kind == 'real':
            # numpy stores a float into an integer array by truncation toward zero (finite values; A-REAL: inf/nan are not modelled here)
            return z3.If(t >= 0, z3.ToInt(t), -z3.ToInt(-t))
        if self.kind == 'real' and kind == 'bool':
            return z3.If(t, z3.RealVal(1), z3.RealVal(0))
        raise OutOfSubset('store %s into %s array' % (kind, self.kind))

    def _cast_scalar(self, v):
        if isinstance(v, SOpt):
            v = v.get('stored value')
        l = lift(v)
        k = 'real' if isinstance(l, SReal) else 'int' if isinstance(l, SInt) else 'bool' if isinstance(l, SBool) else 'key'
        return self._cast(l.t, k)

    # ---------------------------------------------------------------- elementwise arithmetic
    def _ew(self, o, f, kind_out=None, rev=False):
        return ew2(o, self, f, kind_out) if rev else ew2(self, o, f, kind_out)

    def __add__(self, o): return self._ew(o, lambda a, b: a + b)
    def __radd__(self, o): return self._ew(o, lambda a, b: a + b, rev=True)
    def __sub__(self, o): return self._ew(o, lambda a, b: a - b)
    def __rsub__(self, o): return self._ew(o, lambda a, b: a - b, rev=True)
    def __mul__(self, o): return self._ew(o, _mul)
    def __rmul__(self, o): return self._ew(o, _mul, rev=True)
    def __truediv__(self, o):
        _div_obligation(o)
        return self._ew(o, _rdiv, 'real')

    def __rtruediv__(self, o):
        _div_obligation(self)
        return self._ew(o, _rdiv, 'real', rev=True)
    def __neg__(self): return ew1(self, lambda a: -a)
    def __pow__(self, p):
        if isinstance(p, float) and p.is_integer():      # a ** 2. : numpy computes the same value as a ** 2 (result is float; ints are promoted)
            p = int(p)
            if self.kind == 'int':
                return ew1(self, lambda a: z3.ToReal(a), 'real') ** p
        if isinstance(p, int) and 0 <= p <= 4:
            r = self if p >= 1 else ew1(self, lambda a: a * 0 + 1)
            for _ in range(p - 1):
                r = r * self
            return r
        raise OutOfSubset('array power %r' % (p,))
    def __lt__(self, o): return self._ew(o, lambda a, b: a < b, 'bool')
    def __le__(self, o): return self._ew(o, lambda a, b: a <= b, 'bool')
    def __gt__(self, o): return self._ew(o, lambda a, b: a > b, 'bool')
    def __ge__(self, o): return self._ew(o, lambda a, b: a >= b, 'bool')
    def __eq__(self, o): return self._ew(o, lambda a, b: a == b, 'bool')
    def __ne__(self, o): return self._ew(o, lambda a, b: a != b, 'bool')
    __hash__ = Sym.__hash__

    def __and__(self, o): return self._ew(o, lambda a, b: z3.And(a, b), 'bool')
    def __or__(self, o): return self._ew(o, lambda a, b: z3.Or(a, b), 'bool')
    def __invert__(self): return ew1(self, lambda a: z3.Not(a))

    def __iadd__(self, o):
        r = self + o
        self[slice(None)] = r
        return self

    def __isub__(self, o):
        r = self - o
        self[slice(None)] = r
        return self

    def __imul__(self, o):
        r = self * o
        self[slice(None)] = r
        return self

    def __itruediv__(self, o):
        r = self / o
        self[slice(None)] = r
        return self

    def __bool__(self):
        if self.ndim == 0:
            return bool(wrap_scalar(self.at(), self.kind))
        if all(conc(n) == 1 for n in self.shape):
            # numpy: the truth value of an array with exactly ONE element is that element's
            return bool(wrap_scalar(self.at(*[z3.IntVal(0)] * self.ndim), self.kind))
        raise OutOfSubset('truth value of an array')

    def __iter__(self):
        c = conc(self.shape[0]) if self.shape else None
        if c is None:
            raise OutOfSubset('python iteration over a symbolic array (needs a loop contract)')
        return iter([self[i] for i in range(c)])       # concrete first dimension: the rows, as numpy iterates them

    def __len__(self):
        c = conc(self.shape[0]) if self.shape else None
        if c is None:
            raise OutOfSubset('len() through the C slot on a symbolic array (the len builtin is replaced; this was another route)')
        return c

    def __repr__(self):
        return 'SArr(%s,%s)' % (self.kind, [z3.simplify(s) for s in self.shape])

    # numpy-style methods
    def sum(self, axis=None):
        from . import npspec
        return npspec.sum(self, axis=axis)

    def mean(self, axis=None):
        from . import npspec
        return npspec.mean(self, axis=axis)

    def reshape(self, *shape):
        from . import npspec
        if len(shape) == 1 and isinstance(shape[0], (tuple, list)):
            shape = tuple(shape[0])
        return npspec.reshape(self, shape)

    def squeeze(self):
        from . import npspec
        return npspec.squeeze(self)

    def item(self):
        if self.ndim == 0:
            return wrap_scalar(self.at(), self.kind)
        raise OutOfSubset('item() on rank %d' % self.ndim)

    def all(self, axis=None):
        from . import npspec
        return npspec.all(self, axis=axis)

    def any(self, axis=None):
        from . import npspec
        return npspec.any(self, axis=axis)

    def astype(self, dt):
        return self.snapshot()

    def dot(self, o):
        from . import npspec
        return npspec.dot(self, o)

    def diagonal(self):
        from . import npspec
        if self.ndim != 2:
            raise OutOfSubset('diagonal() on rank %d' % self.ndim)
        return npspec.diag(self)

    def ravel(self):
        """numpy.ravel: the elements in row-major order (1-d input: the array itself; otherwise a COPY here - writes through the
        result are not propagated, as with flatten)"""
        if self.ndim == 1:
            return self
        return self.flatten()

    def flatten(self):
        if self.ndim == 1:
            return self.snapshot()
        from . import npspec
        return npspec.reshape(self, (-1,))

    def tobytes(self, order='C'):
        """opaque hashable value standing for the byte string of the array's current contents (dict / set key);
        two such keys are never decided equal or different by the engine (a container proxy answers membership symbolically)"""
        return ArrBytes(self.snapshot())


class ArrBytes:
    """result of SArr.tobytes(): see there"""
    __slots__ = ('arr',)

    def __init__(self, arr):
        self.arr = arr

    def __hash__(self):
        return id(self)

    def __eq__(self, o):
        if o is self:
            return True
        raise OutOfSubset('comparison of array byte strings')


def _div_obligation(d):
    vc = cur()
    if not vc.options.get('div_check', True):
        return
    if isinstance(d, SArr):
        sn = d.snapshot()
        if sn.ndim == 0:
            vc.oblige('call-pre[division by non-zero]', sn.at() != 0)
        elif sn.ndim == 1:
            vc.oblige('call-pre[elementwise division by non-zero]', forall_range(0, sn.shape[0], lambda i: sn.at(i) != 0, 'i'))
        elif sn.ndim == 2:
            vc.oblige('call-pre[elementwise division by non-zero]',
                      forall_range(0, sn.shape[0], lambda i: forall_range(0, sn.shape[1], lambda j: sn.at(i, j) != 0, 'j'), 'i'))
        else:
            raise OutOfSubset('division by rank-%d array' % sn.ndim)
    else:
        if isinstance(d, SOpt):
            d = d.get('divisor')
        vc.oblige('call-pre[division by non-zero]', lift(d).t != 0)


def _mul(a, b):
    if z3.is_bool(a) and z3.is_bool(b):      # numpy: bool * bool is logical and (dtype bool)
        return z3.And(a, b)
    return a * b


def _rdiv(a, b):
    if a.sort() == IntS:
        a = z3.ToReal(a)
    if b.sort() == IntS:
        b = z3.ToReal(b)
    return a / b


def ew1(a, f, kind_out=None):
    src = a.snapshot()
    return SArr(Cell(lambda *i: f(src.at(*i)), src.shape, kind_out or a.kind))


def _scalar_term(o):
    if isinstance(o, SOpt):
        o = o.get('operand')
    l = lift(o)
    if isinstance(l, SBool):
        return l.t, 'bool'
    if isinstance(l, SReal):
        return l.t, 'real'
    if isinstance(l, SInt):
        return l.t, 'int'
    return l.t, 'key'


def _unify(a, ka, b, kb):
    if ka == kb:
        return a, b, ka
    if {ka, kb} == {'real', 'int'}:
        return (z3.ToReal(a) if ka == 'int' else a), (z3.ToReal(b) if kb == 'int' else b), 'real'
    if 'bool' in (ka, kb) and (ka in ('int', 'real') or kb in ('int', 'real')):
        if ka == 'bool':
            a, ka = z3.If(a, 1, 0), 'int'
        if kb == 'bool':
            b, kb = z3.If(b, 1, 0), 'int'
        return _unify(a, ka, b, kb)
    raise OutOfSubset('elementwise op between %s and %s' % (ka, kb))


def ew2(x, y, f, kind_out=None):
    """numpy broadcasting for array (x) array|scalar"""
    vc = cur()
    xa, ya = isinstance(x, SArr), isinstance(y, SArr)
    if xa:
        xs = x.snapshot()
    if ya:
        ys = y.snapshot()
    if xa and not ya:
        try:
            t, k = _scalar_term(y)
        except OutOfSubset:
            return NotImplemented

        def fn(*i):
            a, b, kk = _unify(xs.at(*i), xs.kind, t, k)
            return f(a, b)
        _, _, kk = _unify_kind(xs.kind, k)
        return SArr(Cell(fn, xs.shape, kind_out or kk))
    if ya and not xa:
        try:
            t, k = _scalar_term(x)
        except OutOfSubset:
            return NotImplemented

        def fn(*i):
            a, b, kk = _unify(t, k, ys.at(*i), ys.kind)
            return f(a, b)
        _, _, kk = _unify_kind(k, ys.kind)
        return SArr(Cell(fn, ys.shape, kind_out or kk))
    # array-array with broadcasting on trailing axes
    r = max(xs.ndim, ys.ndim)
    sx = [None] * (r - xs.ndim) + list(xs.shape)
    sy = [None] * (r - ys.ndim) + list(ys.shape)
    shape, bx, by = [], [], []
    for a, b in zip(sx, sy):
        if a is None:
            shape.append(b); bx.append('skip'); by.append('use')
        elif b is None:
            shape.append(a); bx.append('use'); by.append('skip')
        elif conc(a) == 1 and conc(b) != 1:
            shape.append(b); bx.append('zero'); by.append('use')
        elif conc(b) == 1 and conc(a) != 1:
            shape.append(a); bx.append('use'); by.append('zero')
        else:
            vc.oblige('call-pre[operands could be broadcast together]', a == b)
            shape.append(a); bx.append('use'); by.append('use')

    def pick(idx, how):
        out = []
        for i, h in zip(idx, how):
            if h == 'use':
                out.append(i)
            elif h == 'zero':
                out.append(z3.IntVal(0))
        return out

    def fn(*i):
        a, b, kk = _unify(xs.at(*pick(i, bx)), xs.kind, ys.at(*pick(i, by)), ys.kind)
        return f(a, b)
    _, _, kk = _unify_kind(xs.kind, ys.kind)
    return SArr(Cell(fn, shape, kind_out or kk))


def _unify_kind(ka, kb):
    if ka == kb:
        return None, None, ka
    if {ka, kb} <= {'real', 'int', 'bool'}:
        return None, None, 'real' if 'real' in (ka, kb) else 'int'
    raise OutOfSubset('kinds %s/%s' % (ka, kb))


class SPerm(Sym):
    """Result of argsort: a permutation pi of [0,n) with inverse pinv (both total functions)."""
    __slots__ = ('pi', 'pinv', 'n', 'of')

    def __init__(self, pi, pinv, n, of=None):
        self.pi, self.pinv, self.n, self.of = pi, pinv, n, of
        self.t = None

    def as_array(self):
        return SArr(Cell(lambda i: self.pi(i), (self.n,), 'int'))

    def _vc_len(self):
        return SInt(self.n)

    def __getitem__(self, idx):
        return self.as_array()[idx]

    @property
    def shape(self):
        return (self.n,)
