"""Symbolic dict-of-1-D-arrays over an uninterpreted key sort (ELFI's batch / samples dictionaries):
every value is an array of the same symbolic length; storage is ONE Cell indexed (key, row) so that
`d[k]` is a VIEW (writes through `v[...] = ...` in a loop over d.items() hit the dict, as in python).
Iteration (`items()`, `keys()`, `values()`, iter) goes through SetIter (visited-set, order independent)."""
import z3

from .core import cur, OutOfSubset, forall_range, forall_sort
from .values import Sym, SKey, SBool, SInt, lift
from .sarray import SArr, Cell, SORT

Key = z3.DeclareSort('Key')


def key_const(name):
    return z3.Const('key_' + name, Key)


class SDictArr(Sym):
    def __init__(self, name, length, dom=None, kind='real', names=None, elt=None):
        vc = cur()
        self.name = name
        self.length = length
        self.kind = kind
        self.names = dict(names or {})                # python string -> Key constant (literal keys used by the code)
        if dom is None:
            f = vc.fresh_fn(name + '_dom', Key, z3.BoolSort())
            dom = lambda k: f(k)
        self.dom = dom
        if elt is None:
            g = vc.fresh_fn(name, Key, z3.IntSort(), SORT[kind])
            elt = lambda k, i: g(k, i)
        self.cell = Cell(elt, (z3.IntVal(0), length), kind)
        self.t = None

    # ---- helpers for contracts
    def at(self, key, i):
        return self.cell.elt(_k(key, self), i if isinstance(i, z3.ExprRef) else z3.IntVal(i))

    def snapshot(self):
        elt = self.cell.elt
        c = SDictArr.__new__(SDictArr)
        c.name, c.length, c.kind, c.names, c.dom = self.name + "'", self.length, self.kind, self.names, self.dom
        c.cell = Cell(elt, self.cell.shape, self.kind)
        c.t = None
        return c

    def _vc_havoc(self, name='hv'):
        g = cur().fresh_fn(name, Key, z3.IntSort(), SORT[self.kind])
        self.cell.elt = lambda k, i: g(k, i)

    def view(self, key_term):
        return SArr(self.cell, [('fix', key_term), ('rng', z3.IntVal(0))], (self.length,))

    # ---- python protocol
    def __getitem__(self, key):
        k = _k(key, self)
        cur().oblige('call-pre[key in dict %s]' % self.name, self.dom(k), note=str(key))
        return self.view(k)

    def __setitem__(self, key, value):
        raise OutOfSubset('assignment of a new array object into a symbolic dict (use in-place writes)')

    def __contains__(self, key):
        return SBool(self.dom(_k(key, self)))

    def get(self, key, default=None):
        raise OutOfSubset('dict.get on a symbolic dict of arrays')

    def _iter(self, make):
        from .engine import SetIter
        return SetIter(Key, self.dom, make)

    def items(self):
        return _View(self, lambda k: (SKey(k), self.view(k)))

    def keys(self):
        return _View(self, lambda k: SKey(k))

    def values(self):
        return _View(self, lambda k: self.view(k))

    def _vc_iter(self):
        return self._iter(lambda k: SKey(k))

    def __iter__(self):
        raise OutOfSubset('iteration over a symbolic dict needs a loop contract')

    nonempty = None          # contracts set True/False when the code tests the dict's truthiness

    def __bool__(self):
        if self.nonempty is None:
            raise OutOfSubset('truthiness of a symbolic dict (contract must say whether it is empty)')
        return self.nonempty


class _View:
    def __init__(self, d, make):
        self.d, self.make = d, make

    def _vc_iter(self):
        return self.d._iter(self.make)

    def __iter__(self):
        raise OutOfSubset('iteration over a symbolic dict needs a loop contract')


def _k(key, d):
    if isinstance(key, SKey):
        return key.t
    if isinstance(key, z3.ExprRef):
        return key
    if isinstance(key, str):
        if key in d.names:
            return d.names[key]
        raise OutOfSubset('string key %r is not declared for dict %s' % (key, d.name))
    raise OutOfSubset('dict key %r' % (key,))
