"""Discharging obligations: z3 (python API) first, cvc5 CLI for what z3 leaves open.
Verdicts: 'discharged' (unsat), 'refuted' (sat, model attached), 'undecided' (unknown/timeout)."""
import os
import subprocess
import tempfile
import time
import z3

CVC5 = '/usr/bin/cvc5'


class Result:
    __slots__ = ('name', 'kind', 'verdict', 'backend', 'seconds', 'note', 'model', 'reason', 'expect', 'key', 'smt2_head', 'func')

    def __init__(self, **kw):
        for k in self.__slots__:
            setattr(self, k, kw.get(k))

    def as_dict(self):
        return {k: getattr(self, k) for k in self.__slots__ if k not in ('model',)}


def _solver(ob, axioms, timeout_ms, seed=0, extra=()):
    s = z3.Solver()
    s.set('timeout', int(timeout_ms))
    s.set('random_seed', int(seed))
    for a in axioms:
        s.add(a)
    for p in ob.pc:
        s.add(p)
    for e in extra:
        s.add(e)
    s.add(z3.Not(ob.goal))
    return s


def check_z3(ob, axioms, timeout_ms, seed=0, extra=()):
    s = _solver(ob, axioms, timeout_ms, seed, extra)
    t0 = time.time()
    r = s.check()
    dt = time.time() - t0
    return r, dt, s


def check_cvc5(smt2, timeout_ms):
    if not os.path.exists(CVC5):
        return 'unknown', 0.0, 'cvc5 not installed'
    text = '(set-logic ALL)\n' + smt2
    if '(check-sat)' not in text:
        text += '\n(check-sat)\n'
    fd, path = tempfile.mkstemp(suffix='.smt2', prefix='pyvc-', dir=os.environ.get('PYVC_TMP', '/var/tmp'))
    try:
        with os.fdopen(fd, 'w') as f:
            f.write(text)
        t0 = time.time()
        try:
            p = subprocess.run([CVC5, '--lang', 'smt2', '--tlimit=%d' % int(timeout_ms), path], capture_output=True, text=True,
                               timeout=timeout_ms / 1000.0 + 5)
            out = (p.stdout or '').strip().splitlines()
            ans = out[0].strip() if out else 'unknown'
            err = (p.stderr or '')[:200]
        except subprocess.TimeoutExpired:
            ans, err = 'unknown', 'timeout'
        return ans if ans in ('sat', 'unsat') else 'unknown', time.time() - t0, err
    finally:
        try:
            os.unlink(path)
        except OSError:
            pass


def discharge(ob, axioms, budget, use_cvc5=True, seed=0, both=False):
    """-> Result for a normal (expect unsat) obligation in PROOF mode.  A `sat` here is not trusted as a
    refutation when quantifiers are present (it goes to the finitised mode); it is reported as 'sat?'."""
    backend = 'z3-%s' % z3.get_version_string()
    # attempt 0: the quantifier-free slice of the path condition (sound: fewer assumptions).  Nonlinear steps that z3
    # leaves `unknown` next to quantifiers are decided at once by nlsat on the ground slice.
    from .core import _has_quantifier
    ground = [p for p in ob.pc if not _has_quantifier(p)]
    if len(ground) < len(ob.pc) and not _has_quantifier(ob.goal):
        s0 = z3.Solver()
        s0.set('timeout', min(3000, int(budget['z3_ms'])))
        s0.set('random_seed', int(seed))
        for p in ground:
            s0.add(p)
        s0.add(z3.Not(ob.goal))
        t0 = time.time()
        r0 = s0.check()
        if r0 == z3.unsat and not both:
            return Result(name=ob.name, kind=ob.kind, verdict='discharged', backend=backend + '(ground slice)', seconds=round(time.time() - t0, 4),
                          note=ob.note, reason=None, expect=ob.expect, func=ob.func)
    r, dt, s = check_z3(ob, axioms, budget['z3_ms'], seed)
    if r == z3.unknown:
        # quantifier instantiation is seed-sensitive: a proof that takes milliseconds with one seed can time out with
        # another.  Retry with other seeds before leaving the obligation open (verdicts must not depend on VERIF_SEED).
        for k in (1, 2, 3):
            r2, dt2, s2 = check_z3(ob, axioms, max(2000, budget['z3_ms'] // 2), seed + 7919 * k)
            dt += dt2
            if r2 != z3.unknown:
                r, s = r2, s2
                break
    verdict, reason = None, None
    if r == z3.unsat:
        verdict = 'discharged'
    elif r == z3.sat:
        verdict = 'sat?'
    else:
        reason = s.reason_unknown()
    total = dt
    if (verdict != 'discharged' and use_cvc5) or (both and verdict == 'discharged'):
        ans, dt2, err = check_cvc5(s.to_smt2(), budget['cvc5_ms'])
        total += dt2
        if verdict != 'discharged':
            if ans == 'unsat':
                verdict, backend = 'discharged', 'cvc5-1.0.3'
            elif ans == 'sat' and verdict is None:
                verdict = 'sat?'
        elif both and ans == 'sat':
            verdict, reason = 'undecided', 'solver disagreement: z3 unsat, cvc5 sat'
        elif both and ans == 'unsat':
            backend += '+cvc5-1.0.3'
    if verdict is None:
        verdict = 'undecided'
    head = None
    return Result(name=ob.name, kind=ob.kind, verdict=verdict, backend=backend, seconds=round(total, 4), note=ob.note,
                  reason=reason, expect=ob.expect, func=ob.func)


def refute_finite(ob, axioms, bounds, timeout_ms, seed=0):
    """finitised obligation (quantifier-free by construction): sat => counter-model"""
    r, dt, s = check_z3(ob, axioms, timeout_ms, seed, extra=bounds)
    if r == z3.sat:
        return 'sat', dt, s.model()
    if r == z3.unsat:
        return 'unsat', dt, None
    return 'unknown', dt, None


def smt2_head(ob, axioms, n=600):
    s = _solver(ob, axioms, 1000)
    t = s.to_smt2()
    return t[:n]
